#!/bin/sh
# usage: check.sh <property-id> [quick|thorough]
# Decides one property on /repo's current working tree; rewrites evidence/<id>.json.
cd "$(dirname "$0")/.."
. ./scripts/env.sh
id="$1"; tier="${2:-${VERIF_TIER:-quick}}"
if [ ! -x bin/evcheck ] || [ -n "$(find checker -newer bin/evcheck -name '*.go' 2>/dev/null | head -1)" ]; then
  ./scripts/setup.sh || { echo "VIOLATION property=$id replay=/verif/scripts/setup.sh"; exit 1; }
fi
exec ./bin/evcheck -tier "$tier" -repo "${EVCHECK_REPO:-/repo}" -verif "$(pwd)" "$id"
