#!/bin/sh
# usage: check.sh <property-id> [quick|thorough]
# Decides one property on /repo's current working tree; rewrites evidence/<id>.json.
# quick:    the static rules of the property (loops explored for 0 and 1 iteration).
# thorough: the same rules with deeper loop exploration, then a self-test of the
#           check's arming recorded in the evidence: every mutant of the corpus that
#           names this property is applied to a scratch copy of /repo (outside /repo
#           and /verif, removed afterwards) and must be reported; every refactoring
#           control must leave the check silent; every independently seeded change
#           kept under seeded/ for this property must be reported. The self-test never changes the
#           verdict about /repo; it is reported under coverage.self_test.
cd "$(dirname "$0")/.."
. ./scripts/env.sh
id="$1"; tier="${2:-${VERIF_TIER:-quick}}"
if [ ! -x bin/evcheck ] || [ -n "$(find checker -newer bin/evcheck -name '*.go' 2>/dev/null | head -1)" ]; then
  ./scripts/setup.sh || { echo "VIOLATION property=$id replay=/verif/scripts/setup.sh"; exit 1; }
fi
./bin/evcheck -tier "$tier" -repo "${EVCHECK_REPO:-/repo}" -verif "$(pwd)" "$id"
rc=$?
if [ "$tier" = "thorough" ] && [ -f "evidence/$id.json" ] && [ -f mutants/patches/index.json ]; then
  python3 scripts/run_mutants.py -j 8 --self-test "$id" > ".work/selftest-$id.txt" 2>&1
  [ -d seeded ] && python3 scripts/seed_recheck.py --self-test "$id" >> ".work/selftest-$id.txt" 2>&1
  python3 - "$id" <<'PY'
import json, sys, os, re
pid = sys.argv[1]
ev = json.load(open("evidence/%s.json" % pid))
lines = open(".work/selftest-%s.txt" % pid).read().splitlines()
st = {"mutants_caught": [], "mutants_missed": [], "mutants_skipped": [], "refactors_silent": [], "refactors_flagged": [], "seeds_caught": [], "seeds_missed": [], "seeds_skipped": []}
for l in lines:
    parts = l.split()
    if len(parts) < 2: continue
    tag, name = parts[0], parts[1]
    key = {"CAUGHT": "mutants_caught", "MISSED": "mutants_missed", "SKIP": "mutants_skipped", "SILENT": "refactors_silent", "FALSE-ALARM": "refactors_flagged", "SEED-CAUGHT": "seeds_caught", "SEED-MISSED": "seeds_missed", "SEED-SKIP": "seeds_skipped"}.get(tag)
    if key: st[key].append(name)
st["note"] = "arming self-test on scratch copies of /repo; does not affect the verdict on /repo"
ev["coverage"]["self_test"] = st
json.dump(ev, open("evidence/%s.json" % pid, "w"), indent=1)
print("self-test: %d mutants caught, %d missed, %d skipped; %d refactorings silent, %d flagged; %d independently seeded changes caught, %d missed, %d no longer applicable" % (len(st["mutants_caught"]), len(st["mutants_missed"]), len(st["mutants_skipped"]), len(st["refactors_silent"]), len(st["refactors_flagged"]), len(st["seeds_caught"]), len(st["seeds_missed"]), len(st["seeds_skipped"])))
PY
fi
exit $rc
