"""evrun.run_props(repo, props, out): decides the listed properties of the tree at
`repo` in ONE evcheck process (-props: one load of the program for all of them) and
returns {prop: (exit_code, stdout_of_that_property)}. Validation aid for the mutant /
seed scripts; the registered checks (scripts/check.sh) run one property per process."""
import os, subprocess
ROOT = os.path.dirname(os.path.dirname(os.path.abspath(__file__)))
ENV = dict(os.environ, GOFLAGS="-mod=mod", GOPROXY="off", GOSUMDB="off", GOTOOLCHAIN="local", GOWORK="off")

def run_props(repo, props, out, work=None):
    props = list(props)
    binp = os.environ.get("EVCHECK_BIN", os.path.join(ROOT, "bin", "evcheck"))
    cmd = [binp, "-repo", repo, "-verif", ROOT, "-out", out]
    if work:
        cmd += ["-work", work]
    cmd += ["-props", ",".join(props)]
    pr = subprocess.run(cmd, env=ENV, capture_output=True, text=True)
    res, cur = {}, []
    for l in pr.stdout.splitlines():
        if l.startswith("EXIT "):
            _, pid, code = l.split()
            res[pid] = (int(code), "\n".join(cur))
            cur = []
        else:
            cur.append(l)
    for pid in props:
        if pid not in res:  # the process died before deciding it
            res[pid] = (2, "no result: " + (pr.stdout[-300:] + pr.stderr[-300:]))
    return res
