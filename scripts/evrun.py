"""evrun.run_props(repo, props, out): decides the listed properties of the tree at
`repo` in ONE evcheck process (-props: one load of the program for all of them) and
returns {prop: (exit_code, stdout_of_that_property)}. Validation aid for the mutant /
seed scripts; the registered checks (scripts/check.sh) run one property per process."""
import os, subprocess
ROOT = os.path.dirname(os.path.dirname(os.path.abspath(__file__)))
ENV = dict(os.environ, GOFLAGS="-mod=mod", GOPROXY="off", GOSUMDB="off", GOTOOLCHAIN="local", GOWORK="off")

def run_props(repo, props, out, work=None):
    props = list(props)
    binp = os.environ.get("EVCHECK_BIN", os.path.join(ROOT, "bin", "evcheck"))
    cmd = [binp, "-repo", repo, "-verif", ROOT, "-out", out]
    if work:
        cmd += ["-work", work]
    cmd += ["-props", ",".join(props)]
    pr = subprocess.run(cmd, env=ENV, capture_output=True, text=True)
    res, cur = {}, []
    for l in pr.stdout.splitlines():
        if l.startswith("EXIT "):
            _, pid, code = l.split()
            res[pid] = (int(code), "\n".join(cur))
            cur = []
        else:
            cur.append(l)
    for pid in props:
        if pid not in res:  # the process died before deciding it
            res[pid] = (2, "no result: " + (pr.stdout[-300:] + pr.stderr[-300:]))
    return res


def baseline_failures(props):
    """Properties whose check already fails on the UNCHANGED /repo with the binary in use
    (a development binary ahead of /repo, e.g. a rule for a finding that is not repaired
    yet). A variant must not be counted as caught by such a check: its exit code says
    nothing about the variant. Cached per (binary mtime, /repo HEAD)."""
    import json, tempfile, shutil, hashlib
    binp = os.environ.get("EVCHECK_BIN", os.path.join(ROOT, "bin", "evcheck"))
    head = subprocess.run("git -C /repo rev-parse HEAD", shell=True, capture_output=True, text=True).stdout.strip()
    key = hashlib.sha1(("%s|%s|%s" % (binp, os.path.getmtime(binp), head)).encode()).hexdigest()[:16]
    cache = os.path.join(ROOT, ".work", "baseline-%s.json" % key)
    if os.path.exists(cache):
        failing = json.load(open(cache))
    else:
        d = tempfile.mkdtemp(prefix="evbase.")
        out = tempfile.mkdtemp(prefix="evbaseout.")
        try:
            subprocess.check_call("git -C /repo ls-files -z | (cd /repo && xargs -0 cp --parents -t %s)" % d, shell=True)
            allp = ["C%02d" % i for i in range(1, 21)]
            res = run_props(d, allp, out, work=os.path.join(out, "work"))
            failing = sorted(pid for pid, (rc, _) in res.items() if rc != 0)
        finally:
            shutil.rmtree(d, ignore_errors=True); shutil.rmtree(out, ignore_errors=True)
        os.makedirs(os.path.dirname(cache), exist_ok=True)
        json.dump(failing, open(cache, "w"))
    return [pid for pid in props if pid in failing]
