#!/bin/sh
# builds the checker from /verif/checker with the module cache only
set -e
cd "$(dirname "$0")/.."
. ./scripts/env.sh
mkdir -p bin evidence
cd checker && go build -o ../bin/evcheck ./cmd/evcheck
