#!/usr/bin/env python3
"""seed_intake.py <worktree> <seed-id> <property-id>
Confirms a seeded change produced in a scratch worktree and files it under
/verif/seeded/<seed-id>/ (patch.diff, demo files, meta.json):
  1. extracts the source change (tracked non-test files) and the demo (untracked/_test files)
  2. on a fresh scratch copy of /repo HEAD: applies the patch, builds both modules,
     runs the existing suite (must pass), runs the demo (must fail)
  3. on another fresh copy without the patch: runs the demo (must pass)
  4. runs the named property's check (and optionally all) against the patched copy
Scratch copies live under /tmp and are removed."""
import json, os, subprocess, sys, tempfile, shutil, re
ROOT = os.path.dirname(os.path.dirname(os.path.abspath(__file__)))
sys.path.insert(0, os.path.join(ROOT, "scripts"))
import evrun
ENV = dict(os.environ, GOFLAGS="-mod=mod", GOPROXY="off", GOSUMDB="off", GOTOOLCHAIN="local", GOWORK="off")
wt, sid, prop = sys.argv[1], sys.argv[2], sys.argv[3]
allprops = "--all" in sys.argv
def sh(cmd, cwd=None, timeout=900):
    p = subprocess.run(cmd, shell=True, cwd=cwd, env=ENV, capture_output=True, text=True, timeout=timeout)
    return p.returncode, p.stdout + p.stderr
out = os.path.join(ROOT, "seeded", sid)
os.makedirs(out, exist_ok=True)
# 1. extract (a new non-test source file is part of the change: mark it intent-to-add so the diff shows it)
rc, fresh_src = sh("git ls-files --others --exclude-standard", cwd=wt)
for f in fresh_src.split():
    if f.endswith(".go") and not f.endswith("_test.go"):
        sh("git add -N -- '%s'" % f, cwd=wt)
rc, diff = sh("git diff HEAD -- . ':(exclude)*_test.go' ':(exclude)SEED.md'", cwd=wt)
if not diff.strip():
    print("no source change in", wt); sys.exit(2)
open(os.path.join(out, "patch.diff"), "w").write(diff)
rc, untracked = sh("git ls-files --others --exclude-standard", cwd=wt)
rc, modtests = sh("git diff HEAD --name-only -- '*_test.go'", cwd=wt)
demos = [f for f in untracked.split() if f.endswith("_test.go") or f.endswith(".go") or os.path.basename(f) in ("go.mod", "go.sum")]
if modtests.strip():
    print("WARNING: existing test files were modified:", modtests)
demo_dir = os.path.join(out, "demo"); os.makedirs(demo_dir, exist_ok=True)
for f in demos:
    os.makedirs(os.path.dirname(os.path.join(demo_dir, f)) or demo_dir, exist_ok=True)
    shutil.copy(os.path.join(wt, f), os.path.join(demo_dir, f))
if os.path.exists(os.path.join(wt, "SEED.md")):
    shutil.copy(os.path.join(wt, "SEED.md"), os.path.join(out, "SEED.md"))
def fresh():
    d = tempfile.mkdtemp(prefix="evseed.")
    subprocess.check_call("git -C /repo ls-files -z | (cd /repo && xargs -0 cp --parents -t %s)" % d, shell=True)
    return d
def demo_cmds(d):
    cmds = []
    for f in demos:
        if not f.endswith("_test.go"): continue
        pkgdir = os.path.dirname(f) or "."
        mod = "filters/encrypt" if f.startswith("filters/encrypt") else "."
        if os.path.join(pkgdir, "go.mod") in demos:
            mod = pkgdir  # the demonstration is a nested module of its own (it needs both repo modules)
        rel = os.path.relpath(pkgdir, mod)
        names = re.findall(r"^func (Test\w+)\(", open(os.path.join(wt, f)).read(), re.M)
        race = "-race " if "race" in open(os.path.join(wt, f)).read().lower() or os.path.exists(os.path.join(wt,"SEED.md")) and "-race" in open(os.path.join(wt,"SEED.md")).read() else ""
        cmds.append((mod, "go test -vet=off -count=1 %s-run '^(%s)$' ./%s" % (race, "|".join(names), rel)))
    return cmds
meta = {"seed": sid, "property": prop, "worktree": wt, "demo_files": demos}
# 2. with the patch
d = fresh()
try:
    rc, o = sh("patch -p1 -s < %s" % os.path.join(out, "patch.diff"), cwd=d)
    meta["applies"] = rc == 0
    rc, o = sh("go build ./... && cd filters/encrypt && go build ./...", cwd=d)
    meta["builds"] = rc == 0
    rc, o = sh("go test -vet=off -count=1 ./... 2>&1 | tail -15 && cd filters/encrypt && go test -vet=off -count=1 ./... 2>&1 | tail -5", cwd=d)
    meta["suite_passes_with_change"] = ("FAIL" not in o)
    meta["suite_tail"] = o[-600:]
    for f in demos:
        os.makedirs(os.path.dirname(os.path.join(d, f)) or d, exist_ok=True)
        shutil.copy(os.path.join(wt, f), os.path.join(d, f))
    res = []
    for mod, cmd in demo_cmds(d):
        rc, o = sh(cmd, cwd=os.path.join(d, mod))
        res.append({"cmd": cmd, "rc": rc, "tail": o[-500:]})
    meta["demo_with_change"] = res
    meta["demo_fails_with_change"] = bool(res) and any(r["rc"] != 0 for r in res)
    # remove demo files before running the checks (they are _test files anyway)
    props = [prop]
    if allprops:
        props = sorted(json.load(open(os.path.join(ROOT, "scripts", "manifest_src.json")))["checks"].keys())
    det = {}
    outdir = tempfile.mkdtemp(prefix="evseedout.")
    results = evrun.run_props(d, props, outdir, work=os.path.join(outdir, "work"))
    noisy = evrun.baseline_failures(props)
    if noisy:
        print("WARNING: these checks already fail on the unchanged /repo with this binary and are not counted:", noisy)
    meta["baseline_failing"] = noisy
    for pid in props:
        rc, text = results[pid]
        lines = [l.strip() for l in text.splitlines() if l.startswith("  C") or l.startswith("UNDECIDED")]
        det[pid] = {"exit": rc, "reports": [l[:400] for l in lines[:6]]}
    shutil.rmtree(outdir, ignore_errors=True)
    meta["checks"] = det
finally:
    shutil.rmtree(d, ignore_errors=True)
# 3. without the patch
d = fresh()
try:
    for f in demos:
        os.makedirs(os.path.dirname(os.path.join(d, f)) or d, exist_ok=True)
        shutil.copy(os.path.join(wt, f), os.path.join(d, f))
    res = []
    for mod, cmd in demo_cmds(d):
        rc, o = sh(cmd, cwd=os.path.join(d, mod))
        res.append({"cmd": cmd, "rc": rc, "tail": o[-300:]})
    meta["demo_without_change"] = res
    meta["demo_passes_without_change"] = bool(res) and all(r["rc"] == 0 for r in res)
finally:
    shutil.rmtree(d, ignore_errors=True)
meta["confirmed"] = bool(meta.get("applies") and meta.get("builds") and meta.get("suite_passes_with_change") and meta.get("demo_fails_with_change") and meta.get("demo_passes_without_change"))
meta["detected_by"] = [k for k, v in meta.get("checks", {}).items() if v["exit"] != 0 and k not in meta.get("baseline_failing", [])]
json.dump(meta, open(os.path.join(out, "meta.json"), "w"), indent=1)
print(json.dumps({k: meta[k] for k in ["seed", "property", "applies", "builds", "suite_passes_with_change", "demo_fails_with_change", "demo_passes_without_change", "confirmed", "detected_by"]}, indent=1))
for k, v in meta.get("checks", {}).items():
    if v["exit"] != 0:
        print(k, "->", v["reports"][:2])
