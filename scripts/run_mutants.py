#!/usr/bin/env python3
"""Runs the mutant corpus (mutants/patches: every patch must be detected by the
checks it names) and the refactoring corpus (mutants/refactors: every check must
stay silent). Each patch is applied to a scratch copy under /tmp which is removed
afterwards; at most N copies live at a time.
usage: run_mutants.py [-j N] [--only substr] [--props C01,C02] [--all-props]"""
import json, os, subprocess, sys, tempfile, shutil, concurrent.futures as cf
sys.path.insert(0, os.path.dirname(os.path.abspath(__file__)))
import evrun
ROOT = os.path.dirname(os.path.dirname(os.path.abspath(__file__)))
ENV = dict(os.environ, GOFLAGS="-mod=mod", GOPROXY="off", GOSUMDB="off", GOTOOLCHAIN="local", GOWORK="off")
args = sys.argv[1:]
J = 6; only = None; props_override = None; selftest = None
i = 0
while i < len(args):
    if args[i] == "-j": J = int(args[i+1]); i += 2
    elif args[i] == "--only": only = args[i+1]; i += 2
    elif args[i] == "--props": props_override = args[i+1].split(","); i += 2
    elif args[i] == "--self-test": selftest = args[i+1]; props_override = [selftest]; i += 2
    else: i += 1
ALL = sorted(set(json.load(open(os.path.join(ROOT, "scripts", "manifest_src.json")))["checks"].keys()))

def run_one(kind, entry):
    d = os.path.join(ROOT, "mutants", "patches" if kind == "mutant" else "refactors")
    patch = os.path.join(d, entry["name"] + ".patch")
    tmp = tempfile.mkdtemp(prefix="evmut.")
    res = {"name": entry["name"], "kind": kind, "detected_by": [], "missed_by": [], "status": "ok"}
    try:
        repo = os.path.join(tmp, "repo"); out = os.path.join(tmp, "out")
        os.makedirs(repo); os.makedirs(out)
        subprocess.check_call("git -C /repo ls-files -z | (cd /repo && xargs -0 cp --parents -t %s)" % repo, shell=True)
        if subprocess.call("cd %s && patch -p1 -s < %s" % (repo, patch), shell=True, stdout=subprocess.DEVNULL, stderr=subprocess.DEVNULL) != 0:
            res["status"] = "skipped: patch does not apply"; return res
        b = subprocess.run("cd %s && go build ./... && cd filters/encrypt && go build ./..." % repo, shell=True, env=ENV, capture_output=True, text=True)
        if b.returncode != 0:
            res["status"] = "skipped: does not build: " + b.stderr[:300]; return res
        if kind == "mutant":
            props = props_override or entry.get("breaks") or ALL
        else:
            props = props_override or ALL
        results = evrun.run_props(repo, props, out, work=os.path.join(tmp, "work"))
        for pid in props:
            rc, text = results[pid]
            pr = type("R", (), {"returncode": rc, "stdout": text})
            hit = [l for l in pr.stdout.splitlines() if l.startswith("VIOLATION") or l.startswith("UNDECIDED")]
            detail = [l.strip() for l in pr.stdout.splitlines() if l.startswith("  C") or l.startswith("UNDECIDED")]
            if pr.returncode != 0 and hit:
                res["detected_by"].append({"prop": pid, "first": (detail[0] if detail else hit[0])[:300]})
            elif pr.returncode != 0:
                res["detected_by"].append({"prop": pid, "first": "exit %d without VIOLATION line: %s" % (pr.returncode, pr.stdout[-300:])})
            else:
                res["missed_by"].append(pid)
    finally:
        shutil.rmtree(tmp, ignore_errors=True)
    return res

# a validation against a tree on which a check already fails says nothing: every variant would count as caught
if not selftest:
    _noisy = evrun.baseline_failures(["C%02d" % i for i in range(1, 21)])
    if _noisy:
        print("ABORT: these checks fail on the unchanged /repo with this binary:", _noisy)
        sys.exit(3)
jobs = []
for kind, sub in (("mutant", "patches"), ("refactor", "refactors")):
    idx = os.path.join(ROOT, "mutants", sub, "index.json")
    if not os.path.exists(idx): continue
    for e in json.load(open(idx)):
        if only and only not in e["name"]: continue
        if selftest and kind == "mutant" and selftest not in e.get("breaks", []): continue
        jobs.append((kind, e))
bad = 0
with cf.ThreadPoolExecutor(max_workers=J) as ex:
    for r in ex.map(lambda ke: run_one(*ke), jobs):
        if r["kind"] == "mutant":
            if r["status"] != "ok":
                print("SKIP    %-45s %s" % (r["name"], r["status"]))
            elif r["missed_by"]:
                bad += 1
                print("MISSED  %-45s missed by %s; detected by %s" % (r["name"], ",".join(r["missed_by"]), ",".join(d["prop"] for d in r["detected_by"])))
            else:
                print("CAUGHT  %-45s %s" % (r["name"], "; ".join("%s: %s" % (d["prop"], d["first"][:140]) for d in r["detected_by"])))
        else:
            if r["status"] != "ok":
                print("SKIP    %-45s %s" % (r["name"], r["status"]))
            elif r["detected_by"]:
                bad += 1
                print("FALSE-ALARM %-41s %s" % (r["name"], "; ".join("%s: %s" % (d["prop"], d["first"][:200]) for d in r["detected_by"])))
            else:
                print("SILENT  %-45s (%d checks)" % (r["name"], len(r["missed_by"])))
sys.exit(1 if bad else 0)
