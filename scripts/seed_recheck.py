#!/usr/bin/env python3
"""seed_recheck.py [seed-id ...]: re-runs the checks against every kept seeded
change (seeded/<id>/patch.diff applied to a scratch copy of /repo) and updates
meta.json's checks/detected_by. Scratch copies are removed."""
import json, os, subprocess, sys, tempfile, shutil, concurrent.futures as cf
ROOT = os.path.dirname(os.path.dirname(os.path.abspath(__file__)))
sys.path.insert(0, os.path.join(ROOT, "scripts"))
import evrun
ENV = dict(os.environ, GOFLAGS="-mod=mod", GOPROXY="off", GOSUMDB="off", GOTOOLCHAIN="local", GOWORK="off")
SELF = None
argv = sys.argv[1:]
if len(argv) >= 2 and argv[0] == "--self-test":
    # thorough-tier self-test of one property: only that property's seeds, only its own check,
    # nothing is written back
    SELF = argv[1]; argv = []
ids = argv or sorted(os.listdir(os.path.join(ROOT, "seeded")))
ALL = sorted(json.load(open(os.path.join(ROOT, "scripts", "manifest_src.json")))["checks"].keys())
if SELF:
    ids = [i for i in ids if i.startswith(SELF + "-")]
    ALL = [SELF]
def one(sid):
    d = os.path.join(ROOT, "seeded", sid)
    mp = os.path.join(d, "meta.json")
    if not os.path.exists(mp): return sid, None
    meta = json.load(open(mp))
    tmp = tempfile.mkdtemp(prefix="evseed.")
    try:
        subprocess.check_call("git -C /repo ls-files -z | (cd /repo && xargs -0 cp --parents -t %s)" % tmp, shell=True)
        if subprocess.call("patch -p1 -s < %s" % os.path.join(d, "patch.diff"), shell=True, cwd=tmp, stdout=subprocess.DEVNULL, stderr=subprocess.DEVNULL) != 0:
            meta["applies_to_current_head"] = False
            if not SELF:
                json.dump(meta, open(mp, "w"), indent=1)
            return sid, "patch no longer applies"
        meta["applies_to_current_head"] = True
        out = tempfile.mkdtemp(prefix="evseedout.")
        det = {}
        results = evrun.run_props(tmp, ALL, out, work=os.path.join(out, "work"))
        for pid in ALL:
            rc, text = results[pid]
            lines = [l.strip() for l in text.splitlines() if l.startswith("  C") or l.startswith("UNDECIDED")]
            det[pid] = {"exit": rc, "reports": [l[:400] for l in lines[:6]]}
        shutil.rmtree(out, ignore_errors=True)
        if SELF:
            return sid, [k for k, v in det.items() if v["exit"] != 0]
        meta["checks"] = det
        meta["detected_by"] = [k for k, v in det.items() if v["exit"] != 0]
        json.dump(meta, open(mp, "w"), indent=1)
        return sid, meta["detected_by"]
    finally:
        shutil.rmtree(tmp, ignore_errors=True)
# a validation against a tree on which a check already fails says nothing: every variant would count as caught
if not SELF:
    _noisy = evrun.baseline_failures(["C%02d" % i for i in range(1, 21)])
    if _noisy:
        print("ABORT: these checks fail on the unchanged /repo with this binary:", _noisy)
        sys.exit(3)
with cf.ThreadPoolExecutor(max_workers=4) as ex:
    for sid, det in ex.map(one, ids):
        meta = json.load(open(os.path.join(ROOT, "seeded", sid, "meta.json"))) if det is not None else {}
        own = meta.get("property")
        if SELF:
            tag = "SEED-SKIP" if isinstance(det, str) else ("SEED-CAUGHT" if det and own in det else "SEED-MISSED")
            print("%s %s %s" % (tag, sid, det if isinstance(det, str) else ""))
            continue
        print("%-8s property=%s own-check=%s detected_by=%s" % (sid, own, "CAUGHT" if det and own in det else "MISSED", det))
