#!/usr/bin/env python3
"""seed_tasks.py <round-letter>: create scratch worktrees /tmp/seed-<prop>-<round> of /repo HEAD and
task files /tmp/seedtask-<prop>-<round>.txt for fresh sub-agents. A task file contains only the text
of the property, the worktree path, the ground rules, and one line per idea earlier rounds already
used for that property (taken from DESIGN.md section 11) so that the agent picks something else.
Nothing from /verif's machinery is disclosed."""
import json, re, subprocess, os, sys
rnd = sys.argv[1]
props = {json.loads(l)['id']: json.loads(l) for l in open('/verif/properties.jsonl')}
used = {}
for l in open('/verif/DESIGN.md'):
    m = re.match(r'\| (C\d\d)-[a-z] \| ([^|]*) \|', l)
    if m:
        used.setdefault(m.group(1), []).append(m.group(2).strip())
TEMPLATE = open('/verif/scripts/seed_task_template.txt').read()
for pid, p in sorted(props.items()):
    wt = '/tmp/seed-%s-%s' % (pid, rnd)
    if os.path.exists(wt):
        subprocess.run(['git', '-C', '/repo', 'worktree', 'remove', '--force', wt])
    subprocess.run(['git', '-C', '/repo', 'worktree', 'add', '--detach', wt, 'HEAD'], check=True, capture_output=True)
    ideas = '; '.join('(%d) %s' % (n + 1, u) for n, u in enumerate(used.get(pid, [])))
    out = TEMPLATE.replace('@WT@', wt).replace('@PROP@', p['title'] + '. ' + p['statement']).replace('@IDEAS@', ideas)
    open('/tmp/seedtask-%s-%s.txt' % (pid, rnd), 'w').write(out)
print('created', len(props), 'worktrees and task files for round', rnd)
