# common environment for every command under /verif (offline, module cache only)
unset GOWORK
export GOFLAGS=-mod=mod GOPROXY=off GOSUMDB=off GOTOOLCHAIN=local GOWORK=off
export VERIF_DIR="${VERIF_DIR:-/verif}"
