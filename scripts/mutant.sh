#!/bin/sh
# usage: mutant.sh [-R] <patch-file> <property-id>... 
# Applies a patch to a scratch copy of /repo (outside /repo and /verif), checks
# that it still builds, runs the named checks against the copy, removes the copy.
# Exit 0 iff at least one of the checks reports a VIOLATION (mutant detected).
cd "$(dirname "$0")/.."
. ./scripts/env.sh
rev=""
if [ "$1" = "-R" ]; then rev="-R"; shift; fi
patch="$(readlink -f "$1")"; shift
tmp="$(mktemp -d /tmp/evmut.XXXXXX)"
trap 'rm -rf "$tmp"' EXIT
mkdir -p "$tmp/repo" "$tmp/out"
(cd /repo && git ls-files -z | xargs -0 cp --parents -t "$tmp/repo")
if ! (cd "$tmp/repo" && patch -p1 $rev -s < "$patch"); then echo "SKIP: patch does not apply"; exit 3; fi
if ! (cd "$tmp/repo" && go build ./... 2>"$tmp/build.log" && cd filters/encrypt && go build ./... 2>>"$tmp/build.log"); then echo "SKIP: mutant does not build"; cat "$tmp/build.log"; exit 3; fi
det=1
for id in "$@"; do
  ./bin/evcheck -repo "$tmp/repo" -verif "$(pwd)" -out "$tmp/out" "$id" > "$tmp/out/$id.log" 2>&1
  if grep -q "^VIOLATION property=$id" "$tmp/out/$id.log"; then
    det=0; echo "DETECTED by $id:"; grep -B1 "^VIOLATION" "$tmp/out/$id.log" | grep -v "^VIOLATION\|^--" | sed 's/^/   /' | cut -c1-400
  elif grep -q "^UNDECIDED" "$tmp/out/$id.log"; then
    det=0; echo "UNDECIDED (fails) by $id:"; grep "^UNDECIDED" "$tmp/out/$id.log" | sed 's/^/   /' | cut -c1-400
  else
    echo "missed by $id"
  fi
done
exit $det
