#!/usr/bin/env python3
"""Regenerates MANIFEST.json from scripts/manifest_src.json (claims per property)
and properties.jsonl (every property not claimed is listed under not_applicable)."""
import json, os, sys
root = os.path.dirname(os.path.dirname(os.path.abspath(__file__)))
src = json.load(open(os.path.join(root, "scripts", "manifest_src.json")))
props = [json.loads(l)["id"] for l in open(os.path.join(root, "properties.jsonl")) if l.strip()]
checks, na = [], []
for pid in props:
    c = src["checks"].get(pid)
    if c is None:
        na.append({"property_id": pid, "reason": src["not_applicable"].get(pid, "no static rule built yet for this property (see DESIGN.md §4); not claimed")})
        continue
    checks.append({
        "property_id": pid,
        "quick_cmd": "./scripts/check.sh %s quick" % pid,
        "thorough_cmd": "./scripts/check.sh %s thorough" % pid,
        "evidence_file": "/verif/evidence/%s.json" % pid,
        "replay_cmd_template": "cat {path}; ./scripts/check.sh %s quick" % pid,
        "engine": "evcheck",
        "level_claimed": {"category": "other", "text": c["text"], "design_ref": c.get("design_ref", "DESIGN.md §4 " + pid)},
        "level_note": c["note"],
        "technique": c["technique"],
    })
m = {
    "version": 1,
    "setup_cmd": "./scripts/setup.sh",
    "hooks": {
        "guard": "verif",
        "enable": "none needed: the checks are static and read /repo's working tree as it is; no hook code exists in /repo",
        "baseline_off_cmd": "cd /repo && GOFLAGS=-mod=mod GOPROXY=off GOSUMDB=off go test -vet=off -count=1 -timeout 25m ./... && cd filters/encrypt && GOFLAGS=-mod=mod GOPROXY=off GOSUMDB=off go test -vet=off -count=1 -timeout 25m ./...",
        "source_commits": [],
        "add_only": True,
    },
    "engines": [{
        "name": "evcheck",
        "path": "/verif/checker",
        "serves_properties": [c["property_id"] for c in checks],
        "kind_free_text": "repository-specific static analyser (Go, golang.org/x/tools v0.29.0: go/packages, go/ssa, CHA call graph): lock-set dataflow, lock-order graph, CFG path enumeration with infeasible-path pruning, value-origin terms, decision tables over branch atoms, error-flow rules; loads /repo's working tree (both modules as one program) on every run",
    }],
    "checks": checks,
    "notes": src.get("notes", ""),
    "not_applicable": na,
}
json.dump(m, open(os.path.join(root, "MANIFEST.json"), "w"), indent=1)
print("MANIFEST.json: %d checks, %d not_applicable" % (len(checks), len(na)))
