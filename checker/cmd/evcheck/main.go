// evcheck decides the go-eventlogger properties by static analysis of the
// repository's current working tree.
package main

import (
	"flag"
	"fmt"
	"os"
	"path/filepath"
	"runtime/debug"
	"strconv"
	"strings"

	"evcheck/check"
)

func main() {
	repo := flag.String("repo", envOr("EVCHECK_REPO", "/repo"), "repository working tree to analyse")
	verif := flag.String("verif", envOr("EVCHECK_VERIF", "/verif"), "verification directory (evidence, known findings, controls)")
	tier := flag.String("tier", envOr("VERIF_TIER", "quick"), "quick|thorough")
	work := flag.String("work", "", "scratch directory for the harness module (default <verif>/.work/<prop>-<tier>)")
	out := flag.String("out", "", "directory receiving evidence/ (default: the verification directory)")
	noctl := flag.Bool("no-controls", false, "do not load the control packages")
	props := flag.String("props", "", "comma-separated list of properties decided in ONE process over one loaded program (validation aid: prints 'EXIT <id> <code>' per property; the registered checks run one property per process)")
	flag.Parse()
	if *props != "" {
		os.Exit(runMany(strings.Split(*props, ","), *repo, *verif, *tier, *work, *out, *noctl))
	}
	if flag.NArg() < 1 {
		fmt.Fprintln(os.Stderr, "usage: evcheck [flags] <property-id>")
		os.Exit(2)
	}
	prop := flag.Arg(0)
	if prop == "paths" {
		// debugging aid: evcheck paths <pkg> <recv|-> <name>
		p, err := check.Load(*repo, filepath.Join(os.TempDir(), "evcheck-paths"), "")
		if err != nil {
			fmt.Println(err)
			os.Exit(2)
		}
		check.DumpPaths(p, flag.Arg(1), flag.Arg(2), flag.Arg(3))
		os.Exit(0)
	}
	if *out == "" {
		*out = *verif
	}
	seed, _ := strconv.Atoi(os.Getenv("VERIF_SEED"))
	if *tier != "quick" && *tier != "thorough" {
		*tier = "quick"
	}
	r := check.NewReport(prop, *tier, seed)
	r.Assumptions = check.CommonAssumptions
	known, err := check.LoadKnown(filepath.Join(*verif, "known_findings.json"))
	if err != nil {
		fmt.Println("cannot read known_findings.json:", err)
		r.Und(prop+".setup", "known-findings", "", err.Error())
		os.Exit(r.Finish(*out, &check.KnownFile{}))
	}
	run, ok := check.Runners[prop]
	if !ok {
		fmt.Fprintf(os.Stderr, "unknown property %s (have %v)\n", prop, check.PropertyIDs())
		os.Exit(2)
	}
	wd := *work
	if wd == "" {
		wd = filepath.Join(*out, ".work", prop+"-"+*tier)
	}
	ctl := filepath.Join(*verif, "checker", "testdata", "controls")
	if *noctl {
		ctl = ""
	}
	code := func() (code int) {
		defer func() {
			if e := recover(); e != nil {
				fmt.Printf("checker panic: %v\n%s\n", e, debug.Stack())
				r.Und(prop+".internal", "panic", "", fmt.Sprint(e))
				code = r.Finish(*out, known)
			}
		}()
		p, err := check.Load(*repo, wd, ctl)
		if err != nil {
			fmt.Println("load failed:", err)
			r.Und(prop+".load", "program", "", err.Error())
			return r.Finish(*out, known)
		}
		r.Packages = p.NPkgs
		c := &check.Ctx{P: p, R: r, Tier: *tier}
		run(c)
		return r.Finish(*out, known)
	}()
	_ = os.RemoveAll(wd)
	os.Exit(code)
}

func envOr(k, d string) string {
	if v := os.Getenv(k); v != "" {
		return v
	}
	return d
}

// runMany decides several properties over one loaded program (the loading and SSA
// construction dominate the cost of a run). Each property gets its own report and
// rule context; the exit status is 1 if any of them failed.
func runMany(ids []string, repo, verif, tier, work, out string, noctl bool) int {
	if out == "" {
		out = verif
	}
	if tier != "quick" && tier != "thorough" {
		tier = "quick"
	}
	seed, _ := strconv.Atoi(os.Getenv("VERIF_SEED"))
	known, err := check.LoadKnown(filepath.Join(verif, "known_findings.json"))
	if err != nil {
		fmt.Println("cannot read known_findings.json:", err)
		return 2
	}
	wd := work
	if wd == "" {
		wd = filepath.Join(out, ".work", "many-"+tier+"-"+strconv.Itoa(os.Getpid()))
	}
	defer os.RemoveAll(wd)
	ctl := filepath.Join(verif, "checker", "testdata", "controls")
	if noctl {
		ctl = ""
	}
	p, err := check.Load(repo, wd, ctl)
	worst := 0
	for _, id := range ids {
		run, ok := check.Runners[id]
		if !ok {
			fmt.Fprintf(os.Stderr, "unknown property %s\n", id)
			return 2
		}
		r := check.NewReport(id, tier, seed)
		r.Assumptions = check.CommonAssumptions
		code := func() (code int) {
			defer func() {
				if e := recover(); e != nil {
					fmt.Printf("checker panic: %v\n%s\n", e, debug.Stack())
					r.Und(id+".internal", "panic", "", fmt.Sprint(e))
					code = r.Finish(out, known)
				}
			}()
			if err != nil {
				fmt.Println("load failed:", err)
				r.Und(id+".load", "program", "", err.Error())
				return r.Finish(out, known)
			}
			r.Packages = p.NPkgs
			run(&check.Ctx{P: p, R: r, Tier: tier})
			return r.Finish(out, known)
		}()
		fmt.Printf("EXIT %s %d\n", id, code)
		if code > worst {
			worst = code
		}
	}
	return worst
}
