package check

import (
	"fmt"
	"go/token"
	"sort"
	"strings"

	"golang.org/x/tools/go/ssa"
)

// env is a persistent map value -> resolved value along one path: phis as
// bound by the edge taken, parameters of inlined callees as bound to the call's
// arguments, results of inlined calls as bound to what the callee returned.
type env struct {
	phi    ssa.Value
	val    ssa.Value
	parent *env
}

func (e *env) lookup(p ssa.Value) ssa.Value {
	for x := e; x != nil; x = x.parent {
		if x.phi == p {
			return x.val
		}
	}
	return nil
}

// resolve follows the bindings of e (and the static bindings bind) to a fixpoint.
func (e *env) resolve(v ssa.Value, bind map[ssa.Value]ssa.Value) ssa.Value {
	for i := 0; i < 64; i++ {
		if b, ok := bind[v]; ok {
			v = b
			continue
		}
		switch v.(type) {
		case *ssa.Phi, *ssa.Parameter, *ssa.Call, *ssa.Extract, *ssa.UnOp, *ssa.FreeVar:
			if r := e.lookup(v); r != nil && r != v {
				v = r
				continue
			}
		}
		break
	}
	return v
}

// Step is one instruction executed on a path.
type Step struct {
	In       ssa.Instruction
	Deferred bool // the deferred call registered by In (*ssa.Defer) is running
	Env      *env
	Depth    int // 0 = the enumerated function itself, >0 = inside an inlined callee
}

// Atom is a canonical branch condition: eq(L,R), lt(L,R) or true(L), possibly negated.
type Atom struct {
	Op   string
	L, R *Term
	Neg  bool
	If   *ssa.If
	key  string
	lkey string // key of the left operand (eq atoms)
}

func (a Atom) String() string {
	s := ""
	switch a.Op {
	case "true":
		s = a.L.String()
	default:
		s = a.Op + "(" + a.L.String() + "," + a.R.String() + ")"
	}
	if a.Neg {
		return "!" + s
	}
	return s
}

// Path is one feasible entry->exit path of a function.
type Path struct {
	Fn     *ssa.Function
	Blocks []*ssa.BasicBlock
	Steps  []Step
	Atoms  []Atom
	End    ssa.Instruction // *ssa.Return or *ssa.Panic
	p      *Prog
	bind   map[ssa.Value]ssa.Value
}

// PathOpts configures enumeration.
type PathOpts struct {
	HeaderVisits int                     // visits allowed per loop header (default 2: zero and one iteration)
	Bind         map[ssa.Value]ssa.Value // parameter bindings (e.g. force -> false)
	Limit        int                     // max number of paths (default 50000)
	From         *ssa.BasicBlock         // start block (default: entry)
	// Inline, when set, decides which statically resolved calls are expanded in
	// place (the callee's blocks become part of the path, its parameters are bound
	// to the arguments and the call's results to what it returns on that path).
	// Recursion is never inlined; depth is limited to InlineDepth (default 2).
	Inline      func(caller *ssa.Function, call *ssa.Call, callee *ssa.Function) bool
	InlineDepth int
	// InlineClosures also expands calls of a function VALUE that resolves, on the path, to a closure
	// made earlier on it (a callback handed to an inlined helper, a func literal converted to a named
	// func type); the closure's free variables are bound to what was captured.
	InlineClosures bool
}

// Resolve follows phis (as bound on this path at step s) and parameter bindings.
func (pa *Path) Resolve(s Step, v ssa.Value) ssa.Value {
	return s.Env.resolve(v, pa.bind)
}

// TermsAt returns a term builder resolving phis (and inlined parameters /
// call results) as of step s.
func (pa *Path) TermsAt(s Step) *Terms {
	return pa.p.NewTerms(func(v ssa.Value) ssa.Value {
		if r := s.Env.resolve(v, pa.bind); r != v {
			return r
		}
		return nil
	})
}

// CellValue: v is a load of a local variable that lives in memory (captured by a closure): returns the
// step of the last store into that variable on the path (also a store made by an inlined closure,
// through its captured reference) and true; (zero Step, false) when the path never stores into it — the
// variable still holds its zero value. ok is false when v is not such a load.
func (pa *Path) CellValue(at Step, v ssa.Value) (st *ssa.Store, stStep Step, stored bool, ok bool) {
	ld, isLd := pa.Resolve(at, v).(*ssa.UnOp)
	if !isLd || ld.Op != token.MUL {
		return nil, Step{}, false, false
	}
	cell, isAlloc := pa.Resolve(at, ld.X).(*ssa.Alloc)
	if !isAlloc {
		return nil, Step{}, false, false
	}
	for i := len(pa.Steps) - 1; i >= 0; i-- {
		s := pa.Steps[i]
		if x, isSt := s.In.(*ssa.Store); isSt && !s.Deferred && pa.Resolve(s, x.Addr) == ssa.Value(cell) {
			return x, s, true, true
		}
	}
	return nil, Step{}, false, true
}

// LastStep returns the final step (the return), convenient for resolving results.
func (pa *Path) LastStep() Step { return pa.Steps[len(pa.Steps)-1] }

// RetVals returns the resolved operands of the path's return.
func (pa *Path) RetVals() []ssa.Value {
	ret, ok := pa.End.(*ssa.Return)
	if !ok {
		return nil
	}
	rv := RetVals(ret)
	out := make([]ssa.Value, len(rv))
	for i, v := range rv {
		out[i] = pa.Resolve(pa.LastStep(), v)
	}
	return out
}

// pureKey renders v so that equal keys imply equal runtime values within one
// activation: pure operators are expanded, everything else is named by its
// (unique) SSA register.
func pureKey(v ssa.Value, res func(ssa.Value) ssa.Value, d int) string {
	v = res(v)
	if d > 10 {
		return "%" + v.Name()
	}
	switch x := v.(type) {
	case *ssa.Const:
		if x.IsNil() {
			return "nil"
		}
		if x.Value == nil {
			return "zero"
		}
		return x.Value.ExactString()
	case *ssa.Parameter:
		return "P:" + x.Name()
	case *ssa.BinOp:
		return "(" + pureKey(x.X, res, d+1) + x.Op.String() + pureKey(x.Y, res, d+1) + ")"
	case *ssa.UnOp:
		if x.Op == token.NOT || x.Op == token.SUB || x.Op == token.XOR {
			return x.Op.String() + pureKey(x.X, res, d+1)
		}
		if x.Op == token.MUL {
			// load from a private local written exactly once: a pure function of the stored value
			switch a := x.X.(type) {
			case *ssa.Alloc:
				if sv := privateSingleStore(a); sv != nil {
					return pureKey(sv, res, d+1)
				}
			case *ssa.FieldAddr:
				if al, ok := a.X.(*ssa.Alloc); ok {
					if sv := privateSingleStore(al); sv != nil {
						return pureKey(sv, res, d+1) + ".f" + fmt.Sprint(a.Field)
					}
				}
			}
		}
	case *ssa.ChangeType:
		return pureKey(x.X, res, d)
	case *ssa.MakeInterface:
		return pureKey(x.X, res, d)
	case *ssa.ChangeInterface:
		return pureKey(x.X, res, d)
	case *ssa.Convert:
		return "conv(" + pureKey(x.X, res, d+1) + ")"
	case *ssa.Extract:
		return pureKey(x.Tuple, res, d+1) + "#" + fmt.Sprint(x.Index)
	case *ssa.Field:
		return pureKey(x.X, res, d+1) + ".f" + fmt.Sprint(x.Field)
	case *ssa.Function:
		return "fn:" + x.String()
	case *ssa.Global:
		return "g:" + x.String()
	case *ssa.Call:
		if b, ok := x.Call.Value.(*ssa.Builtin); ok && (b.Name() == "len" || b.Name() == "cap") {
			return b.Name() + "(" + pureKey(x.Call.Args[0], res, d+1) + ")"
		}
	}
	return "%" + v.Name()
}

// privateSingleStore: the local cell is written exactly once (as a whole), is
// not captured by a closure and its address does not escape; returns the
// stored value.
func privateSingleStore(cell *ssa.Alloc) ssa.Value {
	sv := singleStore(cell)
	if sv == nil {
		return nil
	}
	for _, r := range nonDebugRefs(cell) {
		switch u := r.(type) {
		case *ssa.Store:
			if u.Addr != ssa.Value(cell) {
				return nil
			}
		case *ssa.UnOp:
		case *ssa.FieldAddr:
			for _, r2 := range nonDebugRefs(u) {
				if _, ok := r2.(*ssa.UnOp); !ok {
					return nil
				}
			}
		default:
			return nil
		}
	}
	return sv
}

func neverNil(v ssa.Value) bool {
	switch x := v.(type) {
	case *ssa.Alloc, *ssa.FieldAddr, *ssa.IndexAddr, *ssa.MakeMap, *ssa.MakeSlice, *ssa.MakeChan, *ssa.MakeClosure, *ssa.Function, *ssa.MakeInterface:
		return true
	case *ssa.Slice:
		_ = x
		return false
	case *ssa.Call:
		// freshly built errors are never nil
		if sc := x.Call.StaticCallee(); sc != nil {
			switch sc.String() {
			case "fmt.Errorf", "errors.New":
				return true
			}
		}
	}
	return false
}

type fact struct {
	pol   bool
	local bool              // mentions a non-parameter, non-constant value
	defs  []*ssa.BasicBlock // blocks of the instructions the condition is computed by
}

// defBlocks: the blocks of the instructions v is computed from (bounded operand closure).
func defBlocks(v ssa.Value) []*ssa.BasicBlock {
	var out []*ssa.BasicBlock
	seen := map[ssa.Value]bool{}
	var walk func(v ssa.Value, d int)
	walk = func(v ssa.Value, d int) {
		if v == nil || seen[v] || d > 12 {
			return
		}
		seen[v] = true
		in, ok := v.(ssa.Instruction)
		if !ok {
			return
		}
		if in.Block() != nil {
			out = append(out, in.Block())
		}
		for _, op := range in.Operands(nil) {
			if op != nil {
				walk(*op, d+1)
			}
		}
	}
	walk(v, 0)
	return out
}

// inlineFrame is one activation on the inline stack.
type inlineFrame struct {
	fn      *ssa.Function
	call    *ssa.Call // call being expanded (nil for the root)
	retBlk  *ssa.BasicBlock
	retIdx  int // index of the instruction after the call in retBlk
	parent  *inlineFrame
	depth   int
	visits  map[*ssa.BasicBlock]int
	headers map[*ssa.BasicBlock]bool
	defers  []*ssa.Defer
}

func loopHeaders(fn *ssa.Function) map[*ssa.BasicBlock]bool {
	header := map[*ssa.BasicBlock]bool{}
	for _, b := range fn.Blocks {
		for _, s := range b.Succs {
			if s.Dominates(b) {
				header[s] = true
			}
		}
	}
	return header
}

// EnumPaths enumerates the feasible acyclic (bounded-loop) paths of fn.
func (p *Prog) EnumPaths(fn *ssa.Function, opts PathOpts) ([]*Path, int, error) {
	if opts.HeaderVisits == 0 {
		opts.HeaderVisits = 2
	}
	if opts.Limit == 0 {
		opts.Limit = 50000
	}
	if opts.InlineDepth == 0 {
		opts.InlineDepth = 2
	}
	var out []*Path
	pruned := 0
	var err error
	var blocks []*ssa.BasicBlock
	var steps []Step
	var atoms []Atom
	facts := map[string]fact{}
	eqConst := map[string]string{}

	resolveWith := func(e *env) func(ssa.Value) ssa.Value {
		return func(v ssa.Value) ssa.Value { return e.resolve(v, opts.Bind) }
	}

	var walk func(fr *inlineFrame, b *ssa.BasicBlock, startIdx int, from *ssa.BasicBlock, e *env)
	walk = func(fr *inlineFrame, b *ssa.BasicBlock, startIdx int, from *ssa.BasicBlock, e *env) {
		if err != nil {
			return
		}
		entered := startIdx == 0
		nSteps, nAtoms, nDefers := len(steps), len(atoms), len(fr.defers)
		var savedFacts map[string]fact
		var savedEq map[string]string
		if entered {
			max := 1
			if fr.headers[b] {
				max = opts.HeaderVisits
			}
			if fr.visits[b] >= max {
				return // loop bound reached: this continuation is not explored
			}
			fr.visits[b]++
			blocks = append(blocks, b)
			// save facts (small maps): copy-on-entry
			savedFacts = make(map[string]fact, len(facts))
			for k, v := range facts {
				savedFacts[k] = v
			}
			savedEq = make(map[string]string, len(eqConst))
			for k, v := range eqConst {
				savedEq[k] = v
			}
			if fr.visits[b] > 1 {
				// second visit of a loop header: registers defined in the loop get new values
				// (a register defined outside this loop keeps its value: what was learnt about it stays)
				loop := naturalLoop(b)
				for k, f := range facts {
					if !f.local {
						continue
					}
					inLoop := len(f.defs) == 0
					for _, db := range f.defs {
						if db.Parent() != b.Parent() || loop[db] {
							inLoop = true
						}
					}
					if inLoop {
						delete(facts, k)
						delete(eqConst, k)
					}
				}
			}
		}
		defer func() {
			if entered {
				fr.visits[b]--
				blocks = blocks[:len(blocks)-1]
				facts = savedFacts
				eqConst = savedEq
			}
			steps = steps[:nSteps]
			atoms = atoms[:nAtoms]
			fr.defers = fr.defers[:nDefers]
		}()
		// bind phis (parallel)
		if entered && from != nil {
			idx := -1
			for i, pr := range b.Preds {
				if pr == from {
					idx = i
				}
			}
			res := resolveWith(e)
			ne := e
			for _, in := range b.Instrs {
				ph, ok := in.(*ssa.Phi)
				if !ok {
					break
				}
				if idx >= 0 {
					ne = &env{phi: ph, val: res(ph.Edges[idx]), parent: ne}
				}
			}
			e = ne
		}
		res := resolveWith(e)
		for ii := startIdx; ii < len(b.Instrs); ii++ {
			in := b.Instrs[ii]
			switch x := in.(type) {
			case *ssa.Phi, *ssa.DebugRef:
				continue
			case *ssa.Defer:
				fr.defers = append(fr.defers, x)
				steps = append(steps, Step{In: in, Env: e, Depth: fr.depth})
			case *ssa.RunDefers:
				for i := len(fr.defers) - 1; i >= 0; i-- {
					steps = append(steps, Step{In: fr.defers[i], Deferred: true, Env: e, Depth: fr.depth})
				}
			case *ssa.Call:
				steps = append(steps, Step{In: in, Env: e, Depth: fr.depth})
				callee := x.Call.StaticCallee()
				var closure *ssa.MakeClosure
				if callee == nil && opts.InlineClosures && !x.Call.IsInvoke() {
					cv := res(x.Call.Value)
					for i := 0; i < 4; i++ {
						if ct, ok := cv.(*ssa.ChangeType); ok {
							cv = res(ct.X)
						}
					}
					if mc, ok := cv.(*ssa.MakeClosure); ok {
						closure = mc
						callee, _ = mc.Fn.(*ssa.Function)
					}
				}
				if opts.Inline == nil || callee == nil || callee.Blocks == nil || fr.depth >= opts.InlineDepth || !opts.Inline(fr.fn, x, callee) {
					continue
				}
				rec := false
				for f := fr; f != nil; f = f.parent {
					if f.fn == callee {
						rec = true
					}
				}
				if rec {
					continue
				}
				// expand: bind parameters, walk the callee, resume after the call
				ne := e
				for i, prm := range callee.Params {
					if i < len(x.Call.Args) {
						ne = &env{phi: prm, val: res(x.Call.Args[i]), parent: ne}
					}
				}
				if closure != nil {
					for i, fv := range callee.FreeVars {
						if i < len(closure.Bindings) {
							ne = &env{phi: fv, val: res(closure.Bindings[i]), parent: ne}
						}
					}
				}
				nf := &inlineFrame{fn: callee, call: x, retBlk: b, retIdx: ii + 1, parent: fr, depth: fr.depth + 1,
					visits: map[*ssa.BasicBlock]int{}, headers: loopHeaders(callee)}
				walk(nf, callee.Blocks[0], 0, nil, ne)
				return
			case *ssa.Return:
				steps = append(steps, Step{In: in, Env: e, Depth: fr.depth})
				if fr.parent != nil {
					// return from an inlined callee: bind the call's results and resume the caller
					rv := RetVals(x)
					ne := e
					if len(rv) == 1 {
						ne = &env{phi: fr.call, val: res(rv[0]), parent: ne}
					} else {
						for _, ref := range nonDebugRefs(fr.call) {
							if ex, ok := ref.(*ssa.Extract); ok && ex.Index < len(rv) {
								ne = &env{phi: ex, val: res(rv[ex.Index]), parent: ne}
							}
						}
					}
					walk(fr.parent, fr.retBlk, fr.retIdx, nil, ne)
					return
				}
				pa := &Path{Fn: fn, p: p, bind: opts.Bind, End: in}
				pa.Blocks = append(pa.Blocks, blocks...)
				pa.Steps = append(pa.Steps, steps...)
				pa.Atoms = append(pa.Atoms, atoms...)
				out = append(out, pa)
				if len(out) > opts.Limit {
					err = fmt.Errorf("more than %d paths in %s", opts.Limit, fn)
				}
				return
			case *ssa.Panic:
				steps = append(steps, Step{In: in, Env: e, Depth: fr.depth})
				pa := &Path{Fn: fn, p: p, bind: opts.Bind, End: in}
				pa.Blocks = append(pa.Blocks, blocks...)
				pa.Steps = append(pa.Steps, steps...)
				pa.Atoms = append(pa.Atoms, atoms...)
				out = append(out, pa)
				return
			case *ssa.If:
				steps = append(steps, Step{In: in, Env: e, Depth: fr.depth})
				cv := res(x.Cond)
				// constant folding
				if bv, ok := constBool(cv); ok {
					if bv {
						walk(fr, b.Succs[0], 0, b, e)
					} else {
						walk(fr, b.Succs[1], 0, b, e)
					}
					return
				}
				if bo, ok := cv.(*ssa.BinOp); ok && (bo.Op == token.EQL || bo.Op == token.NEQ) {
					cx, okx := res(bo.X).(*ssa.Const)
					cy, oky := res(bo.Y).(*ssa.Const)
					if okx && oky && ((cx.Value != nil && cy.Value != nil) || (cx.IsNil() && cy.IsNil())) {
						eq := cx.IsNil() && cy.IsNil()
						if !eq {
							eq = cx.Value.ExactString() == cy.Value.ExactString()
						}
						if (bo.Op == token.EQL) == eq {
							walk(fr, b.Succs[0], 0, b, e)
						} else {
							walk(fr, b.Succs[1], 0, b, e)
						}
						pruned++
						return
					}
				}
				at := p.atomOf(cv, res, e, opts.Bind)
				at.If = x
				for _, taken := range []bool{true, false} {
					pol := taken != at.Neg // polarity of the positive atom
					// nil-ness of never-nil values
					if at.Op == "eq" && at.R != nil && at.R.Is("Const", "nil") && at.L.V != nil && neverNil(res(at.L.V)) {
						if pol {
							pruned++
							continue
						}
					}
					if f, ok := facts[at.key]; ok && f.pol != pol {
						pruned++
						continue
					}
					// a blocking select yields an index in [0, #states)
					if at.Op == "eq" && !pol && at.R != nil && at.R.Op == "Const" && at.L.Op == "Extract" && at.L.Name == "0" && len(at.L.Args) == 1 {
						if sel, ok := at.L.Args[0].V.(*ssa.Select); ok && sel.Blocking {
							excluded := map[string]bool{at.R.Name: true}
							for _, pa := range atoms {
								if pa.Op == "eq" && pa.Neg && pa.lkey == at.lkey && pa.R.Op == "Const" {
									excluded[pa.R.Name] = true
								}
							}
							all := true
							for i := range sel.States {
								if !excluded[fmt.Sprint(i)] {
									all = false
								}
							}
							if all {
								pruned++
								continue
							}
						}
					}
					// eq against two different constants
					var eqKey, eqVal string
					if at.Op == "eq" && at.R != nil && at.R.Op == "Const" {
						eqKey = "eqc:" + at.lkey
						eqVal = at.R.Name
						if prev, ok := eqConst[eqKey]; ok && pol && prev != eqVal {
							pruned++
							continue
						}
					}
					_, had := facts[at.key]
					local := strings.Contains(at.key, "%")
					if !had {
						facts[at.key] = fact{pol: pol, local: local, defs: defBlocks(x.Cond)}
					}
					hadEq := false
					if eqKey != "" && pol {
						if _, ok := eqConst[eqKey]; ok {
							hadEq = true
						} else {
							eqConst[eqKey] = eqVal
						}
					}
					a := at
					a.Neg = !pol
					atoms = append(atoms, a)
					if taken {
						walk(fr, b.Succs[0], 0, b, e)
					} else {
						walk(fr, b.Succs[1], 0, b, e)
					}
					atoms = atoms[:len(atoms)-1]
					if !had {
						delete(facts, at.key)
					}
					if eqKey != "" && pol && !hadEq {
						delete(eqConst, eqKey)
					}
				}
				return
			case *ssa.Jump:
				walk(fr, b.Succs[0], 0, b, e)
				return
			case *ssa.Store:
				steps = append(steps, Step{In: in, Env: e, Depth: fr.depth})
				// a local that had to become a memory cell only because a closure READS it (a deferred clean-up, say):
				// remember what the path stored last, so that a later load sees it
				if cell, ok := x.Addr.(*ssa.Alloc); ok && readOnlyCapturedCell(cell) {
					e = &env{phi: cell, val: res(x.Val), parent: e}
					res = resolveWith(e)
				}
			case *ssa.UnOp:
				if cell, ok := x.X.(*ssa.Alloc); ok && x.Op == token.MUL && readOnlyCapturedCell(cell) {
					if v := e.lookup(cell); v != nil {
						e = &env{phi: x, val: v, parent: e}
						res = resolveWith(e)
					}
				}
				steps = append(steps, Step{In: in, Env: e, Depth: fr.depth})
			default:
				steps = append(steps, Step{In: in, Env: e, Depth: fr.depth})
			}
		}
	}
	start := opts.From
	if start == nil {
		start = fn.Blocks[0]
	}
	root := &inlineFrame{fn: fn, visits: map[*ssa.BasicBlock]int{}, headers: loopHeaders(fn)}
	walk(root, start, 0, nil, nil)
	return out, pruned, err
}

// atomOf canonicalises a branch condition. The returned atom is positive
// (Neg describes how the condition value relates to the positive atom).
func (p *Prog) atomOf(cv ssa.Value, res func(ssa.Value) ssa.Value, e *env, bind map[ssa.Value]ssa.Value) Atom {
	tb := p.NewTerms(func(v ssa.Value) ssa.Value {
		if r := e.resolve(v, bind); r != v {
			return r
		}
		return nil
	})
	neg := false
	for {
		if u, ok := cv.(*ssa.UnOp); ok && u.Op == token.NOT {
			neg = !neg
			cv = res(u.X)
			continue
		}
		break
	}
	if b, ok := cv.(*ssa.BinOp); ok {
		x, y := res(b.X), res(b.Y)
		kx, ky := pureKey(x, res, 0), pureKey(y, res, 0)
		tx, ty := tb.Of(x), tb.Of(y)
		switch b.Op {
		case token.EQL, token.NEQ:
			if b.Op == token.NEQ {
				neg = !neg
			}
			// constants to the right, otherwise sort
			_, xc := x.(*ssa.Const)
			_, yc := y.(*ssa.Const)
			if (xc && !yc) || (!xc && !yc && kx > ky) {
				kx, ky = ky, kx
				tx, ty = ty, tx
			}
			return Atom{Op: "eq", L: tx, R: ty, Neg: neg, key: kx + "==" + ky, lkey: kx}
		case token.LSS:
			return Atom{Op: "lt", L: tx, R: ty, Neg: neg, key: kx + "<" + ky}
		case token.GTR:
			return Atom{Op: "lt", L: ty, R: tx, Neg: neg, key: ky + "<" + kx}
		case token.GEQ:
			return Atom{Op: "lt", L: tx, R: ty, Neg: !neg, key: kx + "<" + ky}
		case token.LEQ:
			return Atom{Op: "lt", L: ty, R: tx, Neg: !neg, key: ky + "<" + kx}
		}
	}
	return Atom{Op: "true", L: tb.Of(cv), Neg: neg, key: "t:" + pureKey(cv, res, 0)}
}

// PathSummary renders a path for witnesses.
func (p *Prog) PathSummary(pa *Path) string {
	var as []string
	for _, a := range pa.Atoms {
		as = append(as, a.String())
	}
	end := "?"
	if pa.End != nil {
		end = p.InstrPos(pa.End)
	}
	return fmt.Sprintf("path[%s] exit %s", strings.Join(as, " & "), end)
}

// CallsOn lists the (non-deferred-registration) call steps of a path in order:
// ordinary calls where they execute, deferred calls where they run.
func (pa *Path) CallsOn() []Step {
	var out []Step
	for _, s := range pa.Steps {
		switch s.In.(type) {
		case *ssa.Call, *ssa.Go:
			out = append(out, s)
		case *ssa.Defer:
			if s.Deferred {
				out = append(out, s)
			}
		}
	}
	return out
}

// sortedKeys helper
func sortedKeys(m map[string]bool) []string {
	var ks []string
	for k := range m {
		ks = append(ks, k)
	}
	sort.Strings(ks)
	return ks
}

var readOnlyCapturedCache = map[*ssa.Alloc]bool{}

// readOnlyCapturedCell: a local variable cell that is captured by at least one closure, none of which stores to it or
// lets its address escape, and that is otherwise only stored to and loaded from (as a whole) by its own function.
// Calls cannot change such a cell behind the function's back, so a load observes the last store on the path.
func readOnlyCapturedCell(cell *ssa.Alloc) bool {
	if v, ok := readOnlyCapturedCache[cell]; ok {
		return v
	}
	ok, captured := true, false
	for _, r := range nonDebugRefs(cell) {
		switch u := r.(type) {
		case *ssa.Store:
			if u.Addr != ssa.Value(cell) {
				ok = false
			}
		case *ssa.UnOp:
			if u.Op != token.MUL {
				ok = false
			}
		case *ssa.MakeClosure:
			captured = true
			g, isFn := u.Fn.(*ssa.Function)
			if !isFn {
				ok = false
				break
			}
			for i, b := range u.Bindings {
				if b != ssa.Value(cell) || i >= len(g.FreeVars) {
					continue
				}
				for _, fr := range nonDebugRefs(g.FreeVars[i]) {
					if ld, isLd := fr.(*ssa.UnOp); !isLd || ld.Op != token.MUL {
						ok = false // stored to, or handed on, inside the closure
					}
				}
			}
		default:
			ok = false
		}
	}
	readOnlyCapturedCache[cell] = ok && captured
	return ok && captured
}
