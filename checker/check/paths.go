package check

import (
	"fmt"
	"go/token"
	"sort"
	"strings"

	"golang.org/x/tools/go/ssa"
)

// env is a persistent map phi -> resolved value along one path.
type env struct {
	phi    *ssa.Phi
	val    ssa.Value
	parent *env
}

func (e *env) lookup(p *ssa.Phi) ssa.Value {
	for x := e; x != nil; x = x.parent {
		if x.phi == p {
			return x.val
		}
	}
	return nil
}

// Step is one instruction executed on a path.
type Step struct {
	In       ssa.Instruction
	Deferred bool // the deferred call registered by In (*ssa.Defer) is running
	Env      *env
}

// Atom is a canonical branch condition: eq(L,R), lt(L,R) or true(L), possibly negated.
type Atom struct {
	Op   string
	L, R *Term
	Neg  bool
	If   *ssa.If
	key  string
	lkey string // key of the left operand (eq atoms)
}

func (a Atom) String() string {
	s := ""
	switch a.Op {
	case "true":
		s = a.L.String()
	default:
		s = a.Op + "(" + a.L.String() + "," + a.R.String() + ")"
	}
	if a.Neg {
		return "!" + s
	}
	return s
}

// Path is one feasible entry->exit path of a function.
type Path struct {
	Fn     *ssa.Function
	Blocks []*ssa.BasicBlock
	Steps  []Step
	Atoms  []Atom
	End    ssa.Instruction // *ssa.Return or *ssa.Panic
	p      *Prog
	bind   map[ssa.Value]ssa.Value
}

// PathOpts configures enumeration.
type PathOpts struct {
	HeaderVisits int                     // visits allowed per loop header (default 2: zero and one iteration)
	Bind         map[ssa.Value]ssa.Value // parameter bindings (e.g. force -> false)
	Limit        int                     // max number of paths (default 50000)
	From         *ssa.BasicBlock         // start block (default: entry)
}

// Resolve follows phis (as bound on this path at step s) and parameter bindings.
func (pa *Path) Resolve(s Step, v ssa.Value) ssa.Value {
	for i := 0; i < 32; i++ {
		if b, ok := pa.bind[v]; ok {
			v = b
			continue
		}
		if ph, ok := v.(*ssa.Phi); ok {
			if r := s.Env.lookup(ph); r != nil {
				v = r
				continue
			}
		}
		break
	}
	return v
}

// TermsAt returns a term builder resolving phis as of step s.
func (pa *Path) TermsAt(s Step) *Terms {
	return pa.p.NewTerms(func(ph *ssa.Phi) ssa.Value {
		if r := s.Env.lookup(ph); r != nil {
			return r
		}
		return nil
	})
}

// LastStep returns the final step (the return), convenient for resolving results.
func (pa *Path) LastStep() Step { return pa.Steps[len(pa.Steps)-1] }

// RetVals returns the resolved operands of the path's return.
func (pa *Path) RetVals() []ssa.Value {
	ret, ok := pa.End.(*ssa.Return)
	if !ok {
		return nil
	}
	rv := RetVals(ret)
	out := make([]ssa.Value, len(rv))
	for i, v := range rv {
		out[i] = pa.Resolve(pa.LastStep(), v)
	}
	return out
}

// pureKey renders v so that equal keys imply equal runtime values within one
// activation: pure operators are expanded, everything else is named by its
// (unique) SSA register.
func pureKey(v ssa.Value, res func(ssa.Value) ssa.Value, d int) string {
	v = res(v)
	if d > 10 {
		return "%" + v.Name()
	}
	switch x := v.(type) {
	case *ssa.Const:
		if x.IsNil() {
			return "nil"
		}
		if x.Value == nil {
			return "zero"
		}
		return x.Value.ExactString()
	case *ssa.Parameter:
		return "P:" + x.Name()
	case *ssa.BinOp:
		return "(" + pureKey(x.X, res, d+1) + x.Op.String() + pureKey(x.Y, res, d+1) + ")"
	case *ssa.UnOp:
		if x.Op == token.NOT || x.Op == token.SUB || x.Op == token.XOR {
			return x.Op.String() + pureKey(x.X, res, d+1)
		}
		if x.Op == token.MUL {
			// load from a private local written exactly once: a pure function of the stored value
			switch a := x.X.(type) {
			case *ssa.Alloc:
				if sv := privateSingleStore(a); sv != nil {
					return pureKey(sv, res, d+1)
				}
			case *ssa.FieldAddr:
				if al, ok := a.X.(*ssa.Alloc); ok {
					if sv := privateSingleStore(al); sv != nil {
						return pureKey(sv, res, d+1) + ".f" + fmt.Sprint(a.Field)
					}
				}
			}
		}
	case *ssa.ChangeType:
		return pureKey(x.X, res, d)
	case *ssa.MakeInterface:
		return pureKey(x.X, res, d)
	case *ssa.ChangeInterface:
		return pureKey(x.X, res, d)
	case *ssa.Convert:
		return "conv(" + pureKey(x.X, res, d+1) + ")"
	case *ssa.Extract:
		return pureKey(x.Tuple, res, d+1) + "#" + fmt.Sprint(x.Index)
	case *ssa.Field:
		return pureKey(x.X, res, d+1) + ".f" + fmt.Sprint(x.Field)
	case *ssa.Function:
		return "fn:" + x.String()
	case *ssa.Global:
		return "g:" + x.String()
	case *ssa.Call:
		if b, ok := x.Call.Value.(*ssa.Builtin); ok && (b.Name() == "len" || b.Name() == "cap") {
			return b.Name() + "(" + pureKey(x.Call.Args[0], res, d+1) + ")"
		}
	}
	return "%" + v.Name()
}

// privateSingleStore: the local cell is written exactly once (as a whole), is
// not captured by a closure and its address does not escape; returns the
// stored value.
func privateSingleStore(cell *ssa.Alloc) ssa.Value {
	sv := singleStore(cell)
	if sv == nil {
		return nil
	}
	for _, r := range nonDebugRefs(cell) {
		switch u := r.(type) {
		case *ssa.Store:
			if u.Addr != ssa.Value(cell) {
				return nil
			}
		case *ssa.UnOp:
		case *ssa.FieldAddr:
			for _, r2 := range nonDebugRefs(u) {
				if _, ok := r2.(*ssa.UnOp); !ok {
					return nil
				}
			}
		default:
			return nil
		}
	}
	return sv
}

func neverNil(v ssa.Value) bool {
	switch x := v.(type) {
	case *ssa.Alloc, *ssa.FieldAddr, *ssa.IndexAddr, *ssa.MakeMap, *ssa.MakeSlice, *ssa.MakeChan, *ssa.MakeClosure, *ssa.Function, *ssa.MakeInterface:
		return true
	case *ssa.Slice:
		_ = x
		return false
	}
	return false
}

type fact struct {
	pol   bool
	local bool // mentions a non-parameter, non-constant value
}

// EnumPaths enumerates the feasible acyclic (bounded-loop) paths of fn.
func (p *Prog) EnumPaths(fn *ssa.Function, opts PathOpts) ([]*Path, int, error) {
	if opts.HeaderVisits == 0 {
		opts.HeaderVisits = 2
	}
	if opts.Limit == 0 {
		opts.Limit = 50000
	}
	// loop headers: targets of back edges (edge to a dominator)
	header := map[*ssa.BasicBlock]bool{}
	for _, b := range fn.Blocks {
		for _, s := range b.Succs {
			if s.Dominates(b) {
				header[s] = true
			}
		}
	}
	var out []*Path
	pruned := 0
	var err error
	visits := map[*ssa.BasicBlock]int{}
	var blocks []*ssa.BasicBlock
	var steps []Step
	var atoms []Atom
	facts := map[string]fact{}
	eqConst := map[string]string{}
	var defers []*ssa.Defer

	resolveWith := func(e *env) func(ssa.Value) ssa.Value {
		return func(v ssa.Value) ssa.Value {
			for i := 0; i < 32; i++ {
				if b, ok := opts.Bind[v]; ok {
					v = b
					continue
				}
				if ph, ok := v.(*ssa.Phi); ok {
					if r := e.lookup(ph); r != nil {
						v = r
						continue
					}
				}
				break
			}
			return v
		}
	}

	var walk func(b *ssa.BasicBlock, from *ssa.BasicBlock, e *env)
	walk = func(b *ssa.BasicBlock, from *ssa.BasicBlock, e *env) {
		if err != nil {
			return
		}
		max := 1
		if header[b] {
			max = opts.HeaderVisits
		}
		if visits[b] >= max {
			return // loop bound reached: this continuation is not explored
		}
		visits[b]++
		blocks = append(blocks, b)
		nSteps, nAtoms, nDefers := len(steps), len(atoms), len(defers)
		// save facts (small maps): copy-on-entry
		savedFacts := make(map[string]fact, len(facts))
		for k, v := range facts {
			savedFacts[k] = v
		}
		savedEq := make(map[string]string, len(eqConst))
		for k, v := range eqConst {
			savedEq[k] = v
		}
		if visits[b] > 1 {
			// second visit of a loop header: registers defined in the loop get new values
			for k, f := range facts {
				if f.local {
					delete(facts, k)
					delete(eqConst, k)
				}
			}
		}
		defer func() {
			visits[b]--
			blocks = blocks[:len(blocks)-1]
			steps = steps[:nSteps]
			atoms = atoms[:nAtoms]
			defers = defers[:nDefers]
			facts = savedFacts
			eqConst = savedEq
		}()
		// bind phis (parallel)
		if from != nil {
			idx := -1
			for i, pr := range b.Preds {
				if pr == from {
					idx = i
				}
			}
			res := resolveWith(e)
			ne := e
			for _, in := range b.Instrs {
				ph, ok := in.(*ssa.Phi)
				if !ok {
					break
				}
				if idx >= 0 {
					ne = &env{phi: ph, val: res(ph.Edges[idx]), parent: ne}
				}
			}
			e = ne
		}
		res := resolveWith(e)
		for _, in := range b.Instrs {
			switch x := in.(type) {
			case *ssa.Phi, *ssa.DebugRef:
				continue
			case *ssa.Defer:
				defers = append(defers, x)
				steps = append(steps, Step{In: in, Env: e})
			case *ssa.RunDefers:
				for i := len(defers) - 1; i >= 0; i-- {
					steps = append(steps, Step{In: defers[i], Deferred: true, Env: e})
				}
			case *ssa.Return, *ssa.Panic:
				steps = append(steps, Step{In: in, Env: e})
				pa := &Path{Fn: fn, p: p, bind: opts.Bind, End: in}
				pa.Blocks = append(pa.Blocks, blocks...)
				pa.Steps = append(pa.Steps, steps...)
				pa.Atoms = append(pa.Atoms, atoms...)
				out = append(out, pa)
				if len(out) > opts.Limit {
					err = fmt.Errorf("more than %d paths in %s", opts.Limit, fn)
				}
				return
			case *ssa.If:
				steps = append(steps, Step{In: in, Env: e})
				cv := res(x.Cond)
				// constant folding
				if bv, ok := constBool(cv); ok {
					if bv {
						walk(b.Succs[0], b, e)
					} else {
						walk(b.Succs[1], b, e)
					}
					return
				}
				if bo, ok := cv.(*ssa.BinOp); ok && (bo.Op == token.EQL || bo.Op == token.NEQ) {
					cx, okx := res(bo.X).(*ssa.Const)
					cy, oky := res(bo.Y).(*ssa.Const)
					if okx && oky && cx.Value != nil && cy.Value != nil {
						eq := cx.Value.ExactString() == cy.Value.ExactString()
						if (bo.Op == token.EQL) == eq {
							walk(b.Succs[0], b, e)
						} else {
							walk(b.Succs[1], b, e)
						}
						pruned++
						return
					}
				}
				at := p.atomOf(cv, res, e)
				at.If = x
				for _, taken := range []bool{true, false} {
					pol := taken != at.Neg // polarity of the positive atom
					// nil-ness of never-nil values
					if at.Op == "eq" && at.R != nil && at.R.Is("Const", "nil") && at.L.V != nil && neverNil(res(at.L.V)) {
						if pol {
							pruned++
							continue
						}
					}
					if f, ok := facts[at.key]; ok && f.pol != pol {
						pruned++
						continue
					}
					// a blocking select yields an index in [0, #states)
					if at.Op == "eq" && !pol && at.R != nil && at.R.Op == "Const" && at.L.Op == "Extract" && at.L.Name == "0" && len(at.L.Args) == 1 {
						if sel, ok := at.L.Args[0].V.(*ssa.Select); ok && sel.Blocking {
							excluded := map[string]bool{at.R.Name: true}
							for _, pa := range atoms {
								if pa.Op == "eq" && pa.Neg && pa.lkey == at.lkey && pa.R.Op == "Const" {
									excluded[pa.R.Name] = true
								}
							}
							all := true
							for i := range sel.States {
								if !excluded[fmt.Sprint(i)] {
									all = false
								}
							}
							if all {
								pruned++
								continue
							}
						}
					}
					// eq against two different constants
					var eqKey, eqVal string
					if at.Op == "eq" && at.R != nil && at.R.Op == "Const" {
						eqKey = "eqc:" + at.lkey
						eqVal = at.R.Name
						if prev, ok := eqConst[eqKey]; ok && pol && prev != eqVal {
							pruned++
							continue
						}
					}
					_, had := facts[at.key]
					local := strings.Contains(at.key, "%")
					if !had {
						facts[at.key] = fact{pol: pol, local: local}
					}
					hadEq := false
					if eqKey != "" && pol {
						if _, ok := eqConst[eqKey]; ok {
							hadEq = true
						} else {
							eqConst[eqKey] = eqVal
						}
					}
					a := at
					a.Neg = !pol
					atoms = append(atoms, a)
					if taken {
						walk(b.Succs[0], b, e)
					} else {
						walk(b.Succs[1], b, e)
					}
					atoms = atoms[:len(atoms)-1]
					if !had {
						delete(facts, at.key)
					}
					if eqKey != "" && pol && !hadEq {
						delete(eqConst, eqKey)
					}
				}
				return
			case *ssa.Jump:
				walk(b.Succs[0], b, e)
				return
			default:
				steps = append(steps, Step{In: in, Env: e})
			}
		}
	}
	start := opts.From
	if start == nil {
		start = fn.Blocks[0]
	}
	walk(start, nil, nil)
	return out, pruned, err
}

// atomOf canonicalises a branch condition. The returned atom is positive
// (Neg describes how the condition value relates to the positive atom).
func (p *Prog) atomOf(cv ssa.Value, res func(ssa.Value) ssa.Value, e *env) Atom {
	tb := p.NewTerms(func(ph *ssa.Phi) ssa.Value { return e.lookup(ph) })
	neg := false
	for {
		if u, ok := cv.(*ssa.UnOp); ok && u.Op == token.NOT {
			neg = !neg
			cv = res(u.X)
			continue
		}
		break
	}
	if b, ok := cv.(*ssa.BinOp); ok {
		x, y := res(b.X), res(b.Y)
		kx, ky := pureKey(x, res, 0), pureKey(y, res, 0)
		tx, ty := tb.Of(x), tb.Of(y)
		switch b.Op {
		case token.EQL, token.NEQ:
			if b.Op == token.NEQ {
				neg = !neg
			}
			// constants to the right, otherwise sort
			_, xc := x.(*ssa.Const)
			_, yc := y.(*ssa.Const)
			if (xc && !yc) || (!xc && !yc && kx > ky) {
				kx, ky = ky, kx
				tx, ty = ty, tx
			}
			return Atom{Op: "eq", L: tx, R: ty, Neg: neg, key: kx + "==" + ky, lkey: kx}
		case token.LSS:
			return Atom{Op: "lt", L: tx, R: ty, Neg: neg, key: kx + "<" + ky}
		case token.GTR:
			return Atom{Op: "lt", L: ty, R: tx, Neg: neg, key: ky + "<" + kx}
		case token.GEQ:
			return Atom{Op: "lt", L: tx, R: ty, Neg: !neg, key: kx + "<" + ky}
		case token.LEQ:
			return Atom{Op: "lt", L: ty, R: tx, Neg: !neg, key: ky + "<" + kx}
		}
	}
	return Atom{Op: "true", L: tb.Of(cv), Neg: neg, key: "t:" + pureKey(cv, res, 0)}
}

// PathSummary renders a path for witnesses.
func (p *Prog) PathSummary(pa *Path) string {
	var as []string
	for _, a := range pa.Atoms {
		as = append(as, a.String())
	}
	end := "?"
	if pa.End != nil {
		end = p.InstrPos(pa.End)
	}
	return fmt.Sprintf("path[%s] exit %s", strings.Join(as, " & "), end)
}

// CallsOn lists the (non-deferred-registration) call steps of a path in order:
// ordinary calls where they execute, deferred calls where they run.
func (pa *Path) CallsOn() []Step {
	var out []Step
	for _, s := range pa.Steps {
		switch s.In.(type) {
		case *ssa.Call, *ssa.Go:
			out = append(out, s)
		case *ssa.Defer:
			if s.Deferred {
				out = append(out, s)
			}
		}
	}
	return out
}

// sortedKeys helper
func sortedKeys(m map[string]bool) []string {
	var ks []string
	for k := range m {
		ks = append(ks, k)
	}
	sort.Strings(ks)
	return ks
}
