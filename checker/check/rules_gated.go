package check

import (
	"fmt"
	"go/token"
	"go/types"
	"strings"

	"golang.org/x/tools/go/ssa"
)

func init() { Register("C11", runC11) }

const (
	listRemove   = "(*container/list.List).Remove"
	listPushBack = "(*container/list.List).PushBack"
)

func isDeleteOf(ci ssa.CallInstruction, tb *Terms, field string) bool {
	b, ok := ci.Common().Value.(*ssa.Builtin)
	if !ok || b.Name() != "delete" {
		return false
	}
	t := tb.Of(ci.Common().Args[0])
	return t.Is("Field", field)
}

// gatedShapeRules: C17.scan, C17.flush, C17.first (prefix "C17") and, shared,
// the cleanup rule used by both C11 and C17.
func (c *Ctx) gatedShapeRules(prefix string) {
	p, r := c.P, c.R
	tb := p.NewTerms(nil)
	proc := c.Fn(prefix+".anchor", PkgGated, "Filter", "Process")
	scan := c.Fn(prefix+".anchor", PkgGated, "Filter", "processExpiredEvents")
	flush := c.Fn(prefix+".anchor", PkgGated, "Filter", "FlushAll")
	cls := c.Fn(prefix+".anchor", PkgGated, "Filter", "Close")
	open := c.Fn(prefix+".anchor", PkgGated, "Filter", "openGate")
	if proc == nil || scan == nil || flush == nil || cls == nil || open == nil {
		return
	}
	isOpen := func(n string, cc *ssa.CallCommon) bool { return cc.StaticCallee() == open }

	// --- scan
	{
		rule := prefix + ".scan"
		c.ruleExpiryScanAs(rule)
		// same clock for the stamp: Process stamps with (*Filter).Now().Add(Expiration)
		stamped := false
		eachInstr(proc, func(in ssa.Instruction) {
			if st, ok := in.(*ssa.Store); ok {
				if fa, ok := st.Addr.(*ssa.FieldAddr); ok && typeShort(fa.X.Type()) == "gated.gatedEvent" {
					if fa.X.Type().Underlying().(*types.Pointer).Elem().Underlying().(*types.Struct).Field(fa.Field).Name() == "exp" {
						t := tb.Of(st.Val)
						if t.Op == "Call" && t.Name == "(time.Time).Add" && t.Args[0].Op == "Call" && t.Args[0].Name == "(*filters/gated.Filter).Now" && t.Args[1].Is("Field", "Expiration") {
							stamped = true
						} else {
							r.Bad(rule, "Process:exp-stamp", p.InstrPos(st), "the expiry stamp is "+t.String()+", not w.Now().Add(w.Expiration)")
						}
					}
				}
			}
		})
		r.Check(stamped, rule, "Process:exp-stamp", p.Pos(proc.Pos()), "groups are stamped with w.Now().Add(w.Expiration): same clock as the scan", "no expiry stamp w.Now().Add(w.Expiration) found")
	}
	// --- flush
	{
		rule := prefix + ".flush"
		calls := callsTo(flush, isOpen)
		if len(calls) != 1 {
			r.Bad(rule, "FlushAll:open", p.Pos(flush.Pos()), fmt.Sprintf("%d openGate calls in FlushAll (expected 1, in the loop)", len(calls)))
		} else {
			oc := calls[0]
			full, why := c.fullLoop(oc, true)
			r.Check(full, rule, "FlushAll:loop", p.InstrPos(oc), "FlushAll opens the gate of every list element; exits: exhausted or error return", "FlushAll does not visit every element: "+why)
			ge := tb.Of(oc.Common().Args[2])
			r.Check(ge.Op == "Assert" && ge.Args[0].Is("Field", "Value"), rule, "FlushAll:gate", p.InstrPos(oc), "openGate(ctx, element value)", "FlushAll opens "+ge.String()+" instead of the loop element")
			// unconditional inside the loop body: the call's block is entered from the loop test only
			cond, tsucc, _ := condOf(oc.Block().Idom())
			okUncond := cond != nil && tsucc == oc.Block()
			if okUncond {
				if bo, ok := cond.(*ssa.BinOp); !ok || !(isNilConst(bo.X) || isNilConst(bo.Y)) {
					okUncond = false
				}
			}
			r.Check(okUncond, rule, "FlushAll:unconditional", p.InstrPos(oc), "every element's gate is opened unconditionally", "the gate is opened only under an extra condition inside the loop")
		}
		// no-broker: on every path that found no Broker and reports success, both containers were
		// emptied on that path (directly or in a package-local helper)
		nNB, okReset := 0, true
		why := ""
		for _, pa := range c.enum(rule, flush, PathOpts{Inline: inlineSmall("(*filters/gated.Filter).openGate")}) {
			rv := pa.RetVals()
			if rv == nil || !isNilConst(rv[0]) {
				continue
			}
			if pol, found := hasAtom(pa, func(at Atom) bool { return at.Op == "eq" && at.L.Is("Field", "Broker") && at.R.Is("Const", "nil") }); !found || !pol {
				continue
			}
			nNB++
			got := map[string]bool{}
			for _, st := range pa.Steps {
				if call, ok := st.In.(*ssa.Call); ok {
					if nm, ok := gatedResetInPlace(call, pa.TermsAt(st)); ok {
						got[nm] = true
					}
				}
				if sto, ok := st.In.(*ssa.Store); ok && (isNilConst(sto.Val) || isEmptyContainer(sto.Val)) {
					t := pa.TermsAt(st).Of(sto.Addr)
					for _, nm := range []string{"gated", "orderedGated"} {
						if b, ok := t.IsFieldAddr(nm); ok && b.IsParam("0:w") {
							got[nm] = true
						}
					}
				}
			}
			if !got["gated"] || !got["orderedGated"] {
				okReset = false
				why = "a successful no-Broker path leaves a container in place: " + p.PathSummary(pa)
			}
		}
		if nNB == 0 {
			okReset, why = false, "no successful path of FlushAll establishes Broker == nil"
		}
		r.Check(okReset, rule, "FlushAll:no-broker", p.Pos(flush.Pos()), "without a Broker both containers are reset together", "the no-Broker branch does not reset both containers together: "+why)
		// Close reaches FlushAll unconditionally and returns its result
		okClose := false
		for _, ret := range Returns(cls) {
			t := tb.Of(RetVals(ret)[0])
			if t.Op == "Call" && t.Name == "(*filters/gated.Filter).FlushAll" && t.Args[0].IsParam("0:w") && t.Args[1].IsParam("1:ctx") && len(Returns(cls)) == 1 {
				okClose = true
			}
		}
		r.Check(okClose, rule, "Close", p.Pos(cls.Pos()), "Close returns FlushAll(ctx) unconditionally", "Close does not unconditionally return FlushAll(ctx)")
		c.errorFlowRule(rule, flush, nil, false)
	}
	// --- first: the expiry scan dominates the insertion of the new event
	{
		rule := prefix + ".first"
		scans := callsTo(proc, func(n string, cc *ssa.CallCommon) bool { return cc.StaticCallee() == scan })
		var inserts []ssa.Instruction
		eachInstr(proc, func(in ssa.Instruction) {
			if mu, ok := in.(*ssa.MapUpdate); ok && tb.Of(mu.Map).Is("Field", "gated") {
				inserts = append(inserts, in)
			}
			if st, ok := in.(*ssa.Store); ok {
				if fa, ok := st.Addr.(*ssa.FieldAddr); ok && typeShort(fa.X.Type()) == "gated.gatedEvent" && !isFresh(fa.X) {
					inserts = append(inserts, in)
				}
			}
		})
		ok := len(scans) == 1 && len(inserts) >= 2
		for _, ins := range inserts {
			if len(scans) == 1 && !dominatesInstr(scans[0], ins) {
				ok = false
			}
		}
		pos := p.Pos(proc.Pos())
		if len(scans) == 1 {
			pos = p.InstrPos(scans[0])
		}
		r.Check(ok, rule, "Process:scan-before-insert", pos, "processExpiredEvents(ctx) dominates every insertion into the gate", "the expiry scan does not precede every insertion into the gate in Process")
		if prefix == "C17" && len(scans) == 1 {
			// "after ANY successful Process call made at T no group whose expiry lies before T remains
			// gated": every path that returns a nil error has run the scan
			okAll := true
			for _, pa := range c.enum(rule, proc, PathOpts{}) {
				rv := pa.RetVals()
				if len(rv) != 2 || !isNilConst(rv[1]) {
					continue
				}
				scanned := false
				for _, s := range pa.Steps {
					if s.In == ssa.Instruction(scans[0]) && s.Depth == 0 {
						scanned = true
					}
				}
				if !scanned && okAll {
					okAll = false
					r.Bad(rule, "Process:scan-on-every-success", p.InstrPos(pa.End), "Process returns successfully without having run the expiry scan (a non-Gateable event passes straight through): at that moment groups whose expiry lies in the past are still gated, and a filter that only sees non-Gateable traffic from then on holds them for ever ("+p.PathSummary(pa)+")")
				}
			}
			if okAll {
				r.Ok(rule, "Process:scan-on-every-success", p.InstrPos(scans[0]), "every successful return of Process ran the expiry scan")
			}
			// a group is stamped with a POSITIVE expiration (shared with C11.insert)
			c.rulePositiveExpiration(rule)
		}
	}
}

// gatedCleanupRule: C11.cleanup / C11.pair
func (c *Ctx) gatedContainerRules(prefix string) {
	p, r := c.P, c.R
	c.ruleGateKeyAgreement(prefix + ".cleanup")
	tb := p.NewTerms(nil)
	// --- pair: insertions
	for _, f := range p.FuncsIn(PkgGated) {
		eachInstr(f, func(in ssa.Instruction) {
			mu, ok := in.(*ssa.MapUpdate)
			if !ok || !tb.Of(mu.Map).Is("Field", "gated") {
				return
			}
			r.SawFn(p.ShortFn(f))
			// same block: PushBack(list, value) whose result is stored in value.element
			okPair := false
			for _, x := range in.Block().Instrs {
				pb, ok := x.(*ssa.Call)
				if !ok || pb.Call.StaticCallee() == nil || pb.Call.StaticCallee().String() != listPushBack {
					continue
				}
				if !tb.Of(pb.Call.Args[0]).Is("Field", "orderedGated") || stripConv(pb.Call.Args[1]) != stripConv(mu.Value) {
					continue
				}
				for _, ref := range nonDebugRefs(pb) {
					if st, ok := ref.(*ssa.Store); ok {
						if fa, ok := st.Addr.(*ssa.FieldAddr); ok && fa.X == stripConv(mu.Value) {
							okPair = true
						}
					}
				}
			}
			r.Check(okPair, prefix+".pair", p.ShortFn(f)+":insert", p.InstrPos(in), "map insertion paired with PushBack of the same group, element stored in the group",
				"a group is inserted into the id map without being pushed onto the ordered list (or its element is not recorded): expiry/FlushAll would never see it")
		})
	}
	// --- pair/cleanup: removals
	// A removal is the pair {delete from the id map, Remove from the list}. The pair may be written
	// out in the composing function or live in a helper (a "removal unit": a function that contains
	// the pair and no composition); a call of a removal unit counts as a removal at the call site.
	type fnInfo struct {
		dels, rems []ssa.CallInstruction
		comp       []ssa.CallInstruction
	}
	info := map[*ssa.Function]*fnInfo{}
	for _, f := range p.FuncsIn(PkgGated) {
		fi := &fnInfo{}
		eachInstr(f, func(in ssa.Instruction) {
			ci, ok := in.(ssa.CallInstruction)
			if !ok {
				return
			}
			if isDeleteOf(ci, tb, "gated") {
				fi.dels = append(fi.dels, ci)
			}
			if sc := ci.Common().StaticCallee(); sc != nil && sc.String() == listRemove {
				fi.rems = append(fi.rems, ci)
			}
			if calleeName(ci.Common()) == "dynamic" && tb.Of(ci.Common().Value).Is("Field", "composeFrom") {
				fi.comp = append(fi.comp, ci)
			}
		})
		info[f] = fi
	}
	unit := map[*ssa.Function]bool{}
	for f, fi := range info {
		if len(fi.dels) > 0 && len(fi.rems) > 0 && len(fi.comp) == 0 {
			unit[f] = true
		}
	}
	// a removal unit removes on every path through it: a helper (or deferred closure) that
	// keeps the group under some condition — "the Broker could not take it, try again at the
	// next sweep" — hands the same events to composition a second time.
	for _, f := range p.FuncsIn(PkgGated) {
		if !unit[f] {
			continue
		}
		fi := info[f]
		okAll := true
		var where ssa.Instruction
		for _, ret := range Returns(f) {
			for _, rm := range append(append([]ssa.CallInstruction{}, fi.dels...), fi.rems...) {
				if _, isD := rm.(*ssa.Defer); isD {
					if !dominatesInstr(rm, ret) {
						okAll, where = false, rm
					}
				} else if !dominatesInstr(rm, ret) {
					okAll, where = false, rm
				}
			}
		}
		pos := p.Pos(f.Pos())
		if where != nil {
			pos = p.InstrPos(where)
		}
		r.Check(okAll, prefix+".cleanup", p.ShortFn(f)+":removal-unconditional", pos, "the removal helper removes the group on every path through it",
			"the helper that removes a composed group from the gate does so only on some of its paths: a group that stays gated after composition was attempted is composed and sent again by the next sweep or FlushAll (handed to composition twice)")
	}
	nRem := 0
	for _, f := range p.FuncsIn(PkgGated) {
		fi := info[f]
		if len(fi.dels) == 0 && len(fi.rems) == 0 {
			continue
		}
		nRem++
		r.SawFn(p.ShortFn(f))
		okPair := len(fi.dels) == len(fi.rems)
		if okPair {
			for i := range fi.dels {
				_, d1 := fi.dels[i].(*ssa.Defer)
				_, d2 := fi.rems[i].(*ssa.Defer)
				if fi.dels[i].Block() != fi.rems[i].Block() || d1 != d2 {
					okPair = false
				}
			}
		}
		r.Check(okPair, prefix+".pair", p.ShortFn(f)+":remove", p.Pos(f.Pos()), fmt.Sprintf("%d removal(s): map delete and list Remove always together (same block, same deferral)", len(fi.dels)),
			"removal from the id map and from the ordered list are not paired on every path: the two containers can diverge (event lost or emitted twice)")
	}
	// cleanup in every composing function: each removal (direct pair or call of a removal unit)
	// is deferred before the composition call
	nComp := 0
	for _, f := range p.FuncsIn(PkgGated) {
		fi := info[f]
		if len(fi.comp) == 0 {
			continue
		}
		var removals []ssa.CallInstruction
		removals = append(removals, fi.dels...)
		removals = append(removals, fi.rems...)
		eachInstr(f, func(in ssa.Instruction) {
			if ci, ok := in.(ssa.CallInstruction); ok {
				if sc := ci.Common().StaticCallee(); sc != nil && unit[sc] {
					removals = append(removals, ci)
				}
			}
		})
		if len(removals) == 0 {
			if f.Name() == "Process" || f.Name() == "openGate" {
				r.Bad(prefix+".cleanup", p.ShortFn(f)+":deferred-removal", p.Pos(f.Pos()), "a composing function never removes the composed group from the gate")
			}
			continue
		}
		nComp++
		for _, cc := range fi.comp {
			okClean := true
			for _, rm := range removals {
				_, isD := rm.(*ssa.Defer)
				if !isD || !dominatesInstr(rm, cc) {
					okClean = false
				}
			}
			r.Check(okClean, prefix+".cleanup", p.ShortFn(f)+":deferred-removal", p.InstrPos(cc), "the removal of the composed group is deferred before composition, so it also runs when composition or sending fails",
				"the group's removal is not deferred before the composition call: on a composition/send error the group stays gated and is emitted again later")
		}
	}
	if nRem < 1 || nComp < 2 {
		r.Und(prefix+".pair", "instance-floor", "", fmt.Sprintf("%d removing and %d composing-and-removing functions found (expected >=1 and 2: Process, openGate)", nRem, nComp))
	}
}

func runC11(c *Ctx) {
	p, r := c.P, c.R
	r.Explanation = "Decides the structural clauses of C11 on gated.Filter: all gate state (gated, orderedGated, composeFrom, Expiration, the groups' event slices) is accessed under Filter.l held for writing (pairwise lock-set discipline, including the unexported helpers' entry lock sets); insertions into the id map are paired with PushBack and removals from the map with list.Remove, both deferred before composition so they run on error too; in Process the incoming event is appended to its id's group before the flush test, composition receives exactly that group's slice, non-flush returns (nil,nil) and flush returns a fresh event built from composition's results; openGate sends only a payload proven not Gateable, with composition's type and payload unchanged; non-Gateable events are returned untouched before any lock, empty ids rejected; list iteration is safe (shared with C17). Exactly-once over long histories as such is not decided. C11.reset / C11.discard / C11.insert / C11.listops: whole-container resets only without a Broker; unsent removal only for composition failure, Gateable composite or no Broker; a group is opened only when the id has none; nothing reorders the list. C11.expiry: the expiry scan visits every withheld group and opens exactly the expired ones. C11.expiry no-shortcut: the scan is skipped with success only when there is no list or nothing is gated. C11.once / C11.recover: one Sender.Send call site outside loops; recover discipline."
	r.NotDecided = []string{"exactly-once delivery over arbitrary long histories (the rules are its per-step obligations)", "behaviour of user ComposeFrom implementations"}
	c.lockControls()
	c.errControls()
	n := c.guardRule("C11.lock", []string{"gated.Filter", "gated.gatedEvent"}, nil, false)
	if n < 5 {
		r.Und("C11.lock", "instance-floor", "", fmt.Sprintf("only %d written fields decided (gated, orderedGated, composeFrom, Expiration, gatedEvent.events expected)", n))
	}
	c.gatedContainerRules("C11")
	c.rulePositiveExpiration("C11.insert")
	c.ruleGatedReset("C11.reset")
	c.ruleGatedDiscard("C11.discard")
	c.ruleGatedInsert("C11.insert")
	c.ruleComposer("C11.composer")
	c.ruleListOps("C11.listops")
	c.ruleNoHandOff("C11.section", PkgGated)
	c.ruleGateSectionLeak("C11.section")
	c.ruleGatedOrder()
	c.ruleGatedNoGate("C11.nogate")
	c.ruleGatedPass("C11.pass")
	c.ruleGatedPassOnly("C11.pass")
	c.ruleExpiryScanAs("C11.expiry")
	c.ruleRecoverResults("C11.recover", []string{PkgGated}, false)
	c.ruleGatedSendOnce("C11.once")
	ni := 0
	for _, f := range p.FuncsIn(PkgGated) {
		ni += c.listIterRule("C11.iter", f, false)
	}
	if ni < 2 {
		r.Und("C11.iter", "instance-floor", "", "fewer than 2 list loops found")
	}
	for _, f := range p.FuncsIn(PkgGated) {
		if f.Name() == "Process" && f.Signature.Recv() != nil {
			c.eNilRule("C11.enil", f, false)
			c.errorFlowRule("C11.errors", f, nil, false)
		}
		if f.Name() == "openGate" {
			c.errorFlowRule("C11.errors", f, nil, false)
		}
	}
}

// ruleGatedOrder: C11.order on the paths of Process.
func (c *Ctx) ruleGatedOrder() {
	p, r := c.P, c.R
	const rule = "C11.order"
	proc := c.Fn(rule, PkgGated, "Filter", "Process")
	if proc == nil {
		return
	}
	paths := c.enum(rule, proc, PathOpts{})
	nFlush, nGate, nEmpty := 0, 0, 0
	for _, pa := range paths {
		ret, ok := pa.End.(*ssa.Return)
		if !ok {
			continue
		}
		rv := pa.RetVals()
		// empty id -> (nil, error)
		if pol, found := hasAtom(pa, func(at Atom) bool {
			return at.Op == "eq" && at.L.Op == "Call" && at.L.Name == "invoke gated.Gateable.GetID" && at.R.Is("Const", `""`)
		}); found && pol {
			nEmpty++
			if !(isNilConst(rv[0]) && !isNilConst(rv[1])) {
				r.Bad(rule, "Process:empty-id", p.InstrPos(ret), "an event without an id is not rejected with (nil, error)")
			}
			continue
		}
		// locate the flush test
		flushPol, flushFound := hasAtom(pa, func(at Atom) bool {
			return at.Op == "true" && at.L.Op == "Call" && at.L.Name == "invoke gated.Gateable.FlushEvent"
		})
		if !flushFound {
			continue // early exits (nil event, not gateable, scan error)
		}
		// index of the FlushEvent invoke and of the append-store
		flushIdx, appendIdx := -1, -1
		var appendStore *ssa.Store
		for i, s := range pa.Steps {
			switch x := s.In.(type) {
			case *ssa.Call:
				if calleeName(&x.Call) == "invoke gated.Gateable.FlushEvent" {
					flushIdx = i
				}
			case *ssa.Store:
				if fa, ok := x.Addr.(*ssa.FieldAddr); ok && typeShort(fa.X.Type()) == "gated.gatedEvent" && !isFresh(fa.X) {
					appendIdx = i
					appendStore = x
				}
			}
		}
		if appendStore == nil || appendIdx > flushIdx {
			r.Bad(rule, "Process:append-before-flush", p.InstrPos(ret), "the incoming event is not appended to its group before the flush test (a flush event would be missing from its own composite)")
			continue
		}
		stb := pa.TermsAt(pa.Steps[appendIdx])
		tgt := stb.Of(appendStore.Addr)
		val := stb.Of(appendStore.Val)
		grp := "Lookup(Field[gated](Param(0:w)),Call[invoke gated.Gateable.GetID](Extract[0](Assert[gated.Gateable](Field[Payload](Param(2:e))))))"
		// the group of the incoming event's id: gated[id] looked up (plain or comma-ok), or the group this very
		// path created and stored under that id
		idT := "Call[invoke gated.Gateable.GetID](Extract[0](Assert[gated.Gateable](Field[Payload](Param(2:e)))))"
		isGroup := func(t *Term, upto int) bool {
			if t.String() == grp || t.String() == "Extract[0]("+grp+")" {
				return true
			}
			if t.V == nil {
				return false
			}
			for _, s := range pa.Steps[:upto] {
				mu, ok := s.In.(*ssa.MapUpdate)
				if !ok {
					continue
				}
				mtb := pa.TermsAt(s)
				if mtb.Of(mu.Map).String() == "Field[gated](Param(0:w))" && mtb.Of(mu.Key).String() == idT && mtb.Of(mu.Value).V == t.V {
					return true
				}
			}
			return false
		}
		okApp := tgt.Op == "FieldAddr" && tgt.Name == "events" && isGroup(tgt.Args[0], appendIdx) &&
			val.Op == "Call" && val.Name == "builtin append" && val.Args[0].Is("Field", "events") && isGroup(val.Args[0].Args[0], appendIdx) &&
			val.Args[1].Op == "Varargs" && len(val.Args[1].Args) == 1 && val.Args[1].Args[0].IsParam("2:e")
		if !okApp {
			r.Bad(rule, "Process:append", p.InstrPos(appendStore), "the group update is "+tgt.String()+" = "+val.String()+"; expected gated[id].events = append(gated[id].events, e)")
			continue
		}
		if !flushPol {
			nGate++
			if !(isNilConst(rv[0]) && isNilConst(rv[1])) {
				r.Bad(rule, "Process:withhold", p.InstrPos(ret), "a non-flush Gateable event is not withheld with (nil, nil)")
			}
			continue
		}
		nFlush++
		// flush: composition of that group's slice; result fresh event from composition
		var comp *ssa.Call
		for _, s := range pa.CallsOn() {
			if ci, ok := s.In.(*ssa.Call); ok && calleeName(&ci.Call) == "dynamic" {
				comp = ci
			}
		}
		if comp == nil {
			r.Bad(rule, "Process:flush-compose", p.InstrPos(ret), "flush path without a composition call")
			continue
		}
		ltb := pa.TermsAt(pa.LastStep())
		compArg := ltb.Of(comp.Call.Args[0])
		okComp := ltb.Of(comp.Call.Value).Is("Field", "composeFrom") && compArg.Is("Field", "events") && isGroup(compArg.Args[0], len(pa.Steps))
		if !okComp {
			r.Bad(rule, "Process:flush-compose", p.InstrPos(comp), "composition is "+ltb.Of(comp).String()+"; expected composeFrom(gated[id].events)")
			continue
		}
		if isNilConst(rv[0]) {
			// error path of composition
			if isNilConst(rv[1]) {
				r.Bad(rule, "Process:flush-result", p.InstrPos(ret), "flush path returns (nil, nil): the composite is dropped silently")
			}
			continue
		}
		al, isAlloc := rv[0].(*ssa.Alloc)
		okRes := isAlloc && isNilConst(rv[1])
		if okRes {
			f := litFields(pa, al, len(pa.Steps))
			okRes = ltb.Of(f["Type"]).String() == "Extract[0]("+ltb.Of(comp).String()+")" && ltb.Of(f["Payload"]).String() == "Extract[1]("+ltb.Of(comp).String()+")" &&
				ltb.Of(f["Formatted"]).String() == "Make(map)"
		}
		r.Check(okRes, rule, "Process:flush-result", p.InstrPos(ret), "flush returns a fresh event {Type, Payload} = composition results, empty format table", "flush does not return a fresh event built from composition's type and payload")
	}
	r.Check(nFlush > 0 && nGate > 0 && nEmpty > 0, rule, "Process:rows", p.Pos(proc.Pos()), fmt.Sprintf("%d flush, %d withhold, %d empty-id paths checked", nFlush, nGate, nEmpty), "flush / withhold / empty-id paths not all found")
	_ = token.ADD
}

// isEmptyContainer: a freshly made map or a new container/list.List.
func isEmptyContainer(v ssa.Value) bool {
	switch x := v.(type) {
	case *ssa.MakeMap:
		return true
	case *ssa.Call:
		return calleeName(&x.Call) == "container/list.New"
	}
	return false
}

// ruleExpiryScanAs: the expiry scan visits EVERY withheld group and opens exactly those whose stamp has passed
// (C17.scan; also C11.expiry — "when the group expires the composite is sent": the list is in arrival order, not in
// expiry order, so a scan that stops at the first unexpired group leaves expired ones behind it withheld).
func (c *Ctx) ruleExpiryScanAs(rule string) {
	p, r := c.P, c.R
	tb := p.NewTerms(nil)
	scan := c.Fn(rule, PkgGated, "Filter", "processExpiredEvents")
	open := c.Fn(rule, PkgGated, "Filter", "openGate")
	if scan == nil || open == nil {
		return
	}
	isOpen := func(n string, cc *ssa.CallCommon) bool { return cc.StaticCallee() == open }
	calls := callsTo(scan, isOpen)
	if len(calls) != 1 {
		r.Bad(rule, "processExpiredEvents:open", p.Pos(scan.Pos()), fmt.Sprintf("%d openGate calls in the expiry scan (expected 1, in the loop)", len(calls)))
	} else {
		oc := calls[0]
		full, why := c.fullLoop(oc, true)
		r.Check(full, rule, "processExpiredEvents:loop", p.InstrPos(oc), "the scan visits every list element; exits: exhausted or error return", "the expiry scan does not visit every element: "+why)
		// the gate opened is the loop element's value; guarded by Now().After(ge.exp)
		ge := tb.Of(oc.Common().Args[2])
		okGe := ge.Op == "Assert" && strings.HasSuffix(ge.Name, "gatedEvent") && ge.Args[0].Is("Field", "Value")
		cond, tsucc, _ := condOf(oc.Block().Idom())
		okCond := false
		if cond != nil {
			ct := tb.Of(cond)
			if ct.Op == "Call" && ct.Name == "(time.Time).After" && len(ct.Args) == 2 &&
				ct.Args[0].Op == "Call" && ct.Args[0].Name == "(*filters/gated.Filter).Now" &&
				ct.Args[1].Is("Field", "exp") && ct.Args[1].Args[0].V == ge.V && (tsucc == oc.Block() || tsucc.Dominates(oc.Block())) {
				okCond = true
			}
		}
		r.Check(okGe && okCond, rule, "processExpiredEvents:expired-branch", p.InstrPos(oc), "openGate(ctx, element value) exactly when w.Now().After(ge.exp)", "the gate is not opened exactly for elements with w.Now().After(ge.exp): gate="+ge.String())
		// every return inside the loop region is an error return
		c.errorFlowRule(rule, scan, nil, false)
		// ... and nothing returns success BEFORE the scan except "there is no list": a shortcut that looks at the
		// oldest group only ("nothing has expired unless the oldest has") skips expired groups behind an unexpired
		// one — the list is in arrival order, not in expiry order
		if h := innermostHeader(oc.Block()); h != nil {
			after := reachableFrom(h)
			for _, ret := range Returns(scan) {
				rv := RetVals(ret)
				if len(rv) != 1 || !isNilConst(rv[0]) || after[ret.Block()] {
					continue
				}
				okEarly := false
				for d := ret.Block(); d != nil; d = d.Idom() {
					cond, ts, fs := condOf(d)
					bo, isB := cond.(*ssa.BinOp)
					if !isB {
						continue
					}
					// len(w.gated) == 0: nothing is gated
					if k, isC := constInt(bo.Y); isC && k == 0 && bo.Op == token.EQL && len(d.Succs) == 2 {
						if lt := tb.Of(bo.X); lt.Op == "Call" && lt.Name == "builtin len" && len(lt.Args) == 1 && lt.Args[0].Is("Field", "gated") && edgeDominates(d, ts, ret.Block()) {
							okEarly = true
						}
					}
					if !(isNilConst(bo.X) || isNilConst(bo.Y)) {
						continue
					}
					v := bo.X
					if isNilConst(v) {
						v = bo.Y
					}
					vt := tb.Of(v)
					isList := vt.Is("Field", "orderedGated") || (vt.Op == "Call" && vt.Name == "(*container/list.List).Front")
					edge := ts
					if bo.Op == token.NEQ {
						edge = fs
					}
					if isList && (bo.Op == token.EQL || bo.Op == token.NEQ) && len(d.Succs) == 2 && edgeDominates(d, edge, ret.Block()) {
						okEarly = true
					}
				}
				r.Check(okEarly, rule, "processExpiredEvents:no-shortcut", p.InstrPos(ret), "the scan is skipped with success only when there is no list or nothing is gated",
					"the expiry scan can be skipped with success on a condition other than `no list / nothing gated` (a look at the oldest group only, say): expired groups behind an unexpired one stay gated")
			}
		}
	}
}
