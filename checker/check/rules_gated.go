package check

// gatedShapeRules: C17.scan, C17.flush, C17.first and the C11 container rules.
func (c *Ctx) gatedShapeRules(prefix string) {
}
