package check

import (
	"golang.org/x/tools/go/ssa"
)

func init() { Register("C12", runC12) }

func runC12(c *Ctx) {
	r := c.R
	r.Explanation = "Decides the lock-discipline clauses behind 'Broker calls terminate under re-entrancy' on the whole call graph (CHA over the 7 packages): no lock class is re-acquired while it may be held (LO1), the lock-order graph is acyclic (LO2), no extension point named by the property (Node.Process, Node.Reopen, Closer.Close) is invoked while Broker.lock may be held in any mode (LO3), nothing is held by Send across processing (LO4), and every acquisition is released on every path. These are reachability facts over all call chains, including chains no test executes. Termination of user nodes and of third-party code is not decided. C12.held-send: a library node does not send through the Broker while holding a lock its own Process acquires (known finding F37: the gated filter does, and exception E1 only covers the composed event itself). C12.wg: the wait-group / collector protocol of C03 (an unmatched Add leaves Send waiting). C12.release panic-safe: a section of the Broker lock released by an explicit unlock runs no foreign code. C12.progress list-progress: every list loop of the gated filter moves on in every iteration. C12.inventory: every blocking operation reachable from Send belongs to the status protocol. C12.release also counts interface-keyed map operations, interface comparisons and closures handed to callees. C12.wait: nothing waits while Broker.lock may be held. C12.stringer: no String / Error / GoString / Format method of a lock-owning type acquires that lock (fmt calls them wherever the value is printed, also under the lock). C12.inventory outside-send: nothing in package eventlogger outside Send's status protocol waits (channel operations, WaitGroup.Wait, Cond.Wait, Sleep)."
	r.NotDecided = []string{"termination of user-supplied nodes, predicates, signers, writers", "bounded time in the wall-clock sense"}
	c.lockControls()
	// the one loop that runs under Broker.lock:W over a data structure (the worklist of flatten) makes progress
	c.ruleFlatten("C12.progress")
	c.ruleUnwrapProgress("C12.progress")
	c.ruleListProgress("C12.progress")

	var passOK, noGateOK bool
	var evaluated bool
	e1 := func() (bool, string) {
		if !evaluated {
			evaluated = true
			passOK = c.ruleGatedPass("C12.e1-pass")
			noGateOK = c.ruleGatedNoGate("C12.e1-nogate")
		}
		if passOK && noGateOK {
			return true, "openGate only sends a payload proven not Gateable, and Process returns a non-Gateable event before locking"
		}
		return false, "C11.pass / C11.nogate do not both hold"
	}
	c.lockOrderRules("C12", func(fn *ssa.Function) bool { return c.P.InRepo(fn) }, []string{"eventlogger.Broker.lock"}, []string{PkgRoot}, false, e1)
	c.rulePanicSafeRelease("C12.release", []string{PkgRoot})
	c.ruleNoWaitUnderLock("C12.wait", "eventlogger.Broker.lock")
	c.ruleNoLockInStringer("C12.stringer")
	r.Floor("C12.self", 20)
	r.Floor("C12.open", 3)

	c.ruleSendHoldsNothing("C12.send")
	if a := c.protoAnchors("C12.anchor"); a != nil {
		c.ruleWGAs("C12.wg", a)
		c.ruleCollectorAs("C12.wg", a)
		c.ruleInventoryAs("C12.inventory", a)
	}
	c.ruleSendUnderNodeLock("C12.held-send")
	c.ruleRegistryNoBlocking("C12.blocking")
	c.pairingRule("C12.pairing", func(fn *ssa.Function) bool {
		pp := PkgPathOf(fn)
		return pp == PkgRoot || pp == PkgGated
	}, false)
}

// ruleSendHoldsNothing (LO4): Send holds no lock of its own across graph.process.
func (c *Ctx) ruleSendHoldsNothing(rule string) {
	r := c.R
	send := c.Fn(rule, PkgRoot, "Broker", "Send")
	if send == nil {
		return
	}
	may := c.MayLocks()
	calls := callsTo(send, func(n string, cc *ssa.CallCommon) bool { return n == "(*eventlogger.graph).process" })
	if len(calls) == 0 {
		r.Und(rule, "(*Broker).Send", c.P.Pos(send.Pos()), "no call of (*graph).process found in Send")
	}
	for _, ci := range calls {
		held := may.At(ci)
		own := LockSet{}
		for k, m := range c.MustLocks().At(ci) {
			own[k] = m // certainly held at the call; Send is entered with nothing held
		}
		for k, m := range held {
			if _, fromCaller := may.Entry[send][k]; !fromCaller {
				own[k] = m
			}
		}
		r.CallSites++
		r.Check(len(own) == 0, rule, "(*Broker).Send->process", c.P.InstrPos(ci),
			"no lock acquired by Send is held across graph.process", "Send holds "+own.String()+" across graph.process: any node calling back into the Broker can deadlock, and registration is blocked for the whole Send")
	}
}
