package check

import (
	"fmt"
	"go/token"
	"go/types"
	"strings"

	"golang.org/x/tools/go/ssa"
)

var errorType = types.Universe.Lookup("error").Type()

func returnsError(sig *types.Signature) (int, bool) {
	n := sig.Results().Len()
	if n == 0 {
		return 0, false
	}
	if types.Identical(sig.Results().At(n-1).Type(), errorType) {
		return n - 1, true
	}
	return 0, false
}

// eNilRule: every return of a (ev, err) function either has the nil constant
// as event or the nil constant as error (rule E.nil: an error never travels
// with an event).
func (c *Ctx) eNilRule(rule string, fn *ssa.Function, control bool) {
	p, r := c.P, c.R
	r.SawFn(p.ShortFn(fn))
	rets := Returns(fn)
	bad := 0
	for _, ret := range rets {
		rv := RetVals(ret)
		if len(rv) != 2 {
			continue
		}
		r.Paths++
		if isNilConst(rv[0]) || isNilConst(rv[1]) {
			continue
		}
		// `return helper(...)`: both results are the helper's, and the helper obeys the rule itself
		if tupleOfENilHelper(p, rv[0], rv[1], 0) {
			continue
		}
		bad++
		tb := p.NewTerms(nil)
		d := fmt.Sprintf("return with event %s and error %s: neither is the nil constant, so an event may be forwarded together with an error", tb.Of(rv[0]), tb.Of(rv[1]))
		if control {
			if isBadName(p.ShortFn(fn)) {
				r.ControlFired(rule, p.ShortFn(fn), p.InstrPos(ret), d)
			} else {
				r.Und(rule, p.ShortFn(fn), p.InstrPos(ret), "negative control flagged: "+d)
			}
			continue
		}
		r.Bad(rule, p.ShortFn(fn), p.InstrPos(ret), d)
	}
	if bad == 0 {
		if control {
			if isBadName(p.ShortFn(fn)) {
				r.Und(rule, p.ShortFn(fn), "", "positive control not flagged")
			}
			return
		}
		r.Ok(rule, p.ShortFn(fn), p.Pos(fn.Pos()), fmt.Sprintf("%d returns, each with a nil event or a nil error constant", len(rets)))
	}
}

// ErrException exempts one (function, callee) pair from the error-flow rule.
type ErrException struct {
	Fn     string // function key
	Callee string // callee name as rendered by calleeName
	Reason string
}

// termMentions reports whether t contains sub (by value identity or string).
func termMentions(t *Term, v ssa.Value, s string) bool {
	if t == nil {
		return false
	}
	if t.V == v || t.String() == s {
		return true
	}
	for _, a := range t.Args {
		if termMentions(a, v, s) {
			return true
		}
	}
	return false
}

// errorFlowRule checks, for every call in fn whose callee returns an error:
//   - the error is not discarded;
//   - it is tested against nil (or returned directly);
//   - on the branch where it is non-nil the function returns, and the returned
//     error is derived from it (itself, fmt.Errorf(... %w ...), errors.Join,
//     multierror.Append).
//
// accumulate allows the error to be appended to an accumulator that reaches
// the return instead of returning at once.
func (c *Ctx) errorFlowRule(rule string, fn *ssa.Function, exc []ErrException, control bool) int {
	p, r := c.P, c.R
	r.SawFn(p.ShortFn(fn))
	n := 0
	errIdx, fnReturnsErr := returnsError(fn.Signature)
	flagged := false
	report := func(construct, pos, detail string) {
		flagged = true
		if control {
			if isBadName(p.ShortFn(fn)) {
				r.ControlFired(rule, construct, pos, detail)
			} else {
				r.Und(rule, construct, pos, "negative control flagged: "+detail)
			}
			return
		}
		r.Bad(rule, construct, pos, detail)
	}
	eachInstr(fn, func(in ssa.Instruction) {
		ci, ok := in.(ssa.CallInstruction)
		if !ok {
			return
		}
		cc := ci.Common()
		idx, ok := returnsError(cc.Signature())
		if !ok {
			return
		}
		if lockOpOf(cc) != nil {
			return
		}
		name := calleeName(cc)
		construct := p.ShortFn(fn) + "->" + name
		for _, e := range exc {
			if e.Fn == p.ShortFn(fn) && e.Callee == name {
				r.Exceptions = append(r.Exceptions, fmt.Sprintf("%s: %s exempt: %s", rule, construct, e.Reason))
				return
			}
		}
		n++
		r.CallSites++
		call, isCall := in.(*ssa.Call)
		if !isCall {
			report(construct, p.InstrPos(in), "error result of a deferred or go call is discarded")
			return
		}
		// locate the error value
		var errVal ssa.Value
		if cc.Signature().Results().Len() == 1 {
			errVal = call
		} else if refs := call.Referrers(); refs != nil {
			for _, ref := range *refs {
				if ex, ok := ref.(*ssa.Extract); ok && ex.Index == idx {
					errVal = ex
				}
			}
		}
		if errVal == nil || errVal.Referrers() == nil || len(nonDebugRefs(errVal)) == 0 {
			// releasing a handle on a path that is ALREADY failing (or has just found the file gone) is a clean-up:
			// the error that matters is the one being handled, a second one from Close has nowhere to go
			if name == "(*os.File).Close" && onFailurePath(call.Block()) {
				r.Ok(rule, construct+":cleanup", p.InstrPos(in), "Close on a path that already handles a failure (clean-up; its own error has nowhere to go)")
				return
			}
			report(construct, p.InstrPos(in), "the error returned by "+name+" is discarded")
			return
		}
		// the error may be spilled into a cell (named variable captured / defer spill): follow one level
		vals := []ssa.Value{errVal}
		merged := map[ssa.Value]bool{}
		for _, ref := range nonDebugRefs(errVal) {
			if st, ok := ref.(*ssa.Store); ok && st.Val == errVal {
				if cell, ok := st.Addr.(*ssa.Alloc); ok {
					for _, cr := range *cell.Referrers() {
						if ld, ok := cr.(*ssa.UnOp); ok && ld.Op == token.MUL && ld.Block() == st.Block() && instrIndex(ld) > instrIndex(st) {
							vals = append(vals, ld)
						}
					}
				}
			}
		}
		// the error may be wrapped / merged on the spot: errors.Join(acc, err), multierror.Append(acc, err),
		// fmt.Errorf("...%w", err). The merged value then carries the obligation.
		for i := 0; i < len(vals) && i < 8; i++ {
			for _, ref := range nonDebugRefs(vals[i]) {
				// variadic: the value is stored into the varargs array of the merging call
				var user *ssa.Call
				switch u := ref.(type) {
				case *ssa.Call:
					user = u
				case *ssa.Store:
					if ia, ok := u.Addr.(*ssa.IndexAddr); ok {
						if al, ok := ia.X.(*ssa.Alloc); ok && al.Comment == "varargs" {
							for _, ar := range nonDebugRefs(al) {
								if sl, ok := ar.(*ssa.Slice); ok {
									for _, sr := range nonDebugRefs(sl) {
										if cu, ok := sr.(*ssa.Call); ok {
											user = cu
										}
									}
								}
							}
						}
					}
				case *ssa.MakeInterface:
					for _, mr := range nonDebugRefs(u) {
						if st, ok := mr.(*ssa.Store); ok {
							if ia, ok := st.Addr.(*ssa.IndexAddr); ok {
								if al, ok := ia.X.(*ssa.Alloc); ok && al.Comment == "varargs" {
									for _, ar := range nonDebugRefs(al) {
										if sl, ok := ar.(*ssa.Slice); ok {
											for _, sr := range nonDebugRefs(sl) {
												if cu, ok := sr.(*ssa.Call); ok {
													user = cu
												}
											}
										}
									}
								}
							}
						}
					}
				}
				if user == nil {
					continue
				}
				switch calleeName(&user.Call) {
				case "errors.Join", "github.com/hashicorp/go-multierror.Append", "fmt.Errorf":
					if _, isErr := returnsError(user.Call.Signature()); isErr {
						dup := false
						for _, x := range vals {
							if x == ssa.Value(user) {
								dup = true
							}
						}
						if !dup {
							vals = append(vals, user)
							merged[user] = true
						}
					}
				}
			}
		}
		tb := p.NewTerms(nil)
		errS := tb.Of(errVal).String()
		checked := false
		carried := false
		tested := false
		var condRet *ssa.Return
		for _, v := range vals {
			for _, ref := range nonDebugRefs(v) {
				switch u := ref.(type) {
				case *ssa.BinOp:
					if (u.Op != token.NEQ && u.Op != token.EQL) || !(isNilConst(u.X) || isNilConst(u.Y)) {
						continue
					}
					for _, br := range nonDebugRefs(u) {
						iff, ok := br.(*ssa.If)
						if !ok {
							continue
						}
						checked = true
						tested = true
						errBlk := iff.Block().Succs[0]
						if u.Op == token.EQL {
							errBlk = iff.Block().Succs[1]
						}
						c.checkErrBranch(rule, fn, construct, errBlk, iff.Block(), v, errS, errIdx, fnReturnsErr, report)
					}
				case *ssa.Return:
					rv := RetVals(u)
					if fnReturnsErr && errIdx < len(rv) {
						checked = true // returned directly
						if u.Block() != in.Block() {
							condRet = u
						}
					}
				case *ssa.Call:
					// a predicate of the repository that is nothing but the nil test (func failed(err error) bool { return err != nil })
					if sc := u.Call.StaticCallee(); sc != nil && nilTestHelper(sc) && len(u.Call.Args) == 1 && u.Call.Args[0] == v {
						for _, br := range nonDebugRefs(u) {
							iff, ok := br.(*ssa.If)
							if !ok {
								continue
							}
							checked = true
							tested = true
							c.checkErrBranch(rule, fn, construct, iff.Block().Succs[0], iff.Block(), v, errS, errIdx, fnReturnsErr, report)
						}
					}
				case *ssa.Store:
					// stored into a result cell then returned: RetVals of the return resolves it
					if st := u; st.Val == v {
						if cell, ok := st.Addr.(*ssa.Alloc); ok {
							for _, ret := range Returns(fn) {
								if ret.Block() != st.Block() {
									continue
								}
								rv := RetVals(ret)
								if fnReturnsErr && errIdx < len(rv) && rv[errIdx] == v {
									checked = true
								}
								_ = cell
							}
						}
					}
				case *ssa.Phi:
					// carried around a loop's back edge untested: the next iteration's assignment
					// overwrites it before anything looks at it (only the last iteration's error survives)
					if phiCarriedAroundLoop(u, in.Block(), loopHeaders(fn), 0) {
						if hp := headerPhiOf(u, in.Block(), loopHeaders(fn), 0); hp != nil && valueUses(v, hp, 0) {
							// acc = merge(acc, err): accumulation, every iteration's error is kept
							for _, ret := range Returns(fn) {
								rv := RetVals(ret)
								if fnReturnsErr && errIdx < len(rv) && termMentions(tb.Of(rv[errIdx]), v, errS) {
									checked = true
								}
							}
							continue
						}
						carried = true
						continue
					}
					// flows into an accumulator / merged error: accept when the phi reaches a return
					for _, ret := range Returns(fn) {
						rv := RetVals(ret)
						if fnReturnsErr && errIdx < len(rv) && termMentions(tb.Of(rv[errIdx]), v, errS) {
							checked = true
						}
					}
				}
			}
		}
		if c.errStrict && condRet != nil && !tested && !carried {
			// "carries that failure": the error is returned, but only on one side of a branch that is not
			// its own nil test — whatever the condition is (a classification of the error, a flag), a
			// non-nil error on the other side is dropped and the caller is told nothing failed
			report(construct, p.InstrPos(condRet), "the error returned by "+name+" is never tested against nil: it is returned only under another condition ("+p.InstrPos(condRet)+"), so a failure for which that condition does not hold is dropped and reported as success")
		} else if carried && !tested {
			report(construct, p.InstrPos(in), "the error returned by "+name+" is only stored in a variable that the next loop iteration overwrites: it is examined after the loop, so every failure but the last iteration's is lost")
		} else if !checked {
			report(construct, p.InstrPos(in), "the error returned by "+name+" is neither tested against nil nor returned")
		} else if !flagged && !control {
			// recorded per call site below
		}
	})
	if !flagged {
		if control {
			if isBadName(p.ShortFn(fn)) {
				r.Und(rule, p.ShortFn(fn), "", "positive control not flagged")
			}
		} else if n > 0 {
			r.Ok(rule, p.ShortFn(fn), p.Pos(fn.Pos()), fmt.Sprintf("%d fallible calls: every error is tested and, when non-nil, returned (itself or wrapped) on every path of its error branch", n))
		}
	}
	return n
}

// nilTestHelper: a one-parameter function with a body whose every return is "param != nil".
func nilTestHelper(fn *ssa.Function) bool {
	if fn.Blocks == nil || len(fn.Params) != 1 || fn.Signature.Results().Len() != 1 || len(fn.Blocks) != 1 {
		return false
	}
	rets := Returns(fn)
	if len(rets) != 1 {
		return false
	}
	bo, ok := RetVals(rets[0])[0].(*ssa.BinOp)
	if !ok || bo.Op != token.NEQ {
		return false
	}
	return (bo.X == ssa.Value(fn.Params[0]) && isNilConst(bo.Y)) || (bo.Y == ssa.Value(fn.Params[0]) && isNilConst(bo.X))
}

func nonDebugRefs(v ssa.Value) []ssa.Instruction {
	var out []ssa.Instruction
	if v.Referrers() == nil {
		return nil
	}
	for _, r := range *v.Referrers() {
		if _, ok := r.(*ssa.DebugRef); !ok {
			out = append(out, r)
		}
	}
	return out
}

// checkErrBranch: every path from errBlk ends in a return whose error operand
// is derived from errVal; the region entered on error must not fall back into
// the normal flow.
func (c *Ctx) checkErrBranch(rule string, fn *ssa.Function, construct string, errBlk, from *ssa.BasicBlock, errVal ssa.Value, errS string, errIdx int, fnReturnsErr bool, report func(construct, pos, detail string)) {
	p := c.P
	if !fnReturnsErr {
		return // function cannot propagate (e.g. a callback returning bool); handled by accumulator rules of the caller
	}
	tb := p.NewTerms(nil)
	seen := map[*ssa.BasicBlock]bool{}
	var walk func(b *ssa.BasicBlock)
	walk = func(b *ssa.BasicBlock) {
		if seen[b] {
			return
		}
		seen[b] = true
		c.R.Paths++
		if b != errBlk && !errBlk.Dominates(b) {
			report(construct, p.InstrPos(lastInstr(from)), fmt.Sprintf("when the error of this call is non-nil, control can continue at %s without returning it (error swallowed)", p.InstrPos(firstPos(b))))
			return
		}
		if len(b.Instrs) > 0 {
			switch t := b.Instrs[len(b.Instrs)-1].(type) {
			case *ssa.Return:
				rv := RetVals(t)
				if errIdx >= len(rv) {
					return
				}
				et := tb.Of(rv[errIdx])
				if isNilConst(rv[errIdx]) {
					report(construct, p.InstrPos(t), "on the branch where this call failed the function returns a nil error")
				} else if call, isCall := rv[errIdx].(*ssa.Call); isCall && rv[errIdx] != errVal && callHasArg(call, errVal) && termMentions(et, errVal, errS) && call.Call.StaticCallee() != nil && (p.InRepo(call.Call.StaticCallee()) || p.InCtl(call.Call.StaticCallee())) && call.Call.StaticCallee().Blocks != nil {
					// the failure is handed to a helper of the repository and the helper's result is returned:
					// the helper has to give back an error whenever it is given one
					if ok, why := wrapperNonNil(call.Call.StaticCallee(), 0); !ok {
						report(construct, p.InstrPos(t), "on the branch where this call failed the function returns the result of "+p.ShortFn(call.Call.StaticCallee())+", which can be nil although it was handed the failure ("+why+"): the failure is reported as success")
					}
				} else if !termMentions(et, errVal, errS) {
					// fail-closed mode: a freshly built error (fmt.Errorf / errors.New) is certainly non-nil
					fresh := et.Op == "Call" && (et.Name == "fmt.Errorf" || et.Name == "errors.New")
					if c.errStrict || !fresh {
						report(construct, p.InstrPos(t), "on the branch where this call failed the returned error ("+et.String()+") is not derived from the failure")
					}
				}
				return
			case *ssa.Panic:
				return
			}
		}
		for _, s := range b.Succs {
			walk(s)
		}
	}
	walk(errBlk)
}

func lastInstr(b *ssa.BasicBlock) ssa.Instruction { return b.Instrs[len(b.Instrs)-1] }
func firstPos(b *ssa.BasicBlock) ssa.Instruction {
	for _, in := range b.Instrs {
		if in.Pos().IsValid() {
			return in
		}
	}
	return b.Instrs[0]
}

// ---------------------------------------------------------------------------
// list iteration safety (C17.iter / C11.iter)

// mayReachCallee: fn (transitively through repo-internal static edges,
// including deferred calls) may call a function named target.
func (c *Ctx) mayReachCallee(fn *ssa.Function, target string, seen map[*ssa.Function]bool) bool {
	if seen[fn] {
		return false
	}
	seen[fn] = true
	hit := false
	eachInstr(fn, func(in ssa.Instruction) {
		if hit {
			return
		}
		ci, ok := in.(ssa.CallInstruction)
		if !ok {
			return
		}
		sc := ci.Common().StaticCallee()
		if sc == nil {
			return
		}
		if sc.String() == target {
			hit = true
			return
		}
		if (c.P.InRepo(sc) || c.P.InCtl(sc)) && sc.Blocks != nil {
			if c.mayReachCallee(sc, target, seen) {
				hit = true
			}
		}
	})
	return hit
}

// listIterRule: in a loop over a container/list advanced with e = e.Next(),
// any call in the loop body that may reach (*list.List).Remove must come after
// the successor was read in that iteration.
func (c *Ctx) listIterRule(rule string, fn *ssa.Function, control bool) int {
	p, r := c.P, c.R
	const next = "(*container/list.Element).Next"
	const remove = "(*container/list.List).Remove"
	n := 0
	for _, ci := range callsTo(fn, func(name string, cc *ssa.CallCommon) bool {
		return cc.StaticCallee() != nil && cc.StaticCallee().String() == next
	}) {
		call, ok := ci.(*ssa.Call)
		if !ok {
			continue
		}
		// receiver must be loop-carried: a phi that (transitively) receives this call's result
		phi, ok := call.Call.Args[0].(*ssa.Phi)
		if !ok {
			continue
		}
		if !flowsIntoPhi(call, phi) {
			continue
		}
		n++
		r.SawFn(p.ShortFn(fn))
		header := phi.Block()
		construct := p.ShortFn(fn) + ":list-loop"
		bad := false
		for _, b := range fn.Blocks {
			if !(header.Dominates(b) && reachableFrom(b)[header]) {
				continue // not in the loop
			}
			for _, in := range b.Instrs {
				ri, ok := in.(ssa.CallInstruction)
				if !ok || in == ssa.Instruction(call) {
					continue
				}
				sc := ri.Common().StaticCallee()
				if sc == nil {
					continue
				}
				reaches := sc.String() == remove
				if !reaches && (p.InRepo(sc) || p.InCtl(sc)) {
					reaches = c.mayReachCallee(sc, remove, map[*ssa.Function]bool{})
				}
				if !reaches {
					continue
				}
				r.CallSites++
				if !dominatesInstr(call, in) {
					bad = true
					d := fmt.Sprintf("loop over a container/list advances with %s.Next() at %s after the body called %s at %s, which may remove the element: Remove clears the element's links, Next() returns nil and the loop stops after the first removal", phi.Comment, p.InstrPos(call), funcShort(sc), p.InstrPos(in))
					if control {
						if isBadName(p.ShortFn(fn)) {
							r.ControlFired(rule, construct, p.InstrPos(call), d)
						} else {
							r.Und(rule, construct, p.InstrPos(call), "negative control flagged: "+d)
						}
					} else {
						r.Bad(rule, construct, p.InstrPos(call), d)
					}
				}
			}
		}
		if !bad {
			if control {
				if isBadName(p.ShortFn(fn)) {
					r.Und(rule, construct, "", "positive control not flagged")
				}
			} else {
				r.Ok(rule, construct, p.InstrPos(call), "the successor is read before any call of the body that may remove the element (or the body removes nothing)")
			}
		}
	}
	// a loop that re-reads the list's Front() in every iteration never holds on to a removed element's links
	// (whether it always moves on is C12.progress)
	if !control {
		for _, b := range fn.Blocks {
			for _, in := range b.Instrs {
				phi, ok := in.(*ssa.Phi)
				if !ok || typeShort(phi.Type()) != "list.Element" || !loopHeaders(fn)[b] {
					continue
				}
				popFront := false
				for i, e := range phi.Edges {
					if pr := b.Preds[i]; !(pr == b || b.Dominates(pr)) {
						continue
					}
					if fc, isCall := e.(*ssa.Call); isCall && fc.Call.StaticCallee() != nil && fc.Call.StaticCallee().String() == "(*container/list.List).Front" {
						popFront = true
					} else {
						popFront = false
						break
					}
				}
				if popFront {
					n++
					r.SawFn(p.ShortFn(fn))
					r.Ok(rule, p.ShortFn(fn)+":list-loop", p.InstrPos(phi), "the loop re-reads the list's front in every iteration: no successor is read from an element the body may have removed")
				}
			}
		}
	}
	return n
}

func flowsIntoPhi(v ssa.Value, phi *ssa.Phi) bool {
	seen := map[ssa.Value]bool{}
	work := []ssa.Value{v}
	for len(work) > 0 {
		x := work[len(work)-1]
		work = work[:len(work)-1]
		if seen[x] {
			continue
		}
		seen[x] = true
		for _, ref := range nonDebugRefs(x) {
			if ph, ok := ref.(*ssa.Phi); ok {
				if ph == phi {
					return true
				}
				work = append(work, ph)
			}
		}
	}
	return false
}

var _ = strings.Contains

// phiCarriedAroundLoop: the phi (or a phi it feeds) sits at the header of a loop
// that contains block b: the value is carried around the back edge.
func phiCarriedAroundLoop(phi *ssa.Phi, b *ssa.BasicBlock, headers map[*ssa.BasicBlock]bool, d int) bool {
	if d > 4 {
		return false
	}
	if hb := phi.Block(); headers[hb] && (hb == b || hb.Dominates(b)) && reachableFrom(b)[hb] {
		return true
	}
	for _, ref := range nonDebugRefs(phi) {
		if p2, ok := ref.(*ssa.Phi); ok && p2 != phi {
			if phiCarriedAroundLoop(p2, b, headers, d+1) {
				return true
			}
		}
	}
	return false
}

// headerPhiOf returns the loop-header phi that phi (transitively) feeds.
func headerPhiOf(phi *ssa.Phi, b *ssa.BasicBlock, headers map[*ssa.BasicBlock]bool, d int) *ssa.Phi {
	if d > 4 {
		return nil
	}
	if hb := phi.Block(); headers[hb] && (hb == b || hb.Dominates(b)) && reachableFrom(b)[hb] {
		return phi
	}
	for _, ref := range nonDebugRefs(phi) {
		if p2, ok := ref.(*ssa.Phi); ok && p2 != phi {
			if h := headerPhiOf(p2, b, headers, d+1); h != nil {
				return h
			}
		}
	}
	return nil
}

// valueUses: v is computed from target (operand chain through calls, varargs, phis).
func valueUses(v, target ssa.Value, d int) bool {
	if v == target {
		return true
	}
	if d > 6 {
		return false
	}
	switch x := v.(type) {
	case *ssa.Call:
		for _, a := range x.Call.Args {
			if valueUses(a, target, d+1) {
				return true
			}
		}
	case *ssa.Slice:
		if al, ok := x.X.(*ssa.Alloc); ok {
			for _, ref := range nonDebugRefs(al) {
				if ia, ok := ref.(*ssa.IndexAddr); ok {
					for _, r2 := range nonDebugRefs(ia) {
						if st, ok := r2.(*ssa.Store); ok && valueUses(st.Val, target, d+1) {
							return true
						}
					}
				}
			}
		}
	case *ssa.MakeInterface:
		return valueUses(x.X, target, d+1)
	case *ssa.ChangeInterface:
		return valueUses(x.X, target, d+1)
	case *ssa.Phi:
		for _, e := range x.Edges {
			if e != v && valueUses(e, target, d+1) {
				return true
			}
		}
	}
	return false
}

// wrapperNonNil: every error f returns is certainly non-nil provided its error-typed
// parameters are (f wraps, annotates or passes on a failure it was handed).
func wrapperNonNil(f *ssa.Function, depth int) (bool, string) {
	idx, ok := returnsError(f.Signature)
	if !ok {
		return false, "no error result"
	}
	var nonNil func(v ssa.Value, d int, seen map[ssa.Value]bool) (bool, string)
	nonNil = func(v ssa.Value, d int, seen map[ssa.Value]bool) (bool, string) {
		if seen[v] {
			return true, ""
		}
		seen[v] = true
		switch x := v.(type) {
		case *ssa.Parameter:
			if typeShort(x.Type()) == "error" {
				return true, ""
			}
			return false, "parameter " + x.Name() + " is not an error"
		case *ssa.Const:
			if x.IsNil() {
				return false, "a nil error is returned on some path"
			}
			return true, ""
		case *ssa.MakeInterface:
			if isNilConst(x.X) {
				return false, "a typed nil is returned"
			}
			return true, ""
		case *ssa.Phi:
			for _, e := range x.Edges {
				if ok, why := nonNil(e, d, seen); !ok {
					return false, why
				}
			}
			return true, ""
		case *ssa.Call:
			switch calleeName(&x.Call) {
			case "fmt.Errorf", "errors.New":
				return true, ""
			case "errors.Join", "github.com/hashicorp/go-multierror.Append":
				return true, "" // joins what it was given; the caller's term check established that the failure is among it
			}
			if sc := x.Call.StaticCallee(); sc != nil && sc.Blocks != nil && d < 2 && sc != f {
				return wrapperNonNil(sc, d+1)
			}
			return false, "the result of " + calleeName(&x.Call) + " is returned"
		}
		return false, fmt.Sprintf("%T value returned", v)
	}
	for _, ret := range Returns(f) {
		rv := RetVals(ret)
		if idx >= len(rv) {
			continue
		}
		if ok, why := nonNil(rv[idx], depth, map[ssa.Value]bool{}); !ok {
			return false, why
		}
	}
	return true, ""
}

// callHasArg: v is (a conversion of) one of the call's arguments.
func callHasArg(call *ssa.Call, v ssa.Value) bool {
	for _, a := range call.Call.Args {
		if a == v || stripConv(a) == v {
			return true
		}
	}
	return false
}

// onFailurePath: the block is entered only through the failing side of a test of an error: `err != nil` (true
// edge) or os.IsNotExist(err) / errors.Is(err, ..) (true edge).
func onFailurePath(b *ssa.BasicBlock) bool {
	for d := b; d != nil && d.Idom() != nil; d = d.Idom() {
		cond, ts, fs := condOf(d.Idom())
		if cond == nil {
			continue
		}
		isErrT := func(v ssa.Value) bool {
			n, ok := v.Type().(*types.Named)
			return ok && n.Obj().Pkg() == nil && n.Obj().Name() == "error"
		}
		switch x := cond.(type) {
		case *ssa.BinOp:
			if (x.Op == token.NEQ || x.Op == token.EQL) && (isNilConst(x.X) || isNilConst(x.Y)) && (isErrT(x.X) || isErrT(x.Y)) {
				edge := ts
				if x.Op == token.EQL {
					edge = fs
				}
				if edgeDominates(d.Idom(), edge, b) {
					return true
				}
			}
		case *ssa.Call:
			if sc := x.Call.StaticCallee(); sc != nil && (sc.String() == "os.IsNotExist" || sc.String() == "errors.Is") && edgeDominates(d.Idom(), ts, b) {
				return true
			}
		}
	}
	return false
}

// tupleOfENilHelper: ev and err are results 0 and 1 of one call of a function of the module whose
// every return carries a nil-constant event or a nil-constant error (or again such a tuple).
func tupleOfENilHelper(p *Prog, ev, err ssa.Value, depth int) bool {
	e0, ok0 := ev.(*ssa.Extract)
	e1, ok1 := err.(*ssa.Extract)
	if !ok0 || !ok1 || e0.Tuple != e1.Tuple || e0.Index != 0 || e1.Index != 1 || depth > 3 {
		return false
	}
	call, ok := e0.Tuple.(*ssa.Call)
	if !ok {
		return false
	}
	sc := call.Call.StaticCallee()
	if sc == nil || sc.Blocks == nil || !(p.InRepo(sc) || p.InCtl(sc)) {
		return false
	}
	for _, ret := range Returns(sc) {
		rv := RetVals(ret)
		if len(rv) != 2 {
			return false
		}
		if isNilConst(rv[0]) || isNilConst(rv[1]) || tupleOfENilHelper(p, rv[0], rv[1], depth+1) {
			continue
		}
		return false
	}
	return true
}
