// Package check holds the static analyses that decide the go-eventlogger
// properties. Nothing in this package executes code from the repository: it
// loads the type-checked packages, builds SSA and a call graph and inspects
// them.
package check

import (
	"fmt"
	"go/token"
	"go/types"
	"os"
	"path/filepath"
	"sort"
	"strings"

	"golang.org/x/tools/go/callgraph"
	"golang.org/x/tools/go/callgraph/cha"
	"golang.org/x/tools/go/packages"
	"golang.org/x/tools/go/ssa"
	"golang.org/x/tools/go/ssa/ssautil"
)

const (
	ModRoot    = "github.com/hashicorp/eventlogger"
	PkgRoot    = ModRoot
	PkgEncrypt = ModRoot + "/filters/encrypt"
	PkgProto   = ModRoot + "/filters/encrypt/testing/resources/protopayload"
	PkgGated   = ModRoot + "/filters/gated"
	PkgCloud   = ModRoot + "/formatter_filters/cloudevents"
	PkgChannel = ModRoot + "/sinks/channel"
	PkgWriter  = ModRoot + "/sinks/writer"
	PkgCtl     = "harness/controls"
)

// RepoPkgs is the set of packages that must load; fewer is a failure.
var RepoPkgs = []string{PkgRoot, PkgEncrypt, PkgProto, PkgGated, PkgCloud, PkgChannel, PkgWriter}

// Prog is the loaded program.
type Prog struct {
	RepoDir  string
	WorkDir  string
	Fset     *token.FileSet
	Pkgs     map[string]*packages.Package
	SSA      *ssa.Program
	SSAPkgs  map[string]*ssa.Package
	Funcs    []*ssa.Function // every source function (incl. anonymous) of repo + control packages
	cg       *callgraph.Graph
	closures map[*ssa.Function]*ssa.MakeClosure
	NPkgs    int
}

func copyFile(src, dst string) error {
	b, err := os.ReadFile(src)
	if err != nil {
		return err
	}
	if err := os.MkdirAll(filepath.Dir(dst), 0o755); err != nil {
		return err
	}
	return os.WriteFile(dst, b, 0o644)
}

func copyTree(src, dst string) error {
	return filepath.Walk(src, func(p string, info os.FileInfo, err error) error {
		if err != nil {
			return err
		}
		rel, _ := filepath.Rel(src, p)
		if info.IsDir() {
			return os.MkdirAll(filepath.Join(dst, rel), 0o755)
		}
		return copyFile(p, filepath.Join(dst, rel))
	})
}

// Load writes the harness module into workDir and loads repoDir's current
// working tree (both modules as one program) plus the control packages.
func Load(repoDir, workDir, controlsDir string) (*Prog, error) {
	repoDir, _ = filepath.Abs(repoDir)
	h := filepath.Join(workDir, "harness")
	if err := os.RemoveAll(h); err != nil {
		return nil, err
	}
	if err := os.MkdirAll(h, 0o755); err != nil {
		return nil, err
	}
	gomod := fmt.Sprintf(`module harness

go 1.23

require (
	github.com/hashicorp/eventlogger v0.0.0
	github.com/hashicorp/eventlogger/filters/encrypt v0.0.0
)

replace github.com/hashicorp/eventlogger => %s

replace github.com/hashicorp/eventlogger/filters/encrypt => %s
`, repoDir, filepath.Join(repoDir, "filters/encrypt"))
	if err := os.WriteFile(filepath.Join(h, "go.mod"), []byte(gomod), 0o644); err != nil {
		return nil, err
	}
	sum := map[string]bool{}
	for _, f := range []string{"go.sum", "filters/encrypt/go.sum"} {
		b, err := os.ReadFile(filepath.Join(repoDir, f))
		if err != nil {
			return nil, err
		}
		for _, l := range strings.Split(string(b), "\n") {
			if strings.TrimSpace(l) != "" {
				sum[l] = true
			}
		}
	}
	var lines []string
	for l := range sum {
		lines = append(lines, l)
	}
	sort.Strings(lines)
	if err := os.WriteFile(filepath.Join(h, "go.sum"), []byte(strings.Join(lines, "\n")+"\n"), 0o644); err != nil {
		return nil, err
	}
	patterns := []string{ModRoot + "/..."}
	if controlsDir != "" {
		if err := copyTree(controlsDir, filepath.Join(h, "controls")); err != nil {
			return nil, err
		}
		patterns = append(patterns, "harness/controls/...")
	} else {
		// the module needs at least one package importing the requirements
		_ = os.WriteFile(filepath.Join(h, "doc.go"), []byte("package harness\n"), 0o644)
	}
	env := []string{}
	for _, e := range os.Environ() {
		if strings.HasPrefix(e, "GOFLAGS=") || strings.HasPrefix(e, "GOWORK=") || strings.HasPrefix(e, "GOPROXY=") ||
			strings.HasPrefix(e, "GOSUMDB=") || strings.HasPrefix(e, "GOTOOLCHAIN=") {
			continue
		}
		env = append(env, e)
	}
	env = append(env, "GOFLAGS=-mod=mod", "GOWORK=off", "GOPROXY=off", "GOSUMDB=off", "GOTOOLCHAIN=local")
	cfg := &packages.Config{
		Mode:  packages.LoadAllSyntax,
		Dir:   h,
		Env:   env,
		Tests: false,
	}
	pkgs, err := packages.Load(cfg, patterns...)
	if err != nil {
		return nil, fmt.Errorf("packages.Load: %w", err)
	}
	p := &Prog{RepoDir: repoDir, WorkDir: workDir, Pkgs: map[string]*packages.Package{}, SSAPkgs: map[string]*ssa.Package{}}
	var errs []string
	for _, pk := range pkgs {
		for _, e := range pk.Errors {
			errs = append(errs, pk.PkgPath+": "+e.Error())
		}
		for _, e := range pk.TypeErrors {
			errs = append(errs, pk.PkgPath+": "+e.Error())
		}
		p.Pkgs[pk.PkgPath] = pk
		if p.Fset == nil {
			p.Fset = pk.Fset
		}
	}
	if len(errs) > 0 {
		return nil, fmt.Errorf("load/type errors:\n  %s", strings.Join(errs, "\n  "))
	}
	for _, want := range RepoPkgs {
		if p.Pkgs[want] == nil {
			return nil, fmt.Errorf("package %s did not load (got %d packages)", want, len(pkgs))
		}
	}
	p.NPkgs = len(pkgs)
	prog, spkgs := ssautil.AllPackages(pkgs, ssa.InstantiateGenerics)
	prog.Build()
	p.SSA = prog
	for i, pk := range pkgs {
		if spkgs[i] == nil {
			return nil, fmt.Errorf("no SSA for %s", pk.PkgPath)
		}
		p.SSAPkgs[pk.PkgPath] = spkgs[i]
	}
	// collect source functions of the analysed packages
	seen := map[*ssa.Function]bool{}
	var add func(f *ssa.Function)
	add = func(f *ssa.Function) {
		if f == nil || seen[f] || f.Blocks == nil {
			return
		}
		seen[f] = true
		p.Funcs = append(p.Funcs, f)
		for _, a := range f.AnonFuncs {
			add(a)
		}
	}
	for path, sp := range p.SSAPkgs {
		_ = path
		for _, m := range sp.Members {
			switch m := m.(type) {
			case *ssa.Function:
				add(m)
			case *ssa.Type:
				for _, t := range []types.Type{m.Type(), types.NewPointer(m.Type())} {
					ms := prog.MethodSets.MethodSet(t)
					for i := 0; i < ms.Len(); i++ {
						fn := prog.MethodValue(ms.At(i))
						if fn != nil && fn.Synthetic == "" && fn.Pkg == sp {
							add(fn)
						}
					}
				}
			}
		}
	}
	sort.Slice(p.Funcs, func(i, j int) bool { return p.FuncKey(p.Funcs[i]) < p.FuncKey(p.Funcs[j]) })
	p.closures = map[*ssa.Function]*ssa.MakeClosure{}
	for _, f := range p.Funcs {
		for _, b := range f.Blocks {
			for _, in := range b.Instrs {
				if mc, ok := in.(*ssa.MakeClosure); ok {
					p.closures[mc.Fn.(*ssa.Function)] = mc
				}
			}
		}
	}
	return p, nil
}

// InRepo reports whether fn belongs to one of the seven repository packages.
func (p *Prog) InRepo(fn *ssa.Function) bool {
	pk := fnPkg(fn)
	return pk != nil && strings.HasPrefix(pk.Pkg.Path(), ModRoot)
}

// InCtl reports whether fn belongs to a control package.
func (p *Prog) InCtl(fn *ssa.Function) bool {
	pk := fnPkg(fn)
	return pk != nil && strings.HasPrefix(pk.Pkg.Path(), PkgCtl)
}

func fnPkg(fn *ssa.Function) *ssa.Package {
	for fn != nil {
		if fn.Pkg != nil {
			return fn.Pkg
		}
		if fn.Parent() != nil {
			fn = fn.Parent()
			continue
		}
		if o := fn.Origin(); o != nil && o != fn {
			fn = o
			continue
		}
		return nil
	}
	return nil
}

// PkgPathOf returns the package path of fn ("" if synthetic without package).
func PkgPathOf(fn *ssa.Function) string {
	if pk := fnPkg(fn); pk != nil {
		return pk.Pkg.Path()
	}
	return ""
}

// FuncKey is a stable, line-free name for a function: pkg.(*T).m or pkg.f,
// anonymous functions as parent$k.
func (p *Prog) FuncKey(fn *ssa.Function) string {
	s := fn.String()
	s = strings.ReplaceAll(s, ModRoot+"/", "")
	s = strings.ReplaceAll(s, ModRoot, "eventlogger")
	return s
}

// ShortFn renders fn without the module prefix.
func (p *Prog) ShortFn(fn *ssa.Function) string { return p.FuncKey(fn) }

// Pos renders a position relative to the repository directory.
func (p *Prog) Pos(pos token.Pos) string {
	if !pos.IsValid() {
		return "?"
	}
	ps := p.Fset.Position(pos)
	f := ps.Filename
	if rel, err := filepath.Rel(p.RepoDir, f); err == nil && !strings.HasPrefix(rel, "..") {
		f = rel
	} else if i := strings.Index(f, "/harness/controls/"); i >= 0 {
		f = "controls/" + f[i+len("/harness/controls/"):]
	}
	return fmt.Sprintf("%s:%d", f, ps.Line)
}

// InstrPos finds a usable position for an instruction.
func (p *Prog) InstrPos(in ssa.Instruction) string {
	if in == nil {
		return "?"
	}
	if in.Pos().IsValid() {
		return p.Pos(in.Pos())
	}
	// fall back to the nearest instruction with a position in the block, then the function
	b := in.Block()
	if b != nil {
		for _, o := range b.Instrs {
			if o.Pos().IsValid() {
				return p.Pos(o.Pos())
			}
		}
	}
	if in.Parent() != nil {
		return p.Pos(in.Parent().Pos())
	}
	return "?"
}

// Func looks up a package-level function.
func (p *Prog) Func(pkg, name string) *ssa.Function {
	sp := p.SSAPkgs[pkg]
	if sp == nil {
		return nil
	}
	return sp.Func(name)
}

// Method looks up method name on named type typ of pkg (pointer or value receiver).
func (p *Prog) Method(pkg, typ, name string) *ssa.Function {
	sp := p.SSAPkgs[pkg]
	if sp == nil {
		return nil
	}
	obj := sp.Pkg.Scope().Lookup(typ)
	if obj == nil {
		return nil
	}
	for _, t := range []types.Type{types.NewPointer(obj.Type()), obj.Type()} {
		sel := p.SSA.MethodSets.MethodSet(t).Lookup(sp.Pkg, name)
		if sel != nil {
			if fn := p.SSA.MethodValue(sel); fn != nil && fn.Synthetic == "" {
				return fn
			}
		}
	}
	return nil
}

// Named returns the named type pkg.name.
func (p *Prog) Named(pkg, name string) *types.Named {
	sp := p.SSAPkgs[pkg]
	if sp == nil {
		return nil
	}
	obj := sp.Pkg.Scope().Lookup(name)
	if obj == nil {
		return nil
	}
	n, _ := obj.Type().(*types.Named)
	return n
}

// CG returns the CHA call graph (built on first use).
func (p *Prog) CG() *callgraph.Graph {
	if p.cg == nil {
		p.cg = cha.CallGraph(p.SSA)
	}
	return p.cg
}

// ClosureSite returns the MakeClosure instruction creating anonymous fn.
func (p *Prog) ClosureSite(fn *ssa.Function) *ssa.MakeClosure { return p.closures[fn] }

// AnonOf returns fn and all functions nested in it.
func AnonOf(fn *ssa.Function) []*ssa.Function {
	out := []*ssa.Function{fn}
	for _, a := range fn.AnonFuncs {
		out = append(out, AnonOf(a)...)
	}
	return out
}

// FuncsIn returns the source functions of the given package paths.
func (p *Prog) FuncsIn(pkgs ...string) []*ssa.Function {
	var out []*ssa.Function
	for _, f := range p.Funcs {
		pp := PkgPathOf(f)
		for _, w := range pkgs {
			if pp == w {
				out = append(out, f)
			}
		}
	}
	return out
}

// RepoFuncs returns every source function of the seven repository packages.
func (p *Prog) RepoFuncs() []*ssa.Function {
	var out []*ssa.Function
	for _, f := range p.Funcs {
		if p.InRepo(f) {
			out = append(out, f)
		}
	}
	return out
}
