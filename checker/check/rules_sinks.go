package check

import (
	"fmt"
	"go/constant"
	"go/token"
	"go/types"
	"strings"

	"golang.org/x/tools/go/ssa"
)

func init() {
	Register("C08", runC08)
	Register("C13", runC13)
	Register("C14", runC14)
	Register("C15", runC15)
}

// ---------------------------------------------------------------------------
// shared: the acknowledgement rule of a byte-writing sink

// ruleSinkAck: on every path of Process returning (nil, nil) that is not a
// declared special, exactly the bytes stored under the configured format (JSON
// when unset) are written once (or once more after a rewind) with the sink
// mutex held, and the last write's error was tested nil.
func (c *Ctx) ruleSinkAck(rule string, fn *ssa.Function, lockClass string, writerOK func(t *Term) bool, specials func(pa *Path) bool) {
	p, r := c.P, c.R
	must := c.MustLocks()
	paths := c.enum(rule, fn, PathOpts{Inline: inlineSmall("(*eventlogger.FileSink).open", "(*eventlogger.FileSink).rotate", "(*eventlogger.FileSink).reopen", "(*eventlogger.Event).Format")})
	nAck, nMissing, nFail := 0, 0, 0
	evParam := fmt.Sprintf("%d:%s", 2, fn.Params[2].Name())
	for _, pa := range paths {
		rv := pa.RetVals()
		if rv == nil {
			continue
		}
		if specials != nil && specials(pa) {
			continue
		}
		var writes []Step
		var format *ssa.Call
		var seeks []Step
		for _, s := range pa.CallsOn() {
			switch stepCallName(s) {
			case "(*bytes.Reader).WriteTo":
				writes = append(writes, s)
			case "(*eventlogger.Event).Format":
				format, _ = s.In.(*ssa.Call)
			case "(*bytes.Reader).Seek":
				seeks = append(seeks, s)
			}
		}
		success := isNilConst(rv[1])
		// `return nil, err` with err the (last) write's own error: success exactly when that write
		// succeeded; the write obligations apply, the explicit nil test is implied
		implied := false
		if !success && len(writes) > 0 {
			if ex, ok := rv[1].(*ssa.Extract); ok && ex.Index == 1 && ex.Tuple == writes[len(writes)-1].In.(ssa.Value) && isNilConst(rv[0]) {
				success, implied = true, true
			}
		}
		// no bytes for the format -> error
		if format != nil {
			if pol, found := hasAtom(pa, func(at Atom) bool {
				return at.Op == "true" && at.L.Op == "Extract" && at.L.Name == "1" && at.L.Args[0].V == ssa.Value(format)
			}); found && !pol {
				nMissing++
				if success || len(writes) > 0 {
					r.Bad(rule, p.ShortFn(fn)+":missing-format", p.InstrPos(pa.End), "an event without bytes for the configured format is acknowledged or written")
				}
				continue
			}
		}
		if !success {
			nFail++
			continue
		}
		if format == nil || len(writes) == 0 {
			r.Bad(rule, p.ShortFn(fn)+":ack-without-write", p.InstrPos(pa.End), "Process reports success on a path that never wrote the event: "+p.PathSummary(pa))
			continue
		}
		nAck++
		// format selection
		ftb := pa.TermsAt(pa.LastStep())
		fa := ftb.Of(format.Call.Args[1])
		emptyPol, emptyFound := hasAtom(pa, func(at Atom) bool { return at.Op == "eq" && at.L.Is("Field", "Format") && at.R.Is("Const", `""`) })
		okFmt := emptyFound && ((emptyPol && fa.Is("Const", `"json"`)) || (!emptyPol && fa.Is("Field", "Format"))) && ftb.Of(format.Call.Args[0]).IsParam(evParam)
		// cmp.Or(fs.Format, "json"): the first non-zero argument — the configured format, or JSON when it is empty
		if !okFmt && fa.Op == "Call" && strings.HasPrefix(fa.Name, "cmp.Or[") && len(fa.Args) == 1 && fa.Args[0].Op == "Varargs" && len(fa.Args[0].Args) == 2 &&
			fa.Args[0].Args[0].Is("Field", "Format") && fa.Args[0].Args[1].Is("Const", `"json"`) && ftb.Of(format.Call.Args[0]).IsParam(evParam) {
			okFmt = true
		}
		if !okFmt {
			r.Bad(rule, p.ShortFn(fn)+":format", p.InstrPos(format), "the bytes are looked up under "+fa.String()+"; expected the configured format, or JSON when it is empty, of the event being processed")
			continue
		}
		okW := true
		for i, w := range writes {
			wtb := pa.TermsAt(w)
			ci := w.In.(ssa.CallInstruction)
			rd := wtb.Of(ci.Common().Args[0])
			// reader over exactly the format's bytes
			if !(rd.Op == "Call" && rd.Name == "bytes.NewReader" && rd.Args[0].Op == "Extract" && rd.Args[0].Name == "0" && rd.Args[0].Args[0].V == ssa.Value(format)) {
				okW = false
				r.Bad(rule, p.ShortFn(fn)+":bytes", p.InstrPos(w.In), "the sink writes "+rd.String()+" instead of a reader over exactly the bytes stored for the format")
			}
			if !writerOK(wtb.Of(pa.Resolve(w, ci.Common().Args[1]))) {
				okW = false
				r.Bad(rule, p.ShortFn(fn)+":writer", p.InstrPos(w.In), "unexpected destination "+wtb.Of(pa.Resolve(w, ci.Common().Args[1])).String())
			}
			if must.At(w.In)[lockClass] != 'W' {
				okW = false
				r.Bad(rule, p.ShortFn(fn)+":write-under-lock", p.InstrPos(w.In), "the write happens without "+lockClass+" held for writing: concurrent Process calls can interleave their bytes")
			}
			if i > 0 {
				// a retry: the same reader must have been rewound to the start in between
				okSeek := false
				for _, sk := range seeks {
					if stepIndex(pa, sk.In) > stepIndex(pa, writes[i-1].In) && stepIndex(pa, sk.In) < stepIndex(pa, w.In) {
						a := sk.In.(ssa.CallInstruction).Common().Args
						off, _ := constInt(a[1])
						wh, _ := constInt(a[2])
						if off == 0 && wh == 0 && a[0] == ci.Common().Args[0] {
							okSeek = true
						}
					}
				}
				if !okSeek {
					okW = false
					r.Bad(rule, p.ShortFn(fn)+":retry-rewind", p.InstrPos(w.In), "the retry writes without rewinding the reader to the start: a truncated event would be acknowledged")
				}
			}
		}
		if len(writes) > 2 {
			okW = false
			r.Bad(rule, p.ShortFn(fn)+":write-count", p.InstrPos(pa.End), fmt.Sprintf("%d writes of one event on a path", len(writes)))
		}
		// the last write succeeded on this path
		last := writes[len(writes)-1].In.(ssa.Value)
		pol, found := hasAtom(pa, func(at Atom) bool {
			return at.Op == "eq" && at.L.Op == "Extract" && at.L.Name == "1" && at.L.Args[0].V == last && at.R.Is("Const", "nil")
		})
		direct := false
		if !found {
			// `return nil, err` of the last write: success iff err is nil, which the nil constant here excludes
			direct = false
		}
		if !(found && pol) && !direct && !implied {
			okW = false
			r.Bad(rule, p.ShortFn(fn)+":ack-after-failed-write", p.InstrPos(pa.End), "success is reported on a path that does not establish that the (last) write returned a nil error")
		}
		// an earlier write on a success path must have failed (otherwise the event is duplicated)
		for _, w := range writes[:len(writes)-1] {
			pol, found := hasAtom(pa, func(at Atom) bool {
				return at.Op == "eq" && at.L.Op == "Extract" && at.L.Name == "1" && at.L.Args[0].V == w.In.(ssa.Value) && at.R.Is("Const", "nil")
			})
			if !found || pol {
				okW = false
				r.Bad(rule, p.ShortFn(fn)+":duplicate-write", p.InstrPos(w.In), "a second write happens although the first one succeeded: the event would be duplicated")
			}
		}
		if okW {
			r.Ok(rule, p.ShortFn(fn)+":ack", p.InstrPos(pa.End), "success only after writing exactly Format(configured or json) bytes once under the sink mutex, the write's error tested nil")
		}
	}
	// the retry path returns the second write's error itself
	for _, pa := range paths {
		rv := pa.RetVals()
		if rv == nil || isNilConst(rv[1]) {
			continue
		}
		n := 0
		var lastW ssa.Value
		for _, s := range pa.CallsOn() {
			if stepCallName(s) == "(*bytes.Reader).WriteTo" {
				n++
				lastW = s.In.(ssa.Value)
			}
		}
		if n == 2 {
			t := pa.TermsAt(pa.LastStep()).Of(rv[1])
			var carries func(t *Term) bool
			carries = func(t *Term) bool {
				if t == nil {
					return false
				}
				if t.Op == "Extract" && t.Name == "1" && len(t.Args) > 0 && t.Args[0].V == lastW {
					return true
				}
				for _, a := range t.Args {
					if carries(a) {
						return true
					}
				}
				return false
			}
			// (the retry's error itself, or an error built around it)
			if !carries(t) {
				r.Bad(rule, p.ShortFn(fn)+":retry-result", p.InstrPos(pa.End), "after the retry the error returned is not the retry's own error")
			}
		}
	}
	if nAck == 0 || nMissing == 0 || nFail == 0 {
		r.Und(rule, p.ShortFn(fn)+":rows", p.Pos(fn.Pos()), fmt.Sprintf("acknowledging=%d missing-format=%d failing=%d paths; all three kinds expected", nAck, nMissing, nFail))
	}
}

// ---------------------------------------------------------------------------

func fileSinkWriter(t *Term) bool {
	s := t.String()
	return s == "Load(Global(os.Stdout))" || s == "Load(Global(os.Stderr))" || s == "Field[f](Param(0:fs))"
}

func fileSinkSpecial(pa *Path) bool {
	// /dev/null: (nil, nil) without touching anything
	pol, found := hasAtom(pa, func(at Atom) bool {
		return at.Op == "eq" && at.L.Is("Field", "Path") && at.R.Is("Const", `"/dev/null"`)
	})
	return found && pol
}

func runC08(c *Ctx) {
	p, r := c.P, c.R
	r.Explanation = "Decides only the structural premises of 'FileSink never loses, duplicates, reorders or tears an acknowledged event': f / BytesWritten / LastCreated are accessed only with FileSink.l held (pairwise lock-set discipline; open, rotate, reopen and pruneFiles are entered only with the lock held) and rotation and the write lie in one critical section; every file open of the sink is os.OpenFile with constant flags containing O_APPEND|O_CREATE|O_WRONLY and no O_TRUNC, and no os.Create / WriteFile / Truncate exists; success is acknowledged only after a write of exactly the event's bytes whose error was tested nil, the retry rewinds the same reader, and a second write only follows a failed first one; the destination is an *os.File (no buffering layer between acknowledgement and write(2)); os.Remove occurs only in pruning on elements of the sink's own glob, os.Rename only in rotation after the file was closed; pruning stops at the first file it cannot remove (so an older file never survives a newer one that was removed). C08.partial: a retry that writes the whole event again must have looked at how many bytes the failed attempt wrote (known finding F31: it does not — a partial first write leaves a fragment). C08.reopen: the exported Reopen always runs reopen() for a real file, and a successful reopen() ends in open() after closing a handle it still held (an external rename followed by Reopen moves the sink to the file now at the configured path). Crash atomicity, ordering across files and the retention-suffix clause are file-system / runtime behaviour and are not decided. C08.ack format-bytes-readonly: the bytes Event.Format handed out are only read — no store, copy into or append onto a re-slice of them. C08.recover: a recovered panic reaches the error result (a recovering deferred function with unnamed results makes Process acknowledge)."
	r.NotDecided = []string{"crash points (whole events after a kill)", "ordering across rotated files", "retention leaving a suffix", "what the file system does with an external rename while the file is open (only the Reopen path is decided)"}
	c.lockControls()
	must := c.MustLocks()
	// --- C08.retention (structural half of "what remains is a suffix"): pruning walks the sorted
	// matches oldest first and STOPS at the first file it cannot remove — carrying on would delete
	// newer files behind an older one that stays
	if fn := c.Fn("C08.retention", PkgRoot, "FileSink", "pruneFiles"); fn != nil {
		c.errorFlowRule("C08.retention", fn, fileSinkErrExceptions, false)
		c.ruleReadDirClassified("C08.retention")
		c.ruleRecoverResults("C08.recover", []string{PkgRoot}, false)
		c.ruleRotatedNameAs("C08.names")
	}
	c.rulePartialWrite()
	c.ruleFileReopen("C08.reopen")
	c.ruleFormattedBytesPrivate("C08.bytes")
	// --- C08.lock
	n := c.guardRule("C08.lock", []string{"eventlogger.FileSink"}, nil, false)
	if n < 3 {
		r.Und("C08.lock", "instance-floor", "", fmt.Sprintf("only %d written fields (f, BytesWritten, LastCreated expected)", n))
	}
	for _, name := range []string{"open", "rotate", "reopen", "pruneFiles"} {
		if fn := c.Fn("C08.lock", PkgRoot, "FileSink", name); fn != nil {
			_, held := must.Entry[fn]["eventlogger.FileSink.l"]
			r.Check(held, "C08.lock", "(*FileSink)."+name+":entry", p.Pos(fn.Pos()), "entered only with FileSink.l held (intersection over all call sites)", "helper "+name+" can be entered without FileSink.l held")
		}
	}
	proc := c.Fn("C08.anchor", PkgRoot, "FileSink", "Process")
	if proc == nil {
		return
	}
	// one critical section: exactly one acquisition in Process, covering rotate and the writes
	acq := 0
	eachInstr(proc, func(in ssa.Instruction) {
		if ci, ok := in.(*ssa.Call); ok {
			if op := lockOpOf(&ci.Call); op != nil && op.Acquire && op.Class == "eventlogger.FileSink.l" {
				acq++
			}
		}
	})
	okSec := acq == 1
	for _, ci := range callsTo(proc, func(n string, cc *ssa.CallCommon) bool {
		return n == "(*eventlogger.FileSink).rotate" || n == "(*eventlogger.FileSink).open" || n == "(*eventlogger.FileSink).reopen" || n == "(*bytes.Reader).WriteTo"
	}) {
		if must.At(ci)["eventlogger.FileSink.l"] != 'W' {
			okSec = false
		}
	}
	r.Check(okSec, "C08.lock", "(*FileSink).Process:one-section", p.Pos(proc.Pos()), "open/rotate/reopen and the writes lie in one critical section (single acquisition, released only on return)", "rotation and the write are not inside one critical section of FileSink.l")

	// --- C08.append
	nOpen := 0
	for _, f := range p.FuncsIn(PkgRoot) {
		eachInstr(f, func(in ssa.Instruction) {
			ci, ok := in.(ssa.CallInstruction)
			if !ok {
				return
			}
			name := calleeName(ci.Common())
			switch name {
			case "os.Create", "os.WriteFile", "os.Truncate", "(*os.File).Truncate", "io/ioutil.WriteFile":
				r.Bad("C08.append", p.ShortFn(f)+"->"+name, p.InstrPos(in), "a truncating / replacing file operation in the sink package: acknowledged events could be overwritten")
			case "os.OpenFile":
				nOpen++
				fl, isC := constInt(ci.Common().Args[1])
				want := int64(c.osConst("O_APPEND") | c.osConst("O_CREATE") | c.osConst("O_WRONLY"))
				bad := int64(c.osConst("O_TRUNC"))
				r.Check(isC && fl&want == want && fl&bad == 0, "C08.append", p.ShortFn(f)+"->os.OpenFile", p.InstrPos(in),
					"opened with constant flags O_APPEND|O_CREATE|O_WRONLY and without O_TRUNC", fmt.Sprintf("the sink's file is opened with flags %#x (constant=%v): O_APPEND|O_CREATE|O_WRONLY required, O_TRUNC forbidden", fl, isC))
			case "os.Open":
				r.Bad("C08.append", p.ShortFn(f)+"->os.Open", p.InstrPos(in), "file opened read-only in the sink package")
			}
		})
	}
	if nOpen == 0 {
		r.Und("C08.append", "instance-floor", "", "no os.OpenFile found")
	}

	// --- C08.ack (shared with C13.file)
	c.ruleSinkAck("C08.ack", proc, "eventlogger.FileSink.l", fileSinkWriter, fileSinkSpecial)

	// --- C08.direct
	okDirect := true
	for _, ci := range callsTo(proc, func(n string, cc *ssa.CallCommon) bool { return n == "(*bytes.Reader).WriteTo" }) {
		w := stripConv(ci.Common().Args[1])
		switch typeShort(w.Type()) {
		case "os.File":
		default:
			// an io.Writer variable: every value stored into it must be an *os.File
			if al, ok := w.(*ssa.UnOp); ok {
				if cell, ok := al.X.(*ssa.Alloc); ok {
					for _, ref := range nonDebugRefs(cell) {
						if st, ok := ref.(*ssa.Store); ok && st.Addr == ssa.Value(cell) {
							if typeShort(stripConv(st.Val).Type()) != "os.File" {
								okDirect = false
							}
						}
					}
					continue
				}
			}
			if ph, ok := w.(*ssa.Phi); ok {
				for _, e := range ph.Edges {
					if typeShort(stripConv(e).Type()) != "os.File" {
						okDirect = false
					}
				}
				continue
			}
			okDirect = false
		}
	}
	r.Check(okDirect, "C08.direct", "(*FileSink).Process:destination", p.Pos(proc.Pos()), "every destination of the write is an *os.File (no buffering layer)", "the write goes through something other than an *os.File: bytes may still be buffered when success is acknowledged")

	// --- C08.names
	tb := p.NewTerms(nil)
	nRem, nRen := 0, 0
	for _, f := range p.FuncsIn(PkgRoot) {
		eachInstr(f, func(in ssa.Instruction) {
			ci, ok := in.(ssa.CallInstruction)
			if !ok {
				return
			}
			switch calleeName(ci.Common()) {
			case "os.Remove", "os.RemoveAll":
				nRem++
				a := tb.Of(ci.Common().Args[0])
				okR := f.Name() == "pruneFiles" && calleeName(ci.Common()) == "os.Remove" && a.Op == "Index" && fromGlob(tb, ci.Common().Args[0])
				r.Check(okR, "C08.names", p.ShortFn(f)+"->os.Remove", p.InstrPos(in), "only elements of the sink's own glob are removed, only in pruning", "a file is removed outside pruning or not taken from the sink's own glob: "+a.String())
			case "os.Rename":
				nRen++
				cl := callsTo(f, func(n string, cc *ssa.CallCommon) bool { return n == "(*os.File).Close" })
				okN := f.Name() == "rotate" && len(cl) == 1 && dominatesInstr(cl[0], in)
				r.Check(okN, "C08.names", p.ShortFn(f)+"->os.Rename", p.InstrPos(in), "rename only in rotation, after the file was closed", "os.Rename outside rotation or before the active file was closed")
			}
		})
	}
	if nRem == 0 || nRen == 0 {
		r.Und("C08.names", "instance-floor", "", "os.Remove / os.Rename sites not found")
	}
	c.ruleRenameTarget("C08.names")
	c.ruleFormatBytesReadOnly("C08.ack")
	c.rulePruneHandleClosed("C08.names")
	// the candidates come from the sink's own directory: a listing of fs.Path (the names are
	// then filtered by C15.prune own-names), or a glob Join(Path, Sprintf(fileNamePattern(), "*"))
	if pf := c.Fn("C08.names", PkgRoot, "FileSink", "pruneFiles"); pf != nil {
		g := callsTo(pf, func(n string, cc *ssa.CallCommon) bool { return n == "path/filepath.Glob" })
		rd := callsTo(pf, func(n string, cc *ssa.CallCommon) bool { return n == "os.ReadDir" })
		ok := false
		switch {
		case len(g) == 1 && len(rd) == 0:
			t := tb.Of(g[0].Common().Args[0])
			ok = t.Op == "Call" && t.Name == "path/filepath.Join" && strings.Contains(t.String(), "Field[Path](Param(0:fs))") && strings.Contains(t.String(), "(*eventlogger.FileSink).fileNamePattern") && strings.Contains(t.String(), `Const("*")`)
		case len(g) == 0 && len(rd) == 1:
			ok = isSinkDir(tb.Of(rd[0].Common().Args[0]))
		}
		r.Check(ok, "C08.names", "pruneFiles:listing", p.Pos(pf.Pos()), "the removal candidates are looked up in the sink's own directory (os.ReadDir(fs.Path), or a glob of fs.Path and the file name pattern)", "the pruning candidates are not taken from a listing of the sink's own directory fs.Path (or a glob built from the sink's path and file name pattern)")
	}
}

// osConst returns the value of an os package constant (O_APPEND ...).
func (c *Ctx) osConst(name string) int {
	for _, pk := range c.P.SSA.AllPackages() {
		if pk.Pkg.Path() == "os" {
			if k := pk.Const(name); k != nil {
				return int(k.Value.Int64())
			}
		}
	}
	return 0
}

// ---------------------------------------------------------------------------

// rulePruneHandleClosed (C08.names / C13.file pruneFiles:handle-closed): pruning cannot tell
// the active file from a rotated one, so it runs only between the Close and the open of a rotation.
func (c *Ctx) rulePruneHandleClosed(rule string) {
	p, r := c.P, c.R
	// pruning cannot tell the active file from a rotated one (with timestamped names both match
	// <base>-<digits><ext>): wherever it is called the sink certainly holds no open file — on every
	// path to the call the last thing that happened to FileSink.f is its Close / the store of nil /
	// a test that found it nil, and nothing that may open a file since. Behind an open() the file
	// being written counts against MaxFiles and can be the one that is removed.
	pf := c.Fn(rule, PkgRoot, "FileSink", "pruneFiles")
	if pf == nil {
		return
	}
	isF := func(v ssa.Value) bool {
		fa, ok := v.(*ssa.FieldAddr)
		return ok && typeShort(fa.X.Type()) == "eventlogger.FileSink" && fieldName(fa) == "f"
	}
	isFLoad := func(v ssa.Value) bool {
		ld, ok := v.(*ssa.UnOp)
		return ok && ld.Op == token.MUL && isF(ld.X)
	}
	mayOpenMemo := map[*ssa.Function]int{}
	var mayOpen func(fn *ssa.Function) bool
	mayOpen = func(fn *ssa.Function) bool {
		if v, ok := mayOpenMemo[fn]; ok {
			return v == 1
		}
		mayOpenMemo[fn] = 0
		res := false
		eachInstr(fn, func(in ssa.Instruction) {
			switch x := in.(type) {
			case *ssa.Store:
				if isF(x.Addr) && !isNilConst(x.Val) {
					res = true
				}
			case ssa.CallInstruction:
				if sc := x.Common().StaticCallee(); sc != nil && sc.Blocks != nil && p.InRepo(sc) && mayOpen(sc) {
					res = true
				}
			}
		})
		if res {
			mayOpenMemo[fn] = 1
		}
		return res
	}
	// closedAt: the must-state "no open handle" just before instruction at in f
	var closedAt func(f *ssa.Function, at ssa.Instruction, depth int) bool
	closedAt = func(f *ssa.Function, at ssa.Instruction, depth int) bool {
		entry := false
		if depth < 3 && f.Parent() == nil && f.Object() != nil && !f.Object().Exported() {
			// an internal helper: what its callers established
			nSites := 0
			all := true
			for _, g := range p.FuncsIn(PkgRoot) {
				for _, ci := range callsTo(g, func(n string, cc *ssa.CallCommon) bool { return cc.StaticCallee() == f }) {
					nSites++
					if g == f || !closedAt(g, ci, depth+1) {
						all = false
					}
				}
			}
			entry = nSites > 0 && all
		}
		transfer := func(st bool, in ssa.Instruction) bool {
			switch x := in.(type) {
			case *ssa.Store:
				if isF(x.Addr) {
					return isNilConst(x.Val)
				}
			case ssa.CallInstruction:
				cc := x.Common()
				if calleeName(cc) == "(*os.File).Close" && len(cc.Args) > 0 && isFLoad(cc.Args[0]) {
					return true
				}
				if sc := cc.StaticCallee(); sc != nil && sc.Blocks != nil && p.InRepo(sc) && mayOpen(sc) {
					return false
				}
			}
			return st
		}
		in := map[*ssa.BasicBlock]bool{}
		out := map[*ssa.BasicBlock]bool{}
		for _, b := range f.Blocks {
			in[b], out[b] = true, true
		}
		edge := func(from, to *ssa.BasicBlock) bool {
			st := out[from]
			cond, t, fb := condOf(from)
			if bo, ok := cond.(*ssa.BinOp); ok && (bo.Op == token.EQL || bo.Op == token.NEQ) {
				x, y := bo.X, bo.Y
				if isNilConst(x) {
					x, y = y, x
				}
				if isNilConst(y) && isFLoad(x) && t != fb {
					if (bo.Op == token.EQL && to == t) || (bo.Op == token.NEQ && to == fb) {
						return true
					}
				}
			}
			return st
		}
		for changed, iter := true, 0; changed && iter < 64; iter++ {
			changed = false
			for _, b := range f.Blocks {
				st := true
				if b == f.Blocks[0] {
					st = entry
				}
				for _, pr := range b.Preds {
					if !edge(pr, b) {
						st = false
					}
				}
				if b != f.Blocks[0] && len(b.Preds) == 0 {
					st = false
				}
				o := st
				for _, x := range b.Instrs {
					o = transfer(o, x)
				}
				if st != in[b] || o != out[b] {
					in[b], out[b] = st, o
					changed = true
				}
			}
		}
		st := in[at.Block()]
		for _, x := range at.Block().Instrs {
			if x == at {
				break
			}
			st = transfer(st, x)
		}
		return st
	}
	nCallers := 0
	for _, f := range p.FuncsIn(PkgRoot) {
		for _, ci := range callsTo(f, func(n string, cc *ssa.CallCommon) bool { return cc.StaticCallee() == pf }) {
			nCallers++
			r.Check(closedAt(f, ci, 0), rule, p.ShortFn(f)+"->pruneFiles:handle-closed", p.InstrPos(ci), "pruning runs where the sink certainly holds no open file (after Close / f = nil, before anything that opens): the active file is not among the candidates", "pruneFiles is called where a file may be open (no Close / nil handle on every path to the call, or behind an open()): with timestamped names the file being written matches the rotated-file pattern, takes one of the MaxFiles slots and can itself be removed — events acknowledged afterwards are in no file")
		}
	}
	if nCallers == 0 {
		r.Und(rule, "pruneFiles:callers", "", "no caller of pruneFiles found")
	}
}

func runC13(c *Ctx) {
	p, r := c.P, c.R
	r.Explanation = "Decides on every path of the three stock sinks: writer.Sink and FileSink acknowledge (nil, nil) only after writing a reader over exactly the bytes Event.Format returned for the configured format (JSON when unset), once — or once more after rewinding the same reader when the first write failed — with the sink mutex held for writing, with the (last) write's error tested nil; a missing format or a failing write is an error; FileSink's /dev/null returns (nil, nil) without touching a file and stdout/stderr select os.Stdout/os.Stderr; ChannelSink.Process is one blocking select with exactly three arms — send of the very event parameter on the sink's channel -> (nil, nil), <-ctx.Done() -> (nil, ctx.Err()), <-time.After(timeout) -> (nil, non-nil) — no default and no other blocking instruction. Behaviour of the supplied io.Writer and real-time bounds are not decided. C13.ctor: NewChannelSink stores exactly its arguments after both guards. C13.format Format:reads-table: Event.Format answers from the format table itself, under Event.l. C13.recover: a recovered panic of a Writer reaches the error result. C13.file handle-closed: pruneFiles only where no path leaves a file open. C13.file nil-handle: the handle is dereferenced only where found non-nil. C13.format: no stored entry is rewritten in place. C13.format format-bytes-readonly: no sink writes through the bytes Event.Format handed out."
	r.NotDecided = []string{"behaviour of user-supplied io.Writers (short writes, buffering)", "real-time bounds of the timeout"}
	c.lockControls()
	// --- C13.writer
	if fn := c.Fn("C13.writer", PkgWriter, "Sink", "Process"); fn != nil {
		c.ruleSinkAck("C13.writer", fn, "writer.Sink.l", func(t *Term) bool { return t.String() == "Field[Writer](Param(0:fs))" }, nil)
		c.eNilRule("C13.writer", fn, false)
	}
	// --- C13.file
	c.ruleFormatFromTable("C13.format")
	// "exactly the bytes stored": a sink writes the slice Format handed it after it released the event's lock —
	// nothing rewrites a stored entry in place (C14.table / C19.table under C13)
	c.ruleFormatTableWrites("C13.format")
	c.ruleFormatBytesReadOnly("C13.format")
	c.ruleRecoverResults("C13.recover", []string{PkgRoot, PkgWriter, PkgChannel}, false)
	if fn := c.Fn("C13.file", PkgRoot, "FileSink", "Process"); fn != nil {
		c.ruleSinkAck("C13.file", fn, "eventlogger.FileSink.l", fileSinkWriter, fileSinkSpecial)
		// an acknowledged write must be in a file that stays below Path: pruning never runs while the
		// file being written is open (it matches the rotated-name pattern and could be the one removed)
		c.rulePruneHandleClosed("C13.file")
		// "returns an error instead when the underlying write fails": the retry on the stdout / stderr specials
		// writes to the sink's nil handle and relies on *os.File refusing that with an error — a handle that is
		// dereferenced where it may be nil (any use of an interface-typed handle) panics instead
		c.ruleNilHandle("C13.file")
		c.eNilRule("C13.file", fn, false)
		// specials
		nNull := 0
		for _, pa := range c.enum("C13.file", fn, PathOpts{Inline: inlineSmall("(*eventlogger.FileSink).open", "(*eventlogger.FileSink).rotate", "(*eventlogger.FileSink).reopen", "(*eventlogger.Event).Format")}) {
			rv := pa.RetVals()
			if rv == nil {
				continue
			}
			if fileSinkSpecial(pa) {
				nNull++
				okN := isNilConst(rv[0]) && isNilConst(rv[1]) && len(pa.CallsOn()) == 0
				r.Check(okN, "C13.file", "(*FileSink).Process:/dev/null", p.InstrPos(pa.End), "/dev/null: (nil, nil) without any call", "/dev/null is not a pure pass-through")
				continue
			}
			// destination per path
			for _, s := range pa.CallsOn() {
				if stepCallName(s) != "(*bytes.Reader).WriteTo" {
					continue
				}
				dst := pa.TermsAt(s).Of(pa.Resolve(s, s.In.(ssa.CallInstruction).Common().Args[1])).String()
				want := "Field[f](Param(0:fs))"
				if pol, found := hasAtom(pa, func(at Atom) bool {
					return at.Op == "eq" && at.L.Is("Field", "Path") && at.R.Is("Const", `"/dev/stdout"`)
				}); found && pol {
					want = "Load(Global(os.Stdout))"
				}
				if pol, found := hasAtom(pa, func(at Atom) bool {
					return at.Op == "eq" && at.L.Is("Field", "Path") && at.R.Is("Const", `"/dev/stderr"`)
				}); found && pol {
					want = "Load(Global(os.Stderr))"
				}
				// the retry after a failed write always goes to the file
				first := true
				for _, s2 := range pa.CallsOn() {
					if stepCallName(s2) == "(*bytes.Reader).WriteTo" && stepIndex(pa, s2.In) < stepIndex(pa, s.In) {
						first = false
					}
				}
				if !first {
					want = "Field[f](Param(0:fs))"
				}
				r.Check(dst == want, "C13.file", "(*FileSink).Process:destination", p.InstrPos(s.In), "stdout/stderr paths write to os.Stdout/os.Stderr, everything else to the sink's file", "the write goes to "+dst+", expected "+want)
			}
		}
		if nNull == 0 {
			r.Und("C13.file", "(*FileSink).Process:/dev/null", p.Pos(fn.Pos()), "no /dev/null path")
		}
		// the main success path counts the bytes written
		okCount := false
		tb := p.NewTerms(nil)
		eachInstr(fn, func(in ssa.Instruction) {
			if st, ok := in.(*ssa.Store); ok {
				at, vt := tb.Of(st.Addr), tb.Of(st.Val)
				if b, ok := at.IsFieldAddr("BytesWritten"); ok && b.IsParam("0:fs") && vt.Op == "Bin" && vt.Name == "+" && vt.Args[0].Is("Field", "BytesWritten") && isWriteCount(vt.Args[1]) {
					okCount = true
				}
			}
			// ... or through the sink's counting helper, handed the count of the write
			if ci, ok := in.(*ssa.Call); ok && countingHelper(ci.Call.StaticCallee()) && len(ci.Call.Args) == 2 {
				if a := tb.Of(ci.Call.Args[1]); tb.Of(ci.Call.Args[0]).IsParam("0:fs") && a.Op == "Extract" && a.Name == "0" && a.Args[0].Name == "(*bytes.Reader).WriteTo" {
					okCount = true
				}
			}
		})
		r.Check(okCount, "C15.count", "(*FileSink).Process:count", p.Pos(fn.Pos()), "BytesWritten += n of the successful write", "the successful write's byte count is not added to BytesWritten (size-based rotation would never trigger)")
	}
	c.ruleChannelCtor()
	// --- C13.chan
	if fn := c.Fn("C13.chan", PkgChannel, "ChannelSink", "Process"); fn != nil {
		tb := p.NewTerms(nil)
		var sels []*ssa.Select
		nBlock := 0
		eachInstr(fn, func(in ssa.Instruction) {
			if s, ok := in.(*ssa.Select); ok {
				sels = append(sels, s)
			}
			if what, ok := isBlocking(in); ok && what != "call time.After" {
				nBlock++
			}
		})
		if len(sels) != 1 || nBlock != 1 {
			r.Bad("C13.chan", "ChannelSink.Process:select", p.Pos(fn.Pos()), fmt.Sprintf("%d selects and %d blocking instructions (expected exactly one blocking select)", len(sels), nBlock))
		} else {
			sel := sels[0]
			ok := sel.Blocking && len(sel.States) == 3
			kinds := map[string]int{}
			idxOf := map[string]int{}
			for i, st := range sel.States {
				ch := tb.Of(st.Chan)
				switch {
				case st.Dir == types.SendOnly && ch.String() == "Field[eventChan](Param(0:c))" && tb.Of(st.Send).IsParam("2:e"):
					kinds["send"]++
					idxOf["send"] = i
				case st.Dir == types.RecvOnly && ch.String() == "Call[invoke context.Context.Done](Param(1:ctx))":
					kinds["done"]++
					idxOf["done"] = i
				case st.Dir == types.RecvOnly && (ch.String() == "Call[time.After](Field[timeoutDuration](Param(0:c)))" ||
					// ... or the channel of a timer made for this call: time.NewTimer(c.timeoutDuration).C
					ch.String() == "Field[C](Call[time.NewTimer](Field[timeoutDuration](Param(0:c))))"):
					kinds["timeout"]++
					idxOf["timeout"] = i
				default:
					ok = false
				}
			}
			ok = ok && kinds["send"] == 1 && kinds["done"] == 1 && kinds["timeout"] == 1
			r.Check(ok, "C13.chan", "ChannelSink.Process:select", p.InstrPos(sel), "one blocking select {eventChan <- e, <-ctx.Done(), <-time.After(timeoutDuration)}, no default", "the select is not exactly {send of the event parameter on the sink's channel, <-ctx.Done(), <-time.After(timeoutDuration)} (blocking)")
			if ok {
				for _, pa := range c.enum("C13.chan", fn, PathOpts{}) {
					rv := pa.RetVals()
					if rv == nil {
						continue
					}
					arm := ""
					for _, at := range pa.Atoms {
						if at.Op == "eq" && !at.Neg && at.L.Op == "Extract" && at.L.Name == "0" && at.L.Args[0].V == ssa.Value(sel) {
							for k, i := range idxOf {
								if at.R.Name == fmt.Sprint(i) {
									arm = k
								}
							}
						}
					}
					// the last arm is reached by exclusion
					if arm == "" {
						neg := map[string]bool{}
						for _, at := range pa.Atoms {
							if at.Op == "eq" && at.Neg && at.L.Op == "Extract" && at.L.Name == "0" && at.L.Args[0].V == ssa.Value(sel) {
								neg[at.R.Name] = true
							}
						}
						for k, i := range idxOf {
							if !neg[fmt.Sprint(i)] {
								arm = k
							}
						}
					}
					ltb := pa.TermsAt(pa.LastStep())
					et := ltb.Of(rv[1])
					r.TableRows++
					switch arm {
					case "send":
						r.Check(isNilConst(rv[0]) && isNilConst(rv[1]), "C13.chan", "ChannelSink.Process:sent", p.InstrPos(pa.End), "event handed over: (nil, nil)", "a delivered event does not return (nil, nil)")
					case "done":
						r.Check(isNilConst(rv[0]) && et.String() == "Call[invoke context.Context.Err](Param(1:ctx))", "C13.chan", "ChannelSink.Process:cancelled", p.InstrPos(pa.End), "context done: (nil, ctx.Err())", "a done context does not return (nil, ctx.Err()): "+et.String())
					case "timeout":
						r.Check(isNilConst(rv[0]) && !isNilConst(rv[1]) && et.Op == "Call", "C13.chan", "ChannelSink.Process:timeout", p.InstrPos(pa.End), "timeout: (nil, non-nil error)", "the timeout arm does not return an error")
					default:
						r.Und("C13.chan", "ChannelSink.Process:arm", p.InstrPos(pa.End), "cannot identify the select arm of a path")
					}
				}
			}
		}
		// the constructor rejects nil channels and non-positive timeouts
		if nc := c.Fn("C13.chan", PkgChannel, "", "NewChannelSink"); nc != nil {
			okNew := false
			for _, pa := range c.enum("C13.chan", nc, PathOpts{}) {
				rv := pa.RetVals()
				if rv == nil || isNilConst(rv[0]) {
					continue
				}
				nn, f1 := hasAtom(pa, func(at Atom) bool { return at.Op == "eq" && at.L.IsParam("0:c") && at.R.Is("Const", "nil") })
				pos, f2 := hasAtom(pa, func(at Atom) bool { return at.Op == "lt" && at.L.Is("Const", "0") && at.R.IsParam("1:t") })
				if f1 && !nn && f2 && pos {
					okNew = true
				} else {
					okNew = false
					r.Bad("C13.chan", "NewChannelSink", p.InstrPos(pa.End), "a sink is constructed without establishing a non-nil channel and a positive timeout")
				}
			}
			if okNew {
				r.Ok("C13.chan", "NewChannelSink", p.Pos(nc.Pos()), "constructed only with a non-nil channel and a positive timeout")
			}
		}
	}
}

// ---------------------------------------------------------------------------

func runC14(c *Ctx) {
	p, r := c.P, c.R
	r.Explanation = "Decides, for both JSON formatters (sibling implementations that must agree): the value encoded is a struct whose JSON members are exactly created_at, event_type and payload, filled from e.CreatedAt, e.Type and e.Payload; a json.Encoder over the formatter's own buffer is used (newline-terminated output) and FormattedAs(\"json\", buf.Bytes()) happens only on the err == nil edge of Encode, an encoding error yields (nil, err); no field of the event is assigned; JSONFormatterFilter forwards its event parameter iff the predicate is nil or returned (true, nil), (nil, nil) iff false, (nil, err) on error, and Filter likewise without the nil case; Event.Formatted is accessed only inside FormattedAs (under Event.l for writing) and Format (under Event.l for reading) or through freshly allocated events. JSON round-trip faithfulness for exotic payloads is encoding/json semantics and is not decided. C14.pred call: a stock node calls a func-typed configuration field only where it was found non-nil. C14.errors looks into a repository helper the encode failure is handed to: the helper must return a non-nil error whenever it is given one. C14.table pairing: every section of Event.l is released on every path. C14.table Format:reads-table: see C13.format. C14.recover: recover discipline over the root package. C14.guard: lock discipline over every field of Event. C14.store encoded-bytes-readonly: nothing writes through the encoder's buf.Bytes() (here or in a helper it is handed to) before FormattedAs stores it."
	r.NotDecided = []string{"round-trip faithfulness of encoding/json for arbitrary payloads (A4)"}
	c.lockControls()
	tb := p.NewTerms(nil)
	var shapes []string
	for _, recv := range []string{"JSONFormatter", "JSONFormatterFilter"} {
		fn := c.Fn("C14.struct", PkgRoot, recv, "Process")
		if fn == nil {
			continue
		}
		// the encoding may live in Process itself or in one package-local helper it calls
		encFn := fn
		var helperCall *ssa.Call
		encs := callsTo(fn, func(n string, cc *ssa.CallCommon) bool { return n == "(*encoding/json.Encoder).Encode" })
		if len(encs) == 0 {
			for _, ci := range callsTo(fn, func(n string, cc *ssa.CallCommon) bool {
				sc := cc.StaticCallee()
				return sc != nil && PkgPathOf(sc) == PkgRoot && sc.Blocks != nil && len(callsTo(sc, func(n2 string, _ *ssa.CallCommon) bool { return n2 == "(*encoding/json.Encoder).Encode" })) > 0
			}) {
				if call, ok := ci.(*ssa.Call); ok && helperCall == nil {
					helperCall = call
					encFn = call.Call.StaticCallee()
					encs = callsTo(encFn, func(n string, cc *ssa.CallCommon) bool { return n == "(*encoding/json.Encoder).Encode" })
				}
			}
		}
		if len(encs) != 1 {
			r.Bad("C14.struct", recv+":encode", p.Pos(fn.Pos()), fmt.Sprintf("%d Encode calls (expected one json.Encoder.Encode, in Process or in one helper it calls; json.Marshal would drop the trailing newline)", len(encs)))
			continue
		}
		r.SawFn(p.ShortFn(encFn))
		// the event as seen by the encoding function
		evParam := ""
		for i, prm := range encFn.Params {
			if typeShort(prm.Type()) == "eventlogger.Event" {
				evParam = fmt.Sprintf("Param(%d:%s)", i, prm.Name())
			}
		}
		if helperCall != nil {
			// the helper must be handed Process's own event
			okArg := false
			for _, a := range helperCall.Call.Args {
				if tb.Of(a).IsParam("2:e") {
					okArg = true
				}
			}
			if !okArg {
				r.Bad("C14.struct", recv+":helper-arg", p.InstrPos(helperCall), "the encoding helper is not given the event being processed")
				continue
			}
		}
		enc := encs[0].(*ssa.Call)
		arg := stripConv(enc.Call.Args[1])
		st, isStruct := arg.Type().Underlying().(*types.Struct)
		if !isStruct {
			r.Bad("C14.struct", recv+":value", p.InstrPos(enc), "the encoded value is not a struct")
			continue
		}
		mem := jsonMembers(st)
		okMem := strings.Join(mem, ",") == "created_at,event_type,payload"
		// field sources
		src := map[string]string{}
		if ld, ok := arg.(*ssa.UnOp); ok {
			for _, ref := range nonDebugRefs(ld.X) {
				if fa, ok := ref.(*ssa.FieldAddr); ok {
					for _, r2 := range nonDebugRefs(fa) {
						if sto, ok := r2.(*ssa.Store); ok {
							tag := strings.Split(structTagGet(st.Tag(fa.Field), "json"), ",")[0]
							src[tag] = strings.ReplaceAll(tb.Of(sto.Val).String(), evParam, "EVENT")
						}
					}
				}
			}
		}
		okSrc := src["created_at"] == "Field[CreatedAt](EVENT)" && src["event_type"] == "Field[Type](EVENT)" && src["payload"] == "Field[Payload](EVENT)"
		shapes = append(shapes, strings.Join(mem, ",")+"|"+src["created_at"]+"|"+src["event_type"]+"|"+src["payload"])
		r.Check(okMem && okSrc, "C14.struct", recv+":members", p.InstrPos(enc), "members created_at,event_type,payload from e.CreatedAt, e.Type, e.Payload", fmt.Sprintf("encoded members %v filled from %v", mem, src))
		// "exactly the members": each member is present in EVERY line — no tag option that lets
		// encoding/json drop it (omitempty, omitzero) or change its JSON type (string)
		var opts []string
		for i := 0; i < st.NumFields(); i++ {
			parts := strings.Split(structTagGet(st.Tag(i), "json"), ",")
			for _, o := range parts[1:] {
				if o != "" {
					opts = append(opts, parts[0]+":"+o)
				}
			}
		}
		r.Check(len(opts) == 0, "C14.struct", recv+":members-unconditional", p.InstrPos(enc), "no member carries a json tag option: all three are written for every event", fmt.Sprintf("json tag options %v: encoding/json drops such a member for an empty value (a nil payload gives a line with two members, no \"payload\": null) or changes its JSON type", opts))
		// encoder over a buffer that is PRIVATE to this call (freshly allocated here): bytes stored in
		// the event must not alias memory that is reused later (pool, field, global)
		et := tb.Of(enc.Call.Args[0])
		okEnc := et.Op == "Call" && et.Name == "encoding/json.NewEncoder" && et.Args[0].Op == "Alloc"
		var buf ssa.Value
		if !okEnc && et.Op == "Call" && et.Name == "encoding/json.NewEncoder" && et.Args[0].V != nil && c.pooledScratch(et.Args[0].V) {
			// a pooled scratch buffer, reset before use; what is stored must then be a copy of its own (checked below and by C08.bytes)
			okEnc = true
		}
		if okEnc {
			buf = et.Args[0].V
		} else {
			r.Bad("C14.store", recv+":private-buffer", p.InstrPos(enc), "the encoder does not write into a buffer freshly allocated by this call ("+et.String()+"): the bytes stored in the event would alias memory that is reused for later events")
		}
		// helper contract: returns (buf.Bytes(), nil) only after Encode succeeded
		if helperCall != nil {
			okHelper := true
			for _, pa := range c.enum("C14.store", encFn, PathOpts{}) {
				rv := pa.RetVals()
				if rv == nil || len(rv) != 2 {
					okHelper = false
					continue
				}
				pol, found := hasAtom(pa, func(at Atom) bool { return at.Op == "eq" && at.L.V == ssa.Value(enc) && at.R.Is("Const", "nil") })
				bt := pa.TermsAt(pa.LastStep()).Of(rv[0])
				if found && pol {
					if !(isNilConst(rv[1]) && bt.Op == "Call" && bt.Name == "(*bytes.Buffer).Bytes" && bt.Args[0].V == buf) {
						okHelper = false
					}
				} else if isNilConst(rv[1]) {
					okHelper = false
				}
			}
			r.Check(okHelper, "C14.store", recv+":helper", p.Pos(encFn.Pos()), "the encoding helper returns (bytes of its own buffer, nil) only after Encode succeeded and an error otherwise", "the encoding helper does not return exactly its buffer's bytes on success / an error on failure")
		}
		// C14.store on paths
		nFwd := 0
		for _, pa := range c.enum("C14.store", fn, PathOpts{}) {
			rv := pa.RetVals()
			if rv == nil {
				continue
			}
			var fas []Step
			for _, s := range pa.CallsOn() {
				if stepCallName(s) == "(*eventlogger.Event).FormattedAs" {
					fas = append(fas, s)
				}
			}
			pol, found := hasAtom(pa, func(at Atom) bool {
				if at.Op != "eq" || !at.R.Is("Const", "nil") {
					return false
				}
				if helperCall != nil {
					return at.L.Op == "Extract" && at.L.Name == "1" && at.L.Args[0].V == ssa.Value(helperCall)
				}
				return at.L.V == ssa.Value(enc)
			})
			encOK := found && pol
			if !encOK {
				if len(fas) > 0 || !isNilConst(rv[0]) || isNilConst(rv[1]) {
					r.Bad("C14.store", recv+":encode-error", p.InstrPos(pa.End), "when encoding fails the formatter still stores bytes or forwards the event, or returns no error")
				}
				continue
			}
			if len(fas) != 1 {
				r.Bad("C14.store", recv+":store", p.InstrPos(pa.End), fmt.Sprintf("%d FormattedAs calls on a path where encoding succeeded", len(fas)))
				continue
			}
			a := fas[0].In.(ssa.CallInstruction).Common().Args
			ftb := pa.TermsAt(fas[0])
			bt := ftb.Of(a[2])
			okBytes := bt.Op == "Call" && bt.Name == "(*bytes.Buffer).Bytes" && bt.Args[0].V == buf && okEnc
			if helperCall != nil {
				okBytes = bt.Op == "Extract" && bt.Name == "0" && bt.Args[0].V == ssa.Value(helperCall) && okEnc
			}
			if buf != nil && helperCall == nil && c.pooledScratch(buf) {
				// a pooled scratch buffer goes back into the pool: what the event keeps is a copy of its own
				okBytes = okEnc && c.freshCopyOfScratch(a[2])
			}
			okSt := ftb.Of(a[0]).IsParam("2:e") && ftb.Of(a[1]).Is("Const", `"json"`) && okBytes
			r.Check(okSt, "C14.store", recv+":store", p.InstrPos(fas[0].In), "e.FormattedAs(\"json\", buf.Bytes()) with the encoder's own private buffer, only after Encode succeeded", "the formatted bytes are not stored as FormattedAs(\"json\", bytes of the private buffer the encoder wrote)")
			if !isNilConst(rv[0]) {
				nFwd++
				if !ftb.Of(rv[0]).IsParam("2:e") && !forwardsArgOnly(p, rv[0], func(a ssa.Value) bool { return ftb.Of(a).IsParam("2:e") }) {
					r.Bad("C14.store", recv+":forward", p.InstrPos(pa.End), "the formatter forwards something other than its event parameter")
				}
			}
		}
		if nFwd == 0 {
			r.Und("C14.store", recv+":forward", p.Pos(fn.Pos()), "no forwarding path")
		}
		c.eNilRule("C14.enil", fn, false)
		c.errorFlowRule("C14.errors", fn, nil, false)
		if encFn != fn {
			c.errorFlowRule("C14.errors", encFn, nil, false)
		}
		// C14.pure
		pure := true
		eachInstr(fn, func(in ssa.Instruction) {
			if sto, ok := in.(*ssa.Store); ok {
				if fa, ok := sto.Addr.(*ssa.FieldAddr); ok && typeShort(fa.X.Type()) == "eventlogger.Event" {
					pure = false
					r.Bad("C14.pure", recv+":store", p.InstrPos(in), "the formatter assigns a field of the event")
				}
			}
			if mu, ok := in.(*ssa.MapUpdate); ok && tb.Of(mu.Map).Is("Field", "Formatted") {
				pure = false
				r.Bad("C14.pure", recv+":store", p.InstrPos(in), "the formatter updates the format table directly, bypassing FormattedAs and its lock")
			}
		})
		if pure {
			r.Ok("C14.pure", recv, p.Pos(fn.Pos()), "no assignment to any Event field; the format table is touched only through FormattedAs")
		}
	}
	if len(shapes) == 2 {
		r.Check(shapes[0] == shapes[1], "C14.struct", "siblings-agree", "", "JSONFormatter and JSONFormatterFilter encode the same members from the same sources", "the two JSON formatters disagree: "+shapes[0]+" vs "+shapes[1])
	}
	if k := p.SSAPkgs[PkgRoot].Const("JSONFormat"); k == nil || k.Value.Value.Kind() != constant.String || constant.StringVal(k.Value.Value) != "json" {
		r.Bad("C14.store", "JSONFormat", "", "JSONFormat is not the constant \"json\"")
	}

	// --- C14.pred
	c.ruleFuncFieldNil("C14.pred")
	type predSpec struct {
		recv     string
		nilCase  bool
		predCall string
	}
	for _, ps := range []predSpec{{"JSONFormatterFilter", true, "dynamic"}, {"Filter", false, "dynamic"}} {
		fn := c.Fn("C14.pred", PkgRoot, ps.recv, "Process")
		if fn == nil {
			continue
		}
		rows := map[string]bool{}
		// (a shared "ask the predicate" helper of the package, and a func literal adapting one predicate type
		// to the other, are followed)
		predHelper := func(caller *ssa.Function, call *ssa.Call, callee *ssa.Function) bool {
			if PkgPathOf(callee) != PkgRoot || len(callee.Blocks) > 12 || len(loopHeaders(callee)) > 0 {
				return false
			}
			if callee.Parent() != nil {
				return true
			}
			if recv := callee.Signature.Recv(); recv != nil {
				_, isFunc := recv.Type().Underlying().(*types.Signature)
				return isFunc
			}
			return false
		}
		for _, pa := range c.enum("C14.pred", fn, PathOpts{Inline: predHelper, InlineClosures: true, InlineDepth: 3}) {
			rv := pa.RetVals()
			if rv == nil {
				continue
			}
			// skip encode-failure paths of the formatter filter
			var pred *ssa.Call
			for _, s := range pa.CallsOn() {
				if ci, ok := s.In.(*ssa.Call); ok && calleeName(&ci.Call) == "dynamic" && pa.TermsAt(s).Of(ci.Call.Value).Is("Field", "Predicate") {
					pred = ci
				}
			}
			ltb := pa.TermsAt(pa.LastStep())
			fwd := !isNilConst(rv[0])
			if fwd && !ltb.Of(rv[0]).IsParam("2:e") {
				r.Bad("C14.pred", ps.recv+":forward", p.InstrPos(pa.End), "forwards something other than the event parameter")
				continue
			}
			if pred == nil {
				nilPol, nilFound := hasAtom(pa, func(at Atom) bool { return at.Op == "eq" && at.L.Is("Field", "Predicate") && at.R.Is("Const", "nil") })
				if fwd {
					okNil := ps.nilCase && nilFound && nilPol
					rows["nil-predicate"] = rows["nil-predicate"] || okNil
					if !okNil {
						r.Bad("C14.pred", ps.recv+":no-predicate-forward", p.InstrPos(pa.End), "the event is forwarded without consulting the predicate (and not because the predicate is absent)")
					}
				}
				continue
			}
			keepPol, keepFound := hasAtom(pa, func(at Atom) bool {
				return at.Op == "true" && at.L.Op == "Extract" && at.L.Name == "0" && at.L.Args[0].V == ssa.Value(pred)
			})
			errPol, errFound := hasAtom(pa, func(at Atom) bool {
				return at.Op == "eq" && at.L.Op == "Extract" && at.L.Name == "1" && at.L.Args[0].V == ssa.Value(pred) && at.R.Is("Const", "nil")
			})
			r.TableRows++
			switch {
			case errFound && !errPol:
				rows["error"] = true
				et := ltb.Of(rv[1])
				r.Check(!fwd && et.Op == "Extract" && et.Args[0].V == ssa.Value(pred), "C14.pred", ps.recv+":predicate-error", p.InstrPos(pa.End), "predicate error: (nil, that error)", "a failing predicate does not yield (nil, its error)")
			case keepFound && keepPol:
				rows["true"] = true
				r.Check(fwd && isNilConst(rv[1]), "C14.pred", ps.recv+":predicate-true", p.InstrPos(pa.End), "predicate true: event forwarded", "predicate true does not forward the event")
			case keepFound && !keepPol:
				rows["false"] = true
				r.Check(!fwd && isNilConst(rv[1]), "C14.pred", ps.recv+":predicate-false", p.InstrPos(pa.End), "predicate false: (nil, nil)", "predicate false does not yield (nil, nil)")
			default:
				r.Und("C14.pred", ps.recv+":row", p.InstrPos(pa.End), "predicate outcome not decided on a path: "+p.PathSummary(pa))
			}
			// the predicate is applied to the event
			if a := pred.Call.Args; len(a) == 1 {
				if !pa.TermsAt(pa.LastStep()).Of(a[0]).IsParam("2:e") {
					r.Bad("C14.pred", ps.recv+":predicate-arg", p.InstrPos(pred), "the predicate is not applied to the event being processed")
				}
			}
		}
		want := []string{"error", "true", "false"}
		if ps.nilCase {
			want = append(want, "nil-predicate")
		}
		for _, w := range want {
			if !rows[w] {
				r.Bad("C14.pred", ps.recv+":row:"+w, p.Pos(fn.Pos()), "no path handles the predicate outcome '"+w+"'")
			}
		}
	}

	// --- C14.table
	// last-writer-wins means REPLACING an entry: nothing writes through, appends into or copies
	// onto bytes that Format has already handed out
	c.ruleFormatTableWrites("C14.table")
	c.ruleFormatFromTable("C14.table")
	// every field of Event, not only the table: a counter or memo added to Event and updated by Format (under the READ lock) is written by concurrent readers
	c.guardRule("C14.guard", []string{"eventlogger.Event"}, nil, false)
	c.ruleRecoverResults("C14.recover", []string{PkgRoot}, false)
	c.ruleEncodedBytesReadOnly("C14.store", PkgRoot)
	// ... and every section of Event.l is released on every path (a read lock leaked on an early return blocks the next FormattedAs for good)
	c.pairingRule("C14.table", func(fn *ssa.Function) bool {
		return PkgPathOf(fn) == PkgRoot && fn.Signature.Recv() != nil && typeShort(fn.Signature.Recv().Type()) == "eventlogger.Event"
	}, false)
	must := c.MustLocks()
	accs := p.CollectAccesses(p.RepoFuncs(), must, func(o string) bool { return o == "eventlogger.Event" })
	n := 0
	for _, a := range accs {
		if a.Field != "Formatted" || a.Fresh {
			continue
		}
		n++
		fnName := p.ShortFn(a.Fn)
		held := a.Held["eventlogger.Event.l"]
		switch fnName {
		case "(*eventlogger.Event).FormattedAs":
			r.Check(held == 'W', "C14.table", fnName, p.InstrPos(a.Instr), "format table accessed under Event.l held for writing", "FormattedAs touches the format table without Event.l held for writing")
		case "(*eventlogger.Event).Format":
			r.Check(held == 'R' || held == 'W', "C14.table", fnName, p.InstrPos(a.Instr), "format table read under Event.l", "Format reads the format table without Event.l")
		default:
			r.Bad("C14.table", "Event.Formatted@"+fnName, p.InstrPos(a.Instr), "Event.Formatted is accessed outside FormattedAs/Format on an event that is not freshly allocated")
		}
	}
	if n < 4 {
		r.Und("C14.table", "instance-floor", "", fmt.Sprintf("only %d accesses to Event.Formatted found", n))
	}
	// last-writer-wins: FormattedAs stores the given bytes under the given key
	if fa := c.Fn("C14.table", PkgRoot, "Event", "FormattedAs"); fa != nil {
		ok := false
		eachInstr(fa, func(in ssa.Instruction) {
			if mu, isMu := in.(*ssa.MapUpdate); isMu {
				if tb.Of(mu.Key).IsParam("1:formatType") && tb.Of(mu.Map).Is("Field", "Formatted") && (tb.Of(mu.Value).IsParam("2:formattedValue") || freshCopyOf(mu.Value, fa.Params[2])) {
					ok = true
				}
			}
		})
		r.Check(ok, "C14.table", "(*Event).FormattedAs:store", p.Pos(fa.Pos()), "Formatted[formatType] = formattedValue", "FormattedAs does not store the given bytes under the given key")
	}
	if ff := c.Fn("C14.table", PkgRoot, "Event", "Format"); ff != nil {
		ok := false
		for _, ret := range Returns(ff) {
			rv := RetVals(ret)
			t0, t1 := tb.Of(rv[0]), tb.Of(rv[1])
			if t0.Op == "Extract" && t0.Name == "0" && t0.Args[0].Op == "Lookup" && t0.Args[0].Args[0].Is("Field", "Formatted") && t0.Args[0].Args[1].IsParam("1:formatType") && t1.Op == "Extract" && t1.Name == "1" {
				ok = true
			}
		}
		r.Check(ok, "C14.table", "(*Event).Format:lookup", p.Pos(ff.Pos()), "returns Formatted[formatType] and its presence", "Format does not return the table entry of the requested key")
	}
}

func structTagGet(tag, key string) string {
	// minimal reflect.StructTag.Get
	for tag != "" {
		i := 0
		for i < len(tag) && tag[i] == ' ' {
			i++
		}
		tag = tag[i:]
		if tag == "" {
			break
		}
		i = 0
		for i < len(tag) && tag[i] > ' ' && tag[i] != ':' && tag[i] != '"' {
			i++
		}
		if i == 0 || i+1 >= len(tag) || tag[i] != ':' || tag[i+1] != '"' {
			break
		}
		name := tag[:i]
		tag = tag[i+1:]
		i = 1
		for i < len(tag) && tag[i] != '"' {
			if tag[i] == '\\' {
				i++
			}
			i++
		}
		if i >= len(tag) {
			break
		}
		val := tag[1:i]
		tag = tag[i+1:]
		if name == key {
			return val
		}
	}
	return ""
}

// ---------------------------------------------------------------------------

var fileSinkErrExceptions = []ErrException{
	{Fn: "(*eventlogger.FileSink).reopen", Callee: "os.Stat",
		Reason: "the error is only classified with os.IsNotExist (externally renamed/removed file -> open a new one); every other outcome falls through to Close + open, whose errors are returned"},
	{Fn: "(*eventlogger.FileSink).pruneFiles", Callee: "os.ReadDir",
		Reason: "a directory that does not exist holds no rotated files (open creates it again on demand): os.IsNotExist -> nil, every other error is returned (re-checked structurally: pruneFiles->os.ReadDir:exception-shape)"},
}

// ruleReadDirClassified (C15.errors / C08.retention pruneFiles->os.ReadDir:exception-shape, F54):
// the error of the directory listing is returned unless os.IsNotExist found it to mean "no such
// directory", in which case pruning has nothing to do (returns nil): the rotation goes on and
// open() creates the directory again. Both halves are obligations — an unclassified error fails
// every rotation after the directory was removed (the glob it replaced found nothing and went on);
// a nil return for any OTHER error would hide a listing failure and skip retention.
func (c *Ctx) ruleReadDirClassified(rule string) {
	p, r := c.P, c.R
	fn := c.Fn(rule, PkgRoot, "FileSink", "pruneFiles")
	if fn == nil {
		return
	}
	var rd *ssa.Call
	for _, cs := range callsTo(fn, func(n string, cc *ssa.CallCommon) bool { return n == "os.ReadDir" }) {
		if cl, ok := cs.(*ssa.Call); ok {
			rd = cl
		}
	}
	if rd == nil {
		return // a glob-based listing reports no error for a missing directory
	}
	sawNotExistNil, sawOtherErr, bad := false, false, ""
	for _, pa := range c.enum(rule, fn, PathOpts{}) {
		rv := pa.RetVals()
		if len(rv) != 1 {
			continue
		}
		// paths on which the listing failed
		failed := false
		for _, at := range pa.Atoms {
			if at.Op == "eq" && at.Neg && at.R.Is("Const", "nil") && at.L.Op == "Extract" && at.L.Name == "1" && len(at.L.Args) == 1 && at.L.Args[0].V == ssa.Value(rd) {
				failed = true
			}
		}
		notExist, found := hasAtom(pa, func(at Atom) bool {
			return at.Op == "true" && at.L.Is("Call", "os.IsNotExist") && len(at.L.Args) == 1 && at.L.Args[0].Op == "Extract" && at.L.Args[0].Args[0].V == ssa.Value(rd)
		})
		if found && notExist {
			failed = true // os.IsNotExist(err) implies err != nil, whichever test comes first
		}
		if !failed {
			continue
		}
		if isNilConst(rv[0]) {
			if found && notExist {
				sawNotExistNil = true
			} else if bad == "" {
				bad = "pruneFiles returns nil although the directory listing failed with an error that was not found to mean 'no such directory' (" + p.InstrPos(pa.End) + ")"
			}
		} else {
			if found && notExist {
				if bad == "" {
					bad = "a listing that failed because the directory does not exist fails the rotation (" + p.InstrPos(pa.End) + "): after the sink's directory was removed every due rotation, and the write that triggered it, fails although open() would create the directory again — the glob this listing replaced found nothing and went on"
				}
			} else {
				sawOtherErr = true
			}
		}
	}
	if bad == "" && !sawNotExistNil {
		bad = "the error of os.ReadDir is never classified with os.IsNotExist: after the sink's directory was removed every due rotation, and the write that triggered it, fails although open() would create the directory again (the glob this listing replaced found nothing and went on)"
	}
	if bad == "" && !sawOtherErr {
		bad = "no path returns the listing's error"
	}
	r.Check(bad == "", rule, "pruneFiles->os.ReadDir:exception-shape", p.InstrPos(rd), "a missing directory is nothing to prune (nil), every other listing error is returned", bad)
}

func runC15(c *Ctx) {
	p, r := c.P, c.R
	r.Explanation = "Decides the configuration-to-behaviour clauses structurally: the full decision table of FileSink.rotate over the 81 orderings of {BytesWritten vs MaxBytes, MaxBytes vs 0, time.Since(LastCreated) vs MaxDuration, MaxDuration vs 0} — the branch that closes the file is taken iff (bytes >= max and max > 0) or (elapsed > dur and dur > 0); the file-name function yields the plain configured name iff TimestampOnlyOnRotate or rotation is disabled, otherwise the pattern filled with UnixNano of the creation time that is also stored in LastCreated, and the timestamp-only rename target uses the same pattern; modes (0600 / 0700 constants, configured mode or default when zero, MkdirAll(Path, dirMode) before the open, Chmod iff a mode is configured); pruning removes exactly matches[i] for i < len(matches) - MaxFiles after sort.Strings, returns early when MaxFiles == 0, and runs only between the close and the re-open of a rotation; open resets BytesWritten and LastCreated, and the successful write adds its byte count. Strictly increasing timestamps and real directory contents are not decided. C15.errors (no error of the rotation machinery dropped) and C15.pattern (shape of fileNamePattern). C15.prune listing-dir: pruning lists the directory the active file lives in (F47); close-clears-handle: after Close of the sink's file the handle is dropped on every path, also when Close failed (F48). C15.pattern no-overlap (F49); C15.mode open:mkdir-file-dir (F50)."
	r.NotDecided = []string{"timestamps being strictly increasing (clock behaviour)", "actual directory contents / files outside the sink's name space", "MaxBytes > 0 but MaxDuration < 0 corner: rotateEnabled uses MaxDuration != 0"}
	tb := p.NewTerms(nil)
	// --- C15.errors: no failure of opening, creating, chmod-ing, closing, renaming, globbing or
	// removing is dropped by the rotation machinery (Process's own write/retry protocol is C13/C08)
	nF := 0
	for _, f := range p.FuncsIn(PkgRoot) {
		sf := p.ShortFn(f)
		if !strings.HasPrefix(sf, "(*eventlogger.FileSink).") || sf == "(*eventlogger.FileSink).Process" {
			continue
		}
		nF += c.errorFlowRule("C15.errors", f, fileSinkErrExceptions, false)
	}
	if nF < 10 {
		r.Und("C15.errors", "instance-floor", "", fmt.Sprintf("only %d fallible call sites in FileSink's rotation machinery (10 confirmed by hand)", nF))
	}
	// the exempted os.Stat error is consumed by os.IsNotExist only
	if fn := c.Fn("C15.errors", PkgRoot, "FileSink", "reopen"); fn != nil {
		for _, cs := range callsTo(fn, func(n string, cc *ssa.CallCommon) bool { return n == "os.Stat" }) {
			ok := false
			if v, isV := cs.(ssa.Value); isV {
				for _, ref := range nonDebugRefs(v) {
					if ex, isEx := ref.(*ssa.Extract); isEx && ex.Index == 1 {
						refs := nonDebugRefs(ex)
						ok = len(refs) == 1
						for _, u := range refs {
							uc, isC := u.(ssa.CallInstruction)
							if !isC || calleeName(uc.Common()) != "os.IsNotExist" {
								ok = false
							}
						}
					}
				}
			}
			r.Check(ok, "C15.errors", "(*eventlogger.FileSink).reopen->os.Stat:exception-shape", p.InstrPos(cs), "the Stat error is consumed by os.IsNotExist only (file gone -> re-open; anything else -> close and re-open)", "the exempted os.Stat error is no longer consumed by os.IsNotExist alone")
		}
	}
	c.ruleReadDirClassified("C15.errors")
	c.ruleNamePattern()
	c.ruleRotatedName()
	// --- C15.trigger
	c.ruleRotateEnabledAgrees("C15.trigger")
	if fn := c.Fn("C15.trigger", PkgRoot, "FileSink", "rotate"); fn != nil {
		paths := c.enum("C15.trigger", fn, PathOpts{})
		isB := func(t *Term) bool { return t.Is("Field", "BytesWritten") && t.Args[0].IsParam("0:fs") }
		isM := func(t *Term) bool {
			if t.Op == "Conv" {
				t = t.Args[0]
			}
			return t.Is("Field", "MaxBytes") && t.Args[0].IsParam("0:fs")
		}
		isD := func(t *Term) bool { return t.Is("Field", "MaxDuration") && t.Args[0].IsParam("0:fs") }
		isE := func(t *Term) bool {
			// the file's age: time.Since(LastCreated), or time.Now().Sub(LastCreated)
			if t.Op == "Call" && t.Name == "(time.Time).Sub" && len(t.Args) == 2 && t.Args[0].Is("Call", "time.Now") && t.Args[1].Is("Field", "LastCreated") {
				return true
			}
			return t.Op == "Call" && t.Name == "time.Since" && t.Args[0].Is("Field", "LastCreated")
		}
		isZero := func(t *Term) bool { return t.Is("Const", "0") }
		type row struct{ bm, m0, ed, d0 int } // -1 <, 0 =, 1 >
		eval := func(at Atom, ro row) (bool, bool) {
			var v bool
			switch {
			case at.Op == "eq" && at.L.Is("Field", "Path"):
				v = false // not a special path
			case at.Op == "lt" && isB(at.L) && isM(at.R):
				v = ro.bm < 0
			case at.Op == "lt" && isM(at.L) && isB(at.R):
				v = ro.bm > 0
			case at.Op == "eq" && (isB(at.L) && isM(at.R) || isM(at.L) && isB(at.R)):
				v = ro.bm == 0
			case at.Op == "lt" && isZero(at.L) && isM(at.R):
				v = ro.m0 > 0
			case at.Op == "lt" && isM(at.L) && isZero(at.R):
				v = ro.m0 < 0
			case at.Op == "eq" && isM(at.L) && isZero(at.R):
				v = ro.m0 == 0
			case at.Op == "lt" && isD(at.L) && isE(at.R):
				v = ro.ed > 0
			case at.Op == "lt" && isE(at.L) && isD(at.R):
				v = ro.ed < 0
			case at.Op == "eq" && (isE(at.L) && isD(at.R) || isD(at.L) && isE(at.R)):
				v = ro.ed == 0
			case at.Op == "lt" && isZero(at.L) && isD(at.R):
				v = ro.d0 > 0
			case at.Op == "lt" && isD(at.L) && isZero(at.R):
				v = ro.d0 < 0
			case at.Op == "eq" && isD(at.L) && isZero(at.R):
				v = ro.d0 == 0
			default:
				return false, false
			}
			if at.Neg {
				v = !v
			}
			return v, true
		}
		closes := func(pa *Path) bool {
			for _, s := range pa.CallsOn() {
				if stepCallName(s) == "(*os.File).Close" {
					return true
				}
			}
			return false
		}
		nRows, nBad := 0, 0
		for _, bm := range []int{-1, 0, 1} {
			for _, m0 := range []int{-1, 0, 1} {
				for _, ed := range []int{-1, 0, 1} {
					for _, d0 := range []int{-1, 0, 1} {
						ro := row{bm, m0, ed, d0}
						nRows++
						r.TableRows++
						want := (bm >= 0 && m0 > 0) || (ed > 0 && d0 > 0)
						got, any, und := false, false, false
						for _, pa := range paths {
							if pa.RetVals() == nil {
								continue
							}
							all := true
							for _, at := range pa.Atoms {
								// only the trigger atoms decide the row; atoms after the Close (errors, TimestampOnlyOnRotate) are free
								v, known := eval(at, ro)
								if !known {
									if closes(pa) && stepIndex(pa, at.If) > 0 {
										// atoms evaluated after the rotation decision: both outcomes belong to the row
										isAfter := false
										for _, s := range pa.CallsOn() {
											if stepCallName(s) == "(*os.File).Close" && stepIndex(pa, s.In) < stepIndex(pa, at.If) {
												isAfter = true
											}
										}
										if isAfter {
											continue
										}
									}
									und = true
									r.Und("C15.trigger", "rotate:atom", p.InstrPos(at.If), "branch condition not understood: "+at.String())
									all = false
									break
								}
								if !v {
									all = false
									break
								}
							}
							if all {
								any = true
								if closes(pa) {
									got = true
								} else if got {
									// mixed: some matching paths rotate, some do not
								}
							}
						}
						if und {
							continue
						}
						name := fmt.Sprintf("bytes%smax max%s0 elapsed%sdur dur%s0", rel(bm), rel(m0), rel(ed), rel(d0))
						if !any {
							r.Und("C15.trigger", "rotate:row:"+name, p.Pos(fn.Pos()), "no path matches the row")
							continue
						}
						if got != want {
							nBad++
							r.Bad("C15.trigger", "rotate:row:"+name, p.Pos(fn.Pos()), fmt.Sprintf("for %s the sink %s; it must rotate iff (bytes >= max and max > 0) or (elapsed > dur and dur > 0)", name, map[bool]string{true: "rotates", false: "does not rotate"}[got]))
						}
					}
				}
			}
		}
		if nBad == 0 {
			r.Ok("C15.trigger", "rotate:table", p.Pos(fn.Pos()), fmt.Sprintf("all %d orderings: the file is closed (rotation) iff (bytes >= max and max > 0) or (elapsed > dur and dur > 0)", nRows))
		}
		// rotation sequence: Close -> [Rename in timestamp-only mode] -> pruneFiles -> open
		for _, pa := range paths {
			if !closes(pa) {
				continue
			}
			rv := pa.RetVals()
			if rv == nil || !isNilConst(rv[0]) {
				// error exits are fine; the success exit must be open()'s result
				if rv != nil {
					t := pa.TermsAt(pa.LastStep()).Of(rv[0])
					if t.Op == "Call" && t.Name == "(*eventlogger.FileSink).open" {
						seq := []string{}
						for _, s := range pa.CallsOn() {
							switch n := stepCallName(s); n {
							case "(*os.File).Close", "os.Rename", "(*eventlogger.FileSink).pruneFiles", "(*eventlogger.FileSink).open":
								seq = append(seq, n[strings.LastIndex(n, ".")+1:])
							}
						}
						ts, _ := hasAtom(pa, func(at Atom) bool { return at.Op == "true" && at.L.Is("Field", "TimestampOnlyOnRotate") })
						want := "Close,pruneFiles,open"
						if ts {
							want = "Close,Rename,pruneFiles,open"
						}
						r.Check(strings.Join(seq, ",") == want, "C15.prune", "rotate:sequence", p.InstrPos(pa.End), "rotation = close, (rename in timestamp-only mode,) prune, open: pruning never sees the active file", "rotation sequence is "+strings.Join(seq, ",")+", expected "+want)
						// f set to nil between close and open
					}
				}
			}
		}
		// fs.f = nil after the close so that open() really opens
		okNil := false
		eachInstr(fn, func(in ssa.Instruction) {
			if st, ok := in.(*ssa.Store); ok && isNilConst(st.Val) {
				if b, ok := tb.Of(st.Addr).IsFieldAddr("f"); ok && b.IsParam("0:fs") {
					cl := callsTo(fn, func(n string, cc *ssa.CallCommon) bool { return n == "(*os.File).Close" })
					if len(cl) == 1 && dominatesInstr(cl[0], in) {
						okNil = true
					}
				}
			}
		})
		r.Check(okNil, "C15.prune", "rotate:forget-file", p.Pos(fn.Pos()), "fs.f is reset after the close so that open() creates the next file", "rotate does not forget the closed file: open() would return early and keep writing to a closed file")
	}
	c.ruleCloseClearsHandle("C15.prune")
	c.ruleRenameTarget("C15.name")
	// --- C15.name
	if fn := c.Fn("C15.name", PkgRoot, "FileSink", "newFileName"); fn != nil {
		rows := map[string]bool{}
		for _, pa := range c.enum("C15.name", fn, PathOpts{}) {
			rv := pa.RetVals()
			if rv == nil {
				continue
			}
			t := pa.TermsAt(pa.LastStep()).Of(rv[0])
			ts, tsF := hasAtom(pa, func(at Atom) bool { return at.Op == "true" && at.L.Is("Field", "TimestampOnlyOnRotate") })
			en, enF := hasAtom(pa, func(at Atom) bool {
				return at.Op == "true" && at.L.Op == "Call" && at.L.Name == "(*eventlogger.FileSink).rotateEnabled"
			})
			plain := t.String() == "Field[FileName](Param(0:fs))"
			stamped := t.Op == "Call" && t.Name == "fmt.Sprintf" && strings.Contains(t.String(), "(*eventlogger.FileSink).fileNamePattern") && strings.Contains(t.String(), "Call[(time.Time).UnixNano](Param(1:createTime))")
			r.TableRows++
			switch {
			case tsF && ts:
				rows["ts-only"] = true
				r.Check(plain, "C15.name", "newFileName:timestamp-only", p.InstrPos(pa.End), "TimestampOnlyOnRotate: plain configured name", "TimestampOnlyOnRotate does not yield the plain configured name")
			case enF && !en:
				rows["disabled"] = true
				r.Check(plain, "C15.name", "newFileName:rotation-disabled", p.InstrPos(pa.End), "rotation disabled: plain configured name", "with rotation disabled the active file is not the plain configured name")
			case enF && en:
				rows["stamped"] = true
				r.Check(stamped, "C15.name", "newFileName:stamped", p.InstrPos(pa.End), "pattern filled with UnixNano of the creation time", "the active file name is "+t.String()+", not the pattern filled with the creation time's UnixNano")
			default:
				r.Und("C15.name", "newFileName:row", p.InstrPos(pa.End), "path not classified: "+p.PathSummary(pa))
			}
		}
		for _, k := range []string{"ts-only", "disabled", "stamped"} {
			if !rows[k] {
				r.Bad("C15.name", "newFileName:row:"+k, p.Pos(fn.Pos()), "no path for case "+k)
			}
		}
	}
	if fn := c.Fn("C15.name", PkgRoot, "FileSink", "rotateEnabled"); fn != nil {
		// true iff MaxBytes > 0 or MaxDuration != 0
		ok := true
		for _, pa := range c.enum("C15.name", fn, PathOpts{}) {
			rv := pa.RetVals()
			if rv == nil {
				continue
			}
			mb, _ := hasAtom(pa, func(at Atom) bool { return at.Op == "lt" && at.L.Is("Const", "0") && at.R.Is("Field", "MaxBytes") })
			mdZero, mdF := hasAtom(pa, func(at Atom) bool { return at.Op == "eq" && at.L.Is("Field", "MaxDuration") && at.R.Is("Const", "0") })
			want := mb || (mdF && !mdZero)
			got, isC := constBool(rv[0])
			if !isC {
				// returned expression: the second comparison itself
				t := pa.TermsAt(pa.LastStep()).Of(rv[0])
				if !(t.Op == "Bin" && (t.Name == "!=" || t.Name == ">") && t.Args[0].Is("Field", "MaxDuration")) {
					ok = false
				}
				continue
			}
			if got != want {
				ok = false
			}
		}
		r.Check(ok, "C15.name", "rotateEnabled", p.Pos(fn.Pos()), "rotation is enabled iff MaxBytes > 0 or MaxDuration is set", "rotateEnabled is not 'MaxBytes > 0 or MaxDuration != 0'")
	}
	// --- C15.mode + C15.count in open()
	if fn := c.Fn("C15.mode", PkgRoot, "FileSink", "open"); fn != nil {
		dm := p.SSAPkgs[PkgRoot].Const("dirMode")
		fm := p.SSAPkgs[PkgRoot].Const("defaultMode")
		r.Check(dm != nil && dm.Value.Int64() == 0o700 && fm != nil && fm.Value.Int64() == 0o600, "C15.mode", "constants", "", "dirMode 0700, defaultMode 0600", "the directory / default file mode constants are not 0700 / 0600")
		mk := callsTo(fn, func(n string, cc *ssa.CallCommon) bool { return n == "os.MkdirAll" })
		of := callsTo(fn, func(n string, cc *ssa.CallCommon) bool { return n == "os.OpenFile" })
		if len(mk) < 1 || len(mk) > 2 || len(of) != 1 {
			r.Bad("C15.mode", "open:calls", p.Pos(fn.Pos()), "open does not contain one or two MkdirAll calls and exactly one OpenFile")
		} else {
			// the directory the file is opened in is created on demand, with mode 0700: fs.Path, and the
			// directory part of a FileName like app/audit.log below it (F50). On every path that reaches
			// the OpenFile either MkdirAll(Dir(<the opened path>)) ran, or MkdirAll(fs.Path) ran and the
			// path established that the file's directory IS fs.Path.
			openPath := tb.Of(of[0].Common().Args[0])
			isFileDir := func(t *Term) bool {
				return t.Is("Call", "path/filepath.Dir") && len(t.Args) == 1 && t.Args[0].String() == openPath.String()
			}
			okMk := true
			for _, m := range mk {
				dmv, _ := constInt(m.Common().Args[1])
				at := tb.Of(m.Common().Args[0])
				if dmv != 0o700 || !(at.String() == "Field[Path](Param(0:fs))" || isFileDir(at)) {
					okMk = false
				}
			}
			nOpen := 0
			for _, pa := range c.enum("C15.mode", fn, PathOpts{}) {
				var ofStep *Step
				madePath, madeDir := false, false
				calls := pa.CallsOn()
				for i := range calls {
					switch stepCallName(calls[i]) {
					case "os.OpenFile":
						if ofStep == nil {
							ofStep = &calls[i]
						}
					case "os.MkdirAll":
						if ofStep == nil {
							at := pa.TermsAt(calls[i]).Of(calls[i].In.(ssa.CallInstruction).Common().Args[0])
							if at.String() == "Field[Path](Param(0:fs))" {
								madePath = true
							}
							if isFileDir(at) {
								madeDir = true
							}
						}
					}
				}
				if ofStep == nil {
					continue
				}
				nOpen++
				sameDir, found := hasAtom(pa, func(at Atom) bool {
					if at.Op != "eq" {
						return false
					}
					isPathish := func(t *Term) bool {
						return t.String() == "Field[Path](Param(0:fs))" || (t.Is("Call", "path/filepath.Clean") && len(t.Args) == 1 && t.Args[0].String() == "Field[Path](Param(0:fs))")
					}
					return (isFileDir(at.L) && isPathish(at.R)) || (isFileDir(at.R) && isPathish(at.L))
				})
				if !(madeDir || (madePath && found && sameDir)) {
					okMk = false
					r.Bad("C15.mode", "open:mkdir-file-dir", p.InstrPos(ofStep.In), "the file is opened on a path on which its directory was not created: MkdirAll covers fs.Path only, so a FileName with a directory part (app/audit.log) fails with ENOENT until somebody creates Path/app by hand — "+shortStr(p.PathSummary(pa), 160))
					break
				}
			}
			if nOpen == 0 {
				okMk = false
			}
			r.Check(okMk, "C15.mode", "open:mkdir", p.InstrPos(mk[0]), "the directory of the file (fs.Path and the directory part of FileName) is created with mode 0700 before the open", "the directory is not created on demand with mode 0700 before the file is opened")
			// mode = configured or default when zero
			okMode, okChmod, okReset := false, false, true
			for _, pa := range c.enum("C15.mode", fn, PathOpts{}) {
				var ofs, chm *Step
				calls := pa.CallsOn()
				for i := range calls {
					switch stepCallName(calls[i]) {
					case "os.OpenFile":
						ofs = &calls[i]
					case "os.Chmod":
						chm = &calls[i]
					}
				}
				if ofs == nil {
					continue
				}
				zero, zf := hasAtom(pa, func(at Atom) bool { return at.Op == "eq" && at.L.Is("Field", "Mode") && at.R.Is("Const", "0") })
				mt := pa.TermsAt(*ofs).Of(pa.Resolve(*ofs, ofs.In.(ssa.CallInstruction).Common().Args[2]))
				if !zf {
					okMode = false
					r.Bad("C15.mode", "open:mode", p.InstrPos(ofs.In), "the file mode is chosen without looking at the configured mode")
					break
				}
				if (zero && mt.String() == "Const(384)") || (!zero && mt.String() == "Field[Mode](Param(0:fs))") {
					okMode = true
				} else {
					okMode = false
					r.Bad("C15.mode", "open:mode", p.InstrPos(ofs.In), "the file is opened with mode "+mt.String()+" although the configured mode is "+map[bool]string{true: "unset", false: "set"}[zero])
					break
				}
				// file name: Join(Path, newFileName(createTime)) with createTime = time.Now() also stored in LastCreated
				nt := pa.TermsAt(*ofs).Of(ofs.In.(ssa.CallInstruction).Common().Args[0])
				if !(strings.Contains(nt.String(), "Call[(*eventlogger.FileSink).newFileName](Param(0:fs),Call[time.Now]())") && strings.Contains(nt.String(), "Field[Path](Param(0:fs))")) {
					r.Bad("C15.name", "open:file-name", p.InstrPos(ofs.In), "the file opened is "+nt.String()+", not Join(fs.Path, newFileName(creation time))")
				}
				rv := pa.RetVals()
				if rv != nil && isNilConst(rv[0]) {
					// success: Chmod iff mode configured; counters reset
					zeroLast := zero
					for _, at := range pa.Atoms {
						if at.Op == "eq" && at.L.Is("Field", "Mode") && at.R.Is("Const", "0") {
							zeroLast = !at.Neg // the test nearest to the Chmod governs it (fs.Mode is re-read)
						}
					}
					if (chm != nil) != !zeroLast {
						okChmod = false
						r.Bad("C15.mode", "open:chmod", p.InstrPos(pa.End), "Chmod is applied iff a mode is configured: violated on a successful path")
					} else {
						okChmod = true
					}
					var lc, bw string
					for _, s := range pa.Steps {
						if st, ok := s.In.(*ssa.Store); ok {
							at := pa.TermsAt(s).Of(st.Addr)
							if b, ok := at.IsFieldAddr("LastCreated"); ok && b.IsParam("0:fs") {
								lc = pa.TermsAt(s).Of(st.Val).String()
							}
							if b, ok := at.IsFieldAddr("BytesWritten"); ok && b.IsParam("0:fs") {
								bw = pa.TermsAt(s).Of(st.Val).String()
							}
						}
					}
					if lc != "Call[time.Now]()" || bw != "Const(0)" {
						okReset = false
						r.Bad("C15.count", "open:reset", p.InstrPos(pa.End), fmt.Sprintf("a successful open sets LastCreated=%s BytesWritten=%s; expected the creation time and 0", lc, bw))
					}
				}
			}
			if okMode {
				r.Ok("C15.mode", "open:mode", p.InstrPos(of[0]), "mode = configured mode, or 0600 when unset")
			}
			if okChmod {
				r.Ok("C15.mode", "open:chmod", p.Pos(fn.Pos()), "Chmod applied iff a mode is configured")
			}
			if okReset {
				r.Ok("C15.count", "open:reset", p.Pos(fn.Pos()), "a successful open resets BytesWritten to 0 and LastCreated to the creation time used in the file name")
			}
		}
	}
	// --- C15.prune
	if fn := c.Fn("C15.prune", PkgRoot, "FileSink", "pruneFiles"); fn != nil {
		rm := callsTo(fn, func(n string, cc *ssa.CallCommon) bool { return n == "os.Remove" })
		srt := callsTo(fn, func(n string, cc *ssa.CallCommon) bool {
			// ascending order of the names: sort.Strings or slices.Sort over the []string
			return n == "sort.Strings" || (strings.HasPrefix(n, "slices.Sort[") && len(cc.Args) == 1 && typeShort(cc.Args[0].Type()) == "[]string")
		})
		// the directory listed is the one the ACTIVE file lives in: open() joins fs.Path with a name
		// derived from fs.FileName, so a FileName with a directory part (sub/audit.log) puts the
		// sink's files into fs.Path/sub; a listing of fs.Path alone never finds them.
		for _, rd := range callsTo(fn, func(n string, cc *ssa.CallCommon) bool { return n == "os.ReadDir" }) {
			dt := tb.Of(rd.Common().Args[0])
			r.Check(isActiveFileDir(dt), "C15.prune", "pruneFiles:listing-dir", p.InstrPos(rd), "the directory listed for pruning is the one the active file lives in (Path joined with FileName's directory part)",
				"pruning lists "+shortStr(dt.String(), 80)+", not the directory the rotated files are created in (Join(Path, Dir(FileName)), or the Dir of Path joined with a name made from the pattern): with a FileName that carries a directory part — or an empty one, for which Dir(Join(Path, FileName)) is the PARENT of Path — the rotated files are never found and MaxFiles is never enforced")
		}
		if len(rm) != 1 || len(srt) != 1 {
			r.Bad("C15.prune", "pruneFiles:calls", p.Pos(fn.Pos()), "pruneFiles does not contain exactly one os.Remove and one ascending sort of the names (sort.Strings / slices.Sort)")
		} else {
			a := tb.Of(rm[0].Common().Args[0])
			okIdx := a.Op == "Index" && (a.Args[0].String() == tb.Of(srt[0].Common().Args[0]).String() || (a.Args[0].V != nil && a.Args[0].V == tb.Of(srt[0].Common().Args[0]).V)) && dominatesInstr(srt[0], rm[0])
			// the removal candidates are not the raw glob result: "<base>-*<ext>" also matches the
			// files of a sink called "<base>-errors<ext>". They are accumulated one by one, each under
			// a test of the candidate's own name.
			if a.Op == "Index" {
				raw := a.Args[0].Op == "Extract" && a.Args[0].Args[0].Is("Call", "path/filepath.Glob")
				filtered, ownTest := false, true
				if ia, ok := stripConv(rm[0].Common().Args[0]).(*ssa.UnOp); ok {
					if idx, ok := ia.X.(*ssa.IndexAddr); ok {
						var elems, leaves []ssa.Value
						var apps []*ssa.Call
						sliceOrigins(idx.X, map[ssa.Value]bool{}, &elems, &apps, &leaves)
						if len(apps) > 0 {
							for _, ap := range apps {
								// the append is conditional inside its loop, on a condition that mentions the element
								if unc, at := unconditionalInLoop(ap); !unc && at != nil {
									cond, _, _ := condOf(at)
									ct := tb.Of(cond)
									for _, e := range elems {
										et := tb.Of(e)
										if ct.Find(func(x *Term) bool { return x.V != nil && (x.V == et.V || x.String() == et.String()) }) != nil {
											filtered = true
										}
										// a candidate Join(fs.Path, entry.Name()): the test is on entry.Name()
										if nm := listingName(et); nm != nil && ct.Find(func(x *Term) bool { return x.String() == nm.String() }) != nil {
											filtered = true
										}
										// ... and the test is the sink's own name test: isRotatedName(fileNamePattern(), name)
										if ct.Find(func(x *Term) bool {
											return x.Is("Call", "eventlogger.isRotatedName") && len(x.Args) == 2 && (x.Args[0].Is("Call", "(*eventlogger.FileSink).fileNamePattern") ||
												(x.Args[0].Is("Call", "path/filepath.Base") && len(x.Args[0].Args) == 1 && x.Args[0].Args[0].Is("Call", "(*eventlogger.FileSink).fileNamePattern")))
										}) == nil {
											ownTest = false
										}
									}
								}
							}
						}
					}
				}
				// candidates taken from a directory listing are files: a dominating test inside the loop
				// excludes directories (an empty directory with such a name would be removed, a non-empty
				// one makes every prune fail)
				if ia, ok := stripConv(rm[0].Common().Args[0]).(*ssa.UnOp); ok {
					if idx, ok := ia.X.(*ssa.IndexAddr); ok {
						var elems, leaves []ssa.Value
						var apps []*ssa.Call
						sliceOrigins(idx.X, map[ssa.Value]bool{}, &elems, &apps, &leaves)
						fromListing := false
						for _, e := range elems {
							if listingName(tb.Of(e)) != nil {
								fromListing = true
							}
						}
						if fromListing {
							okFile := false
							for _, ap := range apps {
								for d := ap.Block(); d != nil; d = d.Idom() {
									cond, ts, fsucc := condOf(d)
									if cond == nil {
										continue
									}
									ct := tb.Of(cond).String()
									if strings.Contains(ct, "os.DirEntry.IsDir") && edgeDominates(d, fsucc, ap.Block()) {
										okFile = true
									}
									if strings.Contains(ct, "IsRegular") && edgeDominates(d, ts, ap.Block()) {
										okFile = true
									}
								}
							}
							r.Check(okFile, "C15.prune", "pruneFiles:files-only", p.InstrPos(rm[0]), "a directory entry becomes a candidate only after it was found not to be a directory", "every directory entry with a rotated file's name is a removal candidate, directories included: an empty directory called <base>-<digits><ext> is removed although it is none of the sink's files, and a non-empty one makes every rotation fail in pruning")
						}
					}
				}
				r.Check(!raw && filtered && ownTest, "C15.prune", "pruneFiles:own-names", p.InstrPos(rm[0]), "removal candidates are accumulated under a test of each candidate's own name", "the files removed are taken straight from the glob <base>-*<ext>, which also matches files of other sinks in the directory (\"audit-errors-<ts>.log\" for \"audit.log\"): they are counted against MaxFiles and deleted, and this sink's own rotated files can be the ones that go")
			}
			// loop bound: i < len(matches) - MaxFiles, i counting up from 0 by 1, and matches[i] is what is removed
			okBound, staleBounded := false, false
			if loop := loopOf(rm[0].Block()); loop != nil {
				for b := range loop {
					cond, _, _ := condOf(b)
					if bo, ok := cond.(*ssa.BinOp); ok && bo.Op == token.LSS {
						bt := tb.Of(bo.Y)
						isStale := func(x *Term) bool {
							return x.Op == "Bin" && x.Name == "-" && x.Args[0].Op == "Call" && x.Args[0].Name == "builtin len" && x.Args[1].Is("Field", "MaxFiles")
						}
						// the count may be clamped to the number of candidates: stale = min(len - MaxFiles, len)
						// min(len - MaxFiles, len): the count clamped with the builtin
						unclamp := func(v ssa.Value) *Term {
							call, ok := v.(*ssa.Call)
							if !ok || len(call.Call.Args) != 2 {
								return nil
							}
							if b, isB := call.Call.Value.(*ssa.Builtin); !isB || b.Name() != "min" {
								return nil
							}
							for k := 0; k < 2; k++ {
								st, ln := tb.Of(call.Call.Args[k]), call.Call.Args[1-k]
								if isStale(st) && lenArg(ln) != nil && lenArg(ln) == st.Args[0].Args[0].V {
									return st
								}
							}
							return nil
						}
						if st := unclamp(bo.Y); st != nil {
							bt = st
							staleBounded = true
						}
						if ph, isPhi := bo.Y.(*ssa.Phi); isPhi && len(ph.Edges) == 2 {
							for i, e := range ph.Edges {
								et, ot := tb.Of(e), tb.Of(ph.Edges[1-i])
								clamped := false
								if st := unclamp(e); st != nil {
									et, clamped = st, true
								}
								if isStale(et) && ot.Is("Call", "builtin len") && lenArg(ph.Edges[1-i]) != nil && lenArg(ph.Edges[1-i]) == et.Args[0].Args[0].V {
									_ = clamped
									// the len edge is taken exactly when stale > len
									pred := ph.Block().Preds[1-i]
									for d := pred; d != nil; d = d.Idom() {
										cc, ts, _ := condOf(d)
										if gb, ok := cc.(*ssa.BinOp); ok && gb.Op == token.GTR && gb.X == e && lenArg(gb.Y) != nil && lenArg(gb.Y) == lenArg(ph.Edges[1-i]) && edgeDominates(d, ts, pred) {
											bt = et
											staleBounded = true
										}
									}
									// or: the len edge is entered only by true edges of `count > len` / `MaxFiles < 0`
									if !staleBounded && len(pred.Preds) > 0 {
										all := true
										for _, q := range pred.Preds {
											cc, ts, _ := condOf(q)
											gb, ok := cc.(*ssa.BinOp)
											okEdge := false
											if ok && ts == pred {
												switch {
												case gb.Op == token.GTR && gb.X == e && lenArg(gb.Y) != nil && lenArg(gb.Y) == lenArg(ph.Edges[1-i]):
													okEdge = true
												case gb.Op == token.LSS && tb.Of(gb.X).Is("Field", "MaxFiles") && tb.Of(gb.Y).Is("Const", "0"):
													okEdge = true
												}
											}
											if !okEdge {
												all = false
											}
										}
										if all {
											bt = et
											staleBounded = true
										}
									}
								}
							}
						}
						if isStale(bt) {
							ph, isPhi := bo.X.(*ssa.Phi)
							if inc, isInc := bo.X.(*ssa.BinOp); !isPhi && isInc && inc.Op == token.ADD {
								// `for i := range n` is a rotated loop: the latch tests i+1 < n, and the
								// first iteration is entered under 0 < n
								if k, isC := constInt(inc.Y); isC && k == 1 {
									if p2, ok := inc.X.(*ssa.Phi); ok {
										guarded := false
										for _, q := range p2.Block().Preds {
											if loop[q] {
												continue
											}
											gc, ts, _ := condOf(q)
											gb, ok := gc.(*ssa.BinOp)
											if ok && gb.Op == token.LSS && ts == p2.Block() && tb.Of(gb.Y).String() == tb.Of(bo.Y).String() {
												if k0, isC0 := constInt(gb.X); isC0 && k0 == 0 {
													guarded = true
													continue
												}
											}
											guarded = false
											break
										}
										if guarded {
											ph, isPhi = p2, true
										}
									}
								}
							}
							if isPhi && okIdx && a.Args[1].V == ssa.Value(ph) {
								// induction: starts at 0, steps by +1
								init0, step1 := false, false
								for _, e := range ph.Edges {
									if k, isC := constInt(e); isC && k == 0 {
										init0 = true
									}
									if inc, isB := e.(*ssa.BinOp); isB && inc.Op == token.ADD && inc.X == ssa.Value(ph) {
										if k, isC := constInt(inc.Y); isC && k == 1 {
											step1 = true
										}
									}
								}
								okBound = init0 && step1
							}
						}
					}
				}
			}
			full, _ := c.fullLoop(rm[0], true)
			// the index stays inside the list whatever MaxFiles is: the count is clamped to the number
			// of candidates, or the index is itself tested against it, or a negative MaxFiles returned before
			if !staleBounded && okBound {
				if ld, ok := stripConv(rm[0].Common().Args[0]).(*ssa.UnOp); ok {
					if ia, ok := ld.X.(*ssa.IndexAddr); ok {
						for d := ia.Block(); d != nil; d = d.Idom() {
							cc, ts, _ := condOf(d)
							if gb, ok := cc.(*ssa.BinOp); ok && gb.Op == token.LSS && gb.X == ia.Index && lenArg(gb.Y) != nil && lenArg(gb.Y) == ia.X && edgeDominates(d, ts, ia.Block()) {
								staleBounded = true
							}
						}
					}
				}
				for _, pa := range c.enum("C15.prune", fn, PathOpts{}) {
					reaches := false
					for _, s := range pa.CallsOn() {
						if stepCallName(s) == "os.Remove" {
							reaches = true
						}
					}
					if !reaches {
						continue
					}
					neg, found := hasAtom(pa, func(at Atom) bool { return at.Op == "lt" && at.L.Is("Field", "MaxFiles") && at.R.Is("Const", "0") })
					if found && !neg {
						staleBounded = true
					}
				}
			}
			if okIdx && okBound {
				r.Check(staleBounded, "C15.prune", "pruneFiles:index-bounded", p.InstrPos(rm[0]), "the number of files to remove never exceeds the number of candidates", "the number of files to remove, len(matches) - MaxFiles, is not bounded by the number of candidates: a negative MaxFiles makes the loop index past the end of the list, and the sink panics inside Process at the first rotation")
			}
			r.Check(okIdx && okBound && full, "C15.prune", "pruneFiles:oldest", p.InstrPos(rm[0]), "after sort.Strings, removes matches[i] for i < len(matches) - MaxFiles (the oldest), keeping the newest MaxFiles", "pruning does not remove exactly the len(matches)-MaxFiles lexicographically smallest (oldest) matches")
		}
		// configured names are not patterns: nothing derived from fs.Path / fs.FileName is handed to
		// filepath.Glob or filepath.Match as the pattern ("logs[1]" is a directory, not a character class)
		nGlob := 0
		for _, f := range p.FuncsIn(PkgRoot) {
			for _, ci := range callsTo(f, func(n string, cc *ssa.CallCommon) bool {
				return n == "path/filepath.Glob" || n == "path/filepath.Match" || n == "path.Match"
			}) {
				pt := tb.Of(ci.Common().Args[0])
				cfg := pt.Find(func(x *Term) bool {
					return x.Is("Field", "Path") || x.Is("Field", "FileName") || x.Is("Call", "(*eventlogger.FileSink).fileNamePattern")
				})
				if cfg != nil {
					nGlob++
					r.Bad("C15.prune", p.ShortFn(f)+":configured-name-as-pattern", p.InstrPos(ci), "a glob pattern is built from the sink's configured "+cfg.String()+": a directory or file name that contains a glob metacharacter ([, *, ?, \\) matches nothing or something else, so the rotated files are never found and MaxFiles is never enforced")
				}
			}
		}
		if nGlob == 0 {
			r.Ok("C15.prune", "pruneFiles:configured-name-as-pattern", p.Pos(fn.Pos()), "no glob or match pattern is derived from the configured path or file name")
		}
		// early return when MaxFiles == 0
		okZero := false
		for _, pa := range c.enum("C15.prune", fn, PathOpts{}) {
			if pol, found := hasAtom(pa, func(at Atom) bool { return at.Op == "eq" && at.L.Is("Field", "MaxFiles") && at.R.Is("Const", "0") }); found && pol {
				okZero = true
				for _, s := range pa.CallsOn() {
					if n := stepCallName(s); n == "os.Remove" || n == "path/filepath.Glob" || n == "os.ReadDir" {
						okZero = false
					}
				}
				if rv := pa.RetVals(); rv == nil || !isNilConst(rv[0]) {
					okZero = false
				}
			}
		}
		r.Check(okZero, "C15.prune", "pruneFiles:unlimited", p.Pos(fn.Pos()), "MaxFiles == 0: nothing is removed", "MaxFiles == 0 does not disable pruning")
		// only called where the sink holds no open file (the active file could be a candidate)
		c.rulePruneHandleClosed("C15.prune")
	}
	// --- C15.count: who may write the rotation inputs. The trigger is stated over the bytes
	// written and the age of the file "since it was opened": only open() may reset them and
	// only the successful write may add to BytesWritten.
	c.ruleRotationInputWriters("C15.count")
	// --- C15.count (the add in Process is checked by C13.file as C15.count)
	if fn := c.Fn("C15.count", PkgRoot, "FileSink", "Process"); fn != nil {
		okCount := false
		eachInstr(fn, func(in ssa.Instruction) {
			if st, ok := in.(*ssa.Store); ok {
				at, vt := tb.Of(st.Addr), tb.Of(st.Val)
				if b, ok := at.IsFieldAddr("BytesWritten"); ok && b.IsParam("0:fs") && vt.Op == "Bin" && vt.Name == "+" && vt.Args[0].Is("Field", "BytesWritten") && isWriteCount(vt.Args[1]) {
					okCount = true
				}
			}
			// ... or through the sink's counting helper, handed the count of the write
			if ci, ok := in.(*ssa.Call); ok && countingHelper(ci.Call.StaticCallee()) && len(ci.Call.Args) == 2 {
				if a := tb.Of(ci.Call.Args[1]); tb.Of(ci.Call.Args[0]).IsParam("0:fs") && a.Op == "Extract" && a.Name == "0" && a.Args[0].Name == "(*bytes.Reader).WriteTo" {
					okCount = true
				}
			}
		})
		r.Check(okCount, "C15.count", "(*FileSink).Process:count", p.Pos(fn.Pos()), "BytesWritten += n of the successful write", "the successful write's byte count is not added to BytesWritten (size-based rotation would never trigger)")
		// ... and on EVERY acknowledged path: the count of the write that succeeded (the last WriteTo on
		// the path, which may be the retry) is added to BytesWritten after it. A retry that succeeds
		// without being counted lets the file grow past MaxBytes before the next rotation.
		nAck, okAll := 0, true
		for _, pa := range c.enum("C15.count", fn, PathOpts{Inline: inlineSmall("(*eventlogger.FileSink).open", "(*eventlogger.FileSink).rotate", "(*eventlogger.FileSink).reopen", "(*eventlogger.Event).Format")}) {
			rv := pa.RetVals()
			if rv == nil {
				continue
			}
			var lastW *ssa.Call
			lastIdx := -1
			for i, s := range pa.Steps {
				if cl, ok := s.In.(*ssa.Call); ok && !s.Deferred && calleeName(&cl.Call) == "(*bytes.Reader).WriteTo" {
					lastW, lastIdx = cl, i
				}
			}
			if lastW == nil {
				continue
			}
			// acknowledged: the error returned is nil, or it is the last write's error established nil on the path
			acked := isNilConst(rv[1])
			if !acked {
				et := pa.TermsAt(pa.LastStep()).Of(rv[1])
				if et.Op == "Extract" && et.Name == "1" && et.Args[0].V == ssa.Value(lastW) {
					// returned as is: nil (acknowledged) unless the path established that it is non-nil
					if pol, f := hasAtom(pa, func(at Atom) bool { return at.Op == "eq" && at.R.Is("Const", "nil") && at.L.V == et.V }); !f || pol {
						acked = true
					}
				}
			}
			if !acked {
				continue
			}
			nAck++
			counted := false
			for i := lastIdx + 1; i < len(pa.Steps); i++ {
				st, ok := pa.Steps[i].In.(*ssa.Store)
				if !ok {
					continue
				}
				stb := pa.TermsAt(pa.Steps[i])
				at, vt := stb.Of(st.Addr), stb.Of(st.Val)
				if b, ok := at.IsFieldAddr("BytesWritten"); ok && b.IsParam("0:fs") && vt.Op == "Bin" && vt.Name == "+" && vt.Args[0].Is("Field", "BytesWritten") &&
					vt.Args[1].Op == "Extract" && vt.Args[1].Name == "0" && vt.Args[1].Args[0].V == ssa.Value(lastW) {
					counted = true
				}
			}
			if !counted && okAll {
				okAll = false
				r.Bad("C15.count", "(*FileSink).Process:count-every-ack", p.InstrPos(lastW), "an event is acknowledged after this write without its byte count being added to BytesWritten: the file holds more than the sink believes, and rotates later than MaxBytes demands ("+p.PathSummary(pa)+")")
			}
		}
		if okAll {
			r.Check(nAck >= 2, "C15.count", "(*FileSink).Process:count-every-ack", p.Pos(fn.Pos()), fmt.Sprintf("%d acknowledged writing paths, each adds the successful write's count", nAck), "fewer than 2 acknowledged writing paths found (first attempt and retry)")
		}
		// rotate() is called before the write on the file path
		// on every path that writes to the sink's own file, rotate() ran exactly once, before the first write
		okOrder := true
		nFilePaths := 0
		for _, pa := range c.enum("C15.trigger", fn, PathOpts{Inline: inlineSmall("(*eventlogger.FileSink).open", "(*eventlogger.FileSink).rotate", "(*eventlogger.FileSink).reopen", "(*eventlogger.Event).Format")}) {
			nRot, firstWrite, rotIdx := 0, -1, -1
			toFile := false
			for i, s := range pa.CallsOn() {
				switch stepCallName(s) {
				case "(*eventlogger.FileSink).rotate":
					nRot++
					rotIdx = i
				case "(*bytes.Reader).WriteTo":
					if firstWrite < 0 {
						firstWrite = i
						if pa.TermsAt(s).Of(pa.Resolve(s, s.In.(ssa.CallInstruction).Common().Args[1])).String() == "Field[f](Param(0:fs))" {
							toFile = true
						}
					}
				}
			}
			if toFile {
				nFilePaths++
				if nRot != 1 || rotIdx > firstWrite {
					okOrder = false
				}
			}
		}
		okOrder = okOrder && nFilePaths > 0
		r.Check(okOrder, "C15.trigger", "(*FileSink).Process:rotate-before-write", p.Pos(fn.Pos()), "rotation is evaluated once per write, before writing", "rotate() is not called exactly once per Process before the write")
	}
}

// ruleRotationInputWriters: BytesWritten is written only by open() (reset to 0, together with
// LastCreated = the creation time) and by the successful write (+= n); LastCreated only by open().
func (c *Ctx) ruleRotationInputWriters(rule string) {
	p, r := c.P, c.R
	n := 0
	for _, f := range p.FuncsIn(PkgRoot) {
		tb := p.NewTerms(nil)
		eachInstr(f, func(in ssa.Instruction) {
			st, ok := in.(*ssa.Store)
			if !ok {
				return
			}
			fa, ok := st.Addr.(*ssa.FieldAddr)
			if !ok || typeShort(fa.X.Type()) != "eventlogger.FileSink" || isFresh(fa.X) {
				return
			}
			nm := fa.X.Type().Underlying().(*types.Pointer).Elem().Underlying().(*types.Struct).Field(fa.Field).Name()
			if nm != "BytesWritten" && nm != "LastCreated" {
				return
			}
			n++
			v := tb.Of(st.Val)
			ok2 := false
			switch {
			case f.Name() == "open" && nm == "BytesWritten" && v.Is("Const", "0"):
				ok2 = true
			case f.Name() == "open" && nm == "LastCreated" && v.Op == "Call" && v.Name == "time.Now":
				ok2 = true
			case nm == "BytesWritten" && v.Op == "Bin" && v.Name == "+" && v.Args[0].Is("Field", "BytesWritten") && isWriteCount(v.Args[1]):
				ok2 = true
			case nm == "BytesWritten" && countingHelper(f):
				// the sink's counting helper: every call site hands it the count of a write
				ok2 = true
				for _, g := range p.FuncsIn(PkgRoot) {
					gtb := p.NewTerms(nil)
					for _, ci := range callsTo(g, func(n string, cc *ssa.CallCommon) bool { return cc.StaticCallee() == f }) {
						a := gtb.Of(ci.Common().Args[1])
						if _, isCall := ci.(*ssa.Call); !isCall || !(a.Op == "Extract" && a.Name == "0" && a.Args[0].Name == "(*bytes.Reader).WriteTo") {
							ok2 = false
						}
					}
				}
			}
			r.Check(ok2, rule, p.ShortFn(f)+":writes:"+nm, p.InstrPos(in), "rotation input written only by open() (reset) or by the successful write (+= n)",
				"rotation input "+nm+" is assigned "+v.String()+" outside open()'s reset / the successful write's increment: the size/age 'since the file was opened' that drives rotation is no longer what the trigger assumes")
		})
	}
	if n < 3 {
		r.Und(rule, "instance-floor", "", fmt.Sprintf("only %d writes of BytesWritten/LastCreated found", n))
	}
}

// ruleRenameTarget: the rotated file's new name is the sink's pattern filled with a UnixNano
// timestamp (rotations within one second must not collide: os.Rename silently replaces).
func (c *Ctx) ruleRenameTarget(rule string) {
	p, r := c.P, c.R
	fn := c.Fn(rule, PkgRoot, "FileSink", "rotate")
	if fn == nil {
		return
	}
	tb := p.NewTerms(nil)
	rn := callsTo(fn, func(n string, cc *ssa.CallCommon) bool { return n == "os.Rename" })
	if len(rn) == 0 {
		r.Und(rule, "rotate:rename-target", p.Pos(fn.Pos()), "no os.Rename in rotate")
	}
	for _, ci := range rn {
		oldT, newT := tb.Of(ci.Common().Args[0]), tb.Of(ci.Common().Args[1])
		ok := strings.Contains(oldT.String(), "Field[FileName](Param(0:fs))") && strings.Contains(newT.String(), "(*eventlogger.FileSink).fileNamePattern") && strings.Contains(newT.String(), "(time.Time).UnixNano") &&
			strings.Contains(oldT.String(), "Field[Path](Param(0:fs))") && strings.Contains(newT.String(), "Field[Path](Param(0:fs))")
		r.Check(ok, rule, "rotate:rename-target", p.InstrPos(ci), "timestamp-only mode renames Path/FileName to Path/pattern(UnixNano): rotated names cannot collide within a second",
			"the rotated file is not renamed from the plain configured name to the sink's pattern filled with a UnixNano timestamp: two rotations within the timestamp's resolution get the same name and os.Rename silently replaces the earlier rotated file (acknowledged events lost)")
		// the stamp orders the sink's files: it is read from the clock HERE, with the sink's lock held
		// (rotate runs inside Process's critical section). A reading taken earlier — handed in as a
		// parameter, read before the lock — is not monotone in lock order: a writer that read the clock
		// first and rotates second names its file BEFORE the one rotated in between, so the files read
		// out of acknowledgement order and retention removes the newer file.
		stampHere := newT.Find(func(x *Term) bool {
			return x.Is("Call", "(time.Time).UnixNano") && len(x.Args) == 1 && x.Args[0].Is("Call", "time.Now")
		}) != nil
		r.Check(stampHere, rule, "rotate:stamp-under-lock", p.InstrPos(ci), "the rotated file's stamp is time.Now().UnixNano() read inside rotate (under the sink's lock)",
			"the rotated file's stamp is not read from the clock inside rotate ("+shortStr(newT.String(), 140)+"): a reading taken before the sink's lock was acquired is not monotone in the order in which writers rotate, so the names no longer order the files by age")
	}
}

func rel(x int) string {
	switch {
	case x < 0:
		return "<"
	case x == 0:
		return "="
	}
	return ">"
}

// lenArg: v is len(x) — returns x.
func lenArg(v ssa.Value) ssa.Value {
	if c, ok := v.(*ssa.Call); ok {
		if b, ok := c.Call.Value.(*ssa.Builtin); ok && b.Name() == "len" && len(c.Call.Args) == 1 {
			return c.Call.Args[0]
		}
	}
	return nil
}

// countingHelper: a method of FileSink whose whole effect is BytesWritten += <its one parameter>.
func countingHelper(f *ssa.Function) bool {
	if f == nil || f.Blocks == nil || len(f.Blocks) != 1 || len(f.Params) != 2 || f.Signature.Recv() == nil || typeShort(f.Signature.Recv().Type()) != "eventlogger.FileSink" {
		return false
	}
	stores, calls := 0, 0
	ok := false
	for _, in := range f.Blocks[0].Instrs {
		switch x := in.(type) {
		case *ssa.Store:
			fa, isFA := x.Addr.(*ssa.FieldAddr)
			bo, isB := x.Val.(*ssa.BinOp)
			// other bookkeeping of the sink's own (an events counter) may live next to the count; the
			// rotation inputs and the handle may not
			if isFA && fa.X == ssa.Value(f.Params[0]) {
				switch fa.X.Type().Underlying().(*types.Pointer).Elem().Underlying().(*types.Struct).Field(fa.Field).Name() {
				case "BytesWritten":
					stores++
				case "LastCreated", "f":
					return false
				}
			} else {
				return false
			}
			if isFA && isB && fa.X == ssa.Value(f.Params[0]) && bo.Op == token.ADD && bo.Y == ssa.Value(f.Params[1]) {
				if ld, isLd := bo.X.(*ssa.UnOp); isLd && ld.Op == token.MUL {
					if fa2, ok2 := ld.X.(*ssa.FieldAddr); ok2 && fa2.X == fa.X && fa2.Field == fa.Field &&
						fa.X.Type().Underlying().(*types.Pointer).Elem().Underlying().(*types.Struct).Field(fa.Field).Name() == "BytesWritten" {
						ok = true
					}
				}
			}
		case ssa.CallInstruction:
			calls++
		}
	}
	return ok && stores == 1 && calls == 0
}

// forwardsArgOnly: v is result 0 of a call of a function of the module that returns, as its first
// result, either nil or one (and always the same) of its own parameters — and the argument passed
// for that parameter satisfies isEvent.
func forwardsArgOnly(p *Prog, v ssa.Value, isEvent func(ssa.Value) bool) bool {
	ex, ok := v.(*ssa.Extract)
	if !ok || ex.Index != 0 {
		return false
	}
	call, ok := ex.Tuple.(*ssa.Call)
	if !ok {
		return false
	}
	sc := call.Call.StaticCallee()
	if sc == nil || sc.Blocks == nil || !p.InRepo(sc) {
		return false
	}
	idx := -1
	for _, ret := range Returns(sc) {
		rv := RetVals(ret)
		if len(rv) == 0 {
			return false
		}
		if isNilConst(rv[0]) {
			continue
		}
		k := -1
		for i, prm := range sc.Params {
			if rv[0] == ssa.Value(prm) {
				k = i
			}
		}
		if k < 0 || (idx >= 0 && idx != k) {
			return false
		}
		idx = k
	}
	return idx >= 0 && idx < len(call.Call.Args) && isEvent(call.Call.Args[idx])
}

// isWriteCount: the byte count of a write — result 0 of (*bytes.Reader).WriteTo, or a merge of such
// counts (first attempt / retry; which one a path adds is decided path-sensitively by count-every-ack).
func isWriteCount(t *Term) bool {
	if t == nil {
		return false
	}
	if t.Op == "Extract" && t.Name == "0" && len(t.Args) == 1 && t.Args[0].Name == "(*bytes.Reader).WriteTo" {
		return true
	}
	if t.Op == "Phi" && len(t.Args) > 0 {
		for _, a := range t.Args {
			if !isWriteCount(a) {
				return false
			}
		}
		return true
	}
	return false
}

// freshCopyOf: v is a slice freshly made with the length of src and filled by copy(v, src) — the
// event's own copy of the bytes it is given — or append onto a nil / empty fresh slice.
func freshCopyOf(v ssa.Value, src ssa.Value) bool {
	switch x := v.(type) {
	case *ssa.MakeSlice:
		ln, ok := x.Len.(*ssa.Call)
		if !ok || calleeName(&ln.Call) != "builtin len" || len(ln.Call.Args) != 1 || ln.Call.Args[0] != src {
			return false
		}
		for _, ref := range nonDebugRefs(x) {
			if call, ok := ref.(*ssa.Call); ok && calleeName(&call.Call) == "builtin copy" && len(call.Call.Args) == 2 && call.Call.Args[0] == ssa.Value(x) && call.Call.Args[1] == src {
				return true
			}
		}
	case *ssa.Call:
		// append([]byte(nil), src...)
		if calleeName(&x.Call) == "builtin append" && len(x.Call.Args) == 2 && x.Call.Args[1] == src {
			if isNilConst(x.Call.Args[0]) {
				return true
			}
		}
	}
	return false
}
