package check

import (
	"fmt"
	"go/token"
	"go/types"
	"strings"

	"golang.org/x/tools/go/ssa"
)

// release operations: calls that release pipeline references for a list of ids
// or a single id.
func isReleaseCall(cc *ssa.CallCommon) (string, bool) {
	switch calleeName(cc) {
	case "(*eventlogger.Broker).releaseNodes":
		return "releaseNodes", true
	case "(*eventlogger.Broker).unregisterNode", "(*eventlogger.Broker).removeNode":
		return "unregisterNode", true
	}
	return "", false
}

func runC06(c *Ctx) {
	p, r := c.P, c.R
	r.Explanation = "Decides the pairing discipline between pipeline-set mutations and reference-count updates, each a necessary condition of 'in use iff some registered pipeline lists the node': reference counts are written, and graphMap.Store/Delete called, only in Broker methods under Broker.lock held for writing; every path through a Store increments once per element of the stored pipeline's flattened node set in a full loop before the successful return; every path through a Delete, or through a Store that may replace an entry, either established that no such pipeline exists or releases exactly the ids obtained from graphMap.Nodes for the same key on the same map; increments and releases iterate the same abstraction (the flattened set of the linked list); the release operation's full decision table over count in {0,1,>=2} x force (refuse without effect / unregister and hand back for closing / decrement); every node handed back for closing is closed exactly once, outside the lock, on every path; RemovePipelineAndNodes returns true after the delete. The invariant over arbitrary call histories as such is not decided; these are its inductive-step obligations. C06.registry: the registry only gains fresh records around caller-supplied nodes; C06.flatten: the flattened set contains every linked node; C06.carry: an overwrite decides the count carry-over from the existing entry's policy. C06.close gives-up-only-at-plain-node: NodeController.Close returns without calling a Close only for a node found to be neither a Closer nor a NodeUnwrapper. C06.step: the count of a registered node only moves by one. C06.close who-may-close: a to-be-closed node is produced only by unregisterNode. C06.close handoff-private: no method of Broker / graph / graphMap returns a slice or map built on a field of the shared object (the list of nodes to close is the call's own memory)."
	r.NotDecided = []string{"the reference-count invariant over arbitrary histories (a reachability question over broker states)", "that user Close implementations are idempotent"}
	tb := p.NewTerms(nil)
	must := c.MustLocks()

	// --- C06.who
	n := 0
	for _, f := range p.FuncsIn(PkgRoot) {
		eachInstr(f, func(in ssa.Instruction) {
			what := ""
			switch x := in.(type) {
			case *ssa.Store:
				if fa, ok := x.Addr.(*ssa.FieldAddr); ok && typeShort(fa.X.Type()) == "eventlogger.nodeUsage" && !isFresh(fa.X) {
					if fa.X.Type().Underlying().(*types.Pointer).Elem().Underlying().(*types.Struct).Field(fa.Field).Name() == "referenceCount" {
						what = "referenceCount write"
						// ... and the count of a registered node only ever MOVES BY ONE (a pipeline that lists the node came
						// or went): the value stored is the record's own count plus or minus one. A count that is assigned —
						// reset by a "safety net", recomputed from one event type's pipelines — no longer says how many
						// pipelines (of every event type) list the node
						vt := tb.Of(x.Val)
						okStep := false
						if bo, isB := x.Val.(*ssa.BinOp); isB && (bo.Op == token.ADD || bo.Op == token.SUB) {
							if k, isC := constInt(bo.Y); isC && k == 1 {
								if ld, isLd := bo.X.(*ssa.UnOp); isLd && ld.Op == token.MUL {
									if fa2, isFA := ld.X.(*ssa.FieldAddr); isFA && fa2.X == fa.X && fa2.Field == fa.Field {
										okStep = true
									}
								}
							}
						}
						r.Check(okStep, "C06.step", p.ShortFn(f)+":referenceCount", p.InstrPos(in), "the count of a registered node moves by one",
							"the reference count of a registered node is ASSIGNED ("+shortStr(vt.String(), 80)+") instead of moved by one: it no longer follows the pipelines that list the node — a node still listed by a pipeline (of another event type, say) is closed and unregistered, or one that nobody lists is kept for good")
					}
				}
			case ssa.CallInstruction:
				switch calleeName(x.Common()) {
				case "(*eventlogger.graphMap).Store", "(*eventlogger.graphMap).Delete":
					what = calleeName(x.Common())
				}
			}
			if what == "" {
				return
			}
			n++
			r.SawFn(p.ShortFn(f))
			held := must.At(in)
			isBroker := f.Signature.Recv() != nil && typeShort(f.Signature.Recv().Type()) == "eventlogger.Broker"
			// (a helper of the package that every caller enters with the write lock held is as good as a method)
			isBroker = isBroker || (PkgPathOf(f) == PkgRoot && !token.IsExported(f.Name()))
			r.Check(isBroker && held["eventlogger.Broker.lock"] == 'W', "C06.who", p.ShortFn(f)+":"+what, p.InstrPos(in), "in a Broker method with Broker.lock held for writing",
				what+" outside a Broker method or without Broker.lock held for writing (held: "+held.String()+")")
		})
	}
	if n < 5 {
		r.Und("C06.who", "instance-floor", "", fmt.Sprintf("only %d sites found (expected >= 5: increment, two decrements, Store, two Deletes)", n))
	}

	c.ruleRegistryInserts()
	c.ruleFlatten("C06.flatten")
	// the set of a pipeline's nodes is read off its chain when the pipeline is removed: the chain must be
	// the one that was linked (and counted) at registration
	c.ruleChainImmutable("C06.flatten")
	// the look-up of the nodes, the store of the pipeline and the count updates are one critical section
	c.ruleOneSection("C06.section")
	// re-registering a node keeps the count of the pipelines that still list it
	c.ruleRegisterNode("C06.carry")
	c.ruleOptsTable("C06.carry", []string{"WithNodeRegistrationPolicy"})

	// --- C06.inc / C06.replace / C06.dec on paths
	for _, f := range p.FuncsIn(PkgRoot) {
		if f.Parent() != nil {
			continue
		}
		hasStoreOrDelete := len(callsTo(f, func(n string, cc *ssa.CallCommon) bool {
			return n == "(*eventlogger.graphMap).Store" || n == "(*eventlogger.graphMap).Delete" || setOpWrapper(cc.StaticCallee())
		})) > 0
		if !hasStoreOrDelete || setOpWrapper(f) || (f.Signature.Recv() != nil && typeShort(f.Signature.Recv().Type()) == "eventlogger.graphMap") {
			continue
		}
		r.SawFn(p.ShortFn(f))
		paths := c.enum("C06.paths", f, PathOpts{HeaderVisits: 2, Inline: inlineSetOpWrappers, InlineDepth: 1})
		for _, pa := range paths {
			if _, ok := pa.End.(*ssa.Return); !ok {
				continue
			}
			calls := pa.CallsOn()
			for i, s := range calls {
				ci := s.In.(ssa.CallInstruction)
				name := calleeName(ci.Common())
				if name != "(*eventlogger.graphMap).Store" && name != "(*eventlogger.graphMap).Delete" {
					continue
				}
				stb := pa.TermsAt(s)
				mapT := stb.Of(pa.Resolve(s, ci.Common().Args[0])).String()
				keyT := stb.Of(pa.Resolve(s, ci.Common().Args[1])).String()
				// release of the existing entry: a Nodes(map,key) call on this path whose failure is established, or whose ids are released
				released, absent := false, false
				for _, s2 := range calls {
					c2, ok := s2.In.(*ssa.Call)
					if !ok || calleeName(&c2.Call) != "(*eventlogger.graphMap).Nodes" {
						continue
					}
					t2 := pa.TermsAt(s2)
					if t2.Of(pa.Resolve(s2, c2.Call.Args[0])).String() != mapT || t2.Of(pa.Resolve(s2, c2.Call.Args[1])).String() != keyT {
						continue
					}
					if pol, found := hasAtom(pa, func(at Atom) bool {
						return at.Op == "eq" && at.L.Op == "Extract" && at.L.Name == "1" && at.L.Args[0].V == ssa.Value(c2) && at.R.Is("Const", "nil")
					}); found && !pol {
						absent = true
					}
					// released: releaseNodes(Extract0(c2)) or a full loop of unregisterNode(elem of Extract0(c2), true)
					for _, s3 := range calls {
						c3 := s3.In.(ssa.CallInstruction)
						kind, ok := isReleaseCall(c3.Common())
						if !ok {
							continue
						}
						t3 := pa.TermsAt(s3)
						switch kind {
						case "releaseNodes":
							a := t3.Of(pa.Resolve(s3, c3.Common().Args[1]))
							if a.Op == "Extract" && a.Name == "0" && a.Args[0].V == ssa.Value(c2) {
								released = true
							}
						}
					}
					// release in a loop: found statically (a zero-iteration path contains no call), the
					// path must pass the loop's header
					eachInstr(f, func(in ssa.Instruction) {
						c3, ok := in.(ssa.CallInstruction)
						if !ok {
							return
						}
						if kind, ok := isReleaseCall(c3.Common()); !ok || kind != "unregisterNode" {
							return
						}
						a := tb.Of(c3.Common().Args[1])
						force, isC := constBool(c3.Common().Args[2])
						if a.Op == "Index" && a.Args[0].Op == "Extract" && a.Args[0].Args[0].V == ssa.Value(c2) && isC && force {
							if full, _ := c.fullLoop(c3, false); full {
								loop := loopOf(c3.Block())
								for _, b := range pa.Blocks {
									if loop[b] {
										released = true
									}
								}
							}
						}
					})
				}
				if name == "(*eventlogger.graphMap).Delete" {
					r.Check(released || absent, "C06.dec", p.ShortFn(f)+":Delete", p.InstrPos(ci),
						"every path through Delete either established that the pipeline does not exist or releases the ids graphMap.Nodes returned for the same key",
						"a pipeline is deleted on a path that never releases its nodes' reference counts: the nodes stay 'in use' forever (pinned, never closed)")
					continue
				}
				// Store: replacement handled + increments
				r.Check(released || absent, "C06.replace", p.ShortFn(f)+":Store", p.InstrPos(ci),
					"every path through Store either established that no pipeline is registered under the key or releases the replaced pipeline's ids first",
					"a pipeline may be overwritten on a path that never releases the replaced pipeline's node references")
				// increments after the store: a range over flatten(root) of the stored registration, incrementing nodes[id].referenceCount
				reg, _ := pa.Resolve(s, ci.Common().Args[2]).(*ssa.Alloc)
				okInc := false
				var why string
				if reg == nil {
					why = "stored value is not a fresh registration"
				} else {
					root := litFields(pa, reg, len(pa.Steps))["rootNode"]
					for _, s4 := range calls[i+1:] {
						c4, ok := s4.In.(*ssa.Call)
						if !ok || calleeName(&c4.Call) != "(*eventlogger.linkedNode).flatten" {
							continue
						}
						if pa.Resolve(s4, c4.Call.Args[0]) != root {
							why = "flatten is applied to another list than the one stored"
							continue
						}
						// find the increment store in f: nodes[key].referenceCount = old+1 with key from range over c4
						eachInstr(f, func(in ssa.Instruction) {
							st, ok := in.(*ssa.Store)
							if !ok {
								return
							}
							at := tb.Of(st.Addr)
							if at.Op != "FieldAddr" || at.Name != "referenceCount" {
								return
							}
							vt := tb.Of(st.Val)
							base := at.Args[0]
							okShape := vt.Op == "Bin" && vt.Name == "+" && vt.Args[1].Is("Const", "1") && vt.Args[0].Is("Field", "referenceCount") &&
								base.Op == "Extract" && base.Args[0].Op == "Lookup" && base.Args[0].Args[0].Is("Field", "nodes") &&
								base.Args[0].Args[1].Op == "Extract" && base.Args[0].Args[1].Args[0].Op == "Next" &&
								base.Args[0].Args[1].Args[0].Args[0].Op == "Range" && base.Args[0].Args[1].Args[0].Args[0].Args[0].V == ssa.Value(c4)
							if !okShape {
								return
							}
							if full, w := c.fullLoop(in, false); full {
								okInc = true
							} else {
								why = "increment loop: " + w
							}
						})
					}
				}
				// increments only matter on successful paths
				failed, _ := pathFailed(pa, false)
				if !failed {
					r.Check(okInc, "C06.inc", p.ShortFn(f)+":Store", p.InstrPos(ci),
						"after Store, a full loop over flatten(stored root) increments nodes[id].referenceCount by one per distinct node",
						"the stored pipeline's nodes are not each counted exactly once after Store: "+why)
				}
			}
		}
	}
	r.Floor("C06.dec", 2)
	r.Floor("C06.replace", 1)
	r.Floor("C06.inc", 1)

	// --- C06.paired: the converse of dec/replace — references are released only on
	// paths that really remove or replace that pipeline
	nRel := 0
	for _, f := range p.FuncsIn(PkgRoot) {
		if f.Parent() != nil {
			continue
		}
		rel := callsTo(f, func(n string, cc *ssa.CallCommon) bool { _, ok := isReleaseCall(cc); return ok })
		if len(rel) == 0 {
			continue
		}
		for _, pa := range c.enum("C06.paired", f, PathOpts{Inline: inlineSetOpWrappers, InlineDepth: 1}) {
			if _, ok := pa.End.(*ssa.Return); !ok {
				continue
			}
			calls := pa.CallsOn()
			for _, s := range calls {
				ci := s.In.(ssa.CallInstruction)
				kind, ok := isReleaseCall(ci.Common())
				if !ok {
					continue
				}
				stb := pa.TermsAt(s)
				a := stb.Of(pa.Resolve(s, ci.Common().Args[1]))
				// which Nodes() call do the released ids come from?
				var src *Term
				switch {
				case kind == "releaseNodes" && a.Op == "Extract" && a.Args[0].Name == "(*eventlogger.graphMap).Nodes":
					src = a.Args[0]
				case kind == "unregisterNode" && a.Op == "Index" && a.Args[0].Op == "Extract" && a.Args[0].Args[0].Name == "(*eventlogger.graphMap).Nodes":
					src = a.Args[0].Args[0]
				default:
					continue // a single id supplied by the caller (RemoveNode): not a pipeline release
				}
				nRel++
				mapT, keyT := src.Args[0].String(), src.Args[1].String()
				removed := false
				for _, s2 := range calls {
					c2 := s2.In.(ssa.CallInstruction)
					n2 := calleeName(c2.Common())
					if n2 != "(*eventlogger.graphMap).Store" && n2 != "(*eventlogger.graphMap).Delete" {
						continue
					}
					t2 := pa.TermsAt(s2)
					if t2.Of(pa.Resolve(s2, c2.Common().Args[0])).String() == mapT && t2.Of(pa.Resolve(s2, c2.Common().Args[1])).String() == keyT {
						removed = true
					}
				}
				r.Check(removed, "C06.paired", p.ShortFn(f)+":release", p.InstrPos(ci),
					"a pipeline's node references are released only on paths that also delete or replace that pipeline",
					"the node references of a pipeline are released on a path that neither deletes nor replaces it (e.g. a registration that fails afterwards): the pipeline stays registered while its nodes look unused and can be removed and closed under it: "+p.PathSummary(pa))
			}
		}
	}
	if nRel < 3 {
		r.Und("C06.paired", "instance-floor", "", fmt.Sprintf("only %d pipeline releases seen on paths (3 expected: RemovePipeline, RegisterPipeline overwrite, RemovePipelineAndNodes)", nRel))
	}

	// --- C06.domain: graphMap.Nodes returns the keys of flatten(rootNode)
	if nodes := c.Fn("C06.domain", PkgRoot, "graphMap", "Nodes"); nodes != nil {
		isFlatten := func(n string, cc *ssa.CallCommon) bool { return n == "(*eventlogger.linkedNode).flatten" }
		fl := callsTo(nodes, isFlatten)
		if len(fl) == 0 {
			// the key collection may live in a helper whose result Nodes returns as it is
			for _, ci := range callsTo(nodes, func(n string, cc *ssa.CallCommon) bool {
				sc := cc.StaticCallee()
				return sc != nil && sc.Blocks != nil && PkgPathOf(sc) == PkgRoot && len(callsTo(sc, isFlatten)) == 1
			}) {
				returned := false
				for _, ret := range Returns(nodes) {
					if rv := RetVals(ret); len(rv) > 0 && rv[0] == ci.(ssa.Value) {
						returned = true
					}
				}
				if returned {
					nodes = ci.Common().StaticCallee()
					fl = callsTo(nodes, isFlatten)
					break
				}
			}
		}
		ok := len(fl) == 1
		if ok {
			recv := tb.Of(fl[0].Common().Args[0])
			ok = recv.Is("Field", "rootNode")
			// result slots filled from a full range over that set
			filled := false
			eachInstr(nodes, func(in ssa.Instruction) {
				if st, isSt := in.(*ssa.Store); isSt {
					if _, isIA := st.Addr.(*ssa.IndexAddr); isIA {
						v := tb.Of(st.Val)
						if v.Op == "Extract" && v.Name == "1" && v.Args[0].Op == "Next" && v.Args[0].Args[0].Args[0].V == fl[0].(ssa.Value) {
							if full, _ := c.fullLoop(in, false); full {
								filled = true
							}
						}
					}
				}
			})
			// ... or collected with slices.Collect(maps.Keys(flatten(..))): every key, each once
			eachInstr(nodes, func(in ssa.Instruction) {
				col, isCall := in.(*ssa.Call)
				if !isCall || col.Call.StaticCallee() == nil || !strings.HasPrefix(col.Call.StaticCallee().String(), "slices.Collect[") || len(col.Call.Args) != 1 {
					return
				}
				keys, isCall := col.Call.Args[0].(*ssa.Call)
				if !isCall || keys.Call.StaticCallee() == nil || !strings.HasPrefix(keys.Call.StaticCallee().String(), "maps.Keys[") || len(keys.Call.Args) != 1 {
					return
				}
				if keys.Call.Args[0] != fl[0].(ssa.Value) {
					return
				}
				for _, ret := range Returns(nodes) {
					if rv := RetVals(ret); len(rv) > 0 && rv[0] == ssa.Value(col) {
						filled = true
					}
				}
			})
			ok = ok && filled
		}
		r.Check(ok, "C06.domain", "graphMap.Nodes", p.Pos(nodes.Pos()), "Nodes returns every key of flatten(pipeline.rootNode): the same set the increments iterate", "graphMap.Nodes does not return the flattened node set of the stored root: increments and releases would iterate different collections")
	}

	// --- C06.release: decision table of unregisterNode and releaseNodes
	c.ruleReleaseTable()

	// --- C06.close: every node handed back for closing is closed exactly once, outside the lock
	c.ruleCloseOnce()
	c.ruleCloserFirst("C06.close")
	c.ruleWhoMayClose("C06.close")
	c.ruleHandoffPrivate("C06.close")

	// --- C06.true
	if fn := c.Fn("C06.true", PkgRoot, "Broker", "RemovePipelineAndNodes"); fn != nil {
		for _, pa := range c.enum("C06.true", fn, PathOpts{}) {
			rv := pa.RetVals()
			if rv == nil {
				continue
			}
			// did the unregistering helper succeed on this path?
			pol, found := hasAtom(pa, func(at Atom) bool {
				return at.Op == "eq" && at.L.Op == "Extract" && at.L.Args[0].Op == "Call" && at.L.Args[0].Name == "(*eventlogger.Broker).unregisterPipelineAndNodes" && at.R.Is("Const", "nil")
			})
			b, isC := constBool(rv[0])
			if found && pol {
				r.Check(isC && b, "C06.true", "RemovePipelineAndNodes:after-delete", p.InstrPos(pa.End), "returns true once the pipeline was deleted, whatever the node errors", "returns "+fmt.Sprint(b)+" after the pipeline was deleted")
			}
		}
		r.Floor("C06.true", 1)
	}
}

// ruleReleaseTable: P5 on unregisterNode over refcount x force, and releaseNodes.
func (c *Ctx) ruleReleaseTable() { c.ruleReleaseTableAs("C06.release") }

func (c *Ctx) ruleReleaseTableAs(rule string) {
	p, r := c.P, c.R
	fn := c.Fn(rule, PkgRoot, "Broker", "unregisterNode")
	if fn == nil {
		return
	}
	isRC := func(t *Term) bool {
		return t.Is("Field", "referenceCount") && t.Args[0].String() == "Extract[0](Lookup(Field[nodes](Param(0:b)),Param(1:id)))"
	}
	paths := c.enum(rule, fn, PathOpts{})
	ef := c.newEffects()
	for _, rc := range []int{0, 1, 2, 3} {
		for _, force := range []bool{false, true} {
			r.TableRows++
			name := fmt.Sprintf("count=%d force=%v", rc, force)
			var match []*Path
			for _, pa := range paths {
				all := true
				for _, at := range pa.Atoms {
					var v bool
					switch {
					case at.Op == "eq" && at.L.IsParam("1:id") && at.R.Is("Const", `""`):
						v = false
					case at.Op == "true" && at.L.String() == "Extract[1](Lookup(Field[nodes](Param(0:b)),Param(1:id)))":
						v = true
					case at.Op == "lt" && at.L.Op == "Const" && isRC(at.R):
						k, _ := constInt(at.L.V)
						v = int(k) < rc
					case at.Op == "lt" && isRC(at.L) && at.R.Op == "Const":
						k, _ := constInt(at.R.V)
						v = rc < int(k)
					case at.Op == "eq" && isRC(at.L) && at.R.Op == "Const":
						k, _ := constInt(at.R.V)
						v = rc == int(k)
					case at.Op == "true" && at.L.IsParam("2:force"):
						v = force
					default:
						r.Und(rule, "unregisterNode:atom", p.InstrPos(at.If), "branch condition not understood: "+at.String())
						all = false
					}
					if at.Neg {
						v = !v
					}
					if !v {
						all = false
						break
					}
				}
				if all {
					match = append(match, pa)
				}
			}
			if len(match) != 1 {
				r.Und(rule, "unregisterNode:"+name, p.Pos(fn.Pos()), fmt.Sprintf("%d paths match the row", len(match)))
				continue
			}
			pa := match[0]
			rv := pa.RetVals()
			effs := ef.pathEffects(pa)
			failed := !isNilConst(rv[1])
			var del, dec bool
			for _, e := range effs {
				if strings.HasPrefix(e, "delete from Broker.nodes") {
					del = true
				}
				if strings.HasPrefix(e, "store to a registered node's usage record") {
					dec = true
				}
			}
			// the returned record
			closer := false
			var nodeT, idT string
			if ld, ok := rv[0].(*ssa.UnOp); ok {
				f := litFields(pa, ld.X, len(pa.Steps))
				if b, isC := constBool(f["closer"]); isC {
					closer = b
				}
				tbp := pa.TermsAt(pa.LastStep())
				nodeT, idT = tbp.Of(f["node"]).String(), tbp.Of(f["id"]).String()
			}
			switch {
			case rc > 0 && !force:
				r.Check(failed && len(effs) == 0 && !closer, rule, "unregisterNode:"+name, p.InstrPos(pa.End), "in use and not forced: refused, nothing changed", "a node in use is not refused cleanly without force")
			case rc <= 1:
				okR := !failed && del && !dec && closer && nodeT == "Field[node](Extract[0](Lookup(Field[nodes](Param(0:b)),Param(1:id))))" && idT == "Param(1:id)"
				r.Check(okR, rule, "unregisterNode:"+name, p.InstrPos(pa.End), "last reference: deleted from the registry and handed back (with its id) to be closed", fmt.Sprintf("count<=1: expected delete + node handed back for closing; got delete=%v decrement=%v closer=%v node=%s", del, dec, closer, nodeT))
			default:
				// decrement by exactly one
				okDec := !failed && !del && dec && !closer
				if okDec {
					okDec = false
					for _, s := range pa.Steps {
						if st, ok := s.In.(*ssa.Store); ok {
							vt := pa.TermsAt(s).Of(st.Val)
							if vt.Op == "Bin" && vt.Name == "-" && isRC(vt.Args[0]) && vt.Args[1].Is("Const", "1") {
								okDec = true
							}
						}
					}
				}
				r.Check(okDec, rule, "unregisterNode:"+name, p.InstrPos(pa.End), "still referenced elsewhere and forced: count decremented by one, node stays registered and open", "count>=2 with force: expected exactly a decrement by one")
			}
		}
	}
	// releaseNodes: for every id, decrement iff registered and count > 0
	if rel := c.Fn(rule, PkgRoot, "Broker", "releaseNodes"); rel != nil {
		tb := c.P.NewTerms(nil)
		okRel := false
		eachInstr(rel, func(in ssa.Instruction) {
			st, ok := in.(*ssa.Store)
			if !ok {
				return
			}
			at := tb.Of(st.Addr)
			vt := tb.Of(st.Val)
			if at.Op == "FieldAddr" && at.Name == "referenceCount" && vt.Op == "Bin" && vt.Name == "-" && vt.Args[1].Is("Const", "1") && vt.Args[0].Is("Field", "referenceCount") {
				base := at.Args[0]
				// (the entry of a comma-ok look-up, or of a plain one — the nil dereference of the latter is C04.selfsync's)
				if base.Op == "Extract" && len(base.Args) == 1 {
					base = base.Args[0]
				}
				if base.Op == "Lookup" && base.Args[0].Is("Field", "nodes") && base.Args[1].Op == "Index" && base.Args[1].Args[0].IsParam("1:ids") {
					if full, _ := c.fullLoop(in, false); full {
						// guarded by ok && count > 0
						cond, tsucc, _ := condOf(in.Block().Idom())
						if bo, isB := cond.(*ssa.BinOp); isB && bo.Op == token.GTR && tsucc == in.Block() {
							okRel = true
						}
					}
				}
			}
		})
		r.Check(okRel, rule, "releaseNodes", p.Pos(rel.Pos()), "every id of the list has its count decremented by one when registered and positive (full loop)", "releaseNodes does not decrement each listed node's positive count exactly once")
	}
	r.Floor(rule, 9)
}

// ruleCloseOnce: every unregisteredNode value produced by unregisterNode flows
// to exactly one close() on every successful path of its consumer, with the
// Broker lock not held; close() closes iff closer and reports the error.
func (c *Ctx) ruleCloseOnce() {
	p, r := c.P, c.R
	const rule = "C06.close"
	may := c.MayLocks()
	cl := c.Fn(rule, PkgRoot, "unregisteredNode", "close")
	if cl == nil {
		return
	}
	// close(): Close invoked iff closer, on NewNodeController(n.node)
	okClose := false
	for _, pa := range c.enum(rule, cl, PathOpts{}) {
		pol, found := hasAtom(pa, func(at Atom) bool { return at.Op == "true" && at.L.Is("Field", "closer") })
		nClose := 0
		for _, s := range pa.CallsOn() {
			if stepCallName(s) == "(*eventlogger.NodeController).Close" {
				nClose++
				t := pa.TermsAt(s).Of(s.In.(ssa.CallInstruction).Common().Args[0])
				if !(t.Op == "Call" && t.Name == "eventlogger.NewNodeController" && t.Args[0].Is("Field", "node")) {
					r.Bad(rule, "unregisteredNode.close", p.InstrPos(s.In), "close() closes "+t.String()+" instead of the unregistered node")
				}
			}
		}
		if !found {
			r.Bad(rule, "unregisteredNode.close", p.InstrPos(pa.End), "close() does not test whether there is a node to close")
			continue
		}
		if (pol && nClose != 1) || (!pol && nClose != 0) {
			r.Bad(rule, "unregisteredNode.close", p.InstrPos(pa.End), fmt.Sprintf("close() calls Close %d times on a path with closer=%v", nClose, pol))
			continue
		}
		okClose = true
	}
	if okClose {
		r.Ok(rule, "unregisteredNode.close", p.Pos(cl.Pos()), "Close invoked exactly once iff there is a node to close")
		c.errorFlowRule(rule, cl, nil, false)
	}
	// consumers
	nCons := 0
	for _, f := range p.FuncsIn(PkgRoot) {
		for _, ci := range callsTo(f, func(n string, cc *ssa.CallCommon) bool { return n == "(*eventlogger.Broker).unregisterNode" }) {
			nCons++
			r.SawFn(p.ShortFn(f))
			_ = ci
		}
	}
	for _, f := range p.FuncsIn(PkgRoot) {
		for _, ci := range callsTo(f, func(n string, cc *ssa.CallCommon) bool { return cc.StaticCallee() == cl }) {
			held := may.At(ci)
			_, under := held["eventlogger.Broker.lock"]
			r.Check(!under, rule, p.ShortFn(f)+":close-outside-lock", p.InstrPos(ci), "nodes are closed with the Broker lock released", "a node is closed while Broker.lock may be held (see C12)")
		}
	}
	// removeNode: on the success path of unregisterNode, close(result) exactly once and its error returned
	if rn := c.Fn(rule, PkgRoot, "Broker", "removeNode"); rn != nil {
		for _, pa := range c.enum(rule, rn, PathOpts{}) {
			var un *ssa.Call
			nCl := 0
			for _, s := range pa.CallsOn() {
				if ci, ok := s.In.(*ssa.Call); ok {
					if calleeName(&ci.Call) == "(*eventlogger.Broker).unregisterNode" {
						un = ci
					}
					if ci.Call.StaticCallee() == cl {
						nCl++
						if un == nil || pa.TermsAt(s).Of(ci.Call.Args[0]).String() != "Extract[0]("+pa.TermsAt(s).Of(un).String()+")" {
							r.Bad(rule, "removeNode:close", p.InstrPos(ci), "removeNode closes something other than what unregisterNode handed back")
						}
					}
				}
			}
			if un == nil {
				continue
			}
			pol, found := hasAtom(pa, func(at Atom) bool {
				return at.Op == "eq" && at.L.Op == "Extract" && at.L.Name == "1" && at.L.Args[0].V == ssa.Value(un) && at.R.Is("Const", "nil")
			})
			if found && pol {
				r.Check(nCl == 1, rule, "removeNode:close", p.InstrPos(pa.End), "the node handed back by unregisterNode is closed exactly once", fmt.Sprintf("removeNode closes the unregistered node %d times on its success path", nCl))
			} else if found && nCl != 0 {
				r.Bad(rule, "removeNode:close", p.InstrPos(pa.End), "removeNode closes a node although unregistering it failed")
			}
		}
	}
	// RemovePipelineAndNodes: every element of the removed slice is closed in a full loop; the slice holds every successful unregisterNode result
	if rp := c.Fn(rule, PkgRoot, "Broker", "RemovePipelineAndNodes"); rp != nil {
		tb := p.NewTerms(nil)
		cls := callsTo(rp, func(n string, cc *ssa.CallCommon) bool { return cc.StaticCallee() == cl })
		ok := len(cls) == 1
		why := ""
		if ok {
			full, w := c.fullLoop(cls[0], false)
			a := tb.Of(cls[0].Common().Args[0])
			ok = full && a.Op == "Index" && a.Args[0].Op == "Extract" && a.Args[0].Name == "0" && a.Args[0].Args[0].Name == "(*eventlogger.Broker).unregisterPipelineAndNodes"
			why = w
		}
		r.Check(ok, rule, "RemovePipelineAndNodes:close-all", p.Pos(rp.Pos()), "every node returned by unregisterPipelineAndNodes is closed once (full loop, no early exit on a Close error)", "not every removed node is closed exactly once: "+why)
	}
	if up := c.Fn(rule, PkgRoot, "Broker", "unregisterPipelineAndNodes"); up != nil {
		tb := p.NewTerms(nil)
		// removed = append(removed, n) on the success edge of unregisterNode, in the full loop over Nodes(id)
		okApp := false
		eachInstr(up, func(in ssa.Instruction) {
			call, ok := in.(*ssa.Call)
			if !ok {
				return
			}
			if b, isB := call.Call.Value.(*ssa.Builtin); !isB || b.Name() != "append" {
				return
			}
			v := tb.Of(call.Call.Args[1])
			if v.Op == "Varargs" && len(v.Args) == 1 && v.Args[0].Op == "Extract" && v.Args[0].Name == "0" && v.Args[0].Args[0].Name == "(*eventlogger.Broker).unregisterNode" {
				un := v.Args[0].Args[0].V.(*ssa.Call)
				full, _ := c.fullLoop(un, false)
				// reached only when err == nil
				cond, _, fsucc := condOf(un.Block())
				if bo, isB := cond.(*ssa.BinOp); isB && bo.Op == token.NEQ && full && edgeDominates(un.Block(), fsucc, call.Block()) {
					okApp = true
				}
			}
		})
		r.Check(okApp, rule, "unregisterPipelineAndNodes:collect", p.Pos(up.Pos()), "every successfully unregistered node is collected for closing (full loop over the pipeline's ids)", "successfully unregistered nodes are not all collected for closing")
		// the result returned is that slice
	}
	if nCons < 2 {
		r.Und(rule, "instance-floor", "", "fewer than 2 consumers of unregisterNode found")
	}
}

// ---------------------------------------------------------------------------

// ruleOptsTable: decision table of the policy option constructors — exactly the two
// valid policies are stored, everything else is rejected without storing. (Also runs
// as C06.carry policy-domain: RegisterNode's carry-over distinguishes exactly these two
// values; a third value that the option let through would overwrite an in-use node
// with a reference count of 0.)
func (c *Ctx) ruleOptsTable(rule string, names []string) {
	p, r := c.P, c.R
	for _, name := range names {
		fn := c.Fn(rule, PkgRoot, "", name)
		if fn == nil {
			continue
		}
		if len(fn.AnonFuncs) != 1 {
			r.Und(rule, name, p.Pos(fn.Pos()), "expected one closure")
			continue
		}
		cl := fn.AnonFuncs[0]
		field := map[string]string{"WithPipelineRegistrationPolicy": "withPipelineRegistrationPolicy", "WithNodeRegistrationPolicy": "withNodeRegistrationPolicy"}[name]
		// acceptance implies membership: every path that returns nil established that the policy
		// IS one of the two valid constants (a third accepted value — the empty string as "unset",
		// say — is stored like any other and later read by code that only knows two)
		for _, pa := range c.enum(rule, cl, PathOpts{Inline: inlineSmall()}) {
			rv := pa.RetVals()
			if len(rv) != 1 || !isNilConst(rv[0]) {
				continue
			}
			member := false
			for _, at := range pa.Atoms {
				if at.Op == "eq" && !at.Neg && at.R.Op == "Const" && (at.R.Name == `"AllowOverwrite"` || at.R.Name == `"DenyOverwrite"`) {
					member = true
				}
			}
			if !member {
				r.Bad(rule, name+":accepts-only-valid", p.InstrPos(pa.End), "the option accepts a policy without having found it equal to AllowOverwrite or DenyOverwrite ("+shortStr(p.PathSummary(pa), 200)+"): such a value is stored as the registration's policy, and RegisterNode — which carries the reference count over only for AllowOverwrite — would overwrite an in-use node with a count of 0")
			}
		}
		for _, val := range []string{`"AllowOverwrite"`, `"DenyOverwrite"`, "other"} {
			r.TableRows++
			var match []*Path
			for _, pa := range c.enum(rule, cl, PathOpts{Inline: inlineSmall()}) {
				all := true
				for _, at := range pa.Atoms {
					if at.Op != "eq" || at.R.Op != "Const" || !pa.TermsAt(pa.LastStep()).Of(at.L.V).IsParam("0:policy") {
						// free variable policy resolves to the constructor's parameter
						if at.Op != "eq" || at.R.Op != "Const" || at.L.String() != "Param(0:policy)" {
							r.Und(rule, name+":atom", p.InstrPos(at.If), "branch condition not understood: "+at.String())
							all = false
							break
						}
					}
					v := at.R.Name == val
					if at.Neg {
						v = !v
					}
					if !v {
						all = false
						break
					}
				}
				if all {
					match = append(match, pa)
				}
			}
			if len(match) != 1 {
				r.Und(rule, name+":"+val, p.Pos(cl.Pos()), fmt.Sprintf("%d paths match", len(match)))
				continue
			}
			pa := match[0]
			rv := pa.RetVals()
			var stores []string
			for _, s := range pa.Steps {
				if st, ok := s.In.(*ssa.Store); ok {
					if fa, ok := st.Addr.(*ssa.FieldAddr); ok && typeShort(fa.X.Type()) == "eventlogger.options" {
						nm := fa.X.Type().Underlying().(*types.Pointer).Elem().Underlying().(*types.Struct).Field(fa.Field).Name()
						stores = append(stores, nm+"="+pa.TermsAt(s).Of(st.Val).String())
					}
				}
			}
			if val == "other" {
				r.Check(len(stores) == 0 && !isNilConst(rv[0]), rule, name+":invalid", p.InstrPos(pa.End), "an invalid policy is rejected with an error and nothing is stored", fmt.Sprintf("an invalid policy value is not rejected cleanly (stores %v)", stores))
			} else {
				r.Check(len(stores) == 1 && stores[0] == field+"=Param(0:policy)" && isNilConst(rv[0]), rule, name+":valid", p.InstrPos(pa.End), "a valid policy is stored in "+field+" and nil returned", fmt.Sprintf("valid policy %s: stores %v", val, stores))
			}
		}
	}
}

func runC07(c *Ctx) {
	p, r := c.P, c.R
	r.Explanation = "Decides the overwrite-policy clauses structurally: both option constructors store exactly the two valid policies and reject everything else without storing (decision table over the policy value); RegisterNode cannot reach its map assignment when the EXISTING entry's policy is DenyOverwrite, the new entry carries the option's policy and, on overwrite, the old count; RegisterPipeline tests the policy of the existing entry whose key equals def.PipelineID in the graph of def.EventType, cannot reach Store when it is DenyOverwrite, and the new entry carries the option's policy; a successful call performs exactly one Store of a fresh registration whose root was linked by this very call (with C04.immutable: no in-place edits of published lists — the structural premise of 'each Send sees exactly one version'); policies live only inside the entries that removal deletes. What a concurrent Send observes during the swap is sync.Map semantics (A4). C07.defaults: both policies default to AllowOverwrite and getOpts applies every non-nil option of the whole list to the one defaults-initialised struct, returning it or the option error. C07.section: validation and commit in one critical section. C07.range / C07.copy: the pipeline set is read through graphMap.Range over the one sync.Map; no second copy refreshed from a reader's side. C07.store-policy: every stored registration carries a policy."
	r.NotDecided = []string{"what a concurrent Send observes while the Store happens (sync.Map semantics, A4)"}
	_ = p
	c.ruleOptionDefaults()
	if gf := c.Fn("C07.defaults", PkgRoot, "", "getOpts"); gf != nil {
		// "invalid policy values are rejected": the error of EVERY option reaches the caller
		c.errorFlowRule("C07.defaults", gf, nil, false)
	}
	// --- C07.opts
	c.ruleOptsTable("C07.opts", []string{"WithPipelineRegistrationPolicy", "WithNodeRegistrationPolicy"})
	c.ruleRegistryNodeReaders("C07.node")
	r.Floor("C07.opts", 6)

	// --- C07.node
	c.ruleRegisterNode("C07.node")
	// --- C07.pipeline
	c.rulePolicySource("C07.pipeline")
	// "only by the new one once the overwriting call has returned": Send, Reopen and the policy look-up all read the
	// pipeline set through graphMap.Range — it ranges the one sync.Map (C01.range), and no second copy of the set is
	// refreshed from a reader's side (C04.copy)
	c.ruleGraphMap("C07.range", "")
	c.rulePipelineCopies("C07.copy")
	c.ruleStoreSites("", "C07.store-policy")
	c.ruleOneSection("C07.section")
	// --- C07.swap (shares the commit rule: exactly one Store of a fresh registration linked by this call)
	c.ruleCommit()
	// rename the commit rule's verdicts for this property
	for i := range r.Obls {
		if r.Obls[i].Rule == "C05.commit" {
			r.Obls[i].Rule = "C07.swap"
		}
	}
	c.immutableRule("C07.swap")
	c.ruleSingleStore("C07.swap")

	// --- C07.reset: no policy-typed field outside the map entries
	for _, owner := range []string{"eventlogger.Broker", "eventlogger.graph", "eventlogger.graphMap"} {
		st := p.structByShort(owner)
		if st == nil {
			r.Und("C07.reset", owner, "", "type not found")
			continue
		}
		bad := ""
		for i := 0; i < st.NumFields(); i++ {
			if typeShort(st.Field(i).Type()) == "eventlogger.RegistrationPolicy" {
				bad = st.Field(i).Name()
			}
		}
		r.Check(bad == "", "C07.reset", owner, "", "no RegistrationPolicy field: policies live only in the node / pipeline entries that removal deletes", "field "+bad+" keeps a policy outside the entries removed with the node/pipeline")
	}
}

// immutableRule: C04.immutable shared with C07.swap.
func (c *Ctx) immutableRule(rule string) {
	r := c.R
	must := c.MustLocks()
	accs := c.P.CollectAccesses(c.P.RepoFuncs(), must, func(o string) bool {
		return o == "eventlogger.registeredPipeline" || o == "eventlogger.linkedNode"
	})
	for _, a := range accs {
		if !a.Write {
			continue
		}
		r.SawFn(c.P.ShortFn(a.Fn))
		construct := a.Key() + "@" + c.P.ShortFn(a.Fn)
		if a.Fresh {
			r.Ok(rule, construct, c.P.InstrPos(a.Instr), "written only through an object allocated by this call (before publication)")
		} else {
			r.Bad(rule, construct, c.P.InstrPos(a.Instr), "field of a possibly published pipeline structure is written in place; Send traverses these lists without any lock")
		}
	}
}

// ruleSingleStore: the overwrite of a pipeline is ONE sync.Map Store: nothing reachable from
// RegisterPipeline deletes from the graph (a concurrent Send, which ranges the sync.Map
// without the broker lock, sees the old or the new version, never neither).
func (c *Ctx) ruleSingleStore(rule string) {
	p, r := c.P, c.R
	fn := c.Fn(rule, PkgRoot, "Broker", "RegisterPipeline")
	if fn == nil {
		return
	}
	var chain []string
	var find func(f *ssa.Function, seen map[*ssa.Function]bool) bool
	find = func(f *ssa.Function, seen map[*ssa.Function]bool) bool {
		if seen[f] {
			return false
		}
		seen[f] = true
		hit := false
		eachInstr(f, func(in ssa.Instruction) {
			if hit {
				return
			}
			ci, ok := in.(ssa.CallInstruction)
			if !ok {
				return
			}
			sc := ci.Common().StaticCallee()
			if sc == nil {
				return
			}
			if sc.String() == "(*"+PkgRoot+".graphMap).Delete" {
				chain = append(chain, p.ShortFn(f)+" calls graphMap.Delete at "+p.InstrPos(in))
				hit = true
				return
			}
			if p.InRepo(sc) && sc.Blocks != nil && find(sc, seen) {
				chain = append(chain, p.ShortFn(f)+" calls "+p.ShortFn(sc)+" at "+p.InstrPos(in))
				hit = true
			}
		})
		for _, a := range f.AnonFuncs {
			if !hit && find(a, seen) {
				hit = true
			}
		}
		return hit
	}
	del := find(fn, map[*ssa.Function]bool{})
	r.Check(!del, rule, "RegisterPipeline:single-store", p.Pos(fn.Pos()), "registration never deletes from the graph: an overwrite is a single Store (a concurrent Send sees the old or the new version, never neither)",
		"RegisterPipeline can delete a pipeline from the graph before storing its replacement: a concurrent Send (which ranges the sync.Map without the broker lock) is processed by neither version, and a failing overwrite loses the original: "+strings.Join(chain, " <- "))
}

// rulePolicySource: RegisterPipeline consults the registration policy of the existing
// entry whose key equals def.PipelineID in def.EventType's graph (and of no other
// entry), cannot reach Store when it is DenyOverwrite, and fails on that path.
func (c *Ctx) rulePolicySource(rule string) {
	p, r := c.P, c.R
	tb := p.NewTerms(nil)
	if fn := c.Fn(rule, PkgRoot, "Broker", "RegisterPipeline"); fn != nil {
		// the locked body may live in a helper that RegisterPipeline calls with its definition: decide there
		isRange := func(n string, cc *ssa.CallCommon) bool { return n == "(*eventlogger.graphMap).Range" }
		if len(callsTo(fn, isRange)) == 0 {
			for _, ci := range callsTo(fn, func(n string, cc *ssa.CallCommon) bool {
				sc := cc.StaticCallee()
				return sc != nil && sc.Blocks != nil && PkgPathOf(sc) == PkgRoot && len(callsTo(sc, isRange)) == 1
			}) {
				sc := ci.Common().StaticCallee()
				sameArgs := len(sc.Params) >= 2 && len(fn.Params) >= 2 && sc.Params[0].Name() == fn.Params[0].Name() && sc.Params[1].Name() == fn.Params[1].Name() &&
					ci.Common().Args[0] == ssa.Value(fn.Params[0])
				if sameArgs {
					r.Notes = append(r.Notes, rule+": the body of RegisterPipeline is decided in its helper "+p.ShortFn(sc))
					fn = sc
					break
				}
			}
		}
		// the policy variable: a cell assigned in the Range callback from the existing entry with the same id
		rc := callsTo(fn, isRange)
		var polCell ssa.Value
		okCb := false
		if len(rc) == 1 {
			if mc, ok := rc[0].Common().Args[1].(*ssa.MakeClosure); ok {
				cb := mc.Fn.(*ssa.Function)
				r.SawFn(p.ShortFn(cb))
				for _, pa := range c.enum(rule, cb, PathOpts{}) {
					for _, s := range pa.Steps {
						st, ok := s.In.(*ssa.Store)
						if !ok {
							continue
						}
						ctb := pa.TermsAt(s)
						if ctb.Of(st.Val).String() != "Field[registrationPolicy](Param(1:v))" {
							r.Bad(rule, "RegisterPipeline:policy-source", p.InstrPos(st), "the policy variable is assigned "+ctb.Of(st.Val).String()+", not the existing entry's registrationPolicy")
							continue
						}
						pol, found := hasAtom(pa, func(at Atom) bool {
							return at.Op == "eq" && ((at.L.IsParam("0:key") && at.R.String() == "Field[PipelineID](Param(1:def))") || (at.R.IsParam("0:key") && at.L.String() == "Field[PipelineID](Param(1:def))"))
						})
						if found && pol {
							okCb = true
							polCell = ctb.Of(st.Addr).V
						} else {
							r.Bad(rule, "RegisterPipeline:policy-source", p.InstrPos(st), "the policy is taken from an entry whose key was not compared equal to def.PipelineID")
						}
					}
				}
				// the look-up is complete: an entry with another key never ends the range (the callback
				// continues), so the existing entry is found wherever sync.Map's order puts it
				for _, pa := range c.enum(rule, cb, PathOpts{}) {
					rv := pa.RetVals()
					if rv == nil || len(rv) != 1 {
						continue
					}
					pol, found := hasAtom(pa, func(at Atom) bool {
						return at.Op == "eq" && ((at.L.IsParam("0:key") && at.R.String() == "Field[PipelineID](Param(1:def))") || (at.R.IsParam("0:key") && at.L.String() == "Field[PipelineID](Param(1:def))"))
					})
					if found && pol {
						continue // the entry itself: stopping or continuing are both fine
					}
					// the returned value under this path's knowledge that key != def.PipelineID
					isKeyEq := func(t *Term) (neq bool, ok bool) {
						if t.Op != "Bin" || len(t.Args) != 2 || (t.Name != "==" && t.Name != "!=") {
							return false, false
						}
						l, rr := t.Args[0], t.Args[1]
						if !((l.IsParam("0:key") && rr.String() == "Field[PipelineID](Param(1:def))") || (rr.IsParam("0:key") && l.String() == "Field[PipelineID](Param(1:def))")) {
							return false, false
						}
						return t.Name == "!=", true
					}
					var evalRet func(v ssa.Value, d int) (bool, bool)
					evalRet = func(v ssa.Value, d int) (bool, bool) {
						if b, isC := constBool(v); isC {
							return b, true
						}
						if d > 4 {
							return false, false
						}
						v = pa.Resolve(pa.LastStep(), v)
						if u, isU := v.(*ssa.UnOp); isU && u.Op == token.NOT {
							if b, ok := evalRet(u.X, d+1); ok {
								return !b, true
							}
							return false, false
						}
						if neq, ok := isKeyEq(pa.TermsAt(pa.LastStep()).Of(v)); ok && found && !pol {
							return neq, true // key != id on this path: (key == id) is false, (key != id) is true
						}
						return false, false
					}
					cont, isConst := evalRet(rv[0], 0)
					r.Check(isConst && cont, rule, "RegisterPipeline:policy-lookup-complete", p.InstrPos(pa.End), "an entry with another id never ends the search for the existing pipeline",
						"the callback that looks for the existing pipeline can stop the range at an entry with ANOTHER id ("+shortStr(pa.TermsAt(pa.LastStep()).Of(rv[0]).String(), 60)+"): with several pipelines of one event type the existing entry is only found when sync.Map happens to visit it first — its DenyOverwrite policy is then not seen and the pipeline is replaced")
				}
				// the range is over the graph of def.EventType
				recv := tb.Of(rc[0].Common().Args[0])
				if b, ok := recv.IsFieldAddr("roots"); !ok || !(strings.Contains(b.String(), "Lookup(Field[graphs](Param(0:b)),Field[EventType](Param(1:def)))") || b.Op == "Phi" || b.Op == "Alloc" || graphOfTypeCall(tb, b)) {
					okCb = false
				}
			}
		}
		r.Check(okCb, rule, "RegisterPipeline:policy-source", p.Pos(fn.Pos()), "the policy consulted is the registrationPolicy of the existing entry whose key equals def.PipelineID in def.EventType's graph", "the policy consulted is not that of the existing pipeline with the same id and type")
		// Store unreachable when the cell == Deny; Deny path fails
		if polCell != nil {
			for _, pa := range c.enum(rule, fn, PathOpts{}) {
				pol, found := hasAtom(pa, func(at Atom) bool {
					if at.Op != "eq" || !at.R.Is("Const", `"DenyOverwrite"`) {
						return false
					}
					ld, ok := at.L.V.(*ssa.UnOp)
					return ok && ld.X == polCell
				})
				stored := false
				for _, s := range pa.CallsOn() {
					if stepCallName(s) == "(*eventlogger.graphMap).Store" {
						stored = true
					}
				}
				if stored && !(found && !pol) {
					r.Bad(rule, "RegisterPipeline:deny", p.InstrPos(pa.End), "Store is reachable without establishing that the existing policy is not DenyOverwrite")
				}
				if found && pol {
					failed, _ := pathFailed(pa, false)
					if !failed || stored {
						r.Bad(rule, "RegisterPipeline:deny", p.InstrPos(pa.End), "an existing DenyOverwrite pipeline does not make RegisterPipeline fail before storing")
					} else {
						r.Ok(rule, "RegisterPipeline:deny", p.InstrPos(pa.End), "an existing DenyOverwrite pipeline makes RegisterPipeline fail; Store is unreachable")
					}
				}
			}
		}
		r.Floor(rule, 2)
	}
}

// ruleRegisterNode: RegisterNode cannot reach its map assignment when the EXISTING
// entry's policy is DenyOverwrite; the new entry carries the given node, the option's
// policy and — on overwrite, decided from the existing entry's policy — the old count.
func (c *Ctx) ruleRegisterNode(rule string) {
	p, r := c.P, c.R
	if fn := c.Fn(rule, PkgRoot, "Broker", "RegisterNode"); fn != nil {
		nAssign := 0
		for _, pa := range c.enum(rule, fn, PathOpts{Inline: inlineSmall("eventlogger.getOpts")}) {
			var mu *ssa.MapUpdate
			var muStep Step
			for _, s := range pa.Steps {
				if x, ok := s.In.(*ssa.MapUpdate); ok && pa.TermsAt(s).Of(x.Map).Is("Field", "nodes") {
					mu, muStep = x, s
				}
			}
			if mu == nil {
				continue
			}
			nAssign++
			stb := pa.TermsAt(muStep)
			existsPol, existsFound := hasAtom(pa, func(at Atom) bool {
				return at.Op == "true" && at.L.String() == "Extract[1](Lookup(Field[nodes](Param(0:b)),Param(1:id)))"
			})
			denyPol, denyFound := hasAtom(pa, func(at Atom) bool {
				return at.Op == "eq" && at.L.String() == "Field[registrationPolicy](Extract[0](Lookup(Field[nodes](Param(0:b)),Param(1:id))))" && at.R.Is("Const", `"DenyOverwrite"`)
			})
			allowPol, allowFound := hasAtom(pa, func(at Atom) bool {
				return at.Op == "eq" && at.L.String() == "Field[registrationPolicy](Extract[0](Lookup(Field[nodes](Param(0:b)),Param(1:id))))" && at.R.Is("Const", `"AllowOverwrite"`)
			})
			if !existsFound {
				r.Bad(rule, "RegisterNode:assign", p.InstrPos(mu), "the node is assigned on a path that never looked the id up")
				continue
			}
			if existsPol {
				// the existing entry's policy must have been established not to be Deny
				notDeny := (denyFound && !denyPol) || (allowFound && allowPol)
				if !notDeny {
					r.Bad(rule, "RegisterNode:deny", p.InstrPos(mu), "an existing node is overwritten on a path that did not establish that ITS stored policy is not DenyOverwrite", p.PathSummary(pa))
					continue
				}
			}
			// an overwrite (the id exists, its policy is not Deny) must have looked at the EXISTING
			// entry's policy to decide whether the count is carried over — not at the new record's
			if existsFound && existsPol && !allowFound {
				r.Bad(rule, "RegisterNode:carry-decision", p.InstrPos(mu), "an existing node is overwritten on a path that never compares ITS stored policy with AllowOverwrite: whether the reference count is carried over is decided from something else (e.g. the new registration's policy), so an in-use node can be re-registered with a count of 0", p.PathSummary(pa))
				continue
			}
			// the new entry
			nr, isAlloc := pa.Resolve(muStep, mu.Value).(*ssa.Alloc)
			okNew := isAlloc && stb.Of(mu.Key).IsParam("1:id")
			if okNew {
				f := litFields(pa, nr, stepIndex(pa, mu))
				okNew = stb.Of(f["node"]).IsParam("2:node") &&
					stb.Of(f["registrationPolicy"]).String() == "Field[withNodeRegistrationPolicy](Extract[0](Call[eventlogger.getOpts](Param(3:opt))))"
				rc := stb.Of(f["referenceCount"]).String()
				if existsPol && allowFound && allowPol {
					okNew = okNew && rc == "Field[referenceCount](Extract[0](Lookup(Field[nodes](Param(0:b)),Param(1:id))))"
				} else if !existsPol {
					okNew = okNew && rc == "Const(0)"
				}
			}
			r.Check(okNew, rule, "RegisterNode:new-entry", p.InstrPos(mu), "nodes[id] = {node, policy from the option, count carried over on overwrite / 0 when new}", "the new usage record does not carry the given node, the option's policy and the right reference count")
		}
		r.Check(nAssign >= 2, rule, "RegisterNode:assign", p.Pos(fn.Pos()), fmt.Sprintf("%d assigning paths, none through a DenyOverwrite entry", nAssign), "fewer than 2 assigning paths")
		// deny path errors
		for _, pa := range c.enum(rule, fn, PathOpts{}) {
			if pol, found := hasAtom(pa, func(at Atom) bool {
				return at.Op == "eq" && at.L.Is("Field", "registrationPolicy") && at.R.Is("Const", `"DenyOverwrite"`)
			}); found && pol {
				failed, _ := pathFailed(pa, false)
				r.Check(failed, rule, "RegisterNode:deny", p.InstrPos(pa.End), "an existing DenyOverwrite node makes RegisterNode fail", "RegisterNode succeeds although the existing node forbids overwriting")
			}
		}
	}

}

// graphGetOrCreate: fn(b *Broker, t EventType) *graph hands back the graph stored in b.graphs under t,
// or a fresh one — nothing else (a look-up-or-create helper).
func graphGetOrCreate(fn *ssa.Function) bool {
	if fn == nil || fn.Blocks == nil || len(fn.Params) != 2 || typeShort(fn.Params[0].Type()) != "eventlogger.Broker" {
		return false
	}
	var srcOK func(v ssa.Value, d int) bool
	srcOK = func(v ssa.Value, d int) bool {
		if d > 4 {
			return false
		}
		switch x := v.(type) {
		case *ssa.Alloc:
			return typeShort(x.Type()) == "eventlogger.graph"
		case *ssa.Phi:
			for _, e := range x.Edges {
				if !srcOK(e, d+1) {
					return false
				}
			}
			return true
		case *ssa.Extract:
			lk, ok := x.Tuple.(*ssa.Lookup)
			if !ok || x.Index != 0 || lk.Index != ssa.Value(fn.Params[1]) {
				return false
			}
			ld, ok := lk.X.(*ssa.UnOp)
			if !ok {
				return false
			}
			fa, ok := ld.X.(*ssa.FieldAddr)
			return ok && fa.X == ssa.Value(fn.Params[0]) && fieldName(fa) == "graphs"
		}
		return false
	}
	n := 0
	for _, ret := range Returns(fn) {
		rv := RetVals(ret)
		if len(rv) != 1 || !srcOK(rv[0], 0) {
			return false
		}
		n++
	}
	return n > 0
}

// graphOfTypeCall: t is Call[get-or-create helper](b, def.EventType).
func graphOfTypeCall(tb *Terms, t *Term) bool {
	if t == nil || t.Op != "Call" || len(t.Args) != 2 {
		return false
	}
	call, ok := t.V.(*ssa.Call)
	if !ok || !graphGetOrCreate(call.Call.StaticCallee()) {
		return false
	}
	return t.Args[0].IsParam("0:b") && t.Args[1].String() == "Field[EventType](Param(1:def))"
}

// setOpWrapper: a function of package eventlogger (not a method of graphMap) that does nothing but one
// Store / Delete on the pipeline set of a graph it is handed — the callers own the pairing with the
// reference counts, so the path rules look through it.
func setOpWrapper(f *ssa.Function) bool {
	if f == nil || f.Blocks == nil || len(f.Blocks) != 1 || f.Parent() != nil || PkgPathOf(f) != PkgRoot {
		return false
	}
	if rc := f.Signature.Recv(); rc != nil && typeShort(rc.Type()) == "eventlogger.graphMap" {
		return false
	}
	ops, other := 0, 0
	for _, in := range f.Blocks[0].Instrs {
		ci, ok := in.(ssa.CallInstruction)
		if !ok {
			continue
		}
		switch calleeName(ci.Common()) {
		case "(*eventlogger.graphMap).Store", "(*eventlogger.graphMap).Delete":
			ops++
			fa, isFA := ci.Common().Args[0].(*ssa.FieldAddr)
			if !isFA {
				return false
			}
			if _, isPar := fa.X.(*ssa.Parameter); !isPar {
				return false
			}
		default:
			other++
		}
	}
	return ops == 1 && other == 0
}

func inlineSetOpWrappers(caller *ssa.Function, call *ssa.Call, callee *ssa.Function) bool {
	return setOpWrapper(callee)
}
