package check

import (
	"fmt"
	"go/token"
	"go/types"
	"strings"

	"golang.org/x/tools/go/ssa"
)

// protocol anchors found by role (DESIGN §2): nothing here depends on the
// names doProcess / process.
type protoAnchors struct {
	traverse  *ssa.Function // invokes Node.Process through a linkedNode
	procCall  *ssa.Call     // that invoke
	collector *ssa.Function // selects on a chan Status with a recv state
	colSelect *ssa.Select   //
	fanout    *ssa.Function // closure calling graphMap.Range inside collector
	rangeCall ssa.CallInstruction
	callback  *ssa.Function // closure passed to Range
	send      *ssa.Function
}

func isChanOf(t types.Type, elem string) bool {
	ch, ok := t.Underlying().(*types.Chan)
	return ok && typeShort(ch.Elem()) == elem
}

func (c *Ctx) protoAnchors(rule string) *protoAnchors {
	p, r := c.P, c.R
	a := &protoAnchors{}
	tb := p.NewTerms(nil)
	for _, f := range p.FuncsIn(PkgRoot) {
		eachInstr(f, func(in ssa.Instruction) {
			switch x := in.(type) {
			case *ssa.Call:
				if calleeName(&x.Call) == "invoke eventlogger.Node.Process" {
					if base, ok := tb.Of(x.Call.Value).IsField("node"); ok && base.V != nil && typeShort(base.V.Type()) == "eventlogger.linkedNode" {
						if a.traverse != nil && a.traverse != f {
							r.Und(rule, "anchor:traversal", p.InstrPos(in), "more than one function invokes Node.Process through a linkedNode")
						}
						a.traverse, a.procCall = f, x
					}
				}
			case *ssa.Select:
				for _, st := range x.States {
					if st.Dir == types.RecvOnly && isChanOf(st.Chan.Type(), "eventlogger.Status") {
						if a.collector != nil && a.collector != f {
							r.Und(rule, "anchor:collector", p.InstrPos(in), "more than one function receives on a chan Status")
						}
						a.collector, a.colSelect = f, x
					}
				}
			}
		})
	}
	if a.collector != nil {
		for _, f := range AnonOf(a.collector) {
			for _, ci := range callsTo(f, func(n string, cc *ssa.CallCommon) bool { return n == "(*eventlogger.graphMap).Range" }) {
				a.fanout, a.rangeCall = f, ci
				if mc, ok := ci.Common().Args[1].(*ssa.MakeClosure); ok {
					a.callback = mc.Fn.(*ssa.Function)
				}
			}
		}
	}
	a.send = p.Method(PkgRoot, "Broker", "Send")
	miss := ""
	switch {
	case a.traverse == nil:
		miss = "traversal function (invokes Node.Process through a linkedNode)"
	case a.collector == nil:
		miss = "collector (select receiving on chan Status)"
	case a.fanout == nil || a.callback == nil:
		miss = "fan-out closure ranging graph.roots inside the collector"
	case a.send == nil:
		miss = "(*Broker).Send"
	}
	if miss != "" {
		r.Und(rule, "anchor", "", "cannot resolve role: "+miss)
		return nil
	}
	for _, f := range []*ssa.Function{a.traverse, a.collector, a.fanout, a.callback, a.send} {
		r.SawFn(p.ShortFn(f))
	}
	return a
}

// inlineSmall is the standard inlining policy of path rules: package-local,
// non-exported-API helpers of moderate size are expanded in place, so that a
// rule stated over a function's paths does not depend on whether a fragment of
// it lives in a helper. except lists callees that must stay opaque calls.
func inlineSmall(except ...string) func(caller *ssa.Function, call *ssa.Call, callee *ssa.Function) bool {
	return func(caller *ssa.Function, call *ssa.Call, callee *ssa.Function) bool {
		if PkgPathOf(caller) != PkgPathOf(callee) || len(callee.Blocks) > 40 {
			return false
		}
		name := funcShort(callee)
		for _, e := range except {
			if e == name {
				return false
			}
		}
		return true
	}
}

func (c *Ctx) enum(rule string, fn *ssa.Function, opts PathOpts) []*Path {
	if c.Thorough() && opts.HeaderVisits == 0 {
		opts.HeaderVisits = 3
	}
	paths, pruned, err := c.P.EnumPaths(fn, opts)
	c.R.Paths += len(paths)
	c.R.Pruned += pruned
	if err != nil {
		c.R.Und(rule, c.P.ShortFn(fn), c.P.Pos(fn.Pos()), "path enumeration: "+err.Error())
		return nil
	}
	if len(paths) == 0 {
		c.R.Und(rule, c.P.ShortFn(fn), c.P.Pos(fn.Pos()), "no feasible path found")
	}
	return paths
}

// litFields returns the fields stored into the struct cell (an Alloc) along the
// path up to (excluding) step index upto: field name -> stored value.
func litFields(pa *Path, cell ssa.Value, upto int) map[string]ssa.Value {
	out := map[string]ssa.Value{}
	for i, s := range pa.Steps {
		if i >= upto {
			break
		}
		st, ok := s.In.(*ssa.Store)
		if !ok {
			continue
		}
		fa, ok := st.Addr.(*ssa.FieldAddr)
		if !ok || fa.X != cell {
			continue
		}
		stt := fa.X.Type().Underlying().(*types.Pointer).Elem().Underlying().(*types.Struct)
		out[stt.Field(fa.Field).Name()] = pa.Resolve(s, st.Val)
	}
	return out
}

func stepIndex(pa *Path, in ssa.Instruction) int {
	for i, s := range pa.Steps {
		if s.In == in && !s.Deferred {
			return i
		}
	}
	return -1
}

// hasAtom reports whether the path carries the atom described by match with
// the given polarity (true = positive atom holds).
func hasAtom(pa *Path, match func(a Atom) bool) (pol bool, found bool) {
	for _, a := range pa.Atoms {
		if match(a) {
			return !a.Neg, true
		}
	}
	return false, false
}

// ---------------------------------------------------------------------------

func init() {
	Register("C01", runC01)
	Register("C02", runC02)
	Register("C03", runC03)
}

func runC01(c *Ctx) {
	r := c.R
	r.Explanation = "Decides the routing and traversal-order clauses of C01 on every path of Send, the fan-out callback and the traversal function: Send processes exactly the graph looked up under its own event type with a fresh event built from (type, payload, clock, empty format table) and returns that processing's results; the fan-out starts the traversal exactly once per pipeline with the same event/channel/wait group and stops only when the context is done; the traversal invokes Process exactly once, outside any loop, and starts children iff err == nil and event != nil and there are successors, handing each successor the event the node RETURNED. linkNodes' index arithmetic, sync.Map.Range visiting every key and schedules are not decided. C01.range: graphMap.Range offers every stored pipeline to its callback exactly once and continues exactly as the callback says. C01.commit: the stored list is linked by this call from the currently registered nodes; C01.step children-due: successors that are due are always reached. C01.drain: the collector receives until the channel is closed or the context is done (a collector that leaves early blocks the launcher, later pipelines never start). C01.link no-caller-slice: no Broker method keeps a slice the caller handed in. C01.section / C01.commit single-store: graph look-up and store in one section; an overwrite is one Store."
	r.NotDecided = []string{"linkNodes linking in registration order (index arithmetic; left to TestLinkNodes)", "sync.Map.Range visiting every key (A4)", "goroutine schedules"}
	a := c.protoAnchors("C01.anchor")
	if a == nil {
		return
	}
	c.ruleRoute(a)
	c.ruleFanout(a)
	c.ruleStep(a)
	c.ruleLink("C01.link")
	c.ruleCollectorAs("C01.drain", a)
	c.ruleChainImmutable("C01.link")
	c.ruleGraphMap("C01.range", "")
	c.ruleNoCallerSliceRetained("C01.link")
	// the list a Send traverses is the one linked, at registration, from the nodes registered
	// under the definition's ids at that moment (shares the commit rule of C05/C07)
	c.ruleCommit()
	for i := range c.R.Obls {
		if strings.HasPrefix(c.R.Obls[i].Rule, "C05.commit") || c.R.Obls[i].Rule == "C07.swap" {
			c.R.Obls[i].Rule = "C01.commit"
		}
	}
	// "every pipeline registered at that moment": a registration's look-up of the type's graph and its
	// store into it are one critical section (a graph found absent under one acquisition and inserted
	// under the next replaces the graph a concurrent first registration stored its pipeline in), and an
	// overwrite is a single Store — Send ranges the roots without the Broker lock, a Delete followed by a
	// Store lets it see neither version
	c.ruleOneSection("C01.section")
	c.ruleGraphOfType("C01.scope")
	c.ruleSingleStore("C01.commit")
}

// ruleLink: C01.link — linkNodes pairs node i with id i and chains them in
// list order: root = {nodes[0], ids[0]}; for the k-th element of nodes[1:] a
// fresh linkedNode {that element, ids[k+1]} becomes the ONLY successor of the
// previous one; the root is returned. Index arithmetic is compared as value
// origins (same induction variable), not as text.
func (c *Ctx) ruleLink(rule string) {
	p, r := c.P, c.R
	fn := c.Fn(rule, PkgRoot, "", "linkNodes")
	if fn == nil {
		return
	}
	tb := p.NewTerms(nil)
	// successful return: a fresh linkedNode
	var root *ssa.Alloc
	for _, ret := range Returns(fn) {
		rv := RetVals(ret)
		if isNilConst(rv[1]) {
			al, ok := rv[0].(*ssa.Alloc)
			if !ok {
				r.Bad(rule, "linkNodes:root", p.InstrPos(ret), "the list returned is not a node allocated by this call: "+tb.Of(rv[0]).String())
				return
			}
			root = al
		}
	}
	if root == nil {
		r.Und(rule, "linkNodes:root", p.Pos(fn.Pos()), "no successful return found")
		return
	}
	fieldStores := func(al *ssa.Alloc) map[string]ssa.Value {
		out := map[string]ssa.Value{}
		for _, st := range litStores(al) {
			fa := st.Addr.(*ssa.FieldAddr)
			out[al.Type().Underlying().(*types.Pointer).Elem().Underlying().(*types.Struct).Field(fa.Field).Name()] = st.Val
		}
		return out
	}
	rf := fieldStores(root)
	okRoot := tb.Of(rf["node"]).String() == "Index(Param(0:nodes),Const(0))" && tb.Of(rf["nodeID"]).String() == "Index(Param(1:ids),Const(0))"
	r.Check(okRoot, rule, "linkNodes:root", p.InstrPos(root), "root = {nodes[0], ids[0]}", "the first list element is not {nodes[0], ids[0]}: node="+tb.Of(rf["node"]).String()+" id="+tb.Of(rf["nodeID"]).String())
	// the loop element
	var elem *ssa.Alloc
	eachInstr(fn, func(in ssa.Instruction) {
		if al, ok := in.(*ssa.Alloc); ok && al != root && typeShort(al.Type()) == "eventlogger.linkedNode" && inCycle(al.Block()) {
			elem = al
		}
	})
	if elem == nil {
		r.Bad(rule, "linkNodes:chain", p.Pos(fn.Pos()), "no successor node is allocated inside a loop over the remaining nodes")
		return
	}
	ef := fieldStores(elem)
	// node = nodes[1:][k]; id = ids[k+1], same k
	okElem := false
	detail := ""
	if ld, ok := ef["node"].(*ssa.UnOp); ok {
		if ia, ok := ld.X.(*ssa.IndexAddr); ok {
			if sl, ok := ia.X.(*ssa.Slice); ok && tb.Of(sl.X).IsParam("0:nodes") {
				low, _ := constInt(sl.Low)
				k := ia.Index
				if ld2, ok := ef["nodeID"].(*ssa.UnOp); ok {
					if ia2, ok := ld2.X.(*ssa.IndexAddr); ok && tb.Of(ia2.X).IsParam("1:ids") {
						if add, ok := ia2.Index.(*ssa.BinOp); ok && add.Op == token.ADD && add.X == k {
							off, _ := constInt(add.Y)
							okElem = sl.Low != nil && sl.High == nil && low == off && low == 1
							detail = fmt.Sprintf("nodes[%d:][k] paired with ids[k+%d]", low, off)
						}
					}
				}
			}
		}
	}
	full, why := c.fullLoop(elem, false)
	r.Check(okElem && full, rule, "linkNodes:pairing", p.InstrPos(elem), "k-th remaining node paired with ids[k+1], for every remaining node (full loop)", "successor nodes are not {nodes[1:][k], ids[k+1]} for every k ("+detail+" "+why+")")
	// chaining: prev.next = []*linkedNode{elem}, prev = phi(root, elem)
	okChain := false
	eachInstr(fn, func(in ssa.Instruction) {
		st, ok := in.(*ssa.Store)
		if !ok {
			return
		}
		fa, ok := st.Addr.(*ssa.FieldAddr)
		if !ok || typeShort(fa.X.Type()) != "eventlogger.linkedNode" {
			return
		}
		if fa.X.Type().Underlying().(*types.Pointer).Elem().Underlying().(*types.Struct).Field(fa.Field).Name() != "next" {
			return
		}
		v := tb.Of(st.Val)
		ph, isPhi := fa.X.(*ssa.Phi)
		if v.Op == "SliceLit" && len(v.Args) == 1 && v.Args[0].V == ssa.Value(elem) && isPhi && len(ph.Edges) == 2 {
			a, b := ph.Edges[0], ph.Edges[1]
			if (a == ssa.Value(root) && b == ssa.Value(elem)) || (b == ssa.Value(root) && a == ssa.Value(elem)) {
				okChain = true
			}
		}
	})
	r.Check(okChain, rule, "linkNodes:chain", p.InstrPos(elem), "each new node becomes the only successor of the previous one (starting at the root)", "the nodes are not chained one after the other in list order")
}

func (c *Ctx) ruleRoute(a *protoAnchors) {
	p, r := c.P, c.R
	const rule = "C01.route"
	send := a.send
	paths := c.enum(rule, send, PathOpts{Inline: inlineSmall(funcShort(a.collector), "(*eventlogger.clock).Now")})
	nFound, nMiss := 0, 0
	for _, pa := range paths {
		if _, ok := pa.End.(*ssa.Return); !ok {
			continue
		}
		var proc *ssa.Call
		var procStep Step
		for _, s := range pa.CallsOn() {
			if ci, ok := s.In.(*ssa.Call); ok && ci.Call.StaticCallee() == a.collector {
				if proc != nil {
					r.Bad(rule, "(*Broker).Send", p.InstrPos(ci), "processing is started more than once on a path of Send")
				}
				proc, procStep = ci, s
			}
		}
		rv := pa.RetVals()
		tb := pa.TermsAt(pa.LastStep())
		if proc == nil {
			nMiss++
			// not-found path: error must be non-nil, and the path must be the failed lookup
			pol, found := hasAtom(pa, func(at Atom) bool {
				return at.Op == "true" && at.L.Op == "Extract" && at.L.Name == "1" && at.L.Args[0].Op == "Lookup"
			})
			okPath := found && !pol
			if !okPath {
				r.Bad(rule, "(*Broker).Send:no-graph", p.InstrPos(pa.End), "Send returns without processing on a path that is not the failed graph lookup: "+p.PathSummary(pa))
				continue
			}
			if len(rv) == 2 && isNilConst(rv[1]) {
				r.Bad(rule, "(*Broker).Send:no-graph", p.InstrPos(pa.End), "Send returns a nil error although no graph exists for the event type")
				continue
			}
			r.Ok(rule, "(*Broker).Send:no-graph", p.InstrPos(pa.End), "no graph for the type: nothing processed, non-nil error "+tb.Of(rv[1]).String())
			continue
		}
		nFound++
		ptb := pa.TermsAt(procStep)
		args := proc.Call.Args
		g := ptb.Of(pa.Resolve(procStep, args[0]))
		wantG := "Extract[0](Lookup(Field[graphs](Param(0:b)),Param(2:t)))"
		ok := true
		if g.String() != wantG {
			ok = false
			r.Bad(rule, "(*Broker).Send:graph", p.InstrPos(proc), "the graph processed is "+g.String()+", not the one registered under the sent event type ("+wantG+")")
		}
		if !ptb.Of(pa.Resolve(procStep, args[1])).IsParam("1:ctx") {
			ok = false
			r.Bad(rule, "(*Broker).Send:ctx", p.InstrPos(proc), "processing does not receive the caller's context")
		}
		ev := pa.Resolve(procStep, args[2])
		evAlloc, isAlloc := ev.(*ssa.Alloc)
		if !isAlloc || typeShort(evAlloc.Type()) != "eventlogger.Event" {
			ok = false
			r.Bad(rule, "(*Broker).Send:event", p.InstrPos(proc), "the event handed to processing is not a fresh allocation: "+ptb.Of(ev).String())
		} else {
			fields := litFields(pa, evAlloc, stepIndex(pa, proc))
			want := map[string]string{"Type": "Param(2:t)", "Payload": "Param(3:payload)", "CreatedAt": "Call[(*eventlogger.clock).Now](Field[clock](Param(0:b)))", "Formatted": "Make(map)"}
			for f, w := range want {
				got := "<unset>"
				if v, ok := fields[f]; ok {
					got = ptb.Of(v).String()
				}
				if got != w {
					ok = false
					r.Bad(rule, "(*Broker).Send:event."+f, p.InstrPos(proc), fmt.Sprintf("event field %s is %s, expected %s", f, got, w))
				}
			}
			// the format table is empty: no MapUpdate on it before the call
			if mv, okm := fields["Formatted"]; okm {
				for i, s := range pa.Steps {
					if i >= stepIndex(pa, proc) {
						break
					}
					if mu, ok2 := s.In.(*ssa.MapUpdate); ok2 && pa.Resolve(s, mu.Map) == mv {
						ok = false
						r.Bad(rule, "(*Broker).Send:event.Formatted", p.InstrPos(mu), "the format table is not empty when processing starts")
					}
				}
			}
		}
		// results are exactly the processing call's results
		if len(rv) != 2 || tb.Of(rv[0]).String() != "Extract[0]("+tb.Of(proc).String()+")" || tb.Of(rv[1]).String() != "Extract[1]("+tb.Of(proc).String()+")" {
			ok = false
			r.Bad(rule, "(*Broker).Send:results", p.InstrPos(pa.End), "Send does not return exactly the Status and error of its processing call")
		}
		if ok {
			r.Ok(rule, "(*Broker).Send:found", p.InstrPos(proc), "process(graphs[t], ctx, &Event{Type:t, Payload:payload, CreatedAt:clock.Now(), Formatted:empty map}) and its results returned unchanged")
		}
	}
	if nFound == 0 || nMiss == 0 {
		r.Und(rule, "(*Broker).Send", p.Pos(send.Pos()), fmt.Sprintf("expected a found and a not-found path, got %d/%d", nFound, nMiss))
	}
}

func (c *Ctx) ruleFanout(a *protoAnchors) {
	p, r := c.P, c.R
	const rule = "C01.fanout"
	tb := p.NewTerms(nil)
	// Range is applied to the roots of the collector's own graph
	recv := tb.Of(a.rangeCall.Common().Args[0])
	if base, ok := recv.IsFieldAddr("roots"); !ok || !base.IsParam("0:g") {
		r.Bad(rule, "fanout:range", p.InstrPos(a.rangeCall), "the fan-out ranges "+recv.String()+", not the roots of the graph being processed")
	} else {
		r.Ok(rule, "fanout:range", p.InstrPos(a.rangeCall), "ranges &g.roots of the processed graph")
	}
	// the fan-out is started on every path of the collector and ranges unconditionally: a
	// shortcut in front of it ("no pipelines counted: nothing to do") decides from derived
	// state what only the range itself knows, and a registered pipeline is skipped when the
	// two disagree
	var goFan ssa.Instruction
	eachInstr(a.collector, func(in ssa.Instruction) {
		if g, ok := in.(*ssa.Go); ok {
			if mc, ok := g.Call.Value.(*ssa.MakeClosure); ok && mc.Fn == ssa.Value(a.fanout) {
				goFan = in
			}
		}
	})
	for _, fx := range []struct {
		f    *ssa.Function
		must ssa.Instruction
		what string
	}{{a.collector, goFan, "start the fan-out"}, {a.fanout, a.rangeCall, "range over the registered pipelines"}} {
		if fx.must == nil {
			continue // reported by C03.wg fanout-goroutine
		}
		ok := true
		for _, pa := range c.enum(rule, fx.f, PathOpts{}) {
			if _, isRet := pa.End.(*ssa.Return); !isRet {
				continue
			}
			passed := false
			for _, s := range pa.Steps {
				if s.In == fx.must && s.Depth == 0 {
					passed = true
				}
				// a path that consulted the registered pipelines themselves (a direct Range over the
				// graph's roots) decides from the source of truth, not from derived state
				if ci, ok := s.In.(ssa.CallInstruction); ok && s.Depth == 0 && calleeName(ci.Common()) == "(*eventlogger.graphMap).Range" {
					if base, ok := pa.TermsAt(s).Of(ci.Common().Args[0]).IsFieldAddr("roots"); ok && base.IsParam("0:g") {
						passed = true
					}
				}
			}
			if passed || ctxDoneOnPath(pa) {
				continue
			}
			if ok {
				r.Bad(rule, p.ShortFn(fx.f)+":unconditional", p.InstrPos(pa.End), "this return is reached, with a context not known to be done, without having passed the point where "+p.ShortFn(fx.f)+" is to "+fx.what+": on that path no pipeline of the event type is traversed, whatever is registered ("+p.PathSummary(pa)+")")
			}
			ok = false
		}
		if ok {
			r.Ok(rule, p.ShortFn(fx.f)+":unconditional", p.InstrPos(fx.must), "every return under a live context passed the point where the function is to "+fx.what)
		}
	}
	cb := a.callback
	paths := c.enum(rule, cb, PathOpts{Inline: inlineSmall(funcShort(a.traverse))})
	for _, pa := range paths {
		rv := pa.RetVals()
		if len(rv) != 1 {
			continue
		}
		var starts []Step
		for _, s := range pa.CallsOn() {
			if ci, ok := s.In.(ssa.CallInstruction); ok && ci.Common().StaticCallee() == a.traverse {
				starts = append(starts, s)
			}
		}
		// which arm? recv on ctx.Done() succeeded <=> select index == 0 where state 0 receives from ctx.Done()
		donePol, doneFound := hasAtom(pa, func(at Atom) bool {
			if at.Op != "eq" || at.L.Op != "Extract" || at.L.Name != "0" || !at.R.Is("Const", "0") {
				return false
			}
			sel, ok := at.L.Args[0].V.(*ssa.Select)
			if !ok || len(sel.States) != 1 || sel.Blocking {
				return false
			}
			ch := pa.TermsAt(pa.LastStep()).Of(sel.States[0].Chan)
			return sel.States[0].Dir == types.RecvOnly && ch.String() == "Call[invoke context.Context.Done](Param(1:ctx))"
		})
		retFalse := false
		if b, ok := constBool(rv[0]); ok {
			retFalse = !b
		} else {
			r.Bad(rule, "fanout:callback", p.InstrPos(pa.End), "the range callback returns a non-constant: "+tb.Of(rv[0]).String())
			continue
		}
		switch {
		case retFalse && !(doneFound && donePol):
			r.Bad(rule, "fanout:callback-stop", p.InstrPos(pa.End), "the range callback returns false (stops visiting further pipelines) on a path where the context was not observed done: "+p.PathSummary(pa))
		case retFalse:
			if len(starts) != 0 {
				r.Bad(rule, "fanout:callback-stop", p.InstrPos(pa.End), "a traversal is started although the context is done")
			} else {
				r.Ok(rule, "fanout:callback-stop", p.InstrPos(pa.End), "returns false only after <-ctx.Done() succeeded; nothing started on that path")
			}
		default:
			if len(starts) != 1 {
				r.Bad(rule, "fanout:callback-start", p.InstrPos(pa.End), fmt.Sprintf("the callback starts %d traversals for one pipeline on a path returning true (expected exactly 1)", len(starts)))
				continue
			}
			s := starts[0]
			if inCycle(s.In.Block()) {
				r.Bad(rule, "fanout:callback-start", p.InstrPos(s.In), "the traversal start lies in a loop")
				continue
			}
			args := s.In.(ssa.CallInstruction).Common().Args
			stb := pa.TermsAt(s)
			got := []string{stb.Of(args[1]).String(), stb.Of(args[2]).String(), stb.Of(args[3]).String(), stb.Of(args[4]).String()}
			want := []string{"Param(1:ctx)", "Field[rootNode](Param(1:pipeline))", "Param(2:e)", "Make(chan)"}
			okArgs := true
			for i := range want {
				if got[i] != want[i] {
					okArgs = false
				}
			}
			wgT := stb.Of(args[5])
			if wgT.Op != "Alloc" || !strings.HasPrefix(wgT.Name, "sync.WaitGroup") {
				okArgs = false
			}
			if !okArgs {
				r.Bad(rule, "fanout:callback-start", p.InstrPos(s.In), fmt.Sprintf("traversal started with (%s, wg=%s); expected (ctx, pipeline.rootNode, the event of this Send, the status channel of this Send, its wait group)", strings.Join(got, ", "), wgT))
			} else {
				r.Ok(rule, "fanout:callback-start", p.InstrPos(s.In), "exactly one traversal per pipeline: (ctx, pipeline.rootNode, e, statusChan, &wg)")
			}
		}
	}
	r.Floor(rule, 3)
}

// IsFieldAddr: FieldAddr[name](base)
func (t *Term) IsFieldAddr(name string) (*Term, bool) {
	if t != nil && t.Op == "FieldAddr" && t.Name == name && len(t.Args) == 1 {
		return t.Args[0], true
	}
	return nil, false
}

// traversal atoms
func (a *protoAnchors) atoms(pa *Path) (errNonNil, evNil, noNext *bool) {
	procS := ""
	for _, at := range pa.Atoms {
		if at.Op != "eq" {
			continue
		}
		v := !at.Neg
		switch {
		case at.L.Op == "Extract" && len(at.L.Args) == 1 && at.L.Args[0].V == ssa.Value(a.procCall) && at.R.Is("Const", "nil"):
			if at.L.Name == "1" {
				nn := !v
				errNonNil = &nn
			} else if at.L.Name == "0" {
				x := v
				evNil = &x
			}
		case at.L.Op == "Call" && at.L.Name == "builtin len" && len(at.L.Args) == 1 && at.L.Args[0].Is("Field", "next") && at.R.Is("Const", "0"):
			x := v
			noNext = &x
		}
	}
	_ = procS
	return
}

func (c *Ctx) ruleStep(a *protoAnchors) {
	p, r := c.P, c.R
	const rule = "C01.step"
	T := a.traverse
	// exactly one Process invoke, outside any cycle, with (ctx, e)
	n := 0
	eachInstr(T, func(in ssa.Instruction) {
		if ci, ok := in.(ssa.CallInstruction); ok && calleeName(ci.Common()) == "invoke eventlogger.Node.Process" {
			n++
		}
	})
	tb := p.NewTerms(nil)
	args := a.procCall.Call.Args
	okOnce := n == 1 && !inCycle(a.procCall.Block()) && tb.Of(args[0]).IsParam("1:ctx") && tb.Of(args[1]).IsParam("3:e")
	r.Check(okOnce, rule, "traverse:process-once", p.InstrPos(a.procCall),
		"one Process invoke, outside any loop, on node.node with (ctx, e)",
		fmt.Sprintf("expected exactly one Process invoke outside any loop with the function's ctx and event; found %d invokes, in-loop=%v, args (%s, %s)", n, inCycle(a.procCall.Block()), tb.Of(args[0]), tb.Of(args[1])))
	if !tb.Of(a.procCall.Call.Value).Is("Field", "node") {
		r.Bad(rule, "traverse:process-once", p.InstrPos(a.procCall), "Process is not invoked on the node of the linkedNode parameter")
	}

	paths := c.enum(rule, T, PathOpts{Inline: inlineSmall()})
	rows := map[string]bool{}
	var childHdr *ssa.BasicBlock
	eachInstr(T, func(in ssa.Instruction) {
		if ci, ok := in.(ssa.CallInstruction); ok && ci.Common().StaticCallee() == T && childHdr == nil {
			childHdr = innermostHeader(in.Block())
		}
	})
	for _, pa := range paths {
		if _, ok := pa.End.(*ssa.Return); !ok {
			continue
		}
		errNN, evNil, noNext := a.atoms(pa)
		var starts []Step
		for _, s := range pa.CallsOn() {
			if ci, ok := s.In.(ssa.CallInstruction); ok && ci.Common().StaticCallee() == T {
				starts = append(starts, s)
			}
		}
		should := errNN != nil && !*errNN && evNil != nil && !*evNil && noNext != nil && !*noNext
		decided := errNN != nil && (*errNN || (evNil != nil && (*evNil || noNext != nil)))
		if !decided {
			r.Und(rule, "traverse:children", p.InstrPos(pa.End), "path does not decide err/event/successors: "+p.PathSummary(pa))
			continue
		}
		row := fmt.Sprintf("err!=nil=%v ev==nil=%v noNext=%v", *errNN, evNil != nil && *evNil, noNext != nil && *noNext)
		rows[row] = true
		r.TableRows++
		if len(starts) > 0 && !should {
			r.Bad(rule, "traverse:children", p.InstrPos(starts[0].In), "children are started on a path where the node failed, dropped the event or has no successor ("+row+")")
			continue
		}
		// (zero-iteration paths of the child loop with successors present are infeasible in reality: len != 0)
		// must-pass-through: a path on which the successors are due reaches the successor loop —
		// no other test (context state, node kind, ...) may end the traversal between two nodes
		if should && childHdr != nil {
			reached := false
			for _, b := range pa.Blocks {
				if b == childHdr {
					reached = true
				}
			}
			if !reached {
				r.Bad(rule, "traverse:children-due", p.InstrPos(pa.End), "the node returned an event and no error and has successors, yet this path ends the traversal without reaching the loop that starts them: "+p.PathSummary(pa))
				continue
			}
		}
		for _, s := range starts {
			ar := s.In.(ssa.CallInstruction).Common().Args
			stb := pa.TermsAt(s)
			child := stb.Of(pa.Resolve(s, ar[2]))
			evArg := stb.Of(pa.Resolve(s, ar[3]))
			good := stb.Of(ar[1]).IsParam("1:ctx") && stb.Of(ar[4]).IsParam("4:statusChan") && stb.Of(ar[5]).IsParam("5:wg")
			if child.Op != "Index" || !child.Args[0].Is("Field", "next") || !child.Args[0].Args[0].IsParam("2:node") {
				good = false
			}
			if !(evArg.Op == "Extract" && evArg.Name == "0" && evArg.Args[0].V == ssa.Value(a.procCall)) {
				r.Bad(rule, "traverse:child-event", p.InstrPos(s.In), "a child receives "+evArg.String()+" instead of the event returned by this node's Process (a node replacing the event would be bypassed)")
				continue
			}
			if !good {
				r.Bad(rule, "traverse:child-args", p.InstrPos(s.In), fmt.Sprintf("child started with (ctx=%s, node=%s, chan=%s, wg=%s); expected this call's ctx, node.next[i], status channel and wait group", stb.Of(ar[1]), child, stb.Of(ar[4]), stb.Of(ar[5])))
				continue
			}
			r.Ok(rule, "traverse:child-start", p.InstrPos(s.In), "child = node.next[i], event = Process result #0, same ctx/channel/wait group ("+row+")")
		}
	}
	if len(rows) < 4 {
		r.Und(rule, "traverse:children", p.Pos(T.Pos()), fmt.Sprintf("only %d decision rows reached, 4 expected", len(rows)))
	}
	// the child loop is a full range over node.next: its only exit is the exhausted index
	var starts []ssa.Instruction
	eachInstr(T, func(in ssa.Instruction) {
		if ci, ok := in.(ssa.CallInstruction); ok && ci.Common().StaticCallee() == T {
			starts = append(starts, in)
		}
	})
	for _, s := range starts {
		b := s.Block()
		if !inCycle(b) {
			r.Bad(rule, "traverse:child-loop", p.InstrPos(s), "the child start is not inside a loop over the successors")
			continue
		}
		// loop = blocks that reach b and are reachable from b
		loop := map[*ssa.BasicBlock]bool{}
		from := reachableFrom(b)
		to := blocksReaching(b)
		for x := range from {
			if to[x] {
				loop[x] = true
			}
		}
		exits := 0
		okExit := true
		for x := range loop {
			for _, su := range x.Succs {
				if !loop[su] {
					exits++
					cond, _, _ := condOf(x)
					bo, isBin := cond.(*ssa.BinOp)
					if !isBin || bo.Op != token.LSS {
						okExit = false
					} else if lt := tb.Of(bo.Y); !(lt.Op == "Call" && lt.Name == "builtin len" && lt.Args[0].Is("Field", "next")) {
						okExit = false
					}
				}
			}
		}
		r.Check(exits == 1 && okExit, rule, "traverse:child-loop", p.InstrPos(s),
			"the successor loop's only exit is index < len(node.next) failing (every successor is started)",
			fmt.Sprintf("the successor loop has %d exits or an exit other than the exhausted index: some successors may never be started", exits))
	}
}

// ctxDoneOnPath: the path established that the context is done (a successful receive
// from ctx.Done() in a select, or ctx.Err() != nil).
func ctxDoneOnPath(pa *Path) bool {
	for _, at := range pa.Atoms {
		switch {
		case at.Op == "eq" && !at.Neg && at.L.Op == "Extract" && at.L.Name == "0" && at.R.Op == "Const":
			// select index == k where state k receives from ctx.Done()
			if sel, ok := at.L.Args[0].V.(*ssa.Select); ok {
				if k, isK := constInt(at.R.V); isK && int(k) < len(sel.States) && sel.States[k].Dir == types.RecvOnly {
					if strings.Contains(pa.TermsAt(pa.LastStep()).Of(sel.States[k].Chan).String(), "context.Context.Done]") {
						return true
					}
				}
			}
		case at.Op == "eq" && at.Neg && strings.HasPrefix(at.L.String(), "Call[invoke context.Context.Err]") && at.R.Is("Const", "nil"):
			return true
		}
	}
	return false
}
