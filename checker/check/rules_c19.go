package check

import (
	"fmt"
	"go/types"
	"sort"
	"strings"

	"golang.org/x/tools/go/ssa"
)

func init() { Register("C19", runC19) }

// stockSharedTypes enumerates, from the loaded program, the struct types whose
// instances are shared between goroutines by the library: every implementation
// of eventlogger.Node, every struct with a mutex field, and Event.
func (c *Ctx) stockSharedTypes(exclude map[string]bool) []string {
	p := c.P
	nodeT := p.Named(PkgRoot, "Node")
	var out []string
	for path, sp := range p.SSAPkgs {
		if !strings.HasPrefix(path, ModRoot) || path == PkgProto {
			continue
		}
		sc := sp.Pkg.Scope()
		for _, n := range sc.Names() {
			tn, ok := sc.Lookup(n).(*types.TypeName)
			if !ok || tn.IsAlias() {
				continue
			}
			st, ok := tn.Type().Underlying().(*types.Struct)
			if !ok {
				continue
			}
			short := typeShort(tn.Type())
			if exclude[short] {
				continue
			}
			isNode := nodeT != nil && (types.Implements(tn.Type(), nodeT.Underlying().(*types.Interface)) ||
				types.Implements(types.NewPointer(tn.Type()), nodeT.Underlying().(*types.Interface)))
			hasMu := false
			for i := 0; i < st.NumFields(); i++ {
				s := typeShort(st.Field(i).Type())
				if s == "sync.Mutex" || s == "sync.RWMutex" {
					hasMu = true
				}
			}
			if isNode || hasMu || short == "eventlogger.Event" {
				out = append(out, short)
			}
		}
	}
	sort.Strings(out)
	return out
}

func runC19(c *Ctx) {
	p, r := c.P, c.R
	r.Explanation = "Decides the data-race clause of C19 structurally for every stock node type (all implementations of eventlogger.Node in the 7 packages, every struct with a mutex, and Event): the pairwise consistent-lock-set discipline over all their fields on all paths; confinement of the per-call scratch types tMap/trackedMaps; that a shared *Event received by Process is never handed whole to a reflective reader outside package eventlogger (which cannot take the unexported Event.l guarding Event.Formatted); that sink writes happen with the sink mutex held; and lock pairing. Races inside user payloads or third-party code, and 'corrupted output' as such, are not decided. C19.globals: no mutable package-level state; C19.table: bytes handed out by Event.Format are never rewritten in place. C19.table reads-format-table: only sinks read the shared format table. C19.rotation: the per-event key-material rules of C16.event under C19. C19.nocopy: no by-value copy of a type that contains a sync primitive. C19.lazyinit: lazily initialised fields of gated.Filter are never reset to nil. C19.stamp: rotation stamps are read under the sink's lock."
	r.NotDecided = []string{"races inside user payloads and third-party libraries", "crash freedom", "output integrity beyond write-under-lock"}
	c.lockControls()

	exclude := map[string]bool{
		"eventlogger.Broker": true, "eventlogger.graph": true, "eventlogger.nodeUsage": true, // decided by C04
		"encrypt.tMap": true, "encrypt.trackedMaps": true, // per-call scratch, see C19.confined
	}
	owners := c.stockSharedTypes(exclude)
	r.Notes = append(r.Notes, "shared types enumerated from the program: "+strings.Join(owners, ", "))
	if len(owners) < 10 {
		r.Und("C19.guard", "instance-floor", "", fmt.Sprintf("only %d shared types found, 10 confirmed by hand", len(owners)))
	}
	n := c.guardRule("C19.guard", owners, nil, false)
	if n < 8 {
		r.Und("C19.guard", "instance-floor", "", fmt.Sprintf("only %d fields with post-construction writes decided; 8 confirmed by hand (Event.Formatted, FileSink.f/BytesWritten/LastCreated, encrypt Wrapper/HmacSalt/HmacInfo, gated gated/orderedGated/composeFrom/Expiration, cloudevents Signer)", n))
	}

	c.ruleGlobals("C19.globals")
	c.ruleFormatTableWrites("C19.table")
	c.ruleFormatReaders("C19.table")
	c.ruleKeyBufferFresh("C19.confined")
	c.ruleEventKeyMaterial("C19.rotation")
	c.ruleNoLockCopy("C19.nocopy")
	c.ruleLazyInitMonotone("C19.lazyinit", PkgGated, "gated.Filter")
	// concurrent Sends through one rotating sink: the stamps that order its files are read from the clock
	// under the sink's lock (C08.names rotate:stamp-under-lock under C19)
	c.ruleRenameTarget("C19.stamp")

	// C19.confined
	scratch := map[string]bool{"encrypt.tMap": true, "encrypt.trackedMaps": true}
	isScratch := func(t types.Type) bool {
		return scratch[typeShort(t)]
	}
	nStores := 0
	for _, f := range p.FuncsIn(PkgEncrypt) {
		eachInstr(f, func(in ssa.Instruction) {
			bad := ""
			switch x := in.(type) {
			case *ssa.Store:
				if !isScratch(x.Val.Type()) {
					return
				}
				nStores++
				switch a := x.Addr.(type) {
				case *ssa.Global:
					bad = "stored into global " + a.Name()
				case *ssa.FieldAddr:
					owner := typeShort(a.X.Type())
					if !scratch[owner] {
						bad = "stored into a field of " + owner
					}
				case *ssa.Alloc, *ssa.IndexAddr:
					// local variable / local slice
				default:
					bad = fmt.Sprintf("stored through %T", x.Addr)
				}
			case *ssa.MapUpdate:
				if !isScratch(x.Value.Type()) {
					return
				}
				nStores++
				tb := p.NewTerms(nil)
				m := tb.Of(x.Map)
				if base, ok := m.IsField("tracked"); !ok || base == nil {
					bad = "stored into map " + m.String()
				}
			case *ssa.Send:
				if isScratch(x.X.Type()) {
					nStores++
					bad = "sent on a channel"
				}
			case *ssa.Go:
				for _, a := range x.Call.Args {
					if isScratch(a.Type()) {
						nStores++
						bad = "passed to a goroutine"
					}
				}
				if mc, ok := x.Call.Value.(*ssa.MakeClosure); ok {
					for _, b := range mc.Bindings {
						t := b.Type()
						if pt, ok := t.(*types.Pointer); ok {
							t = pt.Elem()
						}
						if isScratch(t) {
							nStores++
							bad = "captured by a goroutine"
						}
					}
				}
			default:
				return
			}
			construct := "scratch@" + p.ShortFn(f)
			r.SawFn(p.ShortFn(f))
			if bad != "" {
				r.Bad("C19.confined", construct, p.InstrPos(in), "per-call scratch value (tMap/trackedMaps) escapes its Process call: "+bad+"; its unlocked fields would then be shared")
			} else {
				r.Ok("C19.confined", construct, p.InstrPos(in), "scratch value stays in locals / the tracker's own map")
			}
		})
	}
	r.CallSites += nStores
	r.Floor("C19.confined", 2)

	// C19.escape: the shared event is not handed whole to foreign reflective code
	c.ruleEventEscape("C19.escape")

	// C19.write-under-lock
	c.ruleWriteUnderLock("C19.write-under-lock")

	c.pairingRule("C19.pairing", func(fn *ssa.Function) bool {
		return p.InRepo(fn) && PkgPathOf(fn) != PkgRoot || (PkgPathOf(fn) == PkgRoot && fn.Signature.Recv() != nil && typeShort(fn.Signature.Recv().Type()) != "eventlogger.Broker")
	}, false)
}

// ruleEventEscape: in every Node.Process implementation of the repository, the
// *Event parameter is not passed (as an interface value) to a function outside
// the repository packages.
func (c *Ctx) ruleEventEscape(rule string) {
	p, r := c.P, c.R
	nodeT := p.Named(PkgRoot, "Node")
	if nodeT == nil {
		r.Und(rule, "anchor:Node", "", "eventlogger.Node not found")
		return
	}
	n := 0
	for _, f := range p.RepoFuncs() {
		if f.Name() != "Process" || f.Signature.Recv() == nil || f.Parent() != nil {
			continue
		}
		if !types.Implements(f.Signature.Recv().Type(), nodeT.Underlying().(*types.Interface)) {
			continue
		}
		n++
		r.SawFn(p.ShortFn(f))
		ev := f.Params[2]
		found := false
		// follow the parameter through phis and conversions
		work := []ssa.Value{ev}
		seen := map[ssa.Value]bool{}
		for len(work) > 0 {
			v := work[len(work)-1]
			work = work[:len(work)-1]
			if seen[v] {
				continue
			}
			seen[v] = true
			refs := v.Referrers()
			if refs == nil {
				continue
			}
			for _, ref := range *refs {
				switch u := ref.(type) {
				case *ssa.Phi:
					work = append(work, u)
				case *ssa.MakeInterface:
					work = append(work, u)
				case *ssa.ChangeInterface:
					work = append(work, u)
				case *ssa.Store:
					// spilled to a local cell (captured or defer-spilled): follow loads of the cell
					if u.Val == v {
						if cell, ok := u.Addr.(*ssa.Alloc); ok {
							if cr := cell.Referrers(); cr != nil {
								for _, x := range *cr {
									if ld, ok := x.(*ssa.UnOp); ok {
										work = append(work, ld)
									}
								}
							}
						}
					}
				case ssa.CallInstruction:
					cc := u.Common()
					sc := cc.StaticCallee()
					if sc == nil || p.InRepo(sc) {
						continue
					}
					isArg := false
					for _, a := range cc.Args {
						if a == v {
							isArg = true
						}
					}
					if !isArg {
						continue
					}
					if _, isIface := v.(*ssa.MakeInterface); !isIface {
						continue // typed *Event parameter of a foreign function cannot exist (Event is declared here)
					}
					found = true
					r.CallSites++
					r.Bad(rule, p.ShortFn(f)+"->"+funcShort(sc), p.InstrPos(u),
						"the shared *Event received by Process is passed whole to "+funcShort(sc)+", which reads Event.Formatted by reflection without Event.l while another pipeline's formatter may be writing it (FormattedAs)")
				}
			}
		}
		if !found {
			r.Ok(rule, p.ShortFn(f), p.Pos(f.Pos()), "event parameter never passed as an interface value to a function outside the repository")
		}
	}
	if n < 9 {
		r.Und(rule, "instance-floor", "", fmt.Sprintf("only %d Node.Process implementations found, 9 confirmed by hand", n))
	}
}

// ruleWriteUnderLock: every (*bytes.Reader).WriteTo in a sink's Process holds a
// write lock of the sink.
func (c *Ctx) ruleWriteUnderLock(rule string) {
	p, r := c.P, c.R
	must := c.MustLocks()
	n := 0
	for _, f := range p.RepoFuncs() {
		for _, ci := range callsTo(f, func(name string, cc *ssa.CallCommon) bool { return name == "(*bytes.Reader).WriteTo" }) {
			n++
			r.SawFn(p.ShortFn(f))
			held := must.At(ci)
			recvT := ""
			if f.Signature.Recv() != nil {
				recvT = typeShort(f.Signature.Recv().Type())
			}
			ok := false
			for k, m := range held {
				if m == 'W' && strings.HasPrefix(k, recvT+".") {
					ok = true
				}
			}
			r.CallSites++
			r.Check(ok, rule, p.ShortFn(f)+":WriteTo", p.InstrPos(ci), "write performed with "+held.String()+" held",
				"write to the sink's io.Writer without the sink's mutex held for writing (held: "+held.String()+"): concurrent Process calls can interleave bytes")
		}
	}
	r.Floor(rule, 3)
	_ = n
}
