package check

import (
	"strings"

	"golang.org/x/tools/go/ssa"
)

func (c *Ctx) errControls() {
	r := c.R
	for _, f := range c.P.Funcs {
		if !strings.HasPrefix(PkgPathOf(f), PkgCtl+"/errs") || f.Parent() != nil {
			continue
		}
		name := f.Name()
		switch {
		case strings.HasSuffix(name, "Flush") || strings.HasSuffix(name, "Scan"):
			c.listIterRule("ctl.iter", f, true)
		case name == "Process":
			c.eNilRule("ctl.enil", f, true)
		case strings.HasPrefix(name, "Bad") || strings.HasPrefix(name, "Good"):
			c.errorFlowRule("ctl.errflow", f, nil, true)
		}
	}
	r.WantControl("ctl.iter")
	r.WantControl("ctl.enil")
	r.WantControl("ctl.errflow")
}

func init() { Register("C17", runC17) }

func runC17(c *Ctx) {
	p, r := c.P, c.R
	r.Explanation = "Decides the structural clauses of 'gated events do not linger': list-iteration safety of every loop over the ordered container/list (the successor is read before any call that may remove the element, for every list length at once), the shape of the expiry scan and of FlushAll (every element visited, gate opened for each, only exits: exhausted / error / not expired), Close reaching FlushAll, the expiry scan preceding the insertion in Process, and paired removal from both containers on every path of openGate. Wall-clock behaviour and memory bounds as numbers are not decided. C17.listops: only order-preserving list operations. C17.first also: every nil-error return of Process ran the scan (known finding F38: a non-Gateable event passes before it), and a group is stamped with an expiration that was found positive or defaulted. C17.scan no-shortcut and C17.reset: the scan is never skipped on a look at the oldest group; groups leave unsent only where no Broker is configured. C17.once: one call site of Sender.Send, not in a loop. C17.errors: Process, openGate, FlushAll and Close drop no error of the scan / gate / flush. C17.discard: unsent removal only where the Broker was found nil. C17.send: openGate's Send gets the caller's context, the composed type and payload."
	r.NotDecided = []string{"wall-clock expiry behaviour", "numeric memory bounds"}
	c.errControls()
	n := 0
	for _, f := range p.FuncsIn(PkgGated) {
		n += c.listIterRule("C17.iter", f, false)
	}
	if n < 2 {
		r.Und("C17.iter", "instance-floor", "", "fewer than the 2 list loops confirmed by hand (FlushAll, processExpiredEvents)")
	}
	c.gatedShapeRules("C17")
	// a group leaves the gate unsent only where no Broker is configured (the whole-container resets, also C11.reset)
	c.ruleGatedReset("C17.reset")
	c.ruleGatedSendOnce("C17.once")
	// a group that is removed from only one of the two containers is invisible to expiry / FlushAll
	// (list) or to later flushes (map): it lingers. Same pairing / cleanup rules as C11.
	c.gatedContainerRules("C17")
	// "oldest first": nothing reorders the list
	c.ruleListOps("C17.listops")
	c.ruleNoHandOff("C17.section", PkgGated)
	// "emitted through the Broker ... or dropped when no Broker is configured": a group leaves the gate
	// unsent only where the filter's Broker was found nil at that moment (C11.discard under C17)
	c.ruleGatedDiscard("C17.discard")
	c.ruleGatedNoGate("C17.send")
	// "after any successful Process call no expired group remains gated": Process succeeds only
	// when the expiry scan did — a failure of the scan (or of the gate it opens) is returned
	for _, f := range p.FuncsIn(PkgGated) {
		if (f.Name() == "Process" && f.Signature.Recv() != nil) || f.Name() == "openGate" || f.Name() == "FlushAll" || f.Name() == "Close" {
			c.errorFlowRule("C17.errors", f, nil, false)
		}
	}
}

var _ = ssa.Instruction(nil)
