package check

import (
	"encoding/json"
	"fmt"
	"os"
	"path/filepath"
	"sort"
	"strings"
	"time"
)

// Status of one rule instance.
const (
	OK        = "ok"
	Violation = "violation"
	Undecided = "undecided"
)

// Obl is one rule instance: a rule applied to one construct of the repository.
// Instances are keyed by Rule+Construct (never by line), so that known findings
// stay attached to the construct and a different violation of the same rule is
// still reported.
type Obl struct {
	Rule      string   `json:"rule"`
	Construct string   `json:"construct"`
	Status    string   `json:"status"`
	Pos       string   `json:"pos,omitempty"`
	Detail    string   `json:"detail,omitempty"`
	Witness   []string `json:"witness,omitempty"`
	Known     bool     `json:"known_finding,omitempty"`
	Control   bool     `json:"positive_control,omitempty"`
	// Trivial marks instances that carry no non-trivial fact (e.g. a field with
	// no write at all); they are not counted in distinct_nontrivial.
	Trivial bool `json:"trivial,omitempty"`
	// Count: how many times this verdict was reached (paths, sites)
	Count int `json:"count,omitempty"`
}

// Report collects what one check run covered.
type Report struct {
	Property string
	Tier     string
	Seed     int
	Start    time.Time
	Obls     []Obl
	// counters, all measured
	Packages       int
	Functions      map[string]bool
	CallSites      int
	Paths          int
	Pruned         int
	TableRows      int
	Exceptions     []string
	Explanation    string
	NotDecided     []string
	Assumptions    []string
	floors         map[string]int
	controlsWant   map[string]bool
	controlsFired  map[string]bool
	Notes          []string
	AnalysedBlocks int
}

func NewReport(prop, tier string, seed int) *Report {
	return &Report{Property: prop, Tier: tier, Seed: seed, Start: time.Now(), Functions: map[string]bool{},
		floors: map[string]int{}, controlsWant: map[string]bool{}, controlsFired: map[string]bool{}}
}

// Add records a rule instance.
func (r *Report) Add(o Obl) {
	// the same verdict for the same (rule, construct) reached again (e.g. on
	// another path) is merged: first occurrence kept, repetitions counted
	for i := range r.Obls {
		x := &r.Obls[i]
		if x.Rule == o.Rule && x.Construct == o.Construct && x.Status == o.Status && x.Control == o.Control {
			x.Count++
			return
		}
	}
	o.Count = 1
	r.Obls = append(r.Obls, o)
}

func (r *Report) Ok(rule, construct, pos, detail string) {
	r.Add(Obl{Rule: rule, Construct: construct, Status: OK, Pos: pos, Detail: detail})
}
func (r *Report) Bad(rule, construct, pos, detail string, witness ...string) {
	r.Add(Obl{Rule: rule, Construct: construct, Status: Violation, Pos: pos, Detail: detail, Witness: witness})
}
func (r *Report) Und(rule, construct, pos, detail string) {
	r.Add(Obl{Rule: rule, Construct: construct, Status: Undecided, Pos: pos, Detail: detail})
}

// Check records ok/violation by cond.
func (r *Report) Check(cond bool, rule, construct, pos, okDetail, badDetail string) bool {
	if cond {
		r.Ok(rule, construct, pos, okDetail)
	} else {
		r.Bad(rule, construct, pos, badDetail)
	}
	return cond
}

// Floor demands at least n decided instances of rule (vacuity guard).
func (r *Report) Floor(rule string, n int) { r.floors[rule] = n }

// WantControl demands that rule fires on its positive control this run.
func (r *Report) WantControl(rule string) { r.controlsWant[rule] = true }

// ControlFired notes that a rule fired on its positive control.
func (r *Report) ControlFired(rule, construct, pos, detail string) {
	r.controlsFired[rule] = true
	r.Add(Obl{Rule: rule, Construct: construct, Status: OK, Pos: pos, Detail: "positive control fired: " + detail, Control: true})
}

func (r *Report) SawFn(name string) { r.Functions[name] = true }

// Known findings file (committed, never written at run time).
type KnownFile struct {
	Findings []KnownFinding `json:"findings"`
	Fixed    []string       `json:"fixed"`
}
type KnownFinding struct {
	ID        string `json:"id"`
	Property  string `json:"property"`
	Rule      string `json:"rule"`
	Construct string `json:"construct"`
	What      string `json:"what"`
}

func LoadKnown(path string) (*KnownFile, error) {
	b, err := os.ReadFile(path)
	if err != nil {
		if os.IsNotExist(err) {
			return &KnownFile{}, nil
		}
		return nil, err
	}
	var k KnownFile
	if err := json.Unmarshal(b, &k); err != nil {
		return nil, err
	}
	return &k, nil
}

// Finish applies floors, controls and known findings, prints the summary,
// writes evidence and violation files, and returns the exit code.
func (r *Report) Finish(verifDir string, known *KnownFile) int {
	// floors
	count := map[string]int{}
	for _, o := range r.Obls {
		if !o.Control && o.Status != Undecided {
			count[o.Rule] += o.Count
		}
	}
	for rule, n := range r.floors {
		if count[rule] < n {
			r.Und(rule, "instance-floor", "", fmt.Sprintf("rule matched %d instances, floor confirmed by hand is %d (vacuity guard)", count[rule], n))
		}
	}
	for rule := range r.controlsWant {
		if !r.controlsFired[rule] {
			r.Und(rule, "positive-control", "", "rule did not fire on its positive control (rule disarmed)")
		}
	}
	// known findings
	matched := []string{}
	for i := range r.Obls {
		o := &r.Obls[i]
		if o.Status != Violation {
			continue
		}
		for _, k := range known.Findings {
			if k.Property == r.Property && k.Rule == o.Rule && k.Construct == o.Construct {
				o.Known = true
				matched = append(matched, k.ID)
				fmt.Printf("KNOWN-FINDING: property=%s %s %s @ %s: %s\n", r.Property, o.Rule, o.Construct, o.Pos, k.What)
			}
		}
	}
	sort.SliceStable(r.Obls, func(i, j int) bool {
		if r.Obls[i].Rule != r.Obls[j].Rule {
			return r.Obls[i].Rule < r.Obls[j].Rule
		}
		return r.Obls[i].Construct < r.Obls[j].Construct
	})
	// summary per rule
	type agg struct{ ok, bad, und, known, ctl int }
	per := map[string]*agg{}
	var rules []string
	for _, o := range r.Obls {
		a := per[o.Rule]
		if a == nil {
			a = &agg{}
			per[o.Rule] = a
			rules = append(rules, o.Rule)
		}
		switch {
		case o.Control:
			a.ctl++
		case o.Status == OK:
			a.ok++
		case o.Status == Violation && o.Known:
			a.known++
		case o.Status == Violation:
			a.bad++
		default:
			a.und++
		}
	}
	sort.Strings(rules)
	for _, rule := range rules {
		a := per[rule]
		fmt.Printf("%-22s ok=%d violation=%d known=%d undecided=%d controls=%d\n", rule, a.ok, a.bad, a.known, a.und, a.ctl)
	}
	vioDir := filepath.Join(verifDir, "evidence", "violations")
	_ = os.MkdirAll(vioDir, 0o755)
	// remove stale violation files of this property
	if old, _ := filepath.Glob(filepath.Join(vioDir, r.Property+"-*.json")); old != nil {
		for _, f := range old {
			_ = os.Remove(f)
		}
	}
	nViol, nUnd := 0, 0
	for _, o := range r.Obls {
		if o.Status == Violation && !o.Known {
			nViol++
			name := fmt.Sprintf("%s-%s-%d.json", r.Property, strings.ReplaceAll(strings.TrimPrefix(o.Rule, r.Property+"."), "/", "_"), nViol)
			path := filepath.Join(vioDir, name)
			rec := map[string]interface{}{
				"property": r.Property, "rule": o.Rule, "construct": o.Construct, "pos": o.Pos,
				"detail": o.Detail, "witness": o.Witness,
				"reproduce": fmt.Sprintf("cd /verif && ./scripts/check.sh %s %s", r.Property, r.Tier),
			}
			b, _ := json.MarshalIndent(rec, "", " ")
			_ = os.WriteFile(path, b, 0o644)
			fmt.Printf("  %s %s @ %s: %s\n", o.Rule, o.Construct, o.Pos, o.Detail)
			for _, w := range o.Witness {
				fmt.Printf("      %s\n", w)
			}
			fmt.Printf("VIOLATION property=%s replay=%s\n", r.Property, path)
		}
		if o.Status == Undecided {
			nUnd++
			fmt.Printf("UNDECIDED %s %s @ %s: %s\n", o.Rule, o.Construct, o.Pos, o.Detail)
			// an undecided instance fails the check: it is reported through the same
			// interface line as a violation (the check never passes on something it did not decide)
			name := fmt.Sprintf("%s-undecided-%d.json", r.Property, nUnd)
			path := filepath.Join(vioDir, name)
			rec := map[string]interface{}{"property": r.Property, "rule": o.Rule, "construct": o.Construct, "pos": o.Pos, "status": "undecided",
				"detail": o.Detail, "reproduce": fmt.Sprintf("cd /verif && ./scripts/check.sh %s %s", r.Property, r.Tier)}
			b, _ := json.MarshalIndent(rec, "", " ")
			_ = os.WriteFile(path, b, 0o644)
			fmt.Printf("VIOLATION property=%s replay=%s\n", r.Property, path)
		}
	}
	r.writeEvidence(verifDir, matched, nViol, nUnd)
	if nViol > 0 || nUnd > 0 {
		return 1
	}
	fmt.Printf("PASS property=%s tier=%s instances=%d\n", r.Property, r.Tier, len(r.Obls))
	return 0
}

func (r *Report) writeEvidence(verifDir string, matched []string, nViol, nUnd int) {
	decided, discharged, distinct := 0, 0, 0
	seen := map[string]bool{}
	var samples []interface{}
	perRuleSample := map[string]int{}
	for _, o := range r.Obls {
		if o.Control {
			continue
		}
		decided++
		if o.Status == OK || (o.Status == Violation && o.Known) {
			discharged++
		}
		k := o.Rule + "|" + o.Construct
		if !seen[k] && !o.Trivial && o.Status != Undecided {
			seen[k] = true
			distinct++
		}
		if perRuleSample[o.Rule] < 2 {
			perRuleSample[o.Rule]++
			samples = append(samples, o)
		}
	}
	var controls []interface{}
	for _, o := range r.Obls {
		if o.Control {
			controls = append(controls, o)
		}
	}
	var fns []string
	for f := range r.Functions {
		fns = append(fns, f)
	}
	sort.Strings(fns)
	cov := map[string]interface{}{
		"explanation":            r.Explanation,
		"not_decided":            r.NotDecided,
		"obligations":            decided,
		"discharged":             discharged,
		"evaluations":            decided + r.Paths + r.TableRows,
		"distinct_nontrivial":    distinct,
		"rule":                   "one case = one (rule, construct) instance decided on the loaded SSA/CFG/call graph, plus every CFG path and decision-table row evaluated; distinct = distinct (rule, construct) keys; non-trivial = the instance inspected at least one access, path, call site or table row (instances flagged trivial are excluded)",
		"samples":                samples,
		"packages":               r.Packages,
		"functions":              len(fns),
		"function_list":          fns,
		"call_sites":             r.CallSites,
		"paths":                  r.Paths,
		"pruned_infeasible":      r.Pruned,
		"table_rows":             r.TableRows,
		"exceptions_used":        r.Exceptions,
		"known_findings_matched": matched,
		"positive_controls":      controls,
		"undecided":              nUnd,
		"notes":                  r.Notes,
		"exhaustive":             false,
		"checker_cmd":            fmt.Sprintf("./scripts/check.sh %s %s", r.Property, r.Tier),
		"trusted_base":           []string{"go/types, go/ssa, go/callgraph/cha of golang.org/x/tools v0.29.0", "Go 1.23 toolchain (parser, type checker)"},
	}
	ev := map[string]interface{}{
		"property_id": r.Property,
		"tier":        r.Tier,
		"seed":        r.Seed,
		"level":       "other",
		"coverage":    cov,
		"assumptions": r.Assumptions,
		"wall_s":      time.Since(r.Start).Seconds(),
		"violations":  nViol,
	}
	b, _ := json.MarshalIndent(ev, "", " ")
	_ = os.MkdirAll(filepath.Join(verifDir, "evidence"), 0o755)
	_ = os.WriteFile(filepath.Join(verifDir, "evidence", r.Property+".json"), b, 0o644)
}

// CommonAssumptions are repeated in every evidence file (DESIGN §2).
var CommonAssumptions = []string{
	"A1 go/types, go/ssa and cha of x/tools v0.29.0 are correct",
	"A2 lock classes: a lock is identified by (struct type, field), not by instance",
	"A3 closed world over stock code: repo-declared interfaces resolve to the implementations in the 7 packages; foreign interfaces and func-valued fields are opaque",
	"A4 standard-library and third-party semantics are trusted (sync.Map, sync.RWMutex, container/list, os O_APPEND, encoding/json, copystructure, pointerstructure, go-kms-wrapping, hkdf, hmac)",
	"A5 reflection is opaque",
	"A6 go statements are treated as synchronous calls for lock-order purposes",
	"_test.go files and the build-tagged tools/ package are not analysed",
}
