package check

import (
	"fmt"
	"go/types"
	"reflect"
	"sort"
	"strings"

	"golang.org/x/tools/go/ssa"
)

func init() { Register("C18", runC18) }

func jsonMembers(st *types.Struct) []string {
	var out []string
	for i := 0; i < st.NumFields(); i++ {
		tag := reflect.StructTag(st.Tag(i)).Get("json")
		name := strings.Split(tag, ",")[0]
		if name == "-" {
			continue
		}
		if name == "" {
			name = st.Field(i).Name()
		}
		out = append(out, name)
	}
	sort.Strings(out)
	return out
}

func stepCallName(s Step) string {
	if ci, ok := s.In.(ssa.CallInstruction); ok {
		return calleeName(ci.Common())
	}
	return ""
}

func runC18(c *Ctx) {
	p, r := c.P, c.R
	r.Explanation = "Decides on every path of cloudevents.(*FormatterFilter).Process and sign: errors of every fallible step (validate, id generation, encoding, signing, predicate) end Process with a nil event; the cloudevents.Event type has exactly the ten JSON members of the property and the literal is filled from id / Source.String() / the 1.0 constant / string(e.Type) / Data() or payload / schema / e.CreatedAt, with an empty ID() rejected; the accepted formats of Format.validate and the arms of Process agree (content type, indentation, format key); signing happens iff a signer is configured and the type is listed, serialized is the base64 of exactly the bytes handed to the signer taken before the buffer is reset, serialized_hmac is the signer's result, and the document is re-encoded afterwards; the predicate decides between (e,nil), (nil,nil) and (nil,err). Uniqueness of random ids and JSON validity are not decided (third-party semantics). C18.validate: decision table of FormatterFilter.validate (accept only established-valid configurations, reject only established-invalid ones). C18.sig Rotate:store-then-error: a rejected Rotate has not replaced the signer. C18.recover: recover discipline over package cloudevents. C18.process encoded-bytes-readonly: nothing writes through the encoder's buf.Bytes() before it is stored."
	r.NotDecided = []string{"uniqueness of random ids", "validity of the JSON produced by encoding/json", "that serialized decodes to the unsigned document byte for byte (follows from C18.sig under A4)"}
	c.errControls()
	c.ruleEncodedBytesReadOnly("C18.process", PkgCloud)
	proc := c.Fn("C18.anchor", PkgCloud, "FormatterFilter", "Process")
	sign := c.Fn("C18.anchor", PkgCloud, "FormatterFilter", "sign")
	if proc == nil || sign == nil {
		return
	}
	// C18.sign-err (and every other fallible step)
	c.eNilRule("C18.enil", proc, false)
	for _, f := range []*ssa.Function{proc, sign, c.Fn("C18.anchor", PkgCloud, "FormatterFilter", "validate"), c.Fn("C18.anchor", PkgCloud, "", "newId")} {
		if f != nil {
			c.errorFlowRule("C18.sign-err", f, nil, false)
		}
	}
	r.Floor("C18.sign-err", 3)

	// C18.fields
	evT := p.Named(PkgCloud, "Event")
	if evT == nil {
		r.Und("C18.fields", "anchor:Event", "", "cloudevents.Event not found")
		return
	}
	want := []string{"data", "datacontenttype", "dataschema", "id", "serialized", "serialized_hmac", "source", "specversion", "time", "type"}
	got := jsonMembers(evT.Underlying().(*types.Struct))
	gotSet, wantSet := map[string]bool{}, map[string]bool{}
	for _, g := range got {
		gotSet[g] = true
	}
	for _, w := range want {
		wantSet[w] = true
		r.Check(gotSet[w], "C18.fields", "cloudevents.Event:member:"+w, p.Pos(evT.Obj().Pos()), "JSON member present", "the cloudevent type has no JSON member \""+w+"\" (CloudEvents 1.0 attribute name); members are "+strings.Join(got, ","))
	}
	for _, g := range got {
		if !wantSet[g] {
			r.Bad("C18.fields", "cloudevents.Event:unexpected-member:"+g, p.Pos(evT.Obj().Pos()), "the cloudevent type has a JSON member \""+g+"\" that is not one of the ten of the property")
		}
	}
	if sv := p.SSAPkgs[PkgCloud].Const("SpecVersion"); sv == nil || sv.Value.Value.ExactString() != `"1.0"` {
		r.Bad("C18.fields", "cloudevents.SpecVersion", "", "SpecVersion is not the constant \"1.0\"")
	} else {
		r.Ok("C18.fields", "cloudevents.SpecVersion", "", "constant \"1.0\"")
	}

	// small package-level helpers Process hands the payload to (the id look-up extracted, say) are followed; the
	// observed calls — validate, sign, newId — stay calls
	c.ruleRecoverResults("C18.recover", []string{PkgCloud}, false)
	paths := c.enum("C18.process", proc, PathOpts{Inline: func(caller *ssa.Function, call *ssa.Call, callee *ssa.Function) bool {
		if caller != proc || PkgPathOf(callee) != PkgCloud || len(callee.Blocks) > 16 {
			return false
		}
		switch callee.Name() {
		case "validate", "sign", "newId":
			return false
		}
		return true
	}})
	type arm struct {
		ctype, key string
		indent     bool
	}
	arms := map[string]arm{}
	nFwd := 0
	for _, pa := range paths {
		ret, ok := pa.End.(*ssa.Return)
		if !ok {
			continue
		}
		rv := pa.RetVals()
		ltb := pa.TermsAt(pa.LastStep())
		calls := pa.CallsOn()
		// empty ID rejected
		if pol, found := hasAtom(pa, func(at Atom) bool {
			return at.Op == "eq" && at.L.Op == "Call" && at.L.Name == "invoke cloudevents.ID.ID" && at.R.Is("Const", `""`)
		}); found && pol {
			r.Check(isNilConst(rv[0]) && !isNilConst(rv[1]), "C18.fields", "Process:empty-id", p.InstrPos(ret), "an empty ID() ends Process with (nil, error)", "an empty ID() does not end Process with an error")
		}
		if isNilConst(rv[0]) {
			continue
		}
		// forwarded event: must be the parameter
		if !ltb.Of(rv[0]).IsParam("2:e") {
			r.Bad("C18.process", "Process:forward", p.InstrPos(ret), "Process forwards "+ltb.Of(rv[0]).String()+" instead of its event")
			continue
		}
		nFwd++
		// sequence: validate ... Encode ... sign ... FormattedAs
		idx := map[string][]int{}
		for i, s := range calls {
			idx[stepCallName(s)] = append(idx[stepCallName(s)], i)
		}
		first := ""
		for _, s := range calls {
			if n := stepCallName(s); !strings.HasPrefix(n, "builtin") {
				first = n
				break
			}
		}
		okSeq := first == "(*formatter_filters/cloudevents.FormatterFilter).validate" &&
			len(idx["(*encoding/json.Encoder).Encode"]) == 1 &&
			len(idx["(*formatter_filters/cloudevents.FormatterFilter).sign"]) == 1 &&
			len(idx["(*eventlogger.Event).FormattedAs"]) == 1
		if okSeq {
			e, s, f := idx["(*encoding/json.Encoder).Encode"][0], idx["(*formatter_filters/cloudevents.FormatterFilter).sign"][0], idx["(*eventlogger.Event).FormattedAs"][0]
			okSeq = e < s && s < f
		}
		if !okSeq {
			r.Bad("C18.process", "Process:sequence", p.InstrPos(ret), "a forwarding path is not validate -> Encode -> sign -> FormattedAs (each once): "+p.PathSummary(pa))
			continue
		}
		signStep := calls[idx["(*formatter_filters/cloudevents.FormatterFilter).sign"][0]]
		encStep := calls[idx["(*encoding/json.Encoder).Encode"][0]]
		fmtStep := calls[idx["(*eventlogger.Event).FormattedAs"][0]]
		// sign's error tested nil on this path
		if pol, found := hasAtom(pa, func(at Atom) bool {
			return at.Op == "eq" && at.L.V == signStep.In.(ssa.Value) && at.R.Is("Const", "nil")
		}); !found || !pol {
			r.Bad("C18.sign-err", "Process:forward-after-sign", p.InstrPos(signStep.In), "the event is forwarded on a path that does not establish that signing succeeded (event forwarded unsigned on signer failure)")
			continue
		}
		// sign(ctx, &ce, enc, buf): same encoder and buffer as Encode / FormattedAs
		stb := pa.TermsAt(signStep)
		sargs := signStep.In.(ssa.CallInstruction).Common().Args
		eargs := encStep.In.(ssa.CallInstruction).Common().Args
		fargs := fmtStep.In.(ssa.CallInstruction).Common().Args
		// sign's arguments by type: (ctx, *Event, *json.Encoder, *bytes.Buffer)
		var ceCell, encV, bufV ssa.Value
		for _, a := range sargs[1:] {
			switch typeShort(a.Type()) {
			case "cloudevents.Event":
				ceCell = pa.Resolve(signStep, a)
			case "json.Encoder":
				encV = pa.Resolve(signStep, a)
			case "bytes.Buffer":
				bufV = pa.Resolve(signStep, a)
			}
		}
		if ceCell == nil || encV == nil || bufV == nil || len(sargs) < 2 {
			r.Bad("C18.process", "Process:objects", p.InstrPos(signStep.In), "sign is not handed the cloudevent, the encoder that produced the unsigned document and its buffer: the signed document would not be re-encoded with the same settings (indentation) into the same buffer")
			continue
		}
		okObj := stb.Of(sargs[1]).IsParam("1:ctx") && pa.Resolve(encStep, eargs[0]) == encV
		// Encode(ce): the value encoded is a load of the ce cell
		if ld, ok := stripConv(pa.Resolve(encStep, eargs[1])).(*ssa.UnOp); !ok || ld.X != ceCell {
			okObj = false
		}
		// enc = json.NewEncoder(buf)
		if et := stb.Of(encV); !(et.Op == "Call" && et.Name == "encoding/json.NewEncoder" && et.Args[0].V == bufV) {
			okObj = false
		}
		// FormattedAs(key, buf.Bytes()) on the event parameter
		ftb := pa.TermsAt(fmtStep)
		bytesT := ftb.Of(fargs[2])
		if !(ftb.Of(fargs[0]).IsParam("2:e") && bytesT.Op == "Call" && bytesT.Name == "(*bytes.Buffer).Bytes" && bytesT.Args[0].V == bufV) {
			okObj = false
		}
		if _, fresh := bufV.(*ssa.Alloc); !fresh {
			r.Bad("C18.process", "Process:private-buffer", p.InstrPos(encStep.In), "the document is encoded into a buffer that is not freshly allocated by this call ("+stb.Of(bufV).String()+"): Event.FormattedAs keeps the slice without copying, so the stored document would alias memory that is reused for later events")
			continue
		}
		if !okObj {
			r.Bad("C18.process", "Process:objects", p.InstrPos(fmtStep.In), "encoder, buffer, cloudevent and stored bytes of a forwarding path are not one and the same chain (Encode(ce) -> sign(ctx,&ce,enc,buf) -> e.FormattedAs(key, buf.Bytes()))")
			continue
		}
		// literal fields
		fields := litFields(pa, ceCell, stepIndex(pa, encStep.In))
		ft := map[string]string{}
		for k, v := range fields {
			ft[k] = stb.Of(v).String()
		}
		okLit := ft["Source"] == "Call[(*net/url.URL).String](Field[Source](Param(0:f)))" &&
			ft["SpecVersion"] == `Const("1.0")` &&
			ft["Type"] == "Field[Type](Param(2:e))" &&
			ft["Time"] == "Field[CreatedAt](Param(2:e))" &&
			(ft["Data"] == "Field[Payload](Param(2:e))" || strings.HasPrefix(ft["Data"], "Call[invoke cloudevents.Data.Data](")) &&
			(ft["DataSchema"] == `Const("")` || ft["DataSchema"] == "Call[(*net/url.URL).String](Field[Schema](Param(0:f)))") &&
			(strings.HasPrefix(ft["ID"], "Call[invoke cloudevents.ID.ID](") || ft["ID"] == "Extract[0](Call[formatter_filters/cloudevents.newId]())") &&
			ft["Serialized"] == "" && ft["SerializedHmac"] == ""
		// Data() used iff the payload implements Data; schema set iff f.Schema != nil
		if pol, found := hasAtom(pa, func(at Atom) bool {
			return at.Op == "true" && at.L.Op == "Extract" && at.L.Name == "1" && at.L.Args[0].Is("Assert", "cloudevents.Data")
		}); found {
			if pol != strings.HasPrefix(ft["Data"], "Call[invoke") {
				okLit = false
			}
		}
		if pol, found := hasAtom(pa, func(at Atom) bool { return at.Op == "eq" && at.L.Is("Field", "Schema") && at.R.Is("Const", "nil") }); found {
			if pol != (ft["DataSchema"] == `Const("")`) {
				okLit = false
			}
		}
		if strings.HasPrefix(ft["ID"], "Call[invoke cloudevents.ID.ID](") {
			pol, found := hasAtom(pa, func(at Atom) bool {
				return at.Op == "eq" && at.L.Op == "Call" && at.L.Name == "invoke cloudevents.ID.ID" && at.R.Is("Const", `""`)
			})
			if !found || pol {
				r.Bad("C18.fields", "Process:empty-id", p.InstrPos(encStep.In), "the payload's ID() is used on a forwarding path that does not establish it is non-empty")
				continue
			}
		}
		if !okLit {
			r.Bad("C18.fields", "Process:literal", p.InstrPos(encStep.In), fmt.Sprintf("the cloudevent is not filled as the property states: %v", ft))
			continue
		}
		// format arm
		var fmtAtoms []string
		for _, at := range pa.Atoms {
			if at.Op == "eq" && at.L.Is("Field", "Format") && !at.Neg {
				fmtAtoms = append(fmtAtoms, at.R.String())
			}
			if at.Op == "eq" && at.R.Is("Field", "Format") && !at.Neg {
				fmtAtoms = append(fmtAtoms, at.L.String())
			}
		}
		indent := len(idx["(*encoding/json.Encoder).SetIndent"]) == 1
		if indent {
			ia := calls[idx["(*encoding/json.Encoder).SetIndent"][0]].In.(ssa.CallInstruction).Common().Args
			pre, _ := constString(ia[1])
			ind, _ := constString(ia[2])
			if pre != "" || ind != "  " || idx["(*encoding/json.Encoder).SetIndent"][0] > idx["(*encoding/json.Encoder).Encode"][0] {
				r.Bad("C18.format", "Process:indent", p.InstrPos(fmtStep.In), "text format is not indented with two spaces before encoding")
			}
		}
		if len(fmtAtoms) != 1 {
			r.Und("C18.format", "Process:arm", p.InstrPos(fmtStep.In), fmt.Sprintf("cannot identify the format arm of a forwarding path (%v)", fmtAtoms))
			continue
		}
		a := arm{ctype: ft["DataContentType"], key: ftb.Of(fargs[1]).String(), indent: indent}
		if prev, ok := arms[fmtAtoms[0]]; ok && prev != a {
			r.Bad("C18.format", "Process:arm:"+fmtAtoms[0], p.InstrPos(fmtStep.In), "the same format value is handled differently on different paths")
		}
		arms[fmtAtoms[0]] = a
		// predicate
		predNilPol, predNilFound := hasAtom(pa, func(at Atom) bool { return at.Op == "eq" && at.L.Is("Field", "Predicate") && at.R.Is("Const", "nil") })
		if !predNilFound {
			r.Bad("C18.pred", "Process:predicate", p.InstrPos(ret), "a forwarding path does not consult the predicate field")
			continue
		}
		if !predNilPol {
			keepPol, keepFound := hasAtom(pa, func(at Atom) bool {
				return at.Op == "true" && at.L.Op == "Extract" && at.L.Name == "0" && at.L.Args[0].Op == "Call" && at.L.Args[0].Name == "dynamic"
			})
			errPol, errFound := hasAtom(pa, func(at Atom) bool {
				return at.Op == "eq" && at.L.Op == "Extract" && at.L.Name == "1" && at.L.Args[0].Op == "Call" && at.L.Args[0].Name == "dynamic" && at.R.Is("Const", "nil")
			})
			if !(keepFound && keepPol && errFound && errPol) {
				r.Bad("C18.pred", "Process:predicate", p.InstrPos(ret), "the event is forwarded although the predicate did not return (true, nil)")
				continue
			}
		}
	}
	r.Check(nFwd >= 4, "C18.process", "Process:forwarding-paths", p.Pos(proc.Pos()), fmt.Sprintf("%d forwarding paths, each validate -> Encode(ce) -> sign (error tested) -> FormattedAs(key, buf.Bytes()) with the literal filled as stated", nFwd), "fewer than 4 forwarding paths found")
	// predicate false / error paths
	for _, pa := range paths {
		rv := pa.RetVals()
		if rv == nil {
			continue
		}
		keepPol, keepFound := hasAtom(pa, func(at Atom) bool {
			return at.Op == "true" && at.L.Op == "Extract" && at.L.Name == "0" && at.L.Args[0].Op == "Call" && at.L.Args[0].Name == "dynamic"
		})
		if keepFound && !keepPol {
			r.TableRows++
			if !(isNilConst(rv[0]) && isNilConst(rv[1])) {
				r.Bad("C18.pred", "Process:predicate-false", p.InstrPos(pa.End), "a predicate returning false does not yield (nil, nil)")
			}
		}
	}
	r.Ok("C18.pred", "Process:predicate", p.Pos(proc.Pos()), "forwarded iff predicate nil or (true, nil); false gives (nil, nil); an error gives (nil, err) (C18.sign-err)")

	// C18.format: agreement with Format.validate
	val := c.Fn("C18.format", PkgCloud, "Format", "validate")
	if val != nil {
		accepted := map[string]bool{}
		for _, pa := range c.enum("C18.format", val, PathOpts{}) {
			rv := pa.RetVals()
			if len(rv) == 1 && isNilConst(rv[0]) {
				for _, at := range pa.Atoms {
					if at.Op == "eq" && !at.Neg {
						if at.L.IsParam("0:f") {
							accepted[at.R.String()] = true
						} else if at.R.IsParam("0:f") {
							accepted[at.L.String()] = true
						}
					}
				}
				if len(pa.Atoms) == 0 || pa.Atoms[len(pa.Atoms)-1].Neg {
					r.Bad("C18.format", "Format.validate", p.InstrPos(pa.End), "validate accepts a value by default (not by comparison with a known format)")
				}
			}
		}
		wantArms := map[string]arm{
			"Load(Global(cloudevents.FormatJSON))":        {`Const("application/cloudevents")`, "Load(Global(cloudevents.FormatJSON))", false},
			"Load(Global(cloudevents.FormatUnspecified))": {`Const("application/cloudevents")`, "Load(Global(cloudevents.FormatJSON))", false},
			"Load(Global(cloudevents.FormatText))":        {`Const("text/plain")`, "Load(Global(cloudevents.FormatText))", true},
		}
		for k, w := range wantArms {
			if !accepted[k] {
				r.Bad("C18.format", "Format.validate:"+k, p.Pos(val.Pos()), "validate does not accept "+k)
			}
			g, ok := arms[k]
			if !ok {
				r.Bad("C18.format", "Process:arm:"+k, p.Pos(proc.Pos()), "Process has no forwarding arm for "+k+" although validate accepts it")
				continue
			}
			r.Check(g == w, "C18.format", "Process:arm:"+k, p.Pos(proc.Pos()), fmt.Sprintf("content type %s, key %s, indent %v", g.ctype, g.key, g.indent),
				fmt.Sprintf("arm handles the format with content type %s, key %s, indent %v; expected %s, %s, %v", g.ctype, g.key, g.indent, w.ctype, w.key, w.indent))
		}
		for k := range accepted {
			if _, ok := wantArms[k]; !ok {
				r.Bad("C18.format", "Format.validate:"+k, p.Pos(val.Pos()), "validate accepts a format the property does not know: "+k)
			}
		}
		for k := range arms {
			if _, ok := wantArms[k]; !ok {
				r.Bad("C18.format", "Process:arm:"+k, p.Pos(proc.Pos()), "Process forwards under a format validate does not accept: "+k)
			}
		}
		// the globals hold the documented strings
		for name, wantS := range map[string]string{"FormatJSON": "cloudevents-json", "FormatText": "cloudevents-text", "FormatUnspecified": ""} {
			okInit := false
			if g, ok := p.SSAPkgs[PkgCloud].Members[name].(*ssa.Global); ok {
				initF := p.SSAPkgs[PkgCloud].Func("init")
				nStores := 0
				for _, f := range p.FuncsIn(PkgCloud) {
					if f == initF {
						continue
					}
					eachInstr(f, func(in ssa.Instruction) {
						if st, ok := in.(*ssa.Store); ok && st.Addr == ssa.Value(g) {
							nStores++
						}
					})
				}
				if initF != nil {
					eachInstr(initF, func(in ssa.Instruction) {
						if st, ok := in.(*ssa.Store); ok && st.Addr == ssa.Value(g) {
							nStores++
							if s, ok := constString(st.Val); ok && s == wantS {
								okInit = true
							}
						}
					})
				}
				if wantS == "" && nStores == 0 {
					okInit = true
				}
				if nStores > 1 {
					okInit = false
				}
			}
			r.Check(okInit, "C18.format", "cloudevents."+name, "", fmt.Sprintf("initialised once to %q", wantS), fmt.Sprintf("format variable %s is not initialised exactly once to %q", name, wantS))
		}
	}

	// C18.sig on the paths of sign
	nSigned := 0
	for _, pa := range c.enum("C18.sig", sign, PathOpts{}) {
		rv := pa.RetVals()
		if rv == nil {
			continue
		}
		calls := pa.CallsOn()
		var signer *Step
		for i := range calls {
			if stepCallName(calls[i]) == "dynamic" {
				signer = &calls[i]
			}
		}
		var stores []Step
		for _, s := range pa.Steps {
			if st, ok := s.In.(*ssa.Store); ok {
				if fa, ok := st.Addr.(*ssa.FieldAddr); ok && typeShort(fa.X.Type()) == "cloudevents.Event" {
					stores = append(stores, s)
				}
			}
		}
		hasReset := false
		for _, s := range calls {
			if stepCallName(s) == "(*bytes.Buffer).Reset" {
				hasReset = true
			}
		}
		if signer == nil {
			if len(stores) > 0 || hasReset {
				r.Bad("C18.sig", "sign:unsigned-path", p.InstrPos(pa.End), "a path that does not call the signer still touches the cloudevent or resets the buffer")
			}
			// the converse: success without signing only after THIS call saw no signer, or a type that is not listed
			if isNilConst(rv[0]) {
				nilSigner, f1 := hasAtom(pa, func(at Atom) bool {
					return at.Op == "eq" && at.L.Is("Field", "Signer") && at.L.Args[0].IsParam("0:f") && at.R.Is("Const", "nil")
				})
				listed, f2 := hasAtom(pa, func(at Atom) bool {
					return at.Op == "true" && at.L.Op == "Call" && isListContains(at.L.Name) &&
						at.L.Args[0].String() == "Field[SignEventTypes](Param(0:f))" && at.L.Args[1].String() == "Field[Type](Param(2:e))"
				})
				okSkip := (f1 && nilSigner) || (f2 && !listed)
				r.Check(okSkip, "C18.sig", "sign:unsigned-condition", p.InstrPos(pa.End), "sign returns success without signing only after finding no signer or a type that is not listed", "sign reports success without signing on a path that established neither Signer == nil (as read in this call) nor that the type is not listed: "+p.PathSummary(pa))
			}
			continue
		}
		stb := pa.TermsAt(*signer)
		sc := signer.In.(ssa.CallInstruction).Common()
		fnT := stb.Of(pa.Resolve(*signer, sc.Value))
		// condition: signer != nil and the type is listed
		nnPol, nnFound := hasAtom(pa, func(at Atom) bool { return at.Op == "eq" && at.L.String() == fnT.String() && at.R.Is("Const", "nil") })
		listPol, listFound := hasAtom(pa, func(at Atom) bool {
			return at.Op == "true" && at.L.Op == "Call" && isListContains(at.L.Name) &&
				at.L.Args[0].String() == "Field[SignEventTypes](Param(0:f))" && at.L.Args[1].String() == "Field[Type](Param(2:e))"
		})
		if !fnT.Is("Field", "Signer") || !(nnFound && !nnPol) || !(listFound && listPol) {
			r.Bad("C18.sig", "sign:condition", p.InstrPos(signer.In), "the signer ("+fnT.String()+") is called on a path that does not establish Signer != nil and SignEventTypes containing the cloudevent's type")
			continue
		}
		bytesArg := stb.Of(sc.Args[1])
		if !(stb.Of(sc.Args[0]).IsParam("1:ctx") && bytesArg.Op == "Call" && bytesArg.Name == "(*bytes.Buffer).Bytes" && bytesArg.Args[0].IsParam("4:buf")) {
			r.Bad("C18.sig", "sign:input", p.InstrPos(signer.In), "the signer is not given (ctx, buf.Bytes()): "+bytesArg.String())
			continue
		}
		if isNilConst(rv[0]) {
			nSigned++
			// success path: Serialized, SerializedHmac stored before Reset; Encode after Reset
			pos := map[string]int{}
			for i, s := range pa.Steps {
				switch x := s.In.(type) {
				case *ssa.Store:
					if fa, ok := x.Addr.(*ssa.FieldAddr); ok && typeShort(fa.X.Type()) == "cloudevents.Event" {
						nm := fa.X.Type().Underlying().(*types.Pointer).Elem().Underlying().(*types.Struct).Field(fa.Field).Name()
						t := pa.TermsAt(s).Of(pa.Resolve(s, x.Val))
						switch nm {
						case "Serialized":
							okS := t.Op == "Call" && t.Name == "(*encoding/base64.Encoding).EncodeToString" && len(t.Args) == 2 &&
								t.Args[0].String() == "Load(Global(base64.RawURLEncoding))" && t.Args[1].Op == "Call" && t.Args[1].Name == "(*bytes.Buffer).Bytes" && t.Args[1].Args[0].IsParam("4:buf")
							if !okS {
								r.Bad("C18.sig", "sign:serialized", p.InstrPos(x), "serialized is "+t.String()+"; expected base64.RawURLEncoding of buf.Bytes()")
							}
							// the Bytes() call feeding it must execute before Reset
							if bv, ok := t.Args[1].V.(ssa.Instruction); ok {
								pos["bytes"] = stepIndex(pa, bv)
							}
							pos["serialized"] = i
						case "SerializedHmac":
							if !(t.Op == "Extract" && t.Name == "0" && t.Args[0].V == signer.In.(ssa.Value)) {
								r.Bad("C18.sig", "sign:hmac", p.InstrPos(x), "serialized_hmac is "+t.String()+", not the signer's result")
							}
							pos["hmac"] = i
						default:
							r.Bad("C18.sig", "sign:other-field", p.InstrPos(x), "signing modifies field "+nm+" of the cloudevent")
						}
					}
				case ssa.CallInstruction:
					switch calleeName(x.Common()) {
					case "(*bytes.Buffer).Reset":
						pos["reset"] = i
					case "(*encoding/json.Encoder).Encode":
						pos["encode"] = i
						et := pa.TermsAt(s)
						if !(et.Of(x.Common().Args[0]).IsParam("3:enc") && et.Of(x.Common().Args[1]).IsParam("2:e")) {
							r.Bad("C18.sig", "sign:re-encode", p.InstrPos(s.In), "the signed document is not re-encoded with the same encoder from the same cloudevent")
						}
					}
				}
			}
			_, a1 := pos["serialized"]
			_, a2 := pos["hmac"]
			_, a3 := pos["reset"]
			_, a4 := pos["encode"]
			_, a5 := pos["bytes"]
			okOrder := a1 && a2 && a3 && a4 && a5 && pos["bytes"] < pos["reset"] && pos["serialized"] < pos["encode"] && pos["hmac"] < pos["encode"] && pos["reset"] < pos["encode"]
			r.Check(okOrder, "C18.sig", "sign:order", p.InstrPos(signer.In), "signer(buf.Bytes()) -> serialized = base64(buf.Bytes()) taken before buf.Reset() -> re-encode",
				"signed path does not follow: bytes taken and both fields set before buf.Reset(), then re-encoded")
		}
	}
	r.Check(nSigned >= 1, "C18.sig", "sign:signed-paths", p.Pos(sign.Pos()), fmt.Sprintf("%d successful signing path(s)", nSigned), "no successful signing path exists")
	c.ruleValidate()
	// a rejected Rotate leaves the signer in force
	c.ruleRejectLeavesState("C18.sig", c.Fn("C18.sig", PkgCloud, "FormatterFilter", "Rotate"), "cloudevents.FormatterFilter", []string{"Signer"})
}

// isListContains: the membership tests the signing condition may use for (SignEventTypes, type): strutil's
// StrListContains or the standard library's generic slices.Contains.
func isListContains(name string) bool {
	return strings.HasSuffix(name, "strutil.StrListContains") || strings.HasPrefix(name, "slices.Contains[")
}
