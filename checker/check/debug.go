package check

import (
	"fmt"

	"golang.org/x/tools/go/ssa"
)

// DumpPaths prints the feasible paths of a function (debugging aid).
func DumpPaths(p *Prog, pkg, recv, name string) {
	var fn *ssa.Function
	if recv == "-" || recv == "" {
		fn = p.Func(pkg, name)
	} else {
		fn = p.Method(pkg, recv, name)
	}
	if fn == nil {
		fmt.Println("not found")
		return
	}
	paths, pruned, err := p.EnumPaths(fn, PathOpts{})
	fmt.Printf("%s: %d paths, %d pruned, err=%v\n", fn, len(paths), pruned, err)
	for i, pa := range paths {
		fmt.Printf("-- %d %s\n", i, p.PathSummary(pa))
		for _, s := range pa.CallsOn() {
			d := ""
			if s.Deferred {
				d = " (deferred)"
			}
			ci := s.In.(ssa.CallInstruction)
			fmt.Printf("     call %s%s @ %s\n", calleeName(ci.Common()), d, p.InstrPos(s.In))
		}
		if rv := pa.RetVals(); rv != nil {
			tb := pa.TermsAt(pa.LastStep())
			for _, v := range rv {
				fmt.Printf("     ret %s\n", tb.Of(v))
			}
		}
	}
}
