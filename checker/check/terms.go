package check

import (
	"fmt"
	"go/constant"
	"go/token"
	"go/types"
	"sort"
	"strings"

	"golang.org/x/tools/go/ssa"
	"golang.org/x/tools/go/ssa/ssautil"
)

// Term is the symbolic origin of an SSA value (DESIGN P2). Rules compare
// terms, never source text.
type Term struct {
	Op   string // Param FreeVar Field Lookup Index Call Const Alloc Phi Bin Un Assert Extract Global Func Closure Make Slice Conv Recv Sel Next Range Opaque
	Name string
	Args []*Term
	V    ssa.Value
}

func (t *Term) String() string {
	if t == nil {
		return "<nil>"
	}
	switch t.Op {
	case "Param", "Const", "Global", "Func", "Closure", "Alloc", "Make", "Opaque", "FreeVar":
		return t.Op + "(" + t.Name + ")"
	}
	var as []string
	for _, a := range t.Args {
		as = append(as, a.String())
	}
	if t.Name != "" {
		return t.Op + "[" + t.Name + "](" + strings.Join(as, ",") + ")"
	}
	return t.Op + "(" + strings.Join(as, ",") + ")"
}

// Is reports whether the term has the given op and name.
func (t *Term) Is(op, name string) bool {
	return t != nil && t.Op == op && (name == "" || t.Name == name)
}

// IsField: Field[name](base)
func (t *Term) IsField(name string) (*Term, bool) {
	if t != nil && t.Op == "Field" && t.Name == name && len(t.Args) == 1 {
		return t.Args[0], true
	}
	return nil, false
}

// IsParam reports whether the term is parameter i of fn (receiver is 0 for methods).
func (t *Term) IsParam(name string) bool { return t != nil && t.Op == "Param" && t.Name == name }

// Terms builds terms for one function, resolving phis through an optional
// environment (path-sensitive) and looking through single-store cells.
type Terms struct {
	p      *Prog
	env    func(ssa.Value) ssa.Value // optional resolution of phis / inlined parameters and call results
	depth  int
	allocN map[*ssa.Alloc]int
}

func (p *Prog) NewTerms(env func(ssa.Value) ssa.Value) *Terms {
	return &Terms{p: p, env: env, allocN: map[*ssa.Alloc]int{}}
}

func calleeName(cc *ssa.CallCommon) string {
	if cc.IsInvoke() {
		return "invoke " + typeShort(cc.Value.Type()) + "." + cc.Method.Name()
	}
	switch v := cc.Value.(type) {
	case *ssa.Function:
		if clockHelper(v) {
			return "time.Now"
		}
		return funcShort(v)
	case *ssa.Builtin:
		return "builtin " + v.Name()
	case *ssa.MakeClosure:
		return funcShort(v.Fn.(*ssa.Function))
	case *ssa.UnOp:
		// a test seam: a package-level func variable that only the package initialiser assigns, to a
		// named function (var osRemove = os.Remove) — a call through it is a call of that function
		if g, ok := v.X.(*ssa.Global); ok && v.Op == token.MUL {
			if f := seamTarget(g); f != nil {
				return funcShort(f)
			}
		}
	}
	return "dynamic"
}

// isSeamCall: the call goes through a package-level func variable that stands for one named function.
func isSeamCall(cc *ssa.CallCommon) bool {
	if ld, ok := cc.Value.(*ssa.UnOp); ok && ld.Op == token.MUL {
		if g, ok := ld.X.(*ssa.Global); ok {
			return seamTarget(g) != nil
		}
	}
	return false
}

var (
	seamOnce  = map[*ssa.Program]bool{}
	seamCache = map[*ssa.Global]*ssa.Function{}
)

// seamTarget: g is a package-level func variable with exactly one store in the whole program — the
// package initialiser's, of a function — returns that function.
func seamTarget(g *ssa.Global) *ssa.Function {
	if g.Pkg == nil {
		return nil
	}
	prog := g.Pkg.Prog
	if !seamOnce[prog] {
		seamOnce[prog] = true
		type rec struct {
			n    int
			fn   *ssa.Function
			init bool
		}
		stores := map[*ssa.Global]*rec{}
		for f := range ssautil.AllFunctions(prog) {
			for _, b := range f.Blocks {
				for _, in := range b.Instrs {
					st, ok := in.(*ssa.Store)
					if !ok {
						continue
					}
					gg, ok := st.Addr.(*ssa.Global)
					if !ok {
						continue
					}
					r := stores[gg]
					if r == nil {
						r = &rec{}
						stores[gg] = r
					}
					r.n++
					val := st.Val
					if ct, isCT := val.(*ssa.ChangeType); isCT {
						val = ct.X
					}
					if fv, isF := val.(*ssa.Function); isF && f.Name() == "init" && f.Parent() == nil {
						r.fn, r.init = fv, true
					}
				}
			}
		}
		for gg, r := range stores {
			if r.n == 1 && r.init && r.fn != nil {
				seamCache[gg] = r.fn
			}
		}
	}
	return seamCache[g]
}

func funcShort(f *ssa.Function) string {
	s := f.String()
	s = strings.ReplaceAll(s, ModRoot+"/", "")
	s = strings.ReplaceAll(s, ModRoot, "eventlogger")
	return s
}

func paramName(fn *ssa.Function, p *ssa.Parameter) string {
	for i, q := range fn.Params {
		if q == p {
			return fmt.Sprintf("%d:%s", i, p.Name())
		}
	}
	return p.Name()
}

// singleStore returns the only value stored into cell (a local variable that
// was spilled to memory because a closure captures it), or nil.
func singleStore(cell *ssa.Alloc) ssa.Value {
	refs := cell.Referrers()
	if refs == nil {
		return nil
	}
	var val ssa.Value
	n := 0
	for _, r := range *refs {
		if st, ok := r.(*ssa.Store); ok && st.Addr == cell {
			val = st.Val
			n++
		}
		// a closure capturing the cell may assign it
		if mc, ok := r.(*ssa.MakeClosure); ok {
			cf := mc.Fn.(*ssa.Function)
			for i, b := range mc.Bindings {
				if b == ssa.Value(cell) && i < len(cf.FreeVars) {
					if freeVarAssigned(cf, cf.FreeVars[i], 0) {
						return nil
					}
				}
			}
		}
		// partial writes through field/element addresses make the content unknown
		switch a := r.(type) {
		case *ssa.FieldAddr:
			for _, r2 := range nonDebugRefs(a) {
				if st, ok := r2.(*ssa.Store); ok && st.Addr == a {
					return nil
				}
			}
		case *ssa.IndexAddr:
			for _, r2 := range nonDebugRefs(a) {
				if st, ok := r2.(*ssa.Store); ok && st.Addr == a {
					return nil
				}
			}
		}
	}
	if n == 1 {
		return val
	}
	return nil
}

// Of computes the term of v.
func (tb *Terms) Of(v ssa.Value) *Term { return tb.of(v, 0) }

func (tb *Terms) of(v ssa.Value, d int) *Term {
	if v == nil {
		return &Term{Op: "Opaque", Name: "nil"}
	}
	if d > 12 {
		return &Term{Op: "Opaque", Name: "deep:" + v.Name(), V: v}
	}
	if tb.env != nil {
		switch v.(type) {
		case *ssa.Parameter, *ssa.Call, *ssa.Extract:
			if r := tb.env(v); r != nil && r != v {
				return tb.of(r, d+1)
			}
		}
	}
	switch x := v.(type) {
	case *ssa.Parameter:
		return &Term{Op: "Param", Name: paramName(x.Parent(), x), V: v}
	case *ssa.FreeVar:
		// resolve through the closure creation site: the free variable is the binding
		fn := x.Parent()
		if mc := tb.p.ClosureSite(fn); mc != nil {
			for i, fv := range fn.FreeVars {
				if fv == x && i < len(mc.Bindings) {
					return tb.of(mc.Bindings[i], d+1)
				}
			}
		}
		return &Term{Op: "FreeVar", Name: x.Name(), V: v}
	case *ssa.Const:
		if x.IsNil() {
			return &Term{Op: "Const", Name: "nil", V: v}
		}
		if x.Value == nil {
			return &Term{Op: "Const", Name: "zero:" + types.TypeString(x.Type(), shortQual), V: v}
		}
		return &Term{Op: "Const", Name: x.Value.ExactString(), V: v}
	case *ssa.Global:
		return &Term{Op: "Global", Name: x.Pkg.Pkg.Name() + "." + x.Name(), V: v}
	case *ssa.Function:
		return &Term{Op: "Func", Name: funcShort(x), V: v}
	case *ssa.MakeClosure:
		return &Term{Op: "Closure", Name: funcShort(x.Fn.(*ssa.Function)), V: v}
	case *ssa.Alloc:
		if sv := singleStore(x); sv != nil {
			// &cell of a captured variable: describe by content
			return &Term{Op: "Cell", Args: []*Term{tb.of(sv, d+1)}, V: v}
		}
		n, ok := tb.allocN[x]
		if !ok {
			n = len(tb.allocN)
			tb.allocN[x] = n
		}
		return &Term{Op: "Alloc", Name: fmt.Sprintf("%s#%d", types.TypeString(x.Type().Underlying().(*types.Pointer).Elem(), shortQual), n), V: v}
	case *ssa.FieldAddr:
		st := x.X.Type().Underlying().(*types.Pointer).Elem().Underlying().(*types.Struct)
		return &Term{Op: "FieldAddr", Name: st.Field(x.Field).Name(), Args: []*Term{tb.of(x.X, d+1)}, V: v}
	case *ssa.Field:
		st := x.X.Type().Underlying().(*types.Struct)
		return &Term{Op: "Field", Name: st.Field(x.Field).Name(), Args: []*Term{tb.of(x.X, d+1)}, V: v}
	case *ssa.IndexAddr:
		return &Term{Op: "IndexAddr", Args: []*Term{tb.of(x.X, d+1), tb.of(x.Index, d+1)}, V: v}
	case *ssa.Index:
		return &Term{Op: "Index", Args: []*Term{tb.of(x.X, d+1), tb.of(x.Index, d+1)}, V: v}
	case *ssa.Lookup:
		return &Term{Op: "Lookup", Args: []*Term{tb.of(x.X, d+1), tb.of(x.Index, d+1)}, V: v}
	case *ssa.UnOp:
		if x.Op == token.MUL {
			// a package-level variable that only caches reflect.TypeOf(<literal>) — set once in the package
			// initialiser, never written or address-taken anywhere else — reads as that call
			if g, ok := x.X.(*ssa.Global); ok {
				if sv := initTypeOf(g); sv != nil {
					return tb.of(sv, d+1)
				}
			}
			if cell, ok := x.X.(*ssa.Alloc); ok && singleStore(cell) == nil {
				if fv := forwardedStore(x, cell); fv != nil {
					return tb.of(fv, d+1)
				}
			}
			a := tb.of(x.X, d+1)
			switch a.Op {
			case "FieldAddr":
				return &Term{Op: "Field", Name: a.Name, Args: []*Term{uncell(a.Args[0])}, V: v}
			case "IndexAddr":
				return &Term{Op: "Index", Args: a.Args, V: v}
			case "Cell":
				return a.Args[0]
			}
			return &Term{Op: "Load", Args: []*Term{a}, V: v}
		}
		if x.Op == token.ARROW {
			return &Term{Op: "Recv", Args: []*Term{tb.of(x.X, d+1)}, V: v}
		}
		return &Term{Op: "Un", Name: x.Op.String(), Args: []*Term{tb.of(x.X, d+1)}, V: v}
	case *ssa.BinOp:
		return &Term{Op: "Bin", Name: x.Op.String(), Args: []*Term{tb.of(x.X, d+1), tb.of(x.Y, d+1)}, V: v}
	case *ssa.Extract:
		t := tb.of(x.Tuple, d+1)
		return &Term{Op: "Extract", Name: fmt.Sprint(x.Index), Args: []*Term{t}, V: v}
	case *ssa.Call:
		t := &Term{Op: "Call", Name: calleeName(&x.Call), V: v}
		if x.Call.IsInvoke() {
			t.Args = append(t.Args, tb.of(x.Call.Value, d+1))
		} else if _, ok := x.Call.Value.(*ssa.Function); !ok {
			if _, ok := x.Call.Value.(*ssa.Builtin); !ok && !isSeamCall(&x.Call) {
				t.Args = append(t.Args, tb.of(x.Call.Value, d+1))
			}
		}
		if sc, ok := x.Call.Value.(*ssa.Function); ok && clockHelper(sc) {
			return t // the node's clock: time.Now() unless a test substituted it
		}
		for _, a := range x.Call.Args {
			t.Args = append(t.Args, tb.of(a, d+1))
		}
		return t
	case *ssa.Phi:
		if tb.env != nil {
			if r := tb.env(x); r != nil {
				return tb.of(r, d+1)
			}
		}
		var as []*Term
		seen := map[string]bool{}
		for _, e := range x.Edges {
			if e == x {
				continue
			}
			t := tb.of(e, d+4)
			if !seen[t.String()] {
				seen[t.String()] = true
				as = append(as, t)
			}
		}
		sort.Slice(as, func(i, j int) bool { return as[i].String() < as[j].String() })
		if len(as) == 1 {
			return as[0]
		}
		return &Term{Op: "Phi", Args: as, V: v}
	case *ssa.MakeInterface:
		return tb.of(x.X, d)
	case *ssa.ChangeInterface:
		return tb.of(x.X, d)
	case *ssa.ChangeType:
		return tb.of(x.X, d)
	case *ssa.Convert:
		return &Term{Op: "Conv", Name: types.TypeString(x.Type(), shortQual), Args: []*Term{tb.of(x.X, d+1)}, V: v}
	case *ssa.TypeAssert:
		return &Term{Op: "Assert", Name: types.TypeString(x.AssertedType, shortQual), Args: []*Term{tb.of(x.X, d+1)}, V: v}
	case *ssa.MakeMap:
		return &Term{Op: "Make", Name: "map", V: v}
	case *ssa.MakeSlice:
		return &Term{Op: "Make", Name: "slice", V: v}
	case *ssa.MakeChan:
		return &Term{Op: "Make", Name: "chan", V: v}
	case *ssa.Slice:
		if al, ok := x.X.(*ssa.Alloc); ok && (al.Comment == "varargs" || al.Comment == "slicelit") {
			// a variadic argument array or slice literal: describe it by the values stored in it
			t := &Term{Op: "Varargs", V: v}
			if al.Comment == "slicelit" {
				t.Op = "SliceLit"
			}
			if refs := al.Referrers(); refs != nil {
				for _, ref := range *refs {
					if ia, ok := ref.(*ssa.IndexAddr); ok && ia.Referrers() != nil {
						for _, r2 := range *ia.Referrers() {
							if st, ok := r2.(*ssa.Store); ok && st.Addr == ia {
								t.Args = append(t.Args, tb.of(st.Val, d+1))
							}
						}
					}
				}
			}
			return t
		}
		return &Term{Op: "Slice", Args: []*Term{tb.of(x.X, d+1)}, V: v}
	case *ssa.Range:
		return &Term{Op: "Range", Args: []*Term{tb.of(x.X, d+1)}, V: v}
	case *ssa.Next:
		return &Term{Op: "Next", Args: []*Term{tb.of(x.Iter, d+1)}, V: v}
	case *ssa.Select:
		return &Term{Op: "Select", V: v}
	case *ssa.Builtin:
		return &Term{Op: "Func", Name: "builtin " + x.Name(), V: v}
	}
	return &Term{Op: "Opaque", Name: fmt.Sprintf("%T:%s", v, v.Name()), V: v}
}

func isAggregate(a *ssa.Alloc) bool {
	switch a.Type().Underlying().(*types.Pointer).Elem().Underlying().(type) {
	case *types.Struct, *types.Array:
		return true
	}
	return false
}

func shortQual(p *types.Package) string { return p.Name() }

// ---- small SSA helpers ----

func isNilConst(v ssa.Value) bool {
	c, ok := v.(*ssa.Const)
	return ok && c.IsNil()
}

func constString(v ssa.Value) (string, bool) {
	c, ok := stripConv(v).(*ssa.Const)
	if !ok || c.Value == nil || c.Value.Kind() != constant.String {
		return "", false
	}
	return constant.StringVal(c.Value), true
}

func constInt(v ssa.Value) (int64, bool) {
	c, ok := stripConv(v).(*ssa.Const)
	if !ok || c.Value == nil || c.Value.Kind() != constant.Int {
		return 0, false
	}
	return c.Int64(), true
}

func constBool(v ssa.Value) (bool, bool) {
	c, ok := v.(*ssa.Const)
	if !ok || c.Value == nil || c.Value.Kind() != constant.Bool {
		return false, false
	}
	return constant.BoolVal(c.Value), true
}

// stripConv looks through representation-preserving conversions.
func stripConv(v ssa.Value) ssa.Value {
	for {
		switch x := v.(type) {
		case *ssa.MakeInterface:
			v = x.X
		case *ssa.ChangeInterface:
			v = x.X
		case *ssa.ChangeType:
			v = x.X
		default:
			return v
		}
	}
}

// blocksReaching returns the set of blocks from which target is reachable (incl. target).
func blocksReaching(target *ssa.BasicBlock) map[*ssa.BasicBlock]bool {
	out := map[*ssa.BasicBlock]bool{target: true}
	work := []*ssa.BasicBlock{target}
	for len(work) > 0 {
		b := work[len(work)-1]
		work = work[:len(work)-1]
		for _, p := range b.Preds {
			if !out[p] {
				out[p] = true
				work = append(work, p)
			}
		}
	}
	return out
}

// reachableFrom returns blocks reachable from start (incl. start).
func reachableFrom(start *ssa.BasicBlock) map[*ssa.BasicBlock]bool {
	out := map[*ssa.BasicBlock]bool{start: true}
	work := []*ssa.BasicBlock{start}
	for len(work) > 0 {
		b := work[len(work)-1]
		work = work[:len(work)-1]
		for _, s := range b.Succs {
			if !out[s] {
				out[s] = true
				work = append(work, s)
			}
		}
	}
	return out
}

// instrIndex returns the index of in within its block.
func instrIndex(in ssa.Instruction) int {
	for i, x := range in.Block().Instrs {
		if x == in {
			return i
		}
	}
	return -1
}

// dominatesInstr: a is executed before b on every path from entry to b.
func dominatesInstr(a, b ssa.Instruction) bool {
	if a.Block() == b.Block() {
		return instrIndex(a) < instrIndex(b)
	}
	return a.Block().Dominates(b.Block())
}

// eachInstr calls f for each instruction of fn.
func eachInstr(fn *ssa.Function, f func(in ssa.Instruction)) {
	for _, b := range fn.Blocks {
		for _, in := range b.Instrs {
			f(in)
		}
	}
}

// callsTo lists the call instructions of fn (incl. go/defer) whose callee name matches.
func callsTo(fn *ssa.Function, match func(name string, cc *ssa.CallCommon) bool) []ssa.CallInstruction {
	var out []ssa.CallInstruction
	eachInstr(fn, func(in ssa.Instruction) {
		if ci, ok := in.(ssa.CallInstruction); ok {
			if match(calleeName(ci.Common()), ci.Common()) {
				out = append(out, ci)
			}
		}
	})
	return out
}

// inCycle reports whether block b lies on a CFG cycle.
func inCycle(b *ssa.BasicBlock) bool {
	for _, s := range b.Succs {
		if reachableFrom(s)[b] {
			return true
		}
	}
	return false
}

// condEdge: if blk ends in an If, returns (cond, trueSucc, falseSucc).
func condOf(b *ssa.BasicBlock) (ssa.Value, *ssa.BasicBlock, *ssa.BasicBlock) {
	if len(b.Instrs) == 0 {
		return nil, nil, nil
	}
	if i, ok := b.Instrs[len(b.Instrs)-1].(*ssa.If); ok {
		return i.Cond, b.Succs[0], b.Succs[1]
	}
	return nil, nil, nil
}

// edgeDominates: every path from entry to target passes through the CFG edge
// from -> to.
func edgeDominates(from, to, target *ssa.BasicBlock) bool {
	if !to.Dominates(target) && to != target {
		return false
	}
	// to must be entered only through from (otherwise the edge is not a dominator)
	for _, p := range to.Preds {
		if p != from {
			// another way into 'to': acceptable only if that predecessor is itself dominated by 'to' (loop back edge)
			if !to.Dominates(p) {
				return false
			}
		}
	}
	return true
}

// RetVals resolves the operands of a return. In functions with defer, go/ssa
// spills results into local cells, runs the defers and reloads them; the value
// returned is then the last store into the cell before the reload in the same
// block (unnamed results cannot be changed by deferred calls).
func RetVals(ret *ssa.Return) []ssa.Value {
	out := make([]ssa.Value, len(ret.Results))
	for i, rv := range ret.Results {
		out[i] = rv
		ld, ok := rv.(*ssa.UnOp)
		if !ok || ld.Op != token.MUL {
			continue
		}
		cell, ok := ld.X.(*ssa.Alloc)
		if !ok || ld.Block() != ret.Block() {
			continue
		}
		instrs := ret.Block().Instrs
		for j := instrIndex(ld) - 1; j >= 0; j-- {
			if st, ok := instrs[j].(*ssa.Store); ok && st.Addr == cell {
				out[i] = st.Val
				break
			}
		}
	}
	return out
}

// Returns lists the return instructions of fn.
func Returns(fn *ssa.Function) []*ssa.Return {
	var out []*ssa.Return
	eachInstr(fn, func(in ssa.Instruction) {
		if r, ok := in.(*ssa.Return); ok && in.Block() != fn.Recover {
			out = append(out, r)
		}
	})
	return out
}

// freeVarAssigned: the closure (or a closure nested in it) stores into the
// captured variable fv.
func freeVarAssigned(fn *ssa.Function, fv *ssa.FreeVar, depth int) bool {
	if depth > 3 {
		return true
	}
	for _, r := range nonDebugRefs(fv) {
		switch u := r.(type) {
		case *ssa.Store:
			if u.Addr == ssa.Value(fv) {
				return true
			}
		case *ssa.MakeClosure:
			cf := u.Fn.(*ssa.Function)
			for i, b := range u.Bindings {
				if b == ssa.Value(fv) && i < len(cf.FreeVars) && freeVarAssigned(cf, cf.FreeVars[i], depth+1) {
					return true
				}
			}
		case *ssa.FieldAddr, *ssa.IndexAddr:
			for _, r2 := range nonDebugRefs(u.(ssa.Value)) {
				switch w := r2.(type) {
				case *ssa.Store:
					if w.Addr == u.(ssa.Value) {
						return true
					}
				case *ssa.UnOp:
				default:
					return true // address escapes further: conservative
				}
			}
		}
	}
	return false
}

// cellCaptured: the local variable cell is captured by some closure.
func cellCaptured(cell *ssa.Alloc) bool {
	for _, r := range nonDebugRefs(cell) {
		if _, ok := r.(*ssa.MakeClosure); ok {
			return true
		}
	}
	return false
}

// forwardedStore: the value a load of cell observes when an earlier store to
// the same cell in the same block reaches it (no intervening store; no
// intervening call if the cell is captured by a closure).
func forwardedStore(ld *ssa.UnOp, cell *ssa.Alloc) ssa.Value {
	instrs := ld.Block().Instrs
	captured := cellCaptured(cell)
	for j := instrIndex(ld) - 1; j >= 0; j-- {
		switch x := instrs[j].(type) {
		case *ssa.Store:
			if x.Addr == ssa.Value(cell) {
				return x.Val
			}
		case ssa.CallInstruction:
			if captured {
				return nil
			}
			_ = x
		}
	}
	return nil
}

// ContainsValue: some subterm of t was built from the SSA value v.
func (t *Term) ContainsValue(v ssa.Value) bool {
	return t.Find(func(x *Term) bool { return x.V == v }) != nil
}

var initTypeOfCache = map[*ssa.Global]ssa.Value{}

// initTypeOf returns the reflect.TypeOf(..) call stored into g by its package's initialiser when that is the only
// use of g other than loads, and nil otherwise.
func initTypeOf(g *ssa.Global) ssa.Value {
	if v, ok := initTypeOfCache[g]; ok {
		return v
	}
	initTypeOfCache[g] = nil
	if g.Pkg == nil {
		return nil
	}
	var stored ssa.Value
	nStores, other := 0, false
	var visit func(f *ssa.Function)
	visit = func(f *ssa.Function) {
		for _, b := range f.Blocks {
			for _, in := range b.Instrs {
				for _, op := range in.Operands(nil) {
					if op == nil || *op != ssa.Value(g) {
						continue
					}
					switch x := in.(type) {
					case *ssa.Store:
						if x.Addr == ssa.Value(g) && f.Name() == "init" && f.Synthetic != "" {
							nStores++
							stored = x.Val
						} else {
							other = true
						}
					case *ssa.UnOp:
						if x.Op != token.MUL {
							other = true
						}
					default:
						other = true
					}
				}
			}
		}
		for _, a := range f.AnonFuncs {
			visit(a)
		}
	}
	for _, m := range g.Pkg.Members {
		switch x := m.(type) {
		case *ssa.Function:
			visit(x)
		case *ssa.Type:
			for _, t := range []types.Type{x.Type(), types.NewPointer(x.Type())} {
				ms := g.Pkg.Prog.MethodSets.MethodSet(t)
				for i := 0; i < ms.Len(); i++ {
					if fn := g.Pkg.Prog.MethodValue(ms.At(i)); fn != nil && fn.Pkg == g.Pkg {
						visit(fn)
					}
				}
			}
		}
	}
	if other || nStores != 1 {
		return nil
	}
	if mi, ok := stored.(*ssa.MakeInterface); ok {
		stored = mi.X
	}
	call, ok := stored.(*ssa.Call)
	if !ok || call.Call.StaticCallee() == nil || call.Call.StaticCallee().String() != "reflect.TypeOf" {
		return nil
	}
	initTypeOfCache[g] = call
	return call
}

var clockHelperMemo = map[*ssa.Function]bool{}

// clockHelper: a method of package eventlogger without parameters that returns the current time —
// every return is time.Now() or the result of calling a func-typed field of the receiver (a clock a
// test can substitute, as gated.Filter.NowFunc): func (fs *FileSink) now() time.Time.
func clockHelper(fn *ssa.Function) bool {
	if v, ok := clockHelperMemo[fn]; ok {
		return v
	}
	res := func() bool {
		if fn == nil || fn.Blocks == nil || fn.Pkg == nil || fn.Pkg.Pkg.Path() != PkgRoot || fn.Signature.Recv() == nil || len(fn.Params) != 1 {
			return false
		}
		if fn.Signature.Results().Len() != 1 || fn.Signature.Results().At(0).Type().String() != "time.Time" {
			return false
		}
		n := 0
		for _, ret := range Returns(fn) {
			rv := RetVals(ret)
			if len(rv) != 1 {
				return false
			}
			call, ok := rv[0].(*ssa.Call)
			if !ok {
				return false
			}
			if f, isF := call.Call.Value.(*ssa.Function); isF && f.String() == "time.Now" {
				n++
				continue
			}
			ld, isLd := call.Call.Value.(*ssa.UnOp)
			if !isLd || ld.Op != token.MUL {
				return false
			}
			fa, isFA := ld.X.(*ssa.FieldAddr)
			if !isFA || fa.X != ssa.Value(fn.Params[0]) {
				return false
			}
			n++
		}
		return n > 0
	}()
	clockHelperMemo[fn] = res
	return res
}
