package check

import (
	"fmt"
	"go/token"
	"go/types"
	"sort"
	"strings"

	"golang.org/x/tools/go/ssa"
)

func init() {
	Register("C09", runC09)
	Register("C10", runC10)
	Register("C16", runC16)
}

// processImpls: every (*T).Process of a type implementing eventlogger.Node.
func (c *Ctx) processImpls() []*ssa.Function {
	p := c.P
	nodeT := p.Named(PkgRoot, "Node")
	var out []*ssa.Function
	for _, f := range p.RepoFuncs() {
		if f.Name() != "Process" || f.Signature.Recv() == nil || f.Parent() != nil {
			continue
		}
		if nodeT != nil && types.Implements(f.Signature.Recv().Type(), nodeT.Underlying().(*types.Interface)) {
			out = append(out, f)
		}
	}
	return out
}

// encryptReach: functions of package encrypt reachable from Filter.Process
// through static calls (incl. closures).
func (c *Ctx) encryptReach() []*ssa.Function {
	p := c.P
	root := p.Method(PkgEncrypt, "Filter", "Process")
	seen := map[*ssa.Function]bool{}
	var order []*ssa.Function
	var walk func(f *ssa.Function)
	walk = func(f *ssa.Function) {
		if f == nil || seen[f] || f.Blocks == nil || PkgPathOf(f) != PkgEncrypt {
			return
		}
		seen[f] = true
		order = append(order, f)
		eachInstr(f, func(in ssa.Instruction) {
			switch x := in.(type) {
			case ssa.CallInstruction:
				if sc := x.Common().StaticCallee(); sc != nil {
					walk(sc)
				}
			case *ssa.MakeClosure:
				walk(x.Fn.(*ssa.Function))
			}
		})
	}
	walk(root)
	sort.Slice(order, func(i, j int) bool { return p.ShortFn(order[i]) < p.ShortFn(order[j]) })
	return order
}

var encryptErrExceptions = []ErrException{
	{Fn: "(*filters/encrypt.Filter).filterTaggable", Callee: "github.com/mitchellh/pointerstructure.Get",
		Reason: "a tag pointer that resolves to nothing in this payload (pointerstructure.ErrNotFound) means there is no value to filter; the loop continues; every other error is returned (checked by hand: errors.Is(err, ErrNotFound) is the only continue)"},
	{Fn: "(*filters/encrypt.Filter).filterField", Callee: "(*filters/encrypt.trackedMaps).trackMap",
		Reason: "slice-element site: the value's kind was just established to be Map (or pointer to map), for which trackMap cannot fail; the map-field site in the same function does check the error"},
	{Fn: "(*filters/encrypt.trackedMaps).processUnfiltered", Callee: "(*filters/encrypt.trackedMaps).trackMap",
		Reason: "the value's kind was just established to be Map, for which trackMap cannot fail"},
	{Fn: "(*filters/encrypt.Filter).hmacSha256", Callee: "invoke hash.Hash.Write",
		Reason: "hash.Hash.Write never returns an error (documented contract of package hash)"},
}

func runC09(c *Ctx) {
	p, r := c.P, c.R
	r.Explanation = "Decides the fail-closed and secure-default clauses structurally: every return of every Node.Process implementation of the repository carries a nil event or a nil error (never both non-nil); inside the encrypt walk no fallible call's error is dropped and each is returned (itself or wrapped) on every path of its error branch, so it reaches Process's error result; rotation payloads are consumed; DefaultFilterOperations is the literal table {public: none, sensitive: encrypt, secret: redact}, a missing tag yields (unknown, unknown) and convertToOperation is the identity on the declared constants; the full decision table of filterValue over classification x operation (no mutation iff public or none; secret/sensitive -> encrypt | hmac | redact per operation, anything else an error; every other classification redacted) including which early exits skip protection; NoOperation never survives for sensitive/secret unless it came from the override map; the handler inventory of the three reflective dispatchers; and that struct values handed to the field walk are settable or replaced by an addressable copy. It does not decide that the reflective walk reaches every string of every payload shape (reflection is opaque), nor cryptographic secrecy. C09.tagpair: every on-the-spot classification is computed from the tag that belongs to the very value being filtered (field i / the same PointerTag, in classification,operation order; write-back pointer and tracking entry agree; bare payloads are secret). C09.skip: closed vocabulary of skip conditions in the walkers; C09.mark: keys are marked filtered only in the map that directly holds the value; a payload that is itself a map is tracked for the final sweep. C09.shortcut: the untouched early return is taken only if every class's effective operation is none. C09.nilelem: no reflect.Value method that panics on the zero Value is reachable from an Elem() without a validity test (nil elements and fields are skipped, not a crash). C09.mark key-unescaped: tracking and pointerstructure agree on the key a pointer names. C09.defaults snapshot/option verbatim: operation overrides reach the tag decision exactly as configured. C09.every: element walkers leave a handling loop early only with an error. C09.handlers taggable-field-unconditional: a Taggable field's tags are applied whatever options the walk got (F52); C09.nilelem covers MapIndex results (F51). C09.handlers taggable-then-generic: after filterTaggable a trackMap and a filterField call stay reachable within the same iteration. C09.recover: recover discipline over package encrypt. C09.mark skip-identity: the name the sweep looks a key up under is derived from the key's typed accessors only. C09.handlers struct-arm-unconditional and C09.kind struct-kind (F56). C09.elements whole-range: every reflect Index(i) in package encrypt sits in a loop from 0, step 1, to Len() of the indexed value; partitioned loops are reported as not decided."
	r.NotDecided = []string{"completeness of the reflective walk over all payload shapes (arm priority, pointer depth, arrays, shapes falling into the 'nothing reasonable yet' defaults)", "cryptographic secrecy of the wrapper"}
	c.errControls()

	// --- C09.closed
	impls := c.processImpls()
	for _, f := range impls {
		c.eNilRule("C09.closed", f, false)
	}
	if len(impls) < 9 {
		r.Und("C09.closed", "instance-floor", "", fmt.Sprintf("%d Process implementations found, 9 confirmed by hand", len(impls)))
	}

	// --- C09.prop
	reach := c.encryptReach()
	nFallible := 0
	for _, f := range reach {
		nFallible += c.errorFlowRule("C09.prop", f, encryptErrExceptions, false)
		c.errorCarriedOnPaths("C09.prop", f, encryptErrExceptions)
	}
	if nFallible < 40 {
		r.Und("C09.prop", "instance-floor", "", fmt.Sprintf("only %d fallible call sites in the walk, >= 40 confirmed by hand", nFallible))
	}
	// the hand-confirmed exceptions must still have the shape they were confirmed with
	c.checkTrackMapExceptions()

	proc := c.Fn("C09.anchor", PkgEncrypt, "Filter", "Process")
	if proc == nil {
		return
	}
	paths := c.enum("C09.process", proc, PathOpts{})

	// --- C09.shortcut: the untouched early return is taken only when every effective operation is none
	c.ruleShortcut(proc)
	c.ruleEveryElement("C09.every")
	c.ruleSweepUnknown("C09.value")
	c.rulePointerKindGuard("C09.nilelem")
	c.ruleStructKindGuard("C09.kind")
	c.ruleElementLoops("C09.elements")
	c.ruleStructArmRecurses("C09.handlers")
	c.ruleTaggableTrackIdentity("C09.mark")
	c.ruleSkipIdentity("C09.mark")
	c.ruleTaggableFieldAlways("C09.handlers")
	c.ruleTaggableThenGeneric("C09.handlers")
	c.ruleRecoverResults("C09.recover", []string{PkgEncrypt}, false)

	// --- C09.rotate
	nRot := 0
	for _, pa := range paths {
		rv := pa.RetVals()
		if rv == nil {
			continue
		}
		if pol, found := hasAtom(pa, func(at Atom) bool {
			return at.Op == "true" && at.L.Op == "Extract" && at.L.Name == "1" && at.L.Args[0].Is("Assert", "encrypt.RotateWrapper")
		}); found && pol {
			nRot++
			r.Check(isNilConst(rv[0]), "C09.rotate", "Process:rotate-payload", p.InstrPos(pa.End), "a rotation payload is consumed: nil event", "a key-rotation payload is forwarded down the pipeline")
		}
	}
	if nRot == 0 {
		r.Und("C09.rotate", "Process:rotate-payload", p.Pos(proc.Pos()), "no path asserts the payload to RotateWrapper")
	}
	// ... and the converse: no event is forwarded on a path that did not first rule out a rotation
	// payload (an early "nothing to filter" return before the test forwards the key material)
	okFirst := true
	for _, pa := range paths {
		rv := pa.RetVals()
		if rv == nil || isNilConst(rv[0]) {
			continue
		}
		if nilP, f := hasAtom(pa, func(at Atom) bool {
			return at.Op == "eq" && at.L.Is("Field", "Payload") && at.L.Args[0].IsParam("2:e") && at.R.Is("Const", "nil")
		}); f && nilP {
			continue // a nil payload is no rotation payload
		}
		if _, found := hasAtom(pa, func(at Atom) bool {
			return at.Op == "true" && at.L.Op == "Extract" && at.L.Name == "1" && at.L.Args[0].Is("Assert", "encrypt.RotateWrapper")
		}); !found && okFirst {
			okFirst = false
			r.Bad("C09.rotate", "Process:forward-before-rotation-test", p.InstrPos(pa.End), "an event is forwarded on a path that never tested whether its payload is a rotation payload: with every operation overridden to none a key-rotation payload (wrapper included) travels down the pipeline and the rotation is not applied ("+p.PathSummary(pa)+")")
		}
	}
	if okFirst {
		r.Ok("C09.rotate", "Process:forward-before-rotation-test", p.Pos(proc.Pos()), "every forwarding return comes after the rotation-payload test")
	}

	c.ruleClassifySource()
	c.ruleTagPair()
	c.ruleDefaults()
	c.ruleOverrideVerbatim("C09.defaults")
	c.ruleFilterValueTable()
	c.ruleNoPass()
	c.ruleHandlers()
	c.ruleSkip()
	c.ruleMarkFiltered("C09.mark")
	c.ruleIgnoreIdentity()
	c.ruleNilElem("C09.nilelem")
	c.ruleSweepStoresFiltered("C09.value")
	c.ruleSweepTaggable("C09.handlers")
	c.ruleSweepNestedSet("C09.handlers")
	c.ruleOptionAliasing()
	c.ruleSettable()

	// processUnfiltered runs before every successful return of a filtered copy
	nOK := 0
	for _, pa := range paths {
		rv := pa.RetVals()
		if rv == nil || isNilConst(rv[0]) {
			continue
		}
		t := pa.TermsAt(pa.LastStep()).Of(rv[0])
		if t.IsParam("2:e") {
			continue // early returns of the untouched original (C10.early)
		}
		// returns of the copy: either the ignore shortcut or after processUnfiltered
		swept, ignored := false, false
		for _, s := range pa.CallsOn() {
			switch stepCallName(s) {
			case "(*filters/encrypt.trackedMaps).processUnfiltered":
				swept = true
			}
		}
		if pol, found := hasAtom(pa, func(at Atom) bool {
			return at.Op == "true" && at.L.Op == "Call" && at.L.Name == "(*filters/encrypt.Filter).ignore"
		}); found && pol {
			ignored = true
		}
		if !swept && !ignored {
			r.Bad("C09.handlers", "Process:sweep-before-return", p.InstrPos(pa.End), "a filtered copy is returned without the final sweep of tracked maps (untagged map values would leak)")
		} else {
			nOK++
		}
		// a payload established to be a map must itself have been tracked before the sweep
		kMapS := fmt.Sprint(c.reflectKind("Map"))
		if isMap, found := hasAtom(pa, func(at Atom) bool {
			return at.Op == "eq" && at.L.Is("Call", "(reflect.Value).Kind") && at.R.Is("Const", kMapS) && !strings.Contains(at.L.String(), "(reflect.Value).Index")
		}); found && isMap && !ignored {
			tracked := false
			for _, s := range pa.CallsOn() {
				switch stepCallName(s) {
				case "(*filters/encrypt.trackedMaps).trackMap":
					if s.Depth == 0 {
						tracked = true
					}
				}
			}
			r.Check(tracked, "C09.handlers", "Process:map-payload-tracked", p.InstrPos(pa.End), "a payload that is a map is tracked for the final sweep", "a payload established to be a map (for example a Taggable map none of whose tags matches a key) is forwarded without ever being tracked: the sweep has nothing to visit and every value of the map leaves in plaintext")
		}
	}
	// a payload that is a map but NOT Taggable has its own arm: some successful path established
	// both facts and tracked the payload
	plainMap := false
	kMapS2 := fmt.Sprint(c.reflectKind("Map"))
	for _, pa := range paths {
		rv := pa.RetVals()
		if rv == nil || isNilConst(rv[0]) || !isNilConst(rv[1]) {
			continue
		}
		tg, f1 := hasAtom(pa, func(at Atom) bool {
			return at.Op == "true" && at.L.Op == "Extract" && at.L.Name == "1" && at.L.Args[0].Is("Assert", "encrypt.Taggable") && !strings.Contains(at.L.String(), "(reflect.Value).Index")
		})
		mp, f2 := hasAtom(pa, func(at Atom) bool {
			return at.Op == "eq" && at.L.Is("Call", "(reflect.Value).Kind") && at.R.Is("Const", kMapS2) && !strings.Contains(at.L.String(), "(reflect.Value).Index")
		})
		if !(f1 && !tg && f2 && mp) {
			continue
		}
		for _, s := range pa.CallsOn() {
			if stepCallName(s) == "(*filters/encrypt.trackedMaps).trackMap" && s.Depth == 0 {
				plainMap = true
			}
		}
	}
	if ff := c.Fn("C09.handlers", PkgEncrypt, "Filter", "filterField"); ff != nil {
		c.ruleTaggableMapTracked(ff, "filterField:taggable-map-field-tracked")
		// the plain (not Taggable) map field has its own arm: some successful path
		// establishes kind == Map for the field, never hands it to filterTaggable, and tracks it
		plainField := false
		for _, pa := range c.enum("C09.handlers", ff, PathOpts{}) {
			rv := pa.RetVals()
			if rv == nil || !isNilConst(rv[len(rv)-1]) {
				continue
			}
			mp, f2 := hasAtom(pa, func(at Atom) bool {
				return at.Op == "eq" && at.L.Is("Call", "(reflect.Value).Kind") && at.R.Is("Const", kMapS2) && !strings.Contains(at.L.String(), "(reflect.Value).Index")
			})
			if !f2 || !mp {
				continue
			}
			// ... and did not require the field to be Taggable
			if tg, f1 := hasAtom(pa, func(at Atom) bool {
				return at.Op == "true" && at.L.Op == "Extract" && at.L.Name == "1" && at.L.Args[0].Is("Assert", "encrypt.Taggable") && !strings.Contains(at.L.String(), "(reflect.Value).Index")
			}); f1 && tg {
				continue
			}
			tagg, tracked := false, false
			for _, s := range pa.CallsOn() {
				switch stepCallName(s) {
				case "(*filters/encrypt.Filter).filterTaggable":
					tagg = true
				case "(*filters/encrypt.trackedMaps).trackMap":
					if s.Depth == 0 {
						tracked = true
					}
				}
			}
			if tracked && !tagg {
				plainField = true
			}
		}
		r.Check(plainField, "C09.handlers", "filterField:plain-map-field", p.Pos(ff.Pos()), "a struct field that is a map and not Taggable is tracked for the final sweep", "no successful path of filterField establishes 'field is a map' without the Taggable arm and tracks it: an untagged map field (map[string]interface{}, map[string]string) would be forwarded with every value in plaintext")
	}
	r.Check(plainMap, "C09.handlers", "Process:plain-map-payload", p.Pos(proc.Pos()), "a payload that is a map and not Taggable is tracked for the final sweep", "no successful path of Process establishes 'payload is a map, not Taggable' and tracks it: an untagged map payload (map[string]interface{}, map[string]string) would be forwarded with every value in plaintext")
	r.Check(nOK > 0, "C09.handlers", "Process:sweep-before-return", p.Pos(proc.Pos()), "every successful return of a filtered copy is preceded by processUnfiltered (or the IgnoreTypes shortcut)", "no successful filtered return found")
}

// checkTrackMapExceptions: the two exempted trackMap call sites are the ones
// dominated by a kind == Map test.
func (c *Ctx) checkTrackMapExceptions() {
	p, r := c.P, c.R
	mapKind := c.reflectKind("Map")
	for _, name := range []string{"filterField", "processUnfiltered"} {
		var f *ssa.Function
		if name == "filterField" {
			f = p.Method(PkgEncrypt, "Filter", name)
		} else {
			f = p.Method(PkgEncrypt, "trackedMaps", name)
		}
		if f == nil {
			continue
		}
		for _, ci := range callsTo(f, func(n string, cc *ssa.CallCommon) bool { return n == "(*filters/encrypt.trackedMaps).trackMap" }) {
			call, ok := ci.(*ssa.Call)
			if !ok {
				continue
			}
			// only sites whose result is unused are covered by the exception
			if len(nonDebugRefs(call)) > 0 {
				r.Ok("C09.prop", p.ShortFn(f)+":trackMap-checked", p.InstrPos(ci), "error checked")
				continue
			}
			// dominated by kind == Map
			okDom := false
			for b := call.Block(); b != nil && b.Idom() != nil; b = b.Idom() {
				cond, tsucc, _ := condOf(b.Idom())
				bo, isB := cond.(*ssa.BinOp)
				if !isB || bo.Op != token.EQL {
					continue
				}
				k, isK := constInt(bo.Y)
				if isK && k == mapKind && edgeDominates(b.Idom(), tsucc, call.Block()) {
					okDom = true
				}
			}
			r.Check(okDom, "C09.prop", p.ShortFn(f)+":trackMap-unchecked", p.InstrPos(ci), "unchecked trackMap is dominated by kind == Map (cannot fail): table exception still valid",
				"an unchecked trackMap call is no longer guarded by kind == Map: its error can be real and is dropped (untracked map values leak)")
		}
	}
}

// reflectKind returns the numeric value of reflect.<name>.
func (c *Ctx) reflectKind(name string) int64 {
	for _, pk := range c.P.SSA.AllPackages() {
		if pk.Pkg.Path() == "reflect" {
			if k := pk.Const(name); k != nil {
				return k.Value.Int64()
			}
		}
	}
	return -1
}

// ruleClassifySource: C09.classify — the classification handed to every value
// operation is computed for THIS call from the tag and the overrides in force
// for this event (or is the literal unknown classification); it is never taken
// from state that outlives the event (a field, a global, a cache).
func (c *Ctx) ruleClassifySource() {
	p, r := c.P, c.R
	const rule = "C09.classify"
	n := 0
	for _, f := range c.encryptReach() {
		tb := p.NewTerms(nil)
		eachInstr(f, func(in ssa.Instruction) {
			ci, ok := in.(ssa.CallInstruction)
			if !ok {
				return
			}
			name := calleeName(ci.Common())
			var arg ssa.Value
			switch name {
			case "(*filters/encrypt.Filter).filterValue":
				arg = ci.Common().Args[3]
			case "(*filters/encrypt.Filter).filterSlice":
				arg = ci.Common().Args[2]
			default:
				return
			}
			n++
			r.CallSites++
			construct := p.ShortFn(f) + "->" + name[strings.LastIndex(name, ".")+1:]
			t := tb.Of(arg)
			ok, why := classificationFresh(t, f)
			r.Check(ok, rule, construct, p.InstrPos(in), "classification computed for this call from the tag and this event's overrides (or passed through / literal unknown)", "the classification handed to "+name+" is "+why+": overrides changed later, or the defaults, would not be applied")
		})
	}
	if n < 12 {
		r.Und(rule, "instance-floor", "", fmt.Sprintf("only %d value-operation call sites found (12 expected)", n))
	}
}

// classificationFresh: t is a call of getClassificationFromTag / getClassificationFromTagString
// whose options are withFilterOperations(<overrides parameter or this event's copy>), the
// function's own classification parameter, or a literal tagInfo.
func classificationFresh(t *Term, f *ssa.Function) (bool, string) {
	switch {
	case t.Op == "Param":
		return true, "" // handed down by the caller, which is checked at its own site
	case t.Op == "Alloc" && strings.HasPrefix(t.Name, "encrypt.tagInfo"):
		return true, "" // literal (unknown, unknown)
	case t.Op == "Call" && (t.Name == "filters/encrypt.getClassificationFromTag" || t.Name == "filters/encrypt.getClassificationFromTagString"):
		if len(t.Args) < 2 || t.Args[1].Op != "Varargs" || len(t.Args[1].Args) != 1 {
			return false, "computed without the overrides option: " + t.String()
		}
		o := t.Args[1].Args[0]
		if !(o.Op == "Call" && o.Name == "filters/encrypt.withFilterOperations" && len(o.Args) == 1) {
			return false, "computed with an option other than withFilterOperations: " + o.String()
		}
		src := o.Args[0]
		okSrc := src.Op == "Param" || (src.Op == "Call" && src.Name == "(*filters/encrypt.Filter).copyFilterOperationOverrides")
		if !okSrc {
			return false, "computed with overrides " + src.String() + " instead of this event's overrides"
		}
		return true, ""
	case t.Op == "Phi":
		for _, a := range t.Args {
			if ok, why := classificationFresh(a, f); !ok {
				return false, why
			}
		}
		return true, ""
	}
	return false, "not computed from the tag for this call (" + t.String() + ")"
}

// ruleDefaults: C09.defaults
func (c *Ctx) ruleDefaults() {
	p, r := c.P, c.R
	const rule = "C09.defaults"
	if fn := c.Fn(rule, PkgEncrypt, "", "DefaultFilterOperations"); fn != nil {
		got := map[string]string{}
		other := false
		eachInstr(fn, func(in ssa.Instruction) {
			if mu, ok := in.(*ssa.MapUpdate); ok {
				k, ok1 := constString(mu.Key)
				v, ok2 := constString(mu.Value)
				if ok1 && ok2 {
					got[k] = v
				} else {
					other = true
				}
			}
		})
		want := map[string]string{"public": "", "sensitive": "encrypt", "secret": "redact"}
		ok := !other && len(got) == len(want)
		for k, v := range want {
			if got[k] != v {
				ok = false
			}
		}
		r.Check(ok, rule, "DefaultFilterOperations", p.Pos(fn.Pos()), "literal table {public: none, sensitive: encrypt, secret: redact}", fmt.Sprintf("the default operations are %v; expected public:none, sensitive:encrypt, secret:redact", got))
	}
	if fn := c.Fn(rule, PkgEncrypt, "", "getClassificationFromTag"); fn != nil {
		okMiss := false
		for _, pa := range c.enum(rule, fn, PathOpts{}) {
			rv := pa.RetVals()
			if rv == nil {
				continue
			}
			pol, found := hasAtom(pa, func(at Atom) bool { return at.Op == "true" && at.L.Op == "Extract" && at.L.Name == "1" })
			if found && !pol {
				if al, ok := rv[0].(*ssa.Alloc); ok {
					f := litFields(pa, al, len(pa.Steps))
					cl, _ := constString(f["Classification"])
					op, _ := constString(f["Operation"])
					okMiss = cl == "unknown" && op == "unknown"
				}
				r.Check(okMiss, rule, "getClassificationFromTag:missing-tag", p.InstrPos(pa.End), "a field without class tag is (unknown, unknown): redacted by filterValue's default arm", "a field without a class tag is not classified (unknown, unknown)")
			}
		}
	}
	if fn := c.Fn(rule, PkgEncrypt, "", "convertToOperation"); fn != nil {
		seen := map[string]bool{}
		for _, pa := range c.enum(rule, fn, PathOpts{}) {
			rv := pa.RetVals()
			if rv == nil {
				continue
			}
			ret, _ := constString(rv[0])
			var pos []string
			for _, at := range pa.Atoms {
				if at.Op == "eq" && !at.Neg && at.R.Op == "Const" {
					s, _ := constString(at.R.V)
					pos = append(pos, s)
				}
			}
			r.TableRows++
			if len(pos) == 1 {
				seen[pos[0]] = true
				r.Check(ret == pos[0], rule, "convertToOperation:"+pos[0], p.InstrPos(pa.End), "maps the constant to itself", fmt.Sprintf("convertToOperation maps %q to %q", pos[0], ret))
			} else {
				r.Check(ret == "unknown", rule, "convertToOperation:default", p.InstrPos(pa.End), "everything else is unknown", fmt.Sprintf("convertToOperation maps other values to %q", ret))
			}
		}
		for _, k := range []string{"", "hmac-sha256", "encrypt", "redact"} {
			if !seen[k] {
				r.Bad(rule, "convertToOperation:"+k, p.Pos(fn.Pos()), fmt.Sprintf("operation %q is not recognised", k))
			}
		}
	}
}

// ruleFilterValueTable: C09.value
func (c *Ctx) ruleFilterValueTable() {
	p, r := c.P, c.R
	const rule = "C09.value"
	fn := c.Fn(rule, PkgEncrypt, "Filter", "filterValue")
	if fn == nil {
		return
	}
	// a small helper of the filter that filterValue hands the operation to (the operation switch extracted) is
	// followed; the cryptographic operations and the store are the observed calls and stay calls
	paths := c.enum(rule, fn, PathOpts{Inline: func(caller *ssa.Function, call *ssa.Call, callee *ssa.Function) bool {
		if PkgPathOf(callee) != PkgEncrypt || callee.Signature.Recv() == nil || len(callee.Blocks) > 16 || caller != fn {
			return false
		}
		switch funcShort(callee) {
		case "(*filters/encrypt.Filter).encrypt", "(*filters/encrypt.Filter).hmacSha256":
			return false
		}
		return true
	}})
	isClass := func(t *Term) bool { return t.Is("Field", "Classification") && t.Args[0].IsParam("3:classificationTag") }
	isOp := func(t *Term) bool { return t.Is("Field", "Operation") && t.Args[0].IsParam("3:classificationTag") }
	rows := map[string]bool{}
	skips := map[string]int{}
	for _, pa := range paths {
		rv := pa.RetVals()
		if rv == nil {
			continue
		}
		class, op := "?", "?"
		notClass, notOp := map[string]bool{}, map[string]bool{}
		for _, at := range pa.Atoms {
			if at.Op != "eq" || at.R.Op != "Const" {
				continue
			}
			s, _ := constString(at.R.V)
			if isClass(at.L) {
				if !at.Neg {
					class = s
				} else {
					notClass[s] = true
				}
			}
			if isOp(at.L) {
				if !at.Neg {
					op = s
				} else {
					notOp[s] = true
				}
			}
		}
		if class == "?" && notClass["public"] && notClass["secret"] && notClass["sensitive"] {
			class = "other"
		}
		if op == "?" && notOp["encrypt"] && notOp["hmac-sha256"] && notOp["redact"] {
			op = "other"
		}
		// what happened on the path
		var acts []string
		var data string
		for _, s := range pa.CallsOn() {
			tb := pa.TermsAt(s)
			switch stepCallName(s) {
			case "(*filters/encrypt.Filter).encrypt":
				acts = append(acts, "encrypt")
			case "(*filters/encrypt.Filter).hmacSha256":
				acts = append(acts, "hmac")
			case "filters/encrypt.setValue":
				a := tb.Of(pa.Resolve(s, s.In.(ssa.CallInstruction).Common().Args[1]))
				acts = append(acts, "set")
				data = a.String()
			case "github.com/mitchellh/pointerstructure.Set":
				a := tb.Of(pa.Resolve(s, s.In.(ssa.CallInstruction).Common().Args[2]))
				if a.Op == "Call" && strings.HasSuffix(a.Name, "structpb.NewStringValue") && len(a.Args) == 1 {
					a = a.Args[0] // a google.protobuf.Value wrapping the protected string
				}
				acts = append(acts, "set")
				data = a.String()
			}
		}
		failed := !isNilConst(rv[0])
		nilTag, _ := hasAtom(pa, func(at Atom) bool {
			return at.Op == "eq" && at.L.IsParam("3:classificationTag") && at.R.Is("Const", "nil")
		})
		if nilTag {
			if !failed || len(acts) > 0 {
				r.Bad(rule, "filterValue:nil-tag", p.InstrPos(pa.End), "a missing classification does not fail")
			}
			continue
		}
		row := "class=" + class + " op=" + op
		r.TableRows++
		mutated := false
		for _, a := range acts {
			if a == "set" {
				mutated = true
			}
		}
		switch {
		case class == "public" || op == "":
			// no mutation, nil
			rows["public-or-none"] = true
			if mutated || failed {
				r.Bad(rule, "filterValue:"+row, p.InstrPos(pa.End), "a public / no-operation value is mutated or rejected")
			}
		case failed:
			// failing is always fail-closed; but it must not have mutated before
			rows["error"] = true
			if mutated {
				// a set followed by an error is still closed (Process drops the event)
			}
		case !mutated:
			// success without protection: only the enumerated skips
			kind := ""
			for _, at := range pa.Atoms {
				s := at.String()
				switch {
				case strings.Contains(s, "reflect.ValueOf](Const(nil))") && !at.Neg && at.Op == "eq":
					kind = "invalid-value"
				case strings.Contains(s, "(reflect.Value).CanSet") && at.Neg:
					kind = "not-settable"
				case strings.Contains(s, "(reflect.Value).IsNil") && !at.Neg:
					kind = "nil-bytes"
				}
			}
			if kind == "" {
				r.Bad(rule, "filterValue:unprotected:"+row, p.InstrPos(pa.End), "filterValue reports success for a classified value without protecting it: "+p.PathSummary(pa))
				continue
			}
			skips[kind]++
		case class == "secret" || class == "sensitive":
			want := map[string]string{"encrypt": "encrypt", "hmac-sha256": "hmac", "redact": ""}[op]
			okAct := false
			switch op {
			case "encrypt":
				okAct = contains(acts, "encrypt") && !contains(acts, "hmac") && strings.HasPrefix(data, "Extract[0](Call[(*filters/encrypt.Filter).encrypt]")
			case "hmac-sha256":
				okAct = contains(acts, "hmac") && !contains(acts, "encrypt") && strings.HasPrefix(data, "Extract[0](Call[(*filters/encrypt.Filter).hmacSha256]")
			case "redact":
				okAct = !contains(acts, "hmac") && !contains(acts, "encrypt") && data == `Const("[REDACTED]")`
			default:
				okAct = false // any other operation must have failed
			}
			rows[class+"/"+op] = true
			_ = want
			r.Check(okAct, rule, "filterValue:"+row, p.InstrPos(pa.End), "classified value replaced by the result of its operation", fmt.Sprintf("a %s value with operation %q is set to %s after %v; expected the %q operation's output", class, op, data, acts, op))
		default:
			rows["other-class"] = true
			r.Check(data == `Const("[REDACTED]")` && !contains(acts, "encrypt") && !contains(acts, "hmac"), rule, "filterValue:"+row, p.InstrPos(pa.End), "any other classification is redacted", "an unknown classification is set to "+data+" instead of being redacted")
		}
	}
	for _, k := range []string{"public-or-none", "error", "secret/encrypt", "secret/hmac-sha256", "secret/redact", "sensitive/encrypt", "sensitive/hmac-sha256", "sensitive/redact", "other-class"} {
		if !rows[k] {
			r.Und(rule, "filterValue:rows", p.Pos(fn.Pos()), "no path for row "+k)
		}
	}
	// the silent skips are reported as facts; not-settable is decided by C09.settable
	r.Notes = append(r.Notes, fmt.Sprintf("filterValue early successes without protection: %v (invalid value / nil []byte: nothing to protect; not-settable: callers must pass settable values, see C09.settable)", skips))
	// the unknown-operation arm errors
	nBadOp := 0
	for _, pa := range paths {
		rv := pa.RetVals()
		if rv == nil {
			continue
		}
		pos := false
		for _, at := range pa.Atoms {
			if at.Op == "eq" && isOp(at.L) && !at.Neg {
				pos = true
			}
		}
		neg := 0
		for _, at := range pa.Atoms {
			if at.Op == "eq" && isOp(at.L) && at.Neg {
				neg++
			}
		}
		if !pos && neg >= 4 { // none, encrypt, hmac, redact all excluded
			cl, _ := hasAtom(pa, func(at Atom) bool {
				return at.Op == "eq" && isClass(at.L) && (at.R.Is("Const", `"secret"`) || at.R.Is("Const", `"sensitive"`))
			})
			if cl {
				nBadOp++
				if isNilConst(rv[0]) {
					r.Bad(rule, "filterValue:unknown-operation", p.InstrPos(pa.End), "an unknown filter operation on a classified value does not fail")
				}
			}
		}
	}
	r.Check(nBadOp > 0, rule, "filterValue:unknown-operation", p.Pos(fn.Pos()), "an unknown operation on a secret/sensitive value is an error", "no failing path for unknown operations")
}

func contains(xs []string, s string) bool {
	for _, x := range xs {
		if x == s {
			return true
		}
	}
	return false
}

// ruleNoPass: C09.nopass
func (c *Ctx) ruleNoPass() {
	p, r := c.P, c.R
	const rule = "C09.nopass"
	fn := c.Fn(rule, PkgEncrypt, "", "getClassificationFromTagString")
	if fn == nil {
		return
	}
	n := 0
	for _, pa := range c.enum(rule, fn, PathOpts{}) {
		rv := pa.RetVals()
		if rv == nil {
			continue
		}
		al, ok := rv[0].(*ssa.Alloc)
		if !ok {
			r.Und(rule, "getClassificationFromTagString", p.InstrPos(pa.End), "result is not a fresh tagInfo")
			continue
		}
		tb := pa.TermsAt(pa.LastStep())
		f := litFields(pa, al, len(pa.Steps))
		cl := tb.Of(f["Classification"])
		op := tb.Of(f["Operation"])
		override, _ := hasAtom(pa, func(at Atom) bool {
			return at.Op == "true" && at.L.Op == "Extract" && at.L.Name == "1" && at.L.Args[0].Op == "Lookup" && at.L.Args[0].Args[0].Is("Field", "withFilterOperations")
		})
		r.TableRows++
		if override {
			okOv := op.Op == "Extract" && op.Args[0].Op == "Lookup" && op.Args[0].Args[0].Is("Field", "withFilterOperations")
			r.Check(okOv, rule, "tag:override", p.InstrPos(pa.End), "an override from the filter's map is applied as given", "override path does not return the override's operation")
			continue
		}
		cls, _ := constString(cl.V)
		switch cls {
		case "sensitive", "secret":
			n++
			// the operation is either the default table's entry, or the tag's converted operation established non-empty on this path
			fromDefault := op.Op == "Lookup" && op.Args[0].Op == "Call" && op.Args[0].Name == "filters/encrypt.DefaultFilterOperations" && op.Args[1].Is("Const", `"`+cls+`"`)
			emptyPol, emptyFound := hasAtom(pa, func(at Atom) bool { return at.Op == "eq" && at.L.String() == op.String() && at.R.Is("Const", `""`) })
			nonEmpty := emptyFound && !emptyPol
			isLitNone := op.Is("Const", `""`)
			r.Check((fromDefault || nonEmpty) && !isLitNone, rule, "tag:"+cls, p.InstrPos(pa.End), "operation is the tag's (established non-empty) or the default for the classification; never 'none'",
				"a "+cls+" value can be classified with no operation ("+op.String()+") without an explicit override: it would be forwarded in plaintext")
		case "public":
		case "unknown":
			ops, _ := constString(op.V)
			r.Check(ops == "unknown", rule, "tag:unknown", p.InstrPos(pa.End), "unknown classification carries the unknown operation (redacted downstream)", "unknown classification returns operation "+op.String())
		default:
			r.Bad(rule, "tag:"+cl.String(), p.InstrPos(pa.End), "unexpected classification value returned: "+cl.String())
		}
	}
	if n < 4 {
		r.Und(rule, "instance-floor", "", "fewer than 4 sensitive/secret paths")
	}
}

// typeFact renders a positive type/kind test atom: "type==string", "kind==21".
func typeFact(at Atom) string {
	if at.Op != "eq" || at.Neg {
		return ""
	}
	l, rr := at.L, at.R
	side := func(t *Term) string {
		if t.Op == "Call" && t.Name == "reflect.TypeOf" && len(t.Args) == 1 {
			if t.Args[0].V != nil {
				return "type==" + types.TypeString(stripConv(t.Args[0].V).Type(), shortQual)
			}
		}
		return ""
	}
	isTypeCall := func(t *Term) bool { return t.Op == "Call" && t.Name == "(reflect.Value).Type" }
	isKindCall := func(t *Term) bool { return t.Op == "Call" && t.Name == "(reflect.Value).Kind" }
	if isTypeCall(l) {
		return side(rr)
	}
	if isTypeCall(rr) {
		return side(l)
	}
	if isKindCall(l) && rr.Op == "Const" {
		return "kind==" + rr.Name
	}
	return ""
}

// ruleHandlers: C09.handlers — inventory of (last positive type/kind test, handler) pairs.
func (c *Ctx) ruleHandlers() {
	p, r := c.P, c.R
	const rule = "C09.handlers"
	kMap, kStruct := c.reflectKind("Map"), c.reflectKind("Struct")
	k := func(v int64) string { return fmt.Sprintf("kind==%d", v) }
	handlers := map[string]string{
		"(*filters/encrypt.Filter).filterValue":            "filterValue",
		"(*filters/encrypt.Filter).filterSlice":            "filterSlice",
		"(*filters/encrypt.Filter).filterField":            "filterField",
		"(*filters/encrypt.Filter).filterTaggable":         "filterTaggable",
		"(*filters/encrypt.trackedMaps).trackMap":          "trackMap",
		"filters/encrypt.newTrackedMaps":                   "newTrackedMaps",
		"(*filters/encrypt.trackedMaps).processUnfiltered": "processUnfiltered",
		"(reflect.Value).SetMapIndex":                      "SetMapIndex",
	}
	type disp struct {
		recv, name string
		want       []string
	}
	for _, d := range []disp{
		// "+0" = the dispatcher's own arm level, "+1" = the per-element level of its slice arm
		{"Filter", "Process", []string{
			"type==string->filterValue+0", "type==[]uint8->filterValue+0", "taggable->filterTaggable+0", "taggable->filterField+0",
			"type==[]string->filterSlice+0", "type==[]*string->filterSlice+0", "type==[][]uint8->filterSlice+0",
			"taggable->filterTaggable+1", k(kMap) + "->trackMap+1", k(kStruct) + "->filterField+1", k(kStruct) + "->filterField+0",
			// a payload that is itself a map (untagged, or Taggable with tags that match no key) is tracked for the final sweep
			k(kMap) + "->trackMap+0"}},
		{"Filter", "filterField", []string{
			"type==string->filterValue+0", "type==[]uint8->filterValue+0", "type==wrapperspb.StringValue->filterValue+0", "type==wrapperspb.BytesValue->filterValue+0",
			"type==[]string->filterSlice+0", "type==[][]uint8->filterSlice+0", k(kMap) + "->trackMap+0", k(kStruct) + "->filterField+0", "taggable->filterTaggable+0", "taggable->filterField+0",
			"taggable->filterTaggable+1", k(kMap) + "->trackMap+1", k(kStruct) + "->filterField+1"}},
		{"trackedMaps", "processUnfiltered", []string{
			"type==string->filterValue+0", "type==[]uint8->filterValue+0", "type==wrapperspb.StringValue->filterValue+0", "type==wrapperspb.BytesValue->filterValue+0",
			"type==string->SetMapIndex+0", "type==[]uint8->SetMapIndex+0", "type==wrapperspb.StringValue->SetMapIndex+0", "type==wrapperspb.BytesValue->SetMapIndex+0",
			"type==[]string->filterSlice+0", "type==[][]uint8->filterSlice+0", k(kStruct) + "->filterField+0", k(kStruct) + "->SetMapIndex+0", k(kStruct) + "->processUnfiltered+0",
			k(kMap) + "->newTrackedMaps+0", k(kMap) + "->processUnfiltered+0",
			k(kStruct) + "->filterField+1", k(kMap) + "->trackMap+1", k(kMap) + "->processUnfiltered+1", k(kStruct) + "->processUnfiltered+1"}},
	} {
		fn := c.Fn(rule, PkgEncrypt, d.recv, d.name)
		if fn == nil {
			continue
		}
		inv := map[string]bool{}
		var raw [][3]interface{}
		// a method of the filter that is not a handler itself but dispatches to handlers (a loop of the dispatcher
		// moved into a method of its own) is walked as part of the dispatcher
		dispatchHelper := func(caller *ssa.Function, call *ssa.Call, callee *ssa.Function) bool {
			if PkgPathOf(callee) != PkgEncrypt || callee.Signature.Recv() == nil || typeShort(callee.Signature.Recv().Type()) != "encrypt."+d.recv || handlers[funcShort(callee)] != "" || len(callee.Blocks) > 60 {
				return false
			}
			return len(callsTo(callee, func(n string, cc *ssa.CallCommon) bool { return handlers[n] != "" })) > 0
		}
		for _, pa := range c.enum(rule, fn, PathOpts{Inline: dispatchHelper}) {
			// walk steps in order, tracking the last positive fact. A positive test for a
			// value-bearing type (string, []byte, wrapper values, string slices) creates an
			// obligation: the matching value handler must run before the walk moves on to
			// another test, unless the path fails with an error (must-pass-through).
			last := ""
			pending, pendingWant := "", ""
			var pendingAt ssa.Instruction
			leafHandler := func(f string) string {
				switch f {
				case "type==string", "type==[]uint8", "type==wrapperspb.StringValue", "type==wrapperspb.BytesValue":
					return "filterValue"
				case "type==[]string", "type==[]*string", "type==[][]uint8":
					return "filterSlice"
				}
				return ""
			}
			skipped := func(where ssa.Instruction) {
				r.Bad(rule, p.ShortFn(fn)+":arm-skips-handler:"+pending, p.InstrPos(pendingAt),
					"after a positive test "+pending+" the walk can move on (at "+p.InstrPos(where)+") without calling "+pendingWant+": such a value is forwarded unprotected and without an error")
			}
			atomAt := map[*ssa.If]Atom{}
			for _, at := range pa.Atoms {
				atomAt[at.If] = at
			}
			for _, s := range pa.Steps {
				if iff, ok := s.In.(*ssa.If); ok {
					at, ok := atomAt[iff]
					if !ok {
						continue
					}
					f := typeFact(at)
					if at.Op == "true" && !at.Neg && strings.Contains(at.L.String(), "Assert[encrypt.Taggable]") {
						f = "taggable"
					}
					if f != "" {
						if pending != "" && f != pending {
							skipped(s.In)
							pending = ""
						}
						last = f
						if h := leafHandler(f); h != "" {
							pending, pendingWant, pendingAt = f, h, s.In
						}
					}
					continue
				}
				if ci, ok := s.In.(ssa.CallInstruction); ok {
					if h, ok := handlers[calleeName(ci.Common())]; ok && last != "" {
						raw = append(raw, [3]interface{}{last, h, loopDepth(s.In.Block())})
						if h == pendingWant {
							pending = ""
						}
					}
				}
			}
			if pending != "" {
				if rv := pa.RetVals(); rv != nil && isNilConst(rv[len(rv)-1]) {
					skipped(pa.End)
				}
			}
		}
		base := 1 << 30
		for _, x := range raw {
			if x[2].(int) < base {
				base = x[2].(int)
			}
		}
		for _, x := range raw {
			inv[fmt.Sprintf("%s->%s+%d", x[0], x[1], x[2].(int)-base)] = true
		}
		for _, w := range d.want {
			r.Check(inv[w], rule, p.ShortFn(fn)+":"+w, p.Pos(fn.Pos()), "a branch conditioned on this type/kind test reaches the handler", "no path of "+d.name+" reaches handler "+w[strings.Index(w, "->")+2:]+" (+0 arm level / +1 slice-element level) right after a positive test "+w[:strings.Index(w, "->")]+" (the shape would pass through unfiltered)")
		}
		var all []string
		for kk := range inv {
			all = append(all, kk)
		}
		sort.Strings(all)
		r.Notes = append(r.Notes, d.name+" handler inventory: "+strings.Join(all, ", "))
	}
}

// loopDepth: number of loops enclosing block b.
func loopDepth(b *ssa.BasicBlock) int {
	n := 0
	for _, h := range b.Parent().Blocks {
		isHeader := false
		for _, pr := range h.Preds {
			if h.Dominates(pr) {
				isHeader = true
			}
		}
		if isHeader && h.Dominates(b) && reachableFrom(b)[h] {
			n++
		}
	}
	return n
}

// ruleSettable: struct values handed to the field walk from a root (the
// payload itself, a map value) are tested settable or replaced by an
// addressable copy (reflect.New(T).Elem()).
func (c *Ctx) ruleSettable() {
	p, r := c.P, c.R
	const rule = "C09.settable"
	type site struct {
		recv, name string
	}
	n := 0
	for _, st := range []site{{"Filter", "Process"}, {"trackedMaps", "processUnfiltered"}} {
		fn := c.Fn(rule, PkgEncrypt, st.recv, st.name)
		if fn == nil {
			continue
		}
		// classify per call site over all paths
		type verdict struct {
			ok, bad int
			why     string
		}
		per := map[ssa.Instruction]*verdict{}
		arm := map[ssa.Instruction]string{}
		for _, pa := range c.enum(rule, fn, PathOpts{}) {
			for _, s := range pa.CallsOn() {
				ci := s.In.(ssa.CallInstruction)
				if calleeName(ci.Common()) != "(*filters/encrypt.Filter).filterField" {
					continue
				}
				v := per[s.In]
				if v == nil {
					v = &verdict{}
					per[s.In] = v
				}
				tb := pa.TermsAt(s)
				argV := pa.Resolve(s, ci.Common().Args[2])
				arg := tb.Of(argV)
				as := arg.String()
				switch {
				case strings.HasPrefix(as, "Call[(reflect.Value).Elem](Call[reflect.New]("):
					v.ok++ // fresh addressable copy
				case strings.Contains(as, "(reflect.Value).Index]("):
					v.ok++ // element of a slice: always addressable
				default:
					// settable established on this path for this very value?
					pol, found := hasAtom(pa, func(at Atom) bool {
						return at.Op == "true" && at.L.Op == "Call" && at.L.Name == "(reflect.Value).CanSet" && (at.L.Args[0].V == argV || at.L.Args[0].String() == as)
					})
					if found && pol {
						v.ok++
					} else {
						v.bad++
						v.why = as
					}
				}
				// name the arm by the enclosing dispatcher condition
				if pol, found := hasAtom(pa, func(at Atom) bool {
					return at.Op == "true" && strings.Contains(at.L.String(), "Assert[encrypt.Taggable]")
				}); found && pol {
					if arm[s.In] == "" {
						arm[s.In] = "taggable-arm"
					}
				}
			}
		}
		// every call site of the field walk in the function has to be decided: a site no enumerated path
		// reaches (path limit, an arm the enumeration pruned) is not silently left out
		for _, ci := range callsTo(fn, func(nm string, cc *ssa.CallCommon) bool { return nm == "(*filters/encrypt.Filter).filterField" }) {
			if _, seen := per[ci]; !seen {
				r.Und(rule, p.ShortFn(fn)+":filterField@unreached", p.InstrPos(ci), "no enumerated path reaches this call of the field walk: its argument's addressability is not decided")
			}
		}
		var sites []ssa.Instruction
		for in := range per {
			sites = append(sites, in)
		}
		sort.Slice(sites, func(i, j int) bool { return sites[i].Pos() < sites[j].Pos() })
		idx := 0
		for _, in := range sites {
			v := per[in]
			n++
			name := arm[in]
			if name == "" {
				idx++
				name = fmt.Sprintf("struct-arm#%d", idx)
			}
			construct := p.ShortFn(fn) + ":filterField@" + name
			if v.bad == 0 {
				r.Ok(rule, construct, p.InstrPos(in), "the struct handed to the field walk is a slice element, tested settable, or a fresh addressable copy on every path")
			} else {
				r.Bad(rule, construct, p.InstrPos(in), "a struct value that may not be addressable ("+v.why+") is handed to the field walk: filterValue silently skips values it cannot set, so every classified field of such a struct is forwarded in plaintext without an error")
			}
		}
	}
	if n < 4 {
		r.Und(rule, "instance-floor", "", fmt.Sprintf("only %d root call sites of filterField found (4 expected)", n))
	}
}

// ---------------------------------------------------------------------------

func runC10(c *Ctx) {
	p, r := c.P, c.R
	r.Explanation = "Decides that every mutation performed by encrypt.Filter.Process is applied to the private deep copy: MUT is the set of functions of the package that can reach reflect.Value.Set*/SetMapIndex or pointerstructure.Set (computed from the call graph); in Process every call into MUT is dominated by the success edge of the deep-copy call and none of its arguments derives from the original event except through the copy's result; every return of the original event itself (nil payload, all-NoOperation configuration, zero payload) has a nil error and no MUT call before it; no function of the package stores into a field of a Process event parameter. That copystructure.Copy is deep for every shape, and the preservation of the output's shape/lengths/keys, are not decided (third-party semantics, reflection). C10.guards (what dominates the copy), C10.public (no mutation without excluding public), C10.sinks (closed vocabulary of reflective mutations), C10.resweep (a separately tracked nested map is not swept through its parent). C10.every: a tag whose key is absent does not end the walk over the tags (no early success from a handling loop). C10.tagpair / C10.public taggable-field-unconditional: see C09. C10.mut payload-bytes-readonly: no in-place write reaches a byte slice of the original payload. C10.mark skip-identity: as C09.mark. C10.exacttype unwrap-once: no Elem() on a loop-carried value. C10.none: the defaults table has exactly the three classes. C10.mark also decides the error flow of filterTaggable: every error of the tag walk, trackTaggable's included, ends the walk (the documented ErrNotFound continue is the one exception)."
	r.NotDecided = []string{"copystructure.Copy being a deep copy for every payload shape (A4)", "preservation of dynamic type, container lengths and keys in the output (runtime values behind reflection)"}
	proc := c.Fn("C10.anchor", PkgEncrypt, "Filter", "Process")
	if proc == nil {
		return
	}
	// --- C10.mut
	isSink := func(sc *ssa.Function) bool {
		s := sc.String()
		return strings.HasPrefix(s, "(reflect.Value).Set") || s == "github.com/mitchellh/pointerstructure.Set" || s == "(*github.com/mitchellh/pointerstructure.Pointer).Set"
	}
	mut := map[*ssa.Function]bool{}
	changed := true
	funcs := p.FuncsIn(PkgEncrypt)
	for changed {
		changed = false
		for _, f := range funcs {
			if mut[f] {
				continue
			}
			eachInstr(f, func(in ssa.Instruction) {
				if ci, ok := in.(ssa.CallInstruction); ok {
					if sc := ci.Common().StaticCallee(); sc != nil && (isSink(sc) || mut[sc]) {
						if !mut[f] {
							mut[f] = true
							changed = true
						}
					}
				}
			})
		}
	}
	var names []string
	for f := range mut {
		names = append(names, p.ShortFn(f))
		r.SawFn(p.ShortFn(f))
	}
	sort.Strings(names)
	r.Check(len(names) >= 6, "C10.mut", "MUT", "", "functions that can mutate through reflection/pointerstructure: "+strings.Join(names, ", "), "MUT set smaller than confirmed by hand (setValue, filterValue, filterSlice, filterTaggable, filterField, processUnfiltered, Process)")
	c.rulePayloadBytesReadOnly("C10.mut")

	// --- C10.copy
	tb := p.NewTerms(nil)
	copies := callsTo(proc, func(n string, cc *ssa.CallCommon) bool { return n == "github.com/mitchellh/copystructure.Copy" })
	if len(copies) != 1 {
		r.Bad("C10.copy", "Process:copy", p.Pos(proc.Pos()), fmt.Sprintf("%d deep-copy calls in Process (expected exactly 1)", len(copies)))
		return
	}
	cp := copies[0].(*ssa.Call)
	if !tb.Of(cp.Call.Args[0]).IsParam("2:e") {
		r.Bad("C10.copy", "Process:copy", p.InstrPos(cp), "the deep copy is not taken of the event parameter: "+tb.Of(cp.Call.Args[0]).String())
	}
	// success edge of the copy
	var okBlk *ssa.BasicBlock
	for _, ref := range nonDebugRefs(cp) {
		if ex, ok := ref.(*ssa.Extract); ok && ex.Index == 1 {
			for _, r2 := range nonDebugRefs(ex) {
				if bo, ok := r2.(*ssa.BinOp); ok && isNilConst(bo.Y) {
					for _, r3 := range nonDebugRefs(bo) {
						if iff, ok := r3.(*ssa.If); ok {
							if bo.Op == token.NEQ {
								okBlk = iff.Block().Succs[1]
							} else {
								okBlk = iff.Block().Succs[0]
							}
						}
					}
				}
			}
		}
	}
	if okBlk == nil {
		r.Bad("C10.copy", "Process:copy-error", p.InstrPos(cp), "the deep copy's error is not tested")
		return
	}
	origTainted := func(t *Term) bool { return mentionsOutside(t, "Param(2:e)", cp) }
	nMut := 0
	eachInstr(proc, func(in ssa.Instruction) {
		ci, ok := in.(ssa.CallInstruction)
		if !ok {
			return
		}
		sc := ci.Common().StaticCallee()
		if sc == nil || !(mut[sc] || isSink(sc)) {
			return
		}
		nMut++
		construct := "Process->" + funcShort(sc)
		if !(okBlk == in.Block() || okBlk.Dominates(in.Block())) {
			r.Bad("C10.copy", construct, p.InstrPos(in), "a mutating call is reachable without the deep copy having succeeded")
			return
		}
		for _, a := range ci.Common().Args {
			if strings.HasSuffix(types.TypeString(a.Type(), shortQual), "[]encrypt.Option") {
				continue // per-event key options are read from the original payload by design (C16.event); they are not mutation targets
			}
			if t := tb.Of(a); origTainted(t) {
				r.Bad("C10.copy", construct, p.InstrPos(in), "an argument of a mutating call derives from the original event, not from the private copy: "+t.String())
				return
			}
		}
		r.Ok("C10.copy", construct, p.InstrPos(in), "dominated by the successful deep copy; arguments derive from the copy only")
	})
	if nMut < 5 {
		r.Und("C10.copy", "instance-floor", "", fmt.Sprintf("only %d mutating call sites in Process", nMut))
	}
	// the event variable after the copy is the copy: e = dup.(*Event)
	// --- C10.early
	nEarly := 0
	for _, pa := range c.enum("C10.early", proc, PathOpts{}) {
		rv := pa.RetVals()
		if rv == nil || isNilConst(rv[0]) {
			continue
		}
		t := pa.TermsAt(pa.LastStep()).Of(rv[0])
		if t.IsParam("2:e") {
			nEarly++
			mutBefore := ""
			for _, s := range pa.CallsOn() {
				if sc := s.In.(ssa.CallInstruction).Common().StaticCallee(); sc != nil && (mut[sc] || isSink(sc)) {
					mutBefore = funcShort(sc)
				}
			}
			r.Check(isNilConst(rv[1]) && mutBefore == "", "C10.early", "Process:return-original", p.InstrPos(pa.End), "the original event is handed back untouched with a nil error", "the original event is returned after a mutating call ("+mutBefore+") or with an error")
		} else {
			// must be the copy
			okCopy := t.Op == "Assert" && t.Args[0].Op == "Extract" && t.Args[0].Args[0].V == ssa.Value(cp)
			r.Check(okCopy, "C10.early", "Process:return-copy", p.InstrPos(pa.End), "every other forwarded event is the private copy", "Process forwards "+t.String()+", neither the untouched original nor the private copy")
		}
	}
	// --- C10.guards: the copy (and with it every mutation) is reached only after the three
	// "forward unchanged" cases were excluded on that very path: nil payload, zero payload,
	// nothing to filter (flag set only where an operation other than none was seen).
	nCopyPaths := 0
	for _, pa := range c.enum("C10.guards", proc, PathOpts{}) {
		reached := false
		for _, s := range pa.CallsOn() {
			if s.In == ssa.Instruction(cp) {
				reached = true
			}
		}
		if !reached {
			continue
		}
		nCopyPaths++
		nilPayload, f1 := hasAtom(pa, func(at Atom) bool {
			return at.Op == "eq" && at.L.Is("Field", "Payload") && at.L.Args[0].IsParam("2:e") && at.R.Is("Const", "nil")
		})
		zero, f2 := hasAtom(pa, func(at Atom) bool {
			return at.Op == "true" && at.L.Is("Call", "(reflect.Value).IsZero") && at.L.Args[0].Is("Call", "reflect.ValueOf") && at.L.Args[0].Args[0].Is("Field", "Payload") && at.L.Args[0].Args[0].Args[0].IsParam("2:e")
		})
		var missing []string
		if !f1 || nilPayload {
			missing = append(missing, "payload != nil")
		}
		if !f2 || zero {
			missing = append(missing, "!reflect.ValueOf(payload).IsZero()")
		}
		if len(missing) > 0 {
			r.Bad("C10.guards", "Process:copy-guards", p.InstrPos(cp), "the deep copy (and the filtering after it) is reached on a path that did not exclude: "+strings.Join(missing, ", ")+" — such an event must be forwarded unchanged")
		}
	}
	// the converse for failures: apart from the missing-event error, Process fails only after it
	// excluded a nil and a zero payload (those are forwarded unchanged whatever the configuration)
	okErrOrder := true
	for _, pa := range c.enum("C10.guards", proc, PathOpts{}) {
		rv := pa.RetVals()
		if rv == nil || isNilConst(rv[1]) {
			continue
		}
		if nilE, f := hasAtom(pa, func(at Atom) bool { return at.Op == "eq" && at.L.IsParam("2:e") && at.R.Is("Const", "nil") }); f && nilE {
			continue
		}
		zero, f2 := hasAtom(pa, func(at Atom) bool {
			return at.Op == "true" && at.L.Is("Call", "(reflect.Value).IsZero") && at.L.Args[0].Is("Call", "reflect.ValueOf") && at.L.Args[0].Args[0].Is("Field", "Payload")
		})
		if (!f2 || zero) && okErrOrder {
			okErrOrder = false
			r.Bad("C10.guards", "Process:error-before-zero-test", p.InstrPos(pa.End), "Process can fail on a path that did not exclude a zero payload: a zero payload must be forwarded unchanged, but here it is rejected (for example for a missing wrapper) ("+p.PathSummary(pa)+")")
		}
	}
	if okErrOrder {
		r.Ok("C10.guards", "Process:error-before-zero-test", p.Pos(proc.Pos()), "every failure other than a missing event comes after the zero-payload test")
	}
	r.Check(nCopyPaths > 0, "C10.guards", "Process:copy-guards", p.InstrPos(cp), fmt.Sprintf("%d paths reach the copy, each after excluding a nil and a zero payload", nCopyPaths), "no path reaches the deep copy")
	// the nothing-to-filter flag: an If on a boolean phi whose only true source is guarded by `operation != none`
	okFlag := false
	noneConst := "?"
	if pkg := p.SSAPkgs[PkgEncrypt]; pkg != nil {
		if k, ok := pkg.Members["NoOperation"].(*ssa.NamedConst); ok {
			noneConst = k.Value.Value.ExactString()
		}
	}
	for _, b := range proc.Blocks {
		cond, _, fs := condOf(b)
		phi, isPhi := cond.(*ssa.Phi)
		if !isPhi || !(b == cp.Block() || b.Dominates(cp.Block())) {
			continue
		}
		// false edge returns the original
		retOrig := false
		if len(fs.Instrs) > 0 {
			if ret, ok := fs.Instrs[len(fs.Instrs)-1].(*ssa.Return); ok {
				rv := RetVals(ret)
				retOrig = len(rv) == 2 && tb.Of(rv[0]).IsParam("2:e") && isNilConst(rv[1])
			}
		}
		if !retOrig {
			continue
		}
		good := true
		var visit func(v ssa.Value, from *ssa.BasicBlock, seen map[ssa.Value]bool)
		visit = func(v ssa.Value, from *ssa.BasicBlock, seen map[ssa.Value]bool) {
			if seen[v] {
				return
			}
			seen[v] = true
			switch x := v.(type) {
			case *ssa.Phi:
				for i, e := range x.Edges {
					visit(e, x.Block().Preds[i], seen)
				}
			case *ssa.Const:
				if bv, ok := constBool(x); ok && bv {
					// the block assigning true must be entered by the true edge of Lookup(ops, class) != "none"
					g := false
					for d := from; d != nil; d = d.Idom() {
						cc, ts, _ := condOf(d)
						if bo, ok := cc.(*ssa.BinOp); ok && bo.Op == token.NEQ && (ts == from || ts.Dominates(from)) {
							lt, rt := tb.Of(bo.X), tb.Of(bo.Y)
							if lt.Op == "Lookup" && rt.Is("Const", noneConst) {
								g = true
							}
						}
					}
					if !g {
						good = false
					}
				}
			default:
				good = false
			}
		}
		visit(phi, nil, map[ssa.Value]bool{})
		if good {
			okFlag = true
		}
	}
	r.Check(okFlag, "C10.guards", "Process:nothing-to-filter", p.Pos(proc.Pos()), "before the copy, a flag that is set only where an operation other than none was found decides the unchanged early return", "no early return of the original guarded by a flag that is set only under `operation != none` dominates the deep copy")
	r.Check(nEarly >= 3, "C10.early", "Process:early-returns", p.Pos(proc.Pos()), fmt.Sprintf("%d paths return the untouched original (nil payload, nothing to filter, zero payload)", nEarly), "fewer than 3 early returns of the original event")

	// --- C10.public: "every public-classified value preserved": inside filterValue nothing that can
	// mutate is reached on a path that did not exclude the public classification
	if fv := c.Fn("C10.public", PkgEncrypt, "Filter", "filterValue"); fv != nil {
		pubConst := "?"
		if pkg := p.SSAPkgs[PkgEncrypt]; pkg != nil {
			if k, ok := pkg.Members["PublicClassification"].(*ssa.NamedConst); ok {
				pubConst = k.Value.Value.ExactString()
			}
		}
		nMutPaths, okPub := 0, true
		for _, pa := range c.enum("C10.public", fv, PathOpts{}) {
			var m ssa.Instruction
			for _, s := range pa.CallsOn() {
				if sc := s.In.(ssa.CallInstruction).Common().StaticCallee(); sc != nil && (mut[sc] || isSink(sc)) && m == nil {
					m = s.In
				}
			}
			if m == nil {
				continue
			}
			nMutPaths++
			pub, found := hasAtom(pa, func(at Atom) bool {
				return at.Op == "eq" && at.L.Is("Field", "Classification") && at.L.Args[0].IsParam("3:classificationTag") && at.R.Is("Const", pubConst)
			})
			if !found || pub {
				okPub = false
				r.Bad("C10.public", "filterValue:mutates-public", p.InstrPos(m), "a mutating call is reached on a path that did not exclude the public classification: a public value whose operation was overridden would be rewritten ("+p.PathSummary(pa)+")")
				break
			}
		}
		if okPub {
			r.Check(nMutPaths >= 3, "C10.public", "filterValue:mutates-public", p.Pos(fv.Pos()), fmt.Sprintf("%d mutating paths, each after excluding the public classification", nMutPaths), "fewer than 3 mutating paths found in filterValue")
		}
	}

	c.ruleMutationSinks()
	c.ruleNoResweep()
	c.rulePointerValues()
	c.ruleSweepNoCarriedFlags("C10.ptrvalue")
	c.ruleExactLeafTypes()
	c.ruleUnwrapOnce("C10.exacttype")
	// "with all operations overridden to none the event is forwarded unchanged": the classes Process ranges
	// over to decide whether anything is filtered are the keys of DefaultFilterOperations — exactly the three
	// classes an override can name (the table rule of C09.defaults under C10)
	nObl := len(c.R.Obls)
	c.ruleDefaults()
	for i := nObl; i < len(c.R.Obls); i++ {
		if c.R.Obls[i].Rule == "C09.defaults" {
			c.R.Obls[i].Rule = "C10.none"
		}
	}
	c.ruleMarkFiltered("C10.mark")
	c.ruleEveryElement("C10.every")
	c.ruleTaggableTrackIdentity("C10.mark")
	// the tracking call is what keeps the sweep away from a value a tag classified public: its failure is
	// returned (the error-flow rule of C09.prop over filterTaggable under C10)
	if ft := c.Fn("C10.mark", PkgEncrypt, "Filter", "filterTaggable"); ft != nil {
		c.errorFlowRule("C10.mark", ft, encryptErrExceptions, false)
	}
	c.ruleSkipIdentity("C10.mark")
	c.ruleTaggableFieldAlways("C10.public")
	c.ruleTagPairAs("C10.tagpair")

	// --- C10.none
	nProc := 0
	for _, f := range c.processImpls() {
		if PkgPathOf(f) != PkgEncrypt {
			continue
		}
		nProc++
		bad := false
		eachInstr(f, func(in ssa.Instruction) {
			if st, ok := in.(*ssa.Store); ok {
				if fa, ok := st.Addr.(*ssa.FieldAddr); ok && tb.Of(fa.X).IsParam("2:e") {
					bad = true
					r.Bad("C10.none", p.ShortFn(f)+":store", p.InstrPos(in), "a field of the event parameter is assigned")
				}
			}
			if mu, ok := in.(*ssa.MapUpdate); ok {
				if t := tb.Of(mu.Map); t.Is("Field", "Formatted") && t.Args[0].IsParam("2:e") {
					bad = true
					r.Bad("C10.none", p.ShortFn(f)+":store", p.InstrPos(in), "the event parameter's format table is updated")
				}
			}
		})
		if !bad {
			r.Ok("C10.none", p.ShortFn(f), p.Pos(f.Pos()), "no store into the event parameter")
		}
	}
	_ = nProc
}

// mentionsOutside: t mentions s somewhere not below the call cut.
func mentionsOutside(t *Term, s string, cut ssa.Value) bool {
	if t == nil {
		return false
	}
	if t.V == cut {
		return false
	}
	if t.String() == s {
		return true
	}
	for _, a := range t.Args {
		if mentionsOutside(a, s, cut) {
			return true
		}
	}
	return false
}

// ---------------------------------------------------------------------------

func runC16(c *Ctx) {
	p, r := c.P, c.R
	r.Explanation = "Decides the key-selection and framing clauses: encrypt() encrypts exactly its data argument with the per-event wrapper option when present, else the filter's wrapper, and returns \"encrypted:\" + RawURL base64 of the marshalled blob; hmacSha256() derives a 32-byte key with NewDerivedReader(ctx, w, 32, salt, info) where w / salt / info are each the per-event option when non-nil else the filter's field (not swapped), MACs exactly its data argument with HMAC(SHA-256, key) and returns \"hmac-sha256:\" + RawURL base64; Process derives the per-event wrapper from NewEventWrapper(ctx, ef.Wrapper, EventId()) under the lock and hands the three per-event options to every value operation; all reads of Wrapper/HmacSalt/HmacInfo and the cryptographic call lie in one critical section, and Rotate / rotation payloads write them under the write lock (copying salt and info). Decrypt round-trip, HKDF and AEAD correctness are third-party semantics and not decided. Also the derivation shape: NewDerivedReader = LimitedReader{hkdf.New(sha256.New, checked key bytes of the wrapper argument, salt, info), lenLimit}; NewEventWrapper = aead wrapper keyed with ed25519.GenerateKey(NewDerivedReader(ctx, wrapper, >=32, f(eventId), g(eventId))) with every step checked, so the per-event key is a function of (wrapper key, event id) only. C16.forward: every walker hands its own options on. C16.event snapshot: an event with its own wrapper uses salt and info taken together with that wrapper. C16.raw: a value reached through a pointer tag is turned into bytes only by identity-preserving conversions. C16.atomic store-then-error: a rotation that returns an error has replaced none of Wrapper, HmacSalt, HmacInfo. C16.atomic rotation-applied: key material a rotation brings is stored on every successful path. C16.event snapshot-non-nil: the snapshot of the filter's salt / info handed on as the per-event option is non-nil even when the filter has none. C16.derive key-handed-over: the slice handed to the AEAD wrapper is never written in place afterwards. C16.atomic who-may-rotate: only Rotate and the rotation arm store the key material. C16.atomic cannot-refuse: Rotate has no result and the rotation arm of Process returns a nil error on every path (a rotation is applied, never refused). C16.mac mac-private: the hash made by hmac.New for a value is used for one Write(data) and Sum only."
	r.NotDecided = []string{"decrypt round-trip and HKDF/AEAD correctness (go-kms-wrapping, x/crypto)", "determinism of derived wrappers beyond the arguments passed"}
	c.lockControls()
	must := c.MustLocks()
	// --- C16.enc
	if fn := c.Fn("C16.enc", PkgEncrypt, "Filter", "encrypt"); fn != nil {
		nOK := 0
		for _, pa := range c.enum("C16.enc", fn, PathOpts{}) {
			rv := pa.RetVals()
			if rv == nil || !isNilConst(rv[1]) {
				continue
			}
			tb := pa.TermsAt(pa.LastStep())
			out := tb.Of(rv[0])
			// "encrypted:" + EncodeToString(RawURLEncoding, Marshal(Encrypt(w, ctx, data, nil))#0)
			ok := out.Op == "Bin" && out.Name == "+" && out.Args[0].Is("Const", `"encrypted:"`) && out.Args[1].Op == "Call" && out.Args[1].Name == "(*encoding/base64.Encoding).EncodeToString" &&
				out.Args[1].Args[0].String() == "Load(Global(base64.RawURLEncoding))"
			var enc *Term
			if ok {
				m := out.Args[1].Args[1]
				ok = m.Op == "Extract" && m.Name == "0" && m.Args[0].Name == "google.golang.org/protobuf/proto.Marshal" && m.Args[0].Args[0].Op == "Extract" && m.Args[0].Args[0].Name == "0"
				if ok {
					enc = m.Args[0].Args[0].Args[0]
					ok = enc.Name == "invoke wrapping.Wrapper.Encrypt" && enc.Args[1].IsParam("1:ctx") && enc.Args[2].IsParam("2:data")
				}
			}
			if !ok {
				r.Bad("C16.enc", "encrypt:output", p.InstrPos(pa.End), "encrypt returns "+out.String()+"; expected \"encrypted:\"+RawURL base64 of the marshalled result of w.Encrypt(ctx, data, nil)")
				continue
			}
			// wrapper selection
			w := enc.Args[0].String()
			optNilPol, optFound := hasAtom(pa, func(at Atom) bool { return at.Op == "eq" && at.L.Is("Field", "withWrapper") && at.R.Is("Const", "nil") })
			wantW := "Field[Wrapper](Param(0:ef))"
			if optFound && !optNilPol {
				wantW = "Field[withWrapper](Call[filters/encrypt.getOpts](Param(3:opt)))"
			}
			if !optFound {
				r.Bad("C16.enc", "encrypt:wrapper-choice", p.InstrPos(pa.End), "a successful path never looks at the per-event wrapper option")
				continue
			}
			if w != wantW {
				r.Bad("C16.enc", "encrypt:wrapper-choice", p.InstrPos(pa.End), "the wrapper used is "+w+" although the per-event option is "+map[bool]string{true: "absent", false: "present"}[optNilPol]+": per-event keys must take precedence over the filter's")
				continue
			}
			nOK++
		}
		r.Check(nOK >= 2, "C16.enc", "encrypt", p.Pos(fn.Pos()), fmt.Sprintf("%d successful paths: per-event wrapper when present else the filter's; output framed as stated", nOK), "fewer than 2 successful encrypt paths verified")
		c.atomicSection("C16.atomic", fn, must, "invoke wrapping.Wrapper.Encrypt")
	}
	// --- C16.mac
	if fn := c.Fn("C16.mac", PkgEncrypt, "Filter", "hmacSha256"); fn != nil {
		nOK := 0
		for _, pa := range c.enum("C16.mac", fn, PathOpts{}) {
			rv := pa.RetVals()
			if rv == nil || !isNilConst(rv[1]) {
				continue
			}
			tb := pa.TermsAt(pa.LastStep())
			out := tb.Of(rv[0])
			ok := out.Op == "Bin" && out.Name == "+" && out.Args[0].Is("Const", `"hmac-sha256:"`) && out.Args[1].Name == "(*encoding/base64.Encoding).EncodeToString" &&
				out.Args[1].Args[0].String() == "Load(Global(base64.RawURLEncoding))" && out.Args[1].Args[1].Name == "invoke hash.Hash.Sum"
			if !ok {
				r.Bad("C16.mac", "hmacSha256:output", p.InstrPos(pa.End), "hmacSha256 returns "+out.String()+"; expected \"hmac-sha256:\"+RawURL base64 of mac.Sum(nil)")
				continue
			}
			mac := out.Args[1].Args[1].Args[0] // hmac.New(sha256.New, key)
			if !(mac.Op == "Call" && mac.Name == "crypto/hmac.New" && mac.Args[0].Is("Func", "crypto/sha256.New")) {
				r.Bad("C16.mac", "hmacSha256:mac", p.InstrPos(pa.End), "the MAC is "+mac.String()+", not hmac.New(sha256.New, key)")
				continue
			}
			// calls on the path: NewDerivedReader(ctx, w, 32, salt, info), io.ReadFull(reader, key), mac.Write(data)
			var ndr, write, readFull ssa.CallInstruction
			var ndrStep Step
			for _, s := range pa.CallsOn() {
				switch stepCallName(s) {
				case "filters/encrypt.NewDerivedReader":
					ndr, ndrStep = s.In.(ssa.CallInstruction), s
				case "invoke hash.Hash.Write":
					write = s.In.(ssa.CallInstruction)
				case "io.ReadFull":
					readFull = s.In.(ssa.CallInstruction)
				}
			}
			if ndr == nil || write == nil || readFull == nil {
				r.Bad("C16.mac", "hmacSha256:steps", p.InstrPos(pa.End), "a successful path lacks NewDerivedReader / io.ReadFull / mac.Write")
				continue
			}
			ntb := pa.TermsAt(ndrStep)
			a := ndr.Common().Args
			lim, _ := constInt(a[2])
			okArgs := ntb.Of(a[0]).IsParam("1:ctx") && lim == 32
			// key: the buffer read from the reader is the MAC key
			keyT := mac.Args[1]
			rf := tb.Of(readFull.Common().Args[1])
			rd := tb.Of(readFull.Common().Args[0])
			okKey := keyT.V != nil && rf.V == keyT.V && rd.Op == "Extract" && rd.Args[0].V == ndr.(ssa.Value)
			switch mk := keyT.V.(type) {
			case *ssa.MakeSlice:
				l, _ := constInt(mk.Len)
				okKey = okKey && l == 32
			case *ssa.Slice:
				al, isAl := mk.X.(*ssa.Alloc)
				okKey = okKey && isAl && types.TypeString(al.Type(), shortQual) == "*[32]byte"
			default:
				okKey = false
			}
			okData := tb.Of(write.Common().Args[0]).IsParam("2:data") && tb.Of(write.Common().Value).V == mac.V
			if !okArgs || !okKey || !okData {
				r.Bad("C16.mac", "hmacSha256:derivation", p.InstrPos(ndr), fmt.Sprintf("key derivation / MAC input do not match: ctx&32=%v key-from-reader(32 bytes)=%v mac.Write(data)=%v", okArgs, okKey, okData))
				continue
			}
			// selection of w, salt, info
			pick := func(optField, fieldName string, argIdx int) (bool, string) {
				optNil, found := hasAtom(pa, func(at Atom) bool { return at.Op == "eq" && at.L.Is("Field", optField) && at.R.Is("Const", "nil") })
				if !found {
					return false, "option " + optField + " not consulted"
				}
				src := ""
				v := pa.Resolve(ndrStep, a[argIdx])
				t := ntb.Of(v)
				if argIdx == 1 {
					src = t.String()
				} else {
					// salt/info are fresh copies: make([]byte, len(X)); copy(dst, X)
					mk, isMk := v.(*ssa.MakeSlice)
					if !isMk {
						return false, "not a fresh copy: " + t.String()
					}
					for _, s := range pa.CallsOn() {
						ci := s.In.(ssa.CallInstruction)
						if b, ok := ci.Common().Value.(*ssa.Builtin); ok && b.Name() == "copy" && pa.Resolve(s, ci.Common().Args[0]) == ssa.Value(mk) {
							src = pa.TermsAt(s).Of(ci.Common().Args[1]).String()
						}
					}
				}
				want := "Field[" + fieldName + "](Param(0:ef))"
				if !optNil {
					want = "Field[" + optField + "](Call[filters/encrypt.getOpts](Param(3:opt)))"
				}
				if src != want {
					return false, fmt.Sprintf("uses %s, expected %s (option %s)", src, want, map[bool]string{true: "absent", false: "present"}[optNil])
				}
				return true, ""
			}
			okAll := true
			for _, x := range []struct {
				opt, fld string
				idx      int
			}{{"withWrapper", "Wrapper", 1}, {"withSalt", "HmacSalt", 3}, {"withInfo", "HmacInfo", 4}} {
				if ok, why := pick(x.opt, x.fld, x.idx); !ok {
					okAll = false
					r.Bad("C16.mac", "hmacSha256:"+x.fld, p.InstrPos(ndr), "key material selection for "+x.fld+": "+why)
				}
			}
			if okAll {
				nOK++
			}
		}
		r.Check(nOK >= 8, "C16.mac", "hmacSha256", p.Pos(fn.Pos()), fmt.Sprintf("%d successful paths (all 8 combinations of per-event wrapper/salt/info present or absent) select the right key material and MAC exactly the data argument", nOK), fmt.Sprintf("only %d successful hmac paths verified (8 expected)", nOK))
		c.atomicSection("C16.atomic", fn, must, "filters/encrypt.NewDerivedReader")
	}
	// --- C16.event
	c.ruleEventKeyMaterial("C16.event")
	// --- C16.atomic (writers)
	for _, name := range []string{"Rotate", "Process"} {
		fn := c.Fn("C16.atomic", PkgEncrypt, "Filter", name)
		if fn == nil {
			continue
		}
		eachInstr(fn, func(in ssa.Instruction) {
			st, ok := in.(*ssa.Store)
			if !ok {
				return
			}
			fa, ok := st.Addr.(*ssa.FieldAddr)
			if !ok || typeShort(fa.X.Type()) != "encrypt.Filter" {
				return
			}
			nm := fa.X.Type().Underlying().(*types.Pointer).Elem().Underlying().(*types.Struct).Field(fa.Field).Name()
			if nm != "Wrapper" && nm != "HmacSalt" && nm != "HmacInfo" {
				return
			}
			held := must.At(in)
			r.Check(held["encrypt.Filter.l"] == 'W', "C16.atomic", p.ShortFn(fn)+":write:"+nm, p.InstrPos(in), "key material replaced under the write lock", "key material field "+nm+" is written without the filter's write lock")
			// salt/info taken from a payload are stored as FRESH copies; the old buffers (which the
			// caller, or another Filter built from the same slice, may still use) are never written into
			if name == "Process" && (nm == "HmacSalt" || nm == "HmacInfo") {
				vt := p.NewTerms(nil).Of(st.Val)
				r.Check(vt.Is("Make", "slice") || isFreshBytes(vt), "C16.atomic", p.ShortFn(fn)+":fresh-copy:"+nm, p.InstrPos(in), "rotated "+nm+" is a freshly allocated copy",
					"the rotated "+nm+" is "+vt.String()+", not a fresh copy: writing the new value through the old buffer changes memory that the caller or another Filter still uses as its salt/info (their HMACs silently change)")
			}
		})
	}
	r.Floor("C16.atomic", 6)
	c.ruleRotationApplies("C16.atomic")
	c.ruleKeyWriters("C16.atomic")
	c.ruleMacPrivate("C16.mac")
	for _, name := range []string{"Rotate", "Process"} {
		c.ruleRejectLeavesState("C16.atomic", c.Fn("C16.atomic", PkgEncrypt, "Filter", name), "encrypt.Filter", []string{"Wrapper", "HmacSalt", "HmacInfo"})
	}
	c.ruleDerive()
	c.ruleKeyHandedOver("C16.derive")
	c.ruleOptionsForwarded()
	c.ruleTaggedRaw("C16.raw")
	c.ruleCopyLengths("C16.mac")
}

// derivesFromOpts: the variadic argument is the opts slice (make + appends of
// With* options) or an append to it.
func derivesFromOpts(v ssa.Value, d int) bool {
	if d > 8 {
		return false
	}
	switch x := v.(type) {
	case *ssa.MakeSlice:
		return true
	case *ssa.Alloc:
		return x.Comment == "makeslice"
	case *ssa.Phi:
		for _, e := range x.Edges {
			if !derivesFromOpts(e, d+1) {
				return false
			}
		}
		return true
	case *ssa.Call:
		if b, ok := x.Call.Value.(*ssa.Builtin); ok && b.Name() == "append" {
			return derivesFromOpts(x.Call.Args[0], d+1)
		}
	case *ssa.Slice:
		return derivesFromOpts(x.X, d+1)
	}
	return false
}

// atomicSection: all reads of the key material fields and the cryptographic
// call happen with Filter.l held continuously (one critical section).
func (c *Ctx) atomicSection(rule string, fn *ssa.Function, must *Locks, cryptoCall string) {
	p, r := c.P, c.R
	ok := true
	n := 0
	eachInstr(fn, func(in ssa.Instruction) {
		isRead := false
		if ld, isLd := in.(*ssa.UnOp); isLd && ld.Op == token.MUL {
			if fa, isFA := ld.X.(*ssa.FieldAddr); isFA && typeShort(fa.X.Type()) == "encrypt.Filter" {
				nm := fa.X.Type().Underlying().(*types.Pointer).Elem().Underlying().(*types.Struct).Field(fa.Field).Name()
				if nm == "Wrapper" || nm == "HmacSalt" || nm == "HmacInfo" {
					isRead = true
				}
			}
		}
		if ci, isCall := in.(ssa.CallInstruction); isCall && calleeName(ci.Common()) == cryptoCall {
			isRead = true
		}
		if !isRead {
			return
		}
		n++
		if _, held := must.At(in)["encrypt.Filter.l"]; !held {
			ok = false
			r.Bad(rule, p.ShortFn(fn)+":section", p.InstrPos(in), "key material is read, or the cryptographic call made, outside the filter's critical section: a concurrent Rotate could mix old and new key/salt/info within one value")
		}
	})
	// a single acquisition: the lock is not released and re-taken in between
	acq := 0
	eachInstr(fn, func(in ssa.Instruction) {
		if ci, ok := in.(*ssa.Call); ok {
			if op := lockOpOf(&ci.Call); op != nil && op.Class == "encrypt.Filter.l" && op.Acquire {
				acq++
			}
		}
	})
	if ok {
		r.Check(acq == 1 && n >= 2, rule, p.ShortFn(fn)+":section", p.Pos(fn.Pos()), fmt.Sprintf("%d key-material reads and the cryptographic call inside one critical section", n), fmt.Sprintf("%d acquisitions of the filter lock in one value operation (expected 1)", acq))
	}
}

// ruleEventKeyMaterial: everything Filter.Process does to give one event ONE set of key material (wrapper, salt,
// info) — decided for C16.event, and for C19 (a Rotate interleaved with a Send must not produce output protected with a
// mixture of the old and the new configuration).
func (c *Ctx) ruleEventKeyMaterial(rule string) {
	p, r := c.P, c.R
	must := c.MustLocks()
	if proc := c.Fn(rule, PkgEncrypt, "Filter", "Process"); proc != nil {
		tb := p.NewTerms(nil)
		isNEW := func(n string, cc *ssa.CallCommon) bool { return n == "filters/encrypt.NewEventWrapper" }
		nw := callsTo(proc, isNEW)
		viaHelper := false
		if len(nw) == 0 {
			// the derivation may sit in a helper of the filter that does nothing but derive: its one NewEventWrapper call
			// takes (its ctx, the receiver's Wrapper, its id parameter) and every return hands back that call's results
			for _, ci := range callsTo(proc, func(n string, cc *ssa.CallCommon) bool {
				sc := cc.StaticCallee()
				return sc != nil && sc.Blocks != nil && PkgPathOf(sc) == PkgEncrypt && sc.Signature.Recv() != nil && len(callsTo(sc, isNEW)) == 1
			}) {
				h := ci.Common().StaticCallee()
				hc := callsTo(h, isNEW)[0]
				htb := p.NewTerms(nil)
				ha := hc.Common().Args
				pure := len(h.Params) == 3 && ha[0] == ssa.Value(h.Params[1]) && htb.Of(ha[1]).Is("Field", "Wrapper") && htb.Of(ha[1]).Args[0].V == ssa.Value(h.Params[0]) && ha[2] == ssa.Value(h.Params[2])
				for _, ret := range Returns(h) {
					rv := RetVals(ret)
					if len(rv) != 2 {
						pure = false
						continue
					}
					if ex, ok := rv[0].(*ssa.Extract); !(isNilConst(rv[0]) || (ok && ex.Index == 0 && ex.Tuple == hc.(ssa.Value))) {
						pure = false
					}
					if !isNilConst(rv[1]) && !htb.Of(rv[1]).ContainsValue(hc.(ssa.Value)) {
						pure = false
					}
				}
				if pure {
					nw = []ssa.CallInstruction{ci}
					viaHelper = true
					r.Notes = append(r.Notes, rule+": the per-event wrapper is derived in the helper "+p.ShortFn(h))
					break
				}
			}
		}
		if len(nw) != 1 {
			r.Bad(rule, "Process:NewEventWrapper", p.Pos(proc.Pos()), fmt.Sprintf("%d NewEventWrapper calls (expected 1)", len(nw)))
		} else {
			a := nw[0].Common().Args
			okA := tb.Of(a[0]).IsParam("1:ctx") && tb.Of(a[1]).String() == "Field[Wrapper](Param(0:ef))" && strings.HasPrefix(tb.Of(a[2]).String(), "Call[invoke encrypt.EventWrapperInfo.EventId](")
			if viaHelper {
				okA = len(a) == 3 && tb.Of(a[0]).IsParam("0:ef") && tb.Of(a[1]).IsParam("1:ctx") && strings.HasPrefix(tb.Of(a[2]).String(), "Call[invoke encrypt.EventWrapperInfo.EventId](")
			}
			held := must.At(nw[0])
			_, locked := held["encrypt.Filter.l"]
			// ... for EVERY event that brings its own wrapper information: the derivation depends on the
			// payload alone (and on the early returns before it), not on which operations the filter's
			// configuration mentions — a tag can ask for encrypt / hmac-sha256 on its own, and such a
			// value would silently be protected with the filter's key instead of the event's
			okAlways := false
			for _, b := range proc.Blocks {
				cond, ts, _ := condOf(b)
				ex, isEx := cond.(*ssa.Extract)
				if !isEx || ex.Index != 1 {
					continue
				}
				ta, isTA := ex.Tuple.(*ssa.TypeAssert)
				if !isTA || !strings.HasSuffix(typeShort(ta.AssertedType), "EventWrapperInfo") {
					continue
				}
				// the derivation sits on the true side of that very branch, with nothing else in between
				if ts == nw[0].Block() || (ts.Dominates(nw[0].Block()) && unconditionalBetween(ts, nw[0].Block())) {
					okAlways = true
				}
			}
			r.Check(okAlways, rule, "Process:NewEventWrapper:every-wrapper-event", p.InstrPos(nw[0]), "the event wrapper is derived for every payload that implements EventWrapperInfo", "the per-event wrapper is derived only under a condition besides `the payload implements EventWrapperInfo` (a shortcut such as `no configured operation needs a wrapper`): a value whose tag itself asks for encrypt or hmac-sha256 is then protected with the filter's wrapper, salt and info instead of the event's")
			r.Check(okA && locked, rule, "Process:NewEventWrapper", p.InstrPos(nw[0]), "per-event wrapper = NewEventWrapper(ctx, ef.Wrapper, payload.EventId()) computed under the filter lock", "the per-event wrapper is not derived from (ctx, ef.Wrapper, EventId()) under the filter lock (held: "+held.String()+")")
			// the three options
			want := map[string]string{"filters/encrypt.WithWrapper": "Extract[0](" + tb.Of(nw[0].(ssa.Value)).String() + ")", "filters/encrypt.WithInfo": "Call[invoke encrypt.EventWrapperInfo.HmacInfo]", "filters/encrypt.WithSalt": "Call[invoke encrypt.EventWrapperInfo.HmacSalt]"}
			for name, w := range want {
				cs := callsTo(proc, func(n string, cc *ssa.CallCommon) bool { return n == name })
				pos := p.Pos(proc.Pos())
				if len(cs) > 0 {
					pos = p.InstrPos(cs[0])
				}
				if name == "filters/encrypt.WithWrapper" {
					ok := len(cs) == 1 && strings.HasPrefix(tb.Of(cs[0].Common().Args[0]).String(), w)
					r.Check(ok, rule, "Process:"+name, pos, "per-event option built from the payload's own value", "per-event option "+name+" is not built from the matching per-event value")
					continue
				}
				// salt / info: the payload's own value, or else the filter's — taken in the SAME critical
				// section as the wrapper the event wrapper is derived from. Leaving the fallback to the
				// value operations (which read the filter's field when the option is nil) pairs this
				// event's wrapper with whatever salt/info a Rotate has installed meanwhile.
				field := map[string]string{"filters/encrypt.WithInfo": "HmacInfo", "filters/encrypt.WithSalt": "HmacSalt"}[name]
				if len(cs) != 1 {
					r.Bad(rule, "Process:"+name, pos, fmt.Sprintf("%d calls of %s in Process (expected 1)", len(cs), name))
					continue
				}
				var leaves []ssa.Value
				var walk func(v ssa.Value, seen map[ssa.Value]bool)
				walk = func(v ssa.Value, seen map[ssa.Value]bool) {
					if seen[v] {
						return
					}
					seen[v] = true
					if ph, ok := v.(*ssa.Phi); ok {
						for _, e := range ph.Edges {
							walk(e, seen)
						}
						return
					}
					leaves = append(leaves, v)
				}
				walk(cs[0].Common().Args[0], map[ssa.Value]bool{})
				// loads of the filter's field (ef.<field>)
				isFieldLoad := func(v ssa.Value) bool {
					ld, ok := v.(*ssa.UnOp)
					if !ok || ld.Op != token.MUL {
						return false
					}
					fa, ok := ld.X.(*ssa.FieldAddr)
					if !ok || fa.X != ssa.Value(proc.Params[0]) {
						return false
					}
					return fa.X.Type().Underlying().(*types.Pointer).Elem().Underlying().(*types.Struct).Field(fa.Field).Name() == field
				}
				// make([]byte, len(ef.<field>)) filled by copy(_, ef.<field>) is a snapshot too; its loads and the
				// copy itself are then what has to happen in the wrapper's critical section
				extra := map[ssa.Instruction]bool{}
				madeCopy := func(mk *ssa.MakeSlice) bool {
					ln, ok := mk.Len.(*ssa.Call)
					if !ok {
						return false
					}
					if b, isB := ln.Call.Value.(*ssa.Builtin); !isB || b.Name() != "len" || !isFieldLoad(ln.Call.Args[0]) {
						return false
					}
					found := false
					for _, ref := range *mk.Referrers() {
						cp, ok := ref.(*ssa.Call)
						if !ok {
							continue
						}
						if b, isB := cp.Call.Value.(*ssa.Builtin); isB && b.Name() == "copy" && cp.Call.Args[0] == ssa.Value(mk) && isFieldLoad(cp.Call.Args[1]) {
							found = true
							extra[cp] = true
							extra[cp.Call.Args[1].(*ssa.UnOp)] = true
							extra[ln.Call.Args[0].(*ssa.UnOp)] = true
						}
					}
					return found
				}
				own, fallback, other := false, false, ""
				for _, lf := range leaves {
					lt := tb.Of(lf).String()
					mk, isMk := lf.(*ssa.MakeSlice)
					switch {
					case strings.HasPrefix(lt, w):
						own = true
					case strings.Contains(lt, "Field["+field+"](Param(0:ef))"):
						fallback = true
					case isMk && madeCopy(mk):
						fallback = true
					default:
						other = lt
					}
				}
				r.Check(own && other == "", rule, "Process:"+name, pos, "per-event option built from the payload's own value (or the filter's when it has none)", "per-event option "+name+" is not built from the matching per-event value: "+other)
				// the filter's field is read in the critical section of the wrapper
				sameSection := false
				if fallback {
					sameSection = true
					var release ssa.Instruction
					eachInstr(proc, func(in ssa.Instruction) {
						if ci, ok := in.(ssa.CallInstruction); ok {
							if op := lockOpOf(ci.Common()); op != nil && !op.Acquire && op.Class == "encrypt.Filter.l" && dominatesInstr(nw[0], in) && (release == nil || dominatesInstr(in, release)) {
								release = in
							}
						}
					})
					nLoads := 0
					eachInstr(proc, func(in ssa.Instruction) {
						if cp, isCall := in.(*ssa.Call); isCall && extra[cp] {
							if _, held := must.At(in)["encrypt.Filter.l"]; !held || release == nil || dominatesInstr(release, in) {
								sameSection = false
							}
							return
						}
						ld, ok := in.(*ssa.UnOp)
						if !ok || !isFieldLoad(ld) {
							return
						}
						if !tb.Of(cs[0].Common().Args[0]).ContainsValue(ld) && !extra[ld] {
							return
						}
						nLoads++
						if _, held := must.At(in)["encrypt.Filter.l"]; !held || release == nil || dominatesInstr(release, in) {
							sameSection = false
						}
					})
					if nLoads == 0 {
						sameSection = false
					}
				}
				// ... and what is taken is a non-nil slice even when the filter has no salt / info: hmacSha256 uses
				// an option only when it is non-nil and otherwise reads the filter's field at the time of THAT
				// value — a nil snapshot (bytes.Clone(nil), append([]byte(nil), nil...)) does not pin anything.
				if fallback {
					var nonNilSlice func(v ssa.Value, d int) bool
					nonNilSlice = func(v ssa.Value, d int) bool {
						if d > 4 {
							return false
						}
						switch x := v.(type) {
						case *ssa.MakeSlice:
							return true
						case *ssa.Slice:
							_, isArr := x.X.(*ssa.Alloc)
							return isArr
						case *ssa.Call:
							if b, ok := x.Call.Value.(*ssa.Builtin); ok && b.Name() == "append" {
								return nonNilSlice(x.Call.Args[0], d+1)
							}
						}
						return false
					}
					okNN := true
					var visit func(v ssa.Value, seen map[ssa.Value]bool)
					visit = func(v ssa.Value, seen map[ssa.Value]bool) {
						if seen[v] {
							return
						}
						seen[v] = true
						if ph, ok := v.(*ssa.Phi); ok {
							for _, e := range ph.Edges {
								visit(e, seen)
							}
							return
						}
						if strings.Contains(tb.Of(v).String(), "Field["+field+"](Param(0:ef))") && !nonNilSlice(v, 0) {
							okNN = false
						}
					}
					visit(cs[0].Common().Args[0], map[ssa.Value]bool{})
					r.Check(okNN, rule, "Process:"+name+":snapshot-non-nil", pos, "the snapshot of the filter's "+field+" is a non-nil slice also when the filter has none",
						"the snapshot of the filter's "+field+" can be nil (a clone of, or an append onto, a nil slice is nil): hmacSha256 ignores a nil option and reads the filter's "+field+" when each value is handled, so an event that started while the filter had no "+field+" is not pinned — a rotation that introduces one while the event is processed pairs the event's wrapper with the new "+field)
				}
				r.Check(fallback && sameSection, rule, "Process:"+name+":snapshot", pos, "when the payload has no "+field+" the filter's is taken in the critical section in which the event wrapper is derived", "when the payload brings no "+field+" the option stays nil and every value operation falls back to the filter's "+field+" at the time of THAT value: a Rotate while the event is processed pairs the wrapper derived from the old filter wrapper with the new "+field+" (key material that is neither the old nor the new)")
			}
		}
		// every value operation in Process receives opts...
		n := 0
		eachInstr(proc, func(in ssa.Instruction) {
			ci, ok := in.(ssa.CallInstruction)
			if !ok {
				return
			}
			switch calleeName(ci.Common()) {
			case "(*filters/encrypt.Filter).filterValue", "(*filters/encrypt.Filter).filterSlice", "(*filters/encrypt.Filter).filterField", "(*filters/encrypt.Filter).filterTaggable", "(*filters/encrypt.trackedMaps).processUnfiltered":
				n++
				last := ci.Common().Args[len(ci.Common().Args)-1]
				t := tb.Of(last)
				ok := strings.Contains(t.String(), "filters/encrypt.WithWrapper") || strings.Contains(t.String(), "Make(slice)") || t.Op == "Phi" || t.Op == "Call" || t.Op == "Slice"
				// the variadic must be (derived from) the opts slice built in Process
				r.Check(ok && derivesFromOpts(last, 0), rule, "Process->"+calleeName(ci.Common()), p.InstrPos(in), "the per-event options are handed on", "a value operation is called without the per-event options: it would use the filter key although the event has its own")
			}
		})
		if n < 6 {
			r.Und(rule, "instance-floor", "", fmt.Sprintf("only %d value operations found in Process", n))
		}
	}
}

// isFreshBytes: a freshly allocated copy spelled with the library: bytes.Clone(x), slices.Clone(x),
// append([]byte(nil), x...).
func isFreshBytes(t *Term) bool {
	if t == nil || t.Op != "Call" {
		return false
	}
	if t.Name == "bytes.Clone" || strings.HasPrefix(t.Name, "slices.Clone[") {
		return true
	}
	return t.Name == "builtin append" && len(t.Args) == 2 && t.Args[0].Is("Const", "nil")
}
