package check

import (
	"fmt"
	"go/types"
	"sort"
	"strings"

	"golang.org/x/tools/go/ssa"
)

// LockSet maps a lock class ("pkg.Type.field") to the mode held ('R' or 'W').
type LockSet map[string]byte

func (s LockSet) clone() LockSet {
	if s == nil {
		return nil
	}
	c := make(LockSet, len(s))
	for k, v := range s {
		c[k] = v
	}
	return c
}

func (s LockSet) String() string {
	if len(s) == 0 {
		return "{}"
	}
	var ks []string
	for k, m := range s {
		ks = append(ks, k+":"+string(m))
	}
	sort.Strings(ks)
	return "{" + strings.Join(ks, ",") + "}"
}

func (s LockSet) equal(o LockSet) bool {
	if (s == nil) != (o == nil) || len(s) != len(o) {
		return false
	}
	for k, v := range s {
		if o[k] != v {
			return false
		}
	}
	return true
}

// meet combines two states. must=true: intersection (weaker mode wins);
// must=false: union (stronger mode wins). nil is "unvisited" (identity).
func meet(a, b LockSet, must bool) LockSet {
	if a == nil {
		return b.clone()
	}
	if b == nil {
		return a.clone()
	}
	out := LockSet{}
	if must {
		for k, m := range a {
			if m2, ok := b[k]; ok {
				if m == 'R' || m2 == 'R' {
					out[k] = 'R'
				} else {
					out[k] = 'W'
				}
			}
		}
	} else {
		for k, m := range a {
			out[k] = m
		}
		for k, m := range b {
			if out[k] != 'W' {
				out[k] = m
			}
		}
	}
	return out
}

// LockOp describes a mutex operation.
type LockOp struct {
	Class   string
	Acquire bool
	Mode    byte // 'R' or 'W'
}

// lockClassOf names the lock whose address is v: "pkg.Type.field" when v is a
// field address, otherwise a function-local name.
func lockClassOf(v ssa.Value) string {
	switch x := v.(type) {
	case *ssa.FieldAddr:
		st := x.X.Type().Underlying().(*types.Pointer).Elem()
		fld := st.Underlying().(*types.Struct).Field(x.Field)
		return typeShort(st) + "." + fld.Name()
	case *ssa.Alloc:
		return "local." + x.Comment
	case *ssa.Global:
		return "global." + x.Name()
	}
	return "unknown." + v.Name()
}

func typeShort(t types.Type) string {
	if p, ok := t.(*types.Pointer); ok {
		t = p.Elem()
	}
	if n, ok := t.(*types.Named); ok {
		pk := ""
		if n.Obj().Pkg() != nil {
			pk = n.Obj().Pkg().Name() + "."
		}
		return pk + n.Obj().Name()
	}
	return t.String()
}

// lockOpOf recognises calls to sync.(RW)Mutex methods.
func lockOpOf(c *ssa.CallCommon) *LockOp {
	fn := c.StaticCallee()
	if fn == nil || fn.Pkg == nil || fn.Pkg.Pkg.Path() != "sync" || fn.Signature.Recv() == nil || len(c.Args) == 0 {
		return nil
	}
	rt := typeShort(fn.Signature.Recv().Type())
	if rt != "sync.Mutex" && rt != "sync.RWMutex" {
		return nil
	}
	op := &LockOp{Class: lockClassOf(c.Args[0])}
	switch fn.Name() {
	case "Lock":
		op.Acquire, op.Mode = true, 'W'
	case "RLock":
		op.Acquire, op.Mode = true, 'R'
	case "Unlock":
		op.Acquire, op.Mode = false, 'W'
	case "RUnlock":
		op.Acquire, op.Mode = false, 'R'
	case "TryLock", "TryRLock":
		op.Acquire, op.Mode = true, 'T' // not used by the repo; reported as undecided by the pairing rule
	default:
		return nil
	}
	return op
}

// PairIssue is a lock pairing problem inside one function.
type PairIssue struct {
	Fn     *ssa.Function
	Instr  ssa.Instruction
	Class  string
	Detail string
}

// EdgeKind of an analysed call edge.
type CallEdge struct {
	Caller *ssa.Function
	Site   ssa.Instruction // *ssa.Call, *ssa.Go, *ssa.Defer, or *ssa.MakeClosure (closure use)
	Callee *ssa.Function
	Kind   string // static | invoke | closure | go | defer
}

// Locks is the result of the lock-set analysis in one mode.
type Locks struct {
	p     *Prog
	Must  bool
	Entry map[*ssa.Function]LockSet
	// before[in] is the lock set held just before instruction in
	before map[ssa.Instruction]LockSet
	// deferred[in] is the set of lock classes with a deferred release registered before in
	deferred map[ssa.Instruction]LockSet
	Issues   []PairIssue
	// why[fn][class] explains where an entry lock comes from (may mode)
	why   map[*ssa.Function]map[string]*CallEdge
	Edges map[*ssa.Function][]*CallEdge // outgoing repo-internal edges
	In    map[*ssa.Function][]*CallEdge
	funcs []*ssa.Function
	// CutEdge, when set, removes edges from the graph (used for exception E1)
	cut func(e *CallEdge) bool
}

// At returns the lock set held just before in.
func (l *Locks) At(in ssa.Instruction) LockSet { return l.before[in] }

// DeferredAt returns the classes with a deferred release registered before in.
func (l *Locks) DeferredAt(in ssa.Instruction) LockSet { return l.deferred[in] }

// externallyCallable: the function can be entered from outside the analysed
// packages, or through an interface / function value, with nothing held.
func (p *Prog) externallyCallable(fn *ssa.Function, addrTaken map[*ssa.Function]bool) bool {
	if fn.Parent() != nil {
		return false // closures are handled through their creation site
	}
	if addrTaken[fn] {
		return true
	}
	obj := fn.Object()
	if obj == nil {
		return true
	}
	if !obj.Exported() {
		// an unexported method may still be reached through an interface
		if fn.Signature.Recv() != nil && p.implementsSomeInterface(fn) {
			return true
		}
		return false
	}
	if recv := fn.Signature.Recv(); recv != nil {
		t := recv.Type()
		if pt, ok := t.(*types.Pointer); ok {
			t = pt.Elem()
		}
		if n, ok := t.(*types.Named); ok && !n.Obj().Exported() {
			return p.implementsSomeInterface(fn)
		}
	}
	return true
}

// implementsSomeInterface: fn's name is a method of some interface type that
// fn's receiver implements, among interfaces declared in the analysed packages
// or error/Stringer.
func (p *Prog) implementsSomeInterface(fn *ssa.Function) bool {
	recv := fn.Signature.Recv()
	if recv == nil {
		return false
	}
	for _, sp := range p.SSAPkgs {
		if !strings.HasPrefix(sp.Pkg.Path(), ModRoot) && !strings.HasPrefix(sp.Pkg.Path(), PkgCtl) {
			continue
		}
		sc := sp.Pkg.Scope()
		for _, n := range sc.Names() {
			tn, ok := sc.Lookup(n).(*types.TypeName)
			if !ok {
				continue
			}
			it, ok := tn.Type().Underlying().(*types.Interface)
			if !ok {
				continue
			}
			has := false
			for i := 0; i < it.NumMethods(); i++ {
				if it.Method(i).Name() == fn.Name() {
					has = true
				}
			}
			if has && (types.Implements(recv.Type(), it) || types.Implements(types.NewPointer(recv.Type()), it)) {
				return true
			}
		}
	}
	switch fn.Name() {
	case "Error", "String", "Write", "Read", "Close":
		return true
	}
	return false
}

// buildEdges computes the repo-internal call edges of every analysed function.
func (p *Prog) buildEdges(funcs []*ssa.Function) (map[*ssa.Function][]*CallEdge, map[*ssa.Function]bool) {
	inSet := map[*ssa.Function]bool{}
	for _, f := range funcs {
		inSet[f] = true
	}
	addrTaken := map[*ssa.Function]bool{}
	edges := map[*ssa.Function][]*CallEdge{}
	cg := p.CG()
	// closures handed to a function as an argument: where that function CALLS the parameter, the
	// closure runs with whatever the function holds at that point (a Range that calls its
	// callback under its own lock), not only with what the caller held when it passed it
	closureArgs := map[*ssa.Function]map[int][]*ssa.Function{}
	for _, f := range funcs {
		for _, b := range f.Blocks {
			for _, in := range b.Instrs {
				ci, ok := in.(ssa.CallInstruction)
				if !ok || ci.Common().IsInvoke() {
					continue
				}
				sc := ci.Common().StaticCallee()
				if sc == nil || !inSet[sc] {
					continue
				}
				for i, a := range ci.Common().Args {
					if mc, ok := a.(*ssa.MakeClosure); ok {
						if closureArgs[sc] == nil {
							closureArgs[sc] = map[int][]*ssa.Function{}
						}
						closureArgs[sc][i] = append(closureArgs[sc][i], mc.Fn.(*ssa.Function))
					}
				}
			}
		}
	}
	for _, f := range funcs {
		node := cg.Nodes[f]
		for _, b := range f.Blocks {
			for _, in := range b.Instrs {
				// address-taken functions: a *ssa.Function used as an operand other than the call target
				for _, op := range in.Operands(nil) {
					if op == nil || *op == nil {
						continue
					}
					if tf, ok := (*op).(*ssa.Function); ok {
						if ci, ok := in.(ssa.CallInstruction); ok && ci.Common().Value == tf && !ci.Common().IsInvoke() {
							// call target; but it may also appear among the args
							for _, a := range ci.Common().Args {
								if a == tf {
									addrTaken[tf] = true
								}
							}
							continue
						}
						addrTaken[tf] = true
					}
				}
				ci, ok := in.(ssa.CallInstruction)
				if !ok {
					continue
				}
				kind := "static"
				switch in.(type) {
				case *ssa.Go:
					kind = "go"
				case *ssa.Defer:
					kind = "defer"
				}
				cc := ci.Common()
				if cc.IsInvoke() {
					if node != nil {
						for _, e := range node.Out {
							if e.Site == ci && inSet[e.Callee.Func] {
								k := "invoke"
								if kind != "static" {
									k = kind
								}
								edges[f] = append(edges[f], &CallEdge{Caller: f, Site: in, Callee: e.Callee.Func, Kind: k})
							}
						}
					}
					continue
				}
				if sc := cc.StaticCallee(); sc != nil {
					if inSet[sc] {
						edges[f] = append(edges[f], &CallEdge{Caller: f, Site: in, Callee: sc, Kind: kind})
					}
				}
				// a call of one of f's own function-typed parameters: the closures passed for it
				if prm, isPrm := cc.Value.(*ssa.Parameter); isPrm {
					for i, fp := range f.Params {
						if fp == prm {
							for _, cf := range closureArgs[f][i] {
								if inSet[cf] {
									edges[f] = append(edges[f], &CallEdge{Caller: f, Site: in, Callee: cf, Kind: kind})
								}
							}
						}
					}
				}
				// closures passed as arguments (or called directly, handled as static above when Value is MakeClosure)
				for ai, a := range cc.Args {
					if mc, ok := a.(*ssa.MakeClosure); ok {
						cf := mc.Fn.(*ssa.Function)
						// ... unless the callee is a function of the program that calls that very parameter itself (and
						// does nothing else with it): the closure then runs with what the CALLEE holds where it calls
						// it (the edge added above), not with what the caller held when it handed it over
						if sc := cc.StaticCallee(); sc != nil && inSet[sc] && kind == "static" && paramOnlyCalled(sc, ai) {
							continue
						}
						k := "closure"
						if kind == "go" {
							k = "go"
						}
						edges[f] = append(edges[f], &CallEdge{Caller: f, Site: in, Callee: cf, Kind: k})
					}
				}
			}
		}
	}
	return edges, addrTaken
}

// closureUsesOnlyCalls reports whether every use of the closure value is as a
// call target or a call argument (so its entry lock set can be inherited).
func closureEscapes(mc *ssa.MakeClosure) bool {
	refs := mc.Referrers()
	if refs == nil {
		return true
	}
	for _, r := range *refs {
		switch r := r.(type) {
		case ssa.CallInstruction:
			_ = r
		case *ssa.DebugRef:
		default:
			return true
		}
	}
	return false
}

// AnalyseLocks runs the lock-set dataflow over funcs. must selects the
// must-hold (intersection) or may-hold (union) variant. cut removes call edges.
func (p *Prog) AnalyseLocks(funcs []*ssa.Function, must bool, cut func(e *CallEdge) bool) *Locks {
	l := &Locks{p: p, Must: must, Entry: map[*ssa.Function]LockSet{}, before: map[ssa.Instruction]LockSet{},
		deferred: map[ssa.Instruction]LockSet{}, why: map[*ssa.Function]map[string]*CallEdge{}, funcs: funcs, cut: cut,
		In: map[*ssa.Function][]*CallEdge{}}
	edges, addrTaken := p.buildEdges(funcs)
	if cut != nil {
		for f, es := range edges {
			var keep []*CallEdge
			for _, e := range es {
				if !cut(e) {
					keep = append(keep, e)
				}
			}
			edges[f] = keep
		}
	}
	l.Edges = edges
	for _, es := range edges {
		for _, e := range es {
			l.In[e.Callee] = append(l.In[e.Callee], e)
		}
	}
	root := map[*ssa.Function]bool{}
	for _, f := range funcs {
		if f.Parent() == nil {
			if p.externallyCallable(f, addrTaken) {
				root[f] = true
			}
		} else if mc := p.ClosureSite(f); mc == nil || closureEscapes(mc) {
			root[f] = true
		}
		if len(l.In[f]) == 0 {
			root[f] = true // nothing calls it inside the repo: analysed with nothing held
		}
	}
	// initial entry states
	for _, f := range funcs {
		if must {
			if root[f] {
				l.Entry[f] = LockSet{}
			} else {
				l.Entry[f] = nil // TOP, refined from call sites
			}
		} else {
			l.Entry[f] = LockSet{}
		}
	}
	for iter := 0; iter < 50; iter++ {
		l.Issues = nil
		for _, f := range funcs {
			l.flow(f)
		}
		changed := false
		for _, f := range funcs {
			if must && root[f] {
				continue
			}
			var acc LockSet
			if !must {
				acc = LockSet{}
			}
			for _, e := range l.In[f] {
				var h LockSet
				switch e.Kind {
				case "go":
					if must {
						h = LockSet{}
					} else {
						h = l.before[e.Site] // A6
					}
				case "defer":
					h = l.deferredHeld(e.Site)
				default:
					h = l.before[e.Site]
				}
				if h == nil {
					if must {
						continue // caller not yet evaluated (TOP)
					}
					h = LockSet{}
				}
				if !must {
					for k := range h {
						if _, ok := acc[k]; !ok {
							if l.why[f] == nil {
								l.why[f] = map[string]*CallEdge{}
							}
							if l.why[f][k] == nil {
								l.why[f][k] = e
							}
						}
					}
				}
				acc = meet(acc, h, must)
			}
			if must && acc == nil {
				continue
			}
			if !acc.equal(l.Entry[f]) {
				l.Entry[f] = acc
				changed = true
			}
		}
		if !changed {
			break
		}
	}
	// functions never resolved (unreachable cycles): treat as empty
	for _, f := range funcs {
		if l.Entry[f] == nil {
			l.Entry[f] = LockSet{}
			l.flow(f)
		}
	}
	return l
}

// deferredHeld: the locks certainly (must) / possibly (may) held when the
// deferred call registered at site runs.
func (l *Locks) deferredHeld(site ssa.Instruction) LockSet {
	h := l.before[site]
	if h == nil {
		return nil
	}
	out := LockSet{}
	d := l.deferred[site]
	var entry LockSet
	if fn := site.Parent(); fn != nil {
		entry = l.Entry[fn]
	}
	for k, m := range h {
		if l.Must {
			// held when the deferred call runs: its release was deferred earlier in this
			// function (runs later, LIFO), or the lock belongs to the caller (released only
			// after this function has returned)
			_, deferredHere := d[k]
			_, callers := entry[k]
			if deferredHere || callers {
				out[k] = m
			}
		} else {
			out[k] = m
		}
	}
	return out
}

func (l *Locks) flow(f *ssa.Function) {
	entry := l.Entry[f]
	if entry == nil {
		return
	}
	n := len(f.Blocks)
	in := make([]LockSet, n)
	din := make([]LockSet, n)
	out := make([]LockSet, n)
	dout := make([]LockSet, n)
	in[0] = entry.clone()
	din[0] = LockSet{}
	work := []int{0}
	inWork := map[int]bool{0: true}
	for len(work) > 0 {
		bi := work[0]
		work = work[1:]
		inWork[bi] = false
		b := f.Blocks[bi]
		cur := in[bi].clone()
		dcur := din[bi].clone()
		if cur == nil {
			continue
		}
		for _, ins := range b.Instrs {
			l.before[ins] = cur.clone()
			l.deferred[ins] = dcur.clone()
			switch x := ins.(type) {
			case *ssa.Call:
				if op := lockOpOf(x.Common()); op != nil {
					if op.Acquire {
						cur[op.Class] = op.Mode
					} else {
						delete(cur, op.Class)
					}
				}
			case *ssa.Defer:
				if op := lockOpOf(x.Common()); op != nil && !op.Acquire {
					dcur[op.Class] = op.Mode
				}
			}
		}
		if !cur.equal(out[bi]) || !dcur.equal(dout[bi]) || out[bi] == nil {
			out[bi] = cur
			dout[bi] = dcur
			for _, s := range b.Succs {
				ni := meet(in[s.Index], cur, l.Must)
				nd := meet(din[s.Index], dcur, true)
				if in[s.Index] == nil || !ni.equal(in[s.Index]) || !nd.equal(din[s.Index]) {
					in[s.Index] = ni
					din[s.Index] = nd
					if !inWork[s.Index] {
						work = append(work, s.Index)
						inWork[s.Index] = true
					}
				}
			}
		}
	}
	// pairing issues (must mode only; evaluated on the final states)
	if !l.Must {
		return
	}
	for _, b := range f.Blocks {
		for _, ins := range b.Instrs {
			cur := l.before[ins]
			if cur == nil {
				continue
			}
			switch x := ins.(type) {
			case *ssa.Call:
				if op := lockOpOf(x.Common()); op != nil {
					if op.Mode == 'T' {
						l.Issues = append(l.Issues, PairIssue{f, ins, op.Class, "TryLock is not modelled"})
					} else if op.Acquire {
						if _, held := cur[op.Class]; held {
							l.Issues = append(l.Issues, PairIssue{f, ins, op.Class, "acquired while already held on every path to this point (self-deadlock)"})
						}
					} else {
						m, held := cur[op.Class]
						if !held {
							l.Issues = append(l.Issues, PairIssue{f, ins, op.Class, "released but not held on every path to this point"})
						} else if m != op.Mode {
							l.Issues = append(l.Issues, PairIssue{f, ins, op.Class, fmt.Sprintf("released in mode %c but held in mode %c", op.Mode, m)})
						} else if _, inherited := entry[op.Class]; inherited && l.Must {
							l.Issues = append(l.Issues, PairIssue{f, ins, op.Class, "hand-off: releases a lock that every caller holds across this call (the caller's critical section is split in two: what it established before the call can change before the call returns, and others can act on state the caller is in the middle of updating)"})
						}
					}
				}
			case *ssa.Defer:
				if op := lockOpOf(x.Common()); op != nil {
					if op.Acquire {
						l.Issues = append(l.Issues, PairIssue{f, ins, op.Class, "deferred acquisition"})
					} else {
						m, held := cur[op.Class]
						if !held {
							l.Issues = append(l.Issues, PairIssue{f, ins, op.Class, "deferred release of a lock not held at the defer statement"})
						} else if m != op.Mode {
							l.Issues = append(l.Issues, PairIssue{f, ins, op.Class, fmt.Sprintf("deferred release in mode %c but held in mode %c", op.Mode, m)})
						}
						if _, dup := l.deferred[ins][op.Class]; dup {
							l.Issues = append(l.Issues, PairIssue{f, ins, op.Class, "second deferred release of the same lock"})
						}
					}
				}
			case *ssa.Return:
				d := l.deferred[ins]
				for k := range cur {
					if _, e := entry[k]; e {
						continue
					}
					if _, ok := d[k]; !ok {
						l.Issues = append(l.Issues, PairIssue{f, ins, k, "function returns with the lock still held (no release on this path)"})
					}
				}
				for k := range entry {
					if _, ok := cur[k]; !ok {
						l.Issues = append(l.Issues, PairIssue{f, ins, k, "function releases a lock owned by its caller"})
					}
				}
			}
		}
	}
}

// WhyChain explains how class can be held on entry to fn (may mode).
func (l *Locks) WhyChain(fn *ssa.Function, class string) []string {
	var out []string
	seen := map[*ssa.Function]bool{}
	for fn != nil && !seen[fn] {
		seen[fn] = true
		e := l.why[fn][class]
		if e == nil {
			break
		}
		out = append(out, fmt.Sprintf("%s is called (%s) from %s at %s with %s held", l.p.ShortFn(fn), e.Kind, l.p.ShortFn(e.Caller), l.p.InstrPos(e.Site), class))
		// does the caller acquire it locally?
		if _, ok := l.Entry[e.Caller][class]; !ok {
			out = append(out, fmt.Sprintf("%s acquires %s itself", l.p.ShortFn(e.Caller), class))
			break
		}
		fn = e.Caller
	}
	return out
}

// ---------------------------------------------------------------------------
// Field accesses

// Access is one read or write of a struct field (or of the map/slice it holds).
type Access struct {
	Fn     *ssa.Function
	Instr  ssa.Instruction
	Owner  string // "pkg.Type"
	Field  string
	Write  bool
	Elem   bool // access to the contents of the map/slice stored in the field
	Addr   bool // the field's address is passed to a call (method on the field)
	Callee string
	Fresh  bool // base object allocated in this very function (construction)
	Held   LockSet
}

func (a Access) Key() string { return a.Owner + "." + a.Field }

// isFresh: v points into an object allocated by this very function (or
// returned fresh by a repo constructor, or reachable from such an object), so
// an access through it is construction, not use of a shared object.
func isFresh(v ssa.Value) bool { return isFreshRec(v, map[ssa.Value]bool{}, 0) }

func isFreshRec(v ssa.Value, seen map[ssa.Value]bool, depth int) bool {
	if seen[v] {
		return true // cycles through phi are neutral
	}
	seen[v] = true
	switch x := v.(type) {
	case *ssa.Alloc:
		return true
	case *ssa.FieldAddr:
		return isFreshRec(x.X, seen, depth)
	case *ssa.IndexAddr:
		return isFreshRec(x.X, seen, depth)
	case *ssa.Phi:
		for _, e := range x.Edges {
			if !isFreshRec(e, seen, depth) {
				return false
			}
		}
		return true
	case *ssa.UnOp:
		// a pointer loaded from a fresh object: still private as long as the
		// object has not been published; accepted for one level of indirection
		if x.Op.String() == "*" {
			if cell, ok := x.X.(*ssa.Alloc); ok {
				// a local variable holding a pointer: fresh iff everything stored in it is
				refs := cell.Referrers()
				if refs == nil {
					return false
				}
				n := 0
				for _, r := range *refs {
					switch u := r.(type) {
					case *ssa.Store:
						if u.Addr != cell || !isFreshRec(u.Val, seen, depth) {
							return false
						}
						n++
					case *ssa.UnOp, *ssa.DebugRef:
					default:
						return false // captured or escaping cell
					}
				}
				return n > 0
			}
			return isFreshRec(x.X, seen, depth)
		}
	case *ssa.Extract:
		return isFreshRec(x.Tuple, seen, depth)
	case *ssa.TypeAssert:
		return isFreshRec(x.X, seen, depth)
	case *ssa.Call:
		if sc := x.Call.StaticCallee(); sc != nil && sc.String() == "github.com/mitchellh/copystructure.Copy" {
			return true // a deep copy is a fresh private object (A4)
		}
		if depth >= 2 {
			return false
		}
		if sc := x.Call.StaticCallee(); sc != nil && sc.Blocks != nil && sc.Pkg != nil && strings.HasPrefix(sc.Pkg.Pkg.Path(), ModRoot) {
			// constructor summary: every pointer result of every return is fresh
			for _, b := range sc.Blocks {
				for _, in := range b.Instrs {
					if r, ok := in.(*ssa.Return); ok {
						for _, res := range r.Results {
							if _, isPtr := res.Type().Underlying().(*types.Pointer); !isPtr {
								continue
							}
							if c, ok := res.(*ssa.Const); ok && c.IsNil() {
								continue
							}
							if !isFreshRec(res, map[ssa.Value]bool{}, depth+1) {
								return false
							}
						}
					}
				}
			}
			return true
		}
	case *ssa.Slice:
		return isFreshRec(x.X, seen, depth)
	}
	return false
}

// CollectAccesses lists the accesses to fields of named struct types accepted
// by want, with the must-hold lock set at each.
func (p *Prog) CollectAccesses(funcs []*ssa.Function, must *Locks, want func(owner string) bool) []Access {
	var out []Access
	for _, f := range funcs {
		for _, b := range f.Blocks {
			for _, ins := range b.Instrs {
				switch x := ins.(type) {
				case *ssa.FieldAddr:
					st := x.X.Type().Underlying().(*types.Pointer).Elem()
					owner := typeShort(st)
					if _, ok := st.(*types.Named); !ok || !want(owner) {
						continue
					}
					fld := st.Underlying().(*types.Struct).Field(x.Field)
					base := Access{Fn: f, Owner: owner, Field: fld.Name(), Fresh: isFresh(x.X)}
					out = append(out, p.classifyAddrUses(x, base, must, map[ssa.Value]bool{})...)
				case *ssa.Field:
					st := x.X.Type()
					owner := typeShort(st)
					if _, ok := st.(*types.Named); !ok || !want(owner) {
						continue
					}
					fld := st.Underlying().(*types.Struct).Field(x.Field)
					// reading a field of a struct value: the struct was copied earlier; the
					// copy itself is the access of interest only when it is a load through a pointer
					_ = fld
				}
			}
		}
	}
	return out
}

func (p *Prog) classifyAddrUses(addr ssa.Value, base Access, must *Locks, seen map[ssa.Value]bool) []Access {
	if seen[addr] {
		return nil
	}
	seen[addr] = true
	var out []Access
	refs := addr.Referrers()
	if refs == nil {
		return nil
	}
	mk := func(in ssa.Instruction, write, elem bool) Access {
		a := base
		a.Instr = in
		a.Write = write
		a.Elem = elem
		a.Held = must.At(in)
		return a
	}
	for _, r := range *refs {
		switch u := r.(type) {
		case *ssa.Store:
			if u.Addr == addr {
				out = append(out, mk(u, true, base.Elem))
			}
			// storing the address itself elsewhere: escape, treated as read
		case *ssa.UnOp:
			out = append(out, mk(u, false, base.Elem))
			// contents of maps/slices/pointers loaded from the field
			out = append(out, p.classifyValueUses(u, base, must)...)
		case *ssa.FieldAddr:
			// nested struct field: attribute to the outer field as well
			nb := base
			out = append(out, p.classifyAddrUses(u, nb, must, seen)...)
		case *ssa.IndexAddr:
			nb := base
			nb.Elem = true
			out = append(out, p.classifyAddrUses(u, nb, must, seen)...)
		case ssa.CallInstruction:
			a := mk(u, false, base.Elem)
			a.Addr = true
			if sc := u.Common().StaticCallee(); sc != nil {
				a.Callee = sc.String()
			} else if u.Common().IsInvoke() {
				a.Callee = u.Common().Method.FullName()
			}
			if lockOpOf(u.Common()) != nil {
				continue // the mutex itself
			}
			out = append(out, a)
		case *ssa.DebugRef:
		default:
			// MakeInterface, Phi, etc.: the address escapes; record as read
			if in, ok := r.(ssa.Instruction); ok {
				out = append(out, mk(in, false, base.Elem))
			}
		}
	}
	return out
}

func (p *Prog) classifyValueUses(v ssa.Value, base Access, must *Locks) []Access {
	var out []Access
	refs := v.Referrers()
	if refs == nil {
		return nil
	}
	mk := func(in ssa.Instruction, write bool) Access {
		a := base
		a.Instr = in
		a.Write = write
		a.Elem = true
		a.Held = must.At(in)
		return a
	}
	switch v.Type().Underlying().(type) {
	case *types.Map, *types.Slice:
	default:
		return nil
	}
	for _, r := range *refs {
		switch u := r.(type) {
		case *ssa.MapUpdate:
			if u.Map == v {
				out = append(out, mk(u, true))
			}
		case *ssa.Lookup:
			if u.X == v {
				out = append(out, mk(u, false))
			}
		case *ssa.Range:
			out = append(out, mk(u, false))
		case *ssa.IndexAddr:
			if u.X == v {
				nb := base
				nb.Elem = true
				out = append(out, p.classifyAddrUses(u, nb, must, map[ssa.Value]bool{})...)
			}
		case *ssa.Call:
			if b, ok := u.Call.Value.(*ssa.Builtin); ok {
				switch b.Name() {
				case "delete":
					out = append(out, mk(u, true))
				case "len", "cap", "append", "copy":
					out = append(out, mk(u, false))
				}
			}
		}
	}
	return out
}

// MayAcquire returns the lock classes fn may acquire, transitively through the
// repo-internal call edges (static, interface via CHA, closures, go, defer).
func (l *Locks) MayAcquire(fn *ssa.Function) map[string]bool {
	out := map[string]bool{}
	seen := map[*ssa.Function]bool{}
	var walk func(f *ssa.Function)
	walk = func(f *ssa.Function) {
		if seen[f] {
			return
		}
		seen[f] = true
		for _, b := range f.Blocks {
			for _, in := range b.Instrs {
				if ci, ok := in.(ssa.CallInstruction); ok {
					if op := lockOpOf(ci.Common()); op != nil && op.Acquire {
						out[op.Class] = true
					}
				}
			}
		}
		for _, e := range l.Edges[f] {
			walk(e.Callee)
		}
		for _, a := range f.AnonFuncs {
			walk(a)
		}
	}
	walk(fn)
	return out
}

// paramOnlyCalled: fn's i-th parameter is a function value whose every use is as the target of a
// plain call inside fn (at least one).
func paramOnlyCalled(fn *ssa.Function, i int) bool {
	if i >= len(fn.Params) || fn.Blocks == nil {
		return false
	}
	prm := fn.Params[i]
	if _, ok := prm.Type().Underlying().(*types.Signature); !ok {
		return false
	}
	n := 0
	for _, ref := range nonDebugRefs(prm) {
		call, ok := ref.(*ssa.Call)
		if !ok || call.Call.Value != ssa.Value(prm) {
			return false
		}
		for _, a := range call.Call.Args {
			if a == ssa.Value(prm) {
				return false
			}
		}
		n++
	}
	return n > 0
}
