package check

import (
	"fmt"
	"go/token"
	"go/types"
	"os"
	"reflect"
	"sort"
	"strings"

	"golang.org/x/tools/go/ssa"
)

// Find returns the first sub-term (pre-order) satisfying pred, or nil.
func (t *Term) Find(pred func(*Term) bool) *Term {
	if t == nil {
		return nil
	}
	if pred(t) {
		return t
	}
	for _, a := range t.Args {
		if f := a.Find(pred); f != nil {
			return f
		}
	}
	return nil
}

// pureOver reports whether the term is built only from constants, conversions,
// slicing and the named parameters (a deterministic function of them).
func pureOver(t *Term, params ...string) bool {
	if t == nil {
		return false
	}
	switch t.Op {
	case "Const":
		return true
	case "Param":
		for _, p := range params {
			if t.Name == p {
				return true
			}
		}
		return false
	case "Conv", "Slice", "Bin", "Varargs", "SliceLit":
		for _, a := range t.Args {
			if !pureOver(a, params...) {
				return false
			}
		}
		return true
	}
	return false
}

// posAtom: the path carries the positive atom eq(L, nil) with L satisfying pred.
func errNilOnPath(pa *Path, pred func(l *Term) bool) bool {
	pol, found := hasAtom(pa, func(at Atom) bool { return at.Op == "eq" && at.R.Is("Const", "nil") && pred(at.L) })
	return found && pol
}

// ruleDerive (C16.derive): the per-event wrapper is a deterministic function of
// the base wrapper's key bytes and the event id, and nothing else.
//
// NewDerivedReader: every successful path returns &io.LimitedReader{R: hkdf.New(sha256.New,
// K, salt, info), N: lenLimit} where K is result 0 of KeyBytes(ctx) called on a wrapper
// obtained from the wrapper parameter (type assertion, or the pooled wrapper's base), the
// KeyBytes error was tested nil and K was tested non-nil on that path (an HKDF over an
// empty key is a key everybody can derive).
//
// NewEventWrapper: every successful path returns W = aead.NewWrapper() on which
// SetAesGcmKeyBytes(result 0 of ed25519.GenerateKey(R)) succeeded, where R is result 0
// of NewDerivedReader(ctx, wrapper, n>=32, salt, info) with salt/info built only from
// constants and the event id (at least one of them from the event id), and all three
// error results were tested nil.
func (c *Ctx) ruleDerive() {
	p, r := c.P, c.R
	const rule = "C16.derive"
	if fn := c.Fn(rule, PkgEncrypt, "", "NewDerivedReader"); fn != nil {
		nOK := 0
		for _, pa := range c.enum(rule, fn, PathOpts{Inline: inlineSmall()}) {
			rv := pa.RetVals()
			if rv == nil || len(rv) != 2 || !isNilConst(rv[1]) {
				continue
			}
			last := pa.LastStep()
			tb := pa.TermsAt(last)
			cell, ok := rv[0].(*ssa.Alloc)
			if !ok {
				r.Bad(rule, "NewDerivedReader:result", p.InstrPos(pa.End), "a successful path returns "+tb.Of(rv[0]).String()+", not a freshly built io.LimitedReader")
				continue
			}
			lf := litFields(pa, cell, len(pa.Steps))
			rd, n := lf["R"], lf["N"]
			if rd == nil || n == nil {
				r.Bad(rule, "NewDerivedReader:result", p.InstrPos(pa.End), "the returned LimitedReader lacks R or N")
				continue
			}
			rt, nt := tb.Of(rd), tb.Of(n)
			if !(rt.Is("Call", "golang.org/x/crypto/hkdf.New") && len(rt.Args) == 4 && rt.Args[0].Is("Func", "crypto/sha256.New")) {
				r.Bad(rule, "NewDerivedReader:hkdf", p.InstrPos(pa.End), "the reader is "+rt.String()+", not hkdf.New(sha256.New, key, salt, info)")
				continue
			}
			if !nt.IsParam("2:lenLimit") {
				r.Bad(rule, "NewDerivedReader:limit", p.InstrPos(pa.End), "the reader's limit is "+nt.String()+", not the lenLimit argument")
				continue
			}
			if !rt.Args[2].IsParam("3:salt") || !rt.Args[3].IsParam("4:info") {
				r.Bad(rule, "NewDerivedReader:salt-info", p.InstrPos(pa.End), fmt.Sprintf("hkdf.New receives salt=%s info=%s, expected the salt and info arguments in that order", rt.Args[2], rt.Args[3]))
				continue
			}
			key := rt.Args[1]
			okKey := key.Op == "Extract" && key.Name == "0" && key.Args[0].Is("Call", "(*github.com/hashicorp/go-kms-wrapping/v2/aead.Wrapper).KeyBytes")
			if okKey {
				recv := key.Args[0].Args[0]
				// the receiver derives from the wrapper parameter only
				okKey = recv.Find(func(t *Term) bool { return t.IsParam("1:wrapper") }) != nil &&
					recv.Find(func(t *Term) bool {
						return t.Op == "Global" || t.Op == "Field" || (t.Op == "Param" && !t.IsParam("1:wrapper")) ||
							(t.Op == "Call" && t.Name != "(*github.com/hashicorp/go-kms-wrapping/v2/extras/multi.PooledWrapper).WrapperForKeyId")
					}) == nil
			}
			if !okKey {
				r.Bad(rule, "NewDerivedReader:key", p.InstrPos(pa.End), "the HKDF secret is "+key.String()+", not the key bytes of the wrapper argument")
				continue
			}
			kb := key.Args[0]
			errTested := errNilOnPath(pa, func(l *Term) bool { return l.Op == "Extract" && l.Name == "1" && l.Args[0].V == kb.V })
			_, nilTested := hasAtom(pa, func(at Atom) bool { return at.Op == "eq" && at.R.Is("Const", "nil") && at.L.V == key.V })
			nonNil := false
			if pol, f := hasAtom(pa, func(at Atom) bool { return at.Op == "eq" && at.R.Is("Const", "nil") && at.L.V == key.V }); f && !pol {
				nonNil = true
			}
			if !errTested || !nilTested || !nonNil {
				r.Bad(rule, "NewDerivedReader:key-checked", p.InstrPos(pa.End), fmt.Sprintf("the key bytes are used although KeyBytes' error was tested nil=%v and the bytes were tested non-nil=%v on this path (an HKDF over absent key bytes yields a key anyone can derive)", errTested, nonNil))
				continue
			}
			nOK++
		}
		r.Check(nOK >= 2, rule, "NewDerivedReader", p.Pos(fn.Pos()), fmt.Sprintf("%d successful paths return LimitedReader{hkdf.New(sha256.New, wrapper key bytes (checked), salt, info), lenLimit}", nOK), fmt.Sprintf("only %d successful paths verified (2 expected: aead wrapper, pooled wrapper)", nOK))
	}
	if fn := c.Fn(rule, PkgEncrypt, "", "NewEventWrapper"); fn != nil {
		nOK := 0
		for _, pa := range c.enum(rule, fn, PathOpts{Inline: inlineSmall("filters/encrypt.NewDerivedReader")}) {
			rv := pa.RetVals()
			if rv == nil || len(rv) != 2 || !isNilConst(rv[1]) {
				continue
			}
			tb := pa.TermsAt(pa.LastStep())
			w := tb.Of(rv[0])
			if !w.Is("Call", "github.com/hashicorp/go-kms-wrapping/v2/aead.NewWrapper") {
				r.Bad(rule, "NewEventWrapper:result", p.InstrPos(pa.End), "a successful path returns "+w.String()+", not a new aead wrapper")
				continue
			}
			var setKey, gen, ndr *Term
			for _, s := range pa.CallsOn() {
				ci := s.In.(ssa.CallInstruction)
				v, isV := ci.(ssa.Value)
				if !isV {
					continue
				}
				switch stepCallName(s) {
				case "(*github.com/hashicorp/go-kms-wrapping/v2/aead.Wrapper).SetAesGcmKeyBytes":
					t := pa.TermsAt(s).Of(v)
					if t.Args[0].V == w.V {
						setKey = t
					}
				}
			}
			if setKey == nil {
				r.Bad(rule, "NewEventWrapper:key-set", p.InstrPos(pa.End), "the returned wrapper never receives key bytes on a successful path")
				continue
			}
			k := setKey.Args[1]
			if k.Op == "Extract" && k.Args[0].Is("Call", "crypto/ed25519.GenerateKey") {
				gen = k.Args[0]
			}
			if gen == nil || k.Name != "0" {
				r.Bad(rule, "NewEventWrapper:key-source", p.InstrPos(pa.End), "the derived wrapper's key is "+k.String()+", not the private key generated from the derived reader")
				continue
			}
			src := gen.Args[0]
			if src.Op == "Extract" && src.Name == "0" && src.Args[0].Is("Call", "filters/encrypt.NewDerivedReader") {
				ndr = src.Args[0]
			}
			if ndr == nil {
				r.Bad(rule, "NewEventWrapper:entropy", p.InstrPos(pa.End), "the key is generated from "+src.String()+", not from NewDerivedReader: the per-event wrapper would not be reproducible from (wrapper, event id)")
				continue
			}
			lim := int64(-1)
			if ndr.Args[2].Op == "Const" {
				fmt.Sscan(ndr.Args[2].Name, &lim)
			}
			salt, info := ndr.Args[3], ndr.Args[4]
			mentionsID := func(t *Term) bool { return t.Find(func(x *Term) bool { return x.IsParam("2:eventId") }) != nil }
			okArgs := ndr.Args[1].IsParam("1:wrapper") && lim >= 32 && pureOver(salt, "2:eventId") && pureOver(info, "2:eventId") && (mentionsID(salt) || mentionsID(info))
			if !okArgs {
				r.Bad(rule, "NewEventWrapper:derivation", p.InstrPos(pa.End), fmt.Sprintf("derivation arguments are wrapper=%s limit=%s salt=%s info=%s; expected the wrapper argument, >= 32 bytes, and salt/info built only from constants and the event id (using it)", ndr.Args[1], ndr.Args[2], salt, info))
				continue
			}
			e1 := errNilOnPath(pa, func(l *Term) bool { return l.Op == "Extract" && l.Name == "1" && l.Args[0].V == ndr.V })
			e2 := errNilOnPath(pa, func(l *Term) bool { return l.Op == "Extract" && l.Name == "2" && l.Args[0].V == gen.V })
			e3 := errNilOnPath(pa, func(l *Term) bool { return l.V == setKey.V })
			if !e1 || !e2 || !e3 {
				r.Bad(rule, "NewEventWrapper:errors", p.InstrPos(pa.End), fmt.Sprintf("a wrapper is returned although not all derivation steps were checked: NewDerivedReader=%v GenerateKey=%v SetAesGcmKeyBytes=%v", e1, e2, e3))
				continue
			}
			nOK++
		}
		r.Check(nOK >= 1, rule, "NewEventWrapper", p.Pos(fn.Pos()), fmt.Sprintf("%d successful path(s): aead wrapper keyed with ed25519.GenerateKey(NewDerivedReader(ctx, wrapper, >=32, f(eventId), g(eventId))), all steps checked", nOK), "no successful path of NewEventWrapper verified")
	}
	_ = strings.Contains
}

// ruleTagPair (C09.tagpair): at every value-operation call site whose
// classification is computed on the spot, the tag it is computed from belongs
// to the very value being filtered: in the struct walk the tag of field i
// classifies (a value obtained from) field i of the same struct value; in the
// Taggable walk the classification and operation come from the same
// PointerTag whose pointer located the value; for bare string / slice payloads
// the classification is the constant "secret".
func (c *Ctx) ruleTagPair() { c.ruleTagPairAs("C09.tagpair") }

// ruleTagPairAs: the same rule under C10's name (a value classified with another field's
// or another type's tag is redacted although it is public).
func (c *Ctx) ruleTagPairAs(rule string) {
	p, r := c.P, c.R
	n := 0
	for _, f := range c.encryptReach() {
		tb := p.NewTerms(nil)
		eachInstr(f, func(in ssa.Instruction) {
			ci, ok := in.(ssa.CallInstruction)
			if !ok {
				return
			}
			name := calleeName(ci.Common())
			var val, cls ssa.Value
			switch name {
			case "(*filters/encrypt.Filter).filterValue":
				val, cls = ci.Common().Args[2], ci.Common().Args[3]
			case "(*filters/encrypt.Filter).filterSlice":
				val, cls = ci.Common().Args[3], ci.Common().Args[2]
			default:
				return
			}
			ct := tb.Of(cls)
			if ct.Op != "Call" {
				return // handed down / literal: checked at the site that computed it (C09.classify)
			}
			n++
			vt := tb.Of(val)
			construct := p.ShortFn(f) + "->" + name[strings.LastIndex(name, ".")+1:]
			tag := ct.Args[0]
			pos := p.InstrPos(in)
			all := func(t *Term, pred func(*Term) bool) (out []*Term) {
				var walk func(*Term)
				walk = func(x *Term) {
					if x == nil {
						return
					}
					if pred(x) {
						out = append(out, x)
					}
					for _, a := range x.Args {
						walk(a)
					}
				}
				walk(t)
				return
			}
			switch {
			case tag.Op == "Const":
				r.Check(tag.Name == `"secret"`, rule, construct+":const", pos, "a bare payload value is classified secret (redacted unless overridden)", "a bare payload value is classified "+tag.Name+" instead of secret")
			case tag.Op == "Field" && tag.Name == "Tag":
				// struct walk: tag of v.Type().Field(i); value from v.Field(i), same v, same i
				tf := tag.Args[0]
				okT := tf.Is("Call", "invoke reflect.Type.Field") && len(tf.Args) == 2 && tf.Args[0].Is("Call", "(reflect.Value).Type") && tf.Args[0].Args[0].Op == "Param"
				vfs := all(vt, func(x *Term) bool { return x.Is("Call", "(reflect.Value).Field") })
				okV := len(vfs) > 0
				if okT {
					for _, vf := range vfs {
						if vf.Args[0].V != tf.Args[0].Args[0].V || vf.Args[1].V != tf.Args[1].V {
							okV = false
						}
					}
				}
				// nothing else selects a different part of the struct
				if len(all(vt, func(x *Term) bool {
					return x.Op == "Call" && (x.Name == "(reflect.Value).Index" || x.Name == "(reflect.Value).MapIndex" || x.Name == "(reflect.Value).FieldByIndex")
				})) > 0 {
					okV = false
				}
				r.Check(okT && okV, rule, construct+":field", pos, "the tag of field i classifies (a value reached from) field i of the same struct value", fmt.Sprintf("tag and value do not belong to the same field: tag=%s value=%s", tag, vt))
			case tag.Is("Call", "fmt.Sprintf"):
				okF := len(tag.Args) == 2 && tag.Args[0].Is("Const", `"%s,%s"`) && tag.Args[1].Op == "Varargs" && len(tag.Args[1].Args) == 2
				var elem *Term
				if okF {
					a, b := tag.Args[1].Args[0], tag.Args[1].Args[1]
					okF = a.Is("Field", "Classification") && b.Is("Field", "Filter") && a.Args[0].Op == "Index" && b.Args[0].Op == "Index" &&
						a.Args[0].Args[0].V == b.Args[0].Args[0].V && a.Args[0].Args[1].V == b.Args[0].Args[1].V
					elem = a.Args[0]
				}
				okV := false
				if okF {
					gets := all(vt, func(x *Term) bool { return x.Is("Call", "github.com/mitchellh/pointerstructure.Get") })
					okV = len(gets) == 1 && len(gets[0].Args) == 2 && gets[0].Args[0].Op == "Param" && gets[0].Args[1].Is("Field", "Pointer") &&
						gets[0].Args[1].Args[0].Op == "Index" && gets[0].Args[1].Args[0].Args[0].V == elem.Args[0].V && gets[0].Args[1].Args[0].Args[1].V == elem.Args[1].V &&
						elem.Args[0].Find(func(x *Term) bool {
							return x.Is("Call", "invoke encrypt.Taggable.Tags") && x.Args[0].V == gets[0].Args[0].V
						}) != nil
				}
				// the write-back pointer (withPointer) and the tracking entry (trackTaggable) name the same location
				if okF && okV {
					for _, cs := range callsTo(f, func(nm string, cc *ssa.CallCommon) bool {
						return nm == "filters/encrypt.withPointer" || nm == "(*filters/encrypt.trackedMaps).trackTaggable"
					}) {
						a := cs.Common().Args
						a = a[len(a)-2:]
						t0, t1 := tb.Of(a[0]), tb.Of(a[1])
						same := t0.Op == "Param" && t1.Is("Field", "Pointer") && t1.Args[0].Op == "Index" && t1.Args[0].Args[0].V == elem.Args[0].V && t1.Args[0].Args[1].V == elem.Args[1].V
						r.Check(same, rule, p.ShortFn(f)+"->"+calleeName(cs.Common())+":same-pointer", p.InstrPos(cs), "write-back / tracking use the pointer of the tag being filtered", fmt.Sprintf("%s is given (%s, %s), not the Taggable and the pointer of the tag being filtered: the protected value would be written to, or the map marked at, another location", calleeName(cs.Common()), t0, t1))
					}
				}
				r.Check(okF && okV, rule, construct+":pointer-tag", pos, "classification and operation come from the PointerTag whose pointer located the value, in \"classification,operation\" order", fmt.Sprintf("classification/operation and value do not come from the same PointerTag: tag=%s value=%s", tag, vt))
			default:
				r.Bad(rule, construct+":source", pos, "the tag is "+tag.String()+": neither a struct field tag, a PointerTag nor the secret constant")
			}
		})
	}
	if n < 6 {
		r.Und(rule, "instance-floor", "", fmt.Sprintf("only %d on-the-spot classifications found (6 expected)", n))
	}
}

// ruleValidate (C18.validate): the decision table of (*FormatterFilter).validate.
// nil is returned only on paths that established: Source non-nil and its
// String() non-empty, Format.validate() == nil, and Schema nil or its String()
// non-empty; an error is returned only on paths that established one of the
// opposite facts (or a nil receiver), so no valid configuration is rejected.
func (c *Ctx) ruleValidate() {
	p, r := c.P, c.R
	const rule = "C18.validate"
	fn := c.Fn(rule, PkgCloud, "FormatterFilter", "validate")
	if fn == nil {
		return
	}
	isStr := func(t *Term, field string) bool {
		return t.Is("Call", "(*net/url.URL).String") && len(t.Args) == 1 && t.Args[0].Is("Field", field)
	}
	nNil, nErr := 0, 0
	for _, pa := range c.enum(rule, fn, PathOpts{Inline: inlineSmall("(formatter_filters/cloudevents.Format).validate")}) {
		rv := pa.RetVals()
		if rv == nil {
			continue
		}
		// facts: +1 established good, -1 established bad, 0 unknown
		fact := map[string]int{}
		set := func(k string, good bool) {
			if good {
				fact[k] = 1
			} else {
				fact[k] = -1
			}
		}
		for _, at := range pa.Atoms {
			if at.Op != "eq" {
				continue
			}
			l, rr := at.L, at.R
			switch {
			case l.IsParam("0:f") && rr.Is("Const", "nil"):
				set("recv", at.Neg)
			case l.Is("Field", "Source") && rr.Is("Const", "nil"):
				set("source", at.Neg)
			case isStr(l, "Source") && rr.Is("Const", `""`):
				set("source-str", at.Neg)
			case l.Is("Call", "(formatter_filters/cloudevents.Format).validate") && l.Args[0].Is("Field", "Format") && rr.Is("Const", "nil"):
				set("format", !at.Neg)
			case l.Is("Field", "Schema") && rr.Is("Const", "nil"):
				if !at.Neg {
					fact["schema"] = 1 // nil schema is fine
				}
			case isStr(l, "Schema") && rr.Is("Const", `""`):
				set("schema", at.Neg)
			}
		}
		if isNilConst(rv[0]) {
			nNil++
			var missing []string
			for _, k := range []string{"source", "source-str", "format", "schema"} {
				if fact[k] != 1 {
					missing = append(missing, k)
				}
			}
			r.Check(len(missing) == 0, rule, "validate:accept", p.InstrPos(pa.End), "a configuration is accepted only after source, format and schema were all found valid", "validate accepts a configuration without having established: "+strings.Join(missing, ", ")+" (path: "+p.PathSummary(pa)+")")
		} else {
			nErr++
			bad := false
			for _, v := range fact {
				if v == -1 {
					bad = true
				}
			}
			r.Check(bad, rule, "validate:reject", p.InstrPos(pa.End), "a configuration is rejected only after an invalid member was found", "validate rejects a configuration on a path that established no invalid member (valid configurations must format): "+p.PathSummary(pa))
		}
	}
	r.Check(nNil >= 2 && nErr >= 5, rule, "validate:table", p.Pos(fn.Pos()), fmt.Sprintf("%d accepting and %d rejecting paths classified", nNil, nErr), fmt.Sprintf("validate has %d accepting / %d rejecting paths (>= 2 / >= 5 expected: nil receiver, nil source, empty source, bad format, empty schema)", nNil, nErr))
}

// ruleGraphMap: the typed wrapper around sync.Map forwards faithfully.
//   - Range (rule C01.range): the callback handed to sync.Map.Range returns,
//     on every path, exactly the result of one call of f with the key and value
//     it was given (asserted to their types): every stored pipeline is offered
//     to f and iteration stops only when f says so.
//   - Store / Delete (ruleMap, e.g. C05.map): g.m.Store(id, root) and
//     g.m.Delete(id) with the method's own arguments.
func (c *Ctx) ruleGraphMap(ruleRange, ruleMap string) {
	p, r := c.P, c.R
	if ruleRange != "" {
		if fn := c.Fn(ruleRange, PkgRoot, "graphMap", "Range"); fn != nil {
			calls := callsTo(fn, func(n string, cc *ssa.CallCommon) bool { return n == "(*sync.Map).Range" })
			ok := len(calls) == 1
			why := fmt.Sprintf("%d calls of sync.Map.Range", len(calls))
			if ok {
				tb := p.NewTerms(nil)
				recv := tb.Of(calls[0].Common().Args[0])
				cl, isCl := calls[0].Common().Args[1].(*ssa.MakeClosure)
				ok = isCl && recv.String() == "FieldAddr[m](Param(0:g))"
				why = "Range is not called on g.m with a closure: " + recv.String()
				if ok {
					cf := cl.Fn.(*ssa.Function)
					r.SawFn(p.ShortFn(cf))
					n := 0
					for _, pa := range c.enum(ruleRange, cf, PathOpts{}) {
						rv := pa.RetVals()
						if rv == nil {
							ok, why = false, "the callback can panic"
							continue
						}
						n++
						t := pa.TermsAt(pa.LastStep()).Of(rv[0])
						good := t.Op == "Call" && len(t.Args) == 3 && t.Args[0].IsParam("1:f") &&
							t.Args[1].Is("Assert", "eventlogger.PipelineID") && t.Args[1].Args[0].IsParam("0:key") &&
							t.Args[2].Is("Assert", "*eventlogger.registeredPipeline") && t.Args[2].Args[0].IsParam("1:value")
						nf := 0
						for _, s := range pa.CallsOn() {
							if ci := s.In.(ssa.CallInstruction); pa.TermsAt(s).Of(ci.Common().Value).IsParam("1:f") {
								nf++
							}
						}
						if !good || nf != 1 {
							ok, why = false, fmt.Sprintf("the callback returns %s after %d calls of f; expected exactly f(key.(PipelineID), value.(*registeredPipeline))", t, nf)
						}
					}
					if n == 0 {
						ok, why = false, "the callback has no returning path"
					}
				}
			}
			r.Check(ok, ruleRange, "graphMap.Range", p.Pos(fn.Pos()), "every stored pipeline is handed to f once and iteration continues exactly as f says", why)
		}
	}
	if ruleMap != "" {
		// every path of Store / Delete passes through the underlying map's store / delete
		// primitive with the method's own arguments (extra bookkeeping is allowed)
		for _, x := range []struct {
			m       string
			callees []string
			args    []string
		}{
			{"Store", []string{"(*sync.Map).Store", "(*sync.Map).Swap"}, []string{"FieldAddr[m](Param(0:g))", "Param(1:id)", "Param(2:root)"}},
			{"Delete", []string{"(*sync.Map).Delete", "(*sync.Map).LoadAndDelete"}, []string{"FieldAddr[m](Param(0:g))", "Param(1:id)"}},
		} {
			fn := c.Fn(ruleMap, PkgRoot, "graphMap", x.m)
			if fn == nil {
				continue
			}
			ok, n := true, 0
			for _, pa := range c.enum(ruleMap, fn, PathOpts{Inline: inlineSmall()}) {
				if _, isRet := pa.End.(*ssa.Return); !isRet {
					continue
				}
				n++
				hit := false
				for _, st := range pa.CallsOn() {
					if !contains(x.callees, stepCallName(st)) {
						continue
					}
					tb := pa.TermsAt(st)
					good := true
					for i, a := range st.In.(ssa.CallInstruction).Common().Args {
						if i < len(x.args) && tb.Of(a).String() != x.args[i] {
							good = false
						}
					}
					if good {
						hit = true
					}
				}
				if !hit {
					ok = false
				}
			}
			r.Check(ok && n > 0, ruleMap, "graphMap."+x.m, p.Pos(fn.Pos()), "every path forwards the method's own arguments to the underlying map", "graphMap."+x.m+" has a returning path that does not perform "+strings.Join(x.callees, " / ")+" with its own arguments")
		}
	}
}

// ruleAccessors (C02.accessors): what callers read from a Status is what the
// collector put there: Complete() returns the complete field, CompleteSinks()
// the completeSinks field.
func (c *Ctx) ruleAccessors() {
	p, r := c.P, c.R
	const rule = "C02.accessors"
	for m, field := range map[string]string{"Complete": "complete", "CompleteSinks": "completeSinks"} {
		fn := c.Fn(rule, PkgRoot, "Status", m)
		if fn == nil {
			continue
		}
		ok := true
		why := ""
		rets := Returns(fn)
		for _, ret := range rets {
			rv := RetVals(ret)
			t := p.NewTerms(nil).Of(rv[0])
			if b, isF := t.IsField(field); !(isF && b.IsParam("0:s")) {
				ok, why = false, "Status."+m+"() returns "+t.String()+", not the "+field+" field"
			}
		}
		if len(rets) == 0 {
			ok, why = false, "no return"
		}
		r.Check(ok, rule, "Status."+m, p.Pos(fn.Pos()), "returns the "+field+" field of the receiver", why)
	}
}

// ruleOptionDefaults (C07.defaults): "AllowOverwrite (the default)" and "the
// policy given then applies": getDefaultOptions yields AllowOverwrite for both
// policies; getOpts starts from it, hands the address of that one struct to
// every non-nil option of the full argument list, returns that struct when all
// succeeded and the option's own error otherwise.
func (c *Ctx) ruleOptionDefaults() {
	p, r := c.P, c.R
	const rule = "C07.defaults"
	allow := ""
	if pkg := p.SSAPkgs[PkgRoot]; pkg != nil {
		if k, ok := pkg.Members["AllowOverwrite"].(*ssa.NamedConst); ok {
			allow = k.Value.Value.ExactString()
		}
	}
	if allow == "" {
		r.Und(rule, "AllowOverwrite", "", "constant AllowOverwrite not found")
		return
	}
	if fn := c.Fn(rule, PkgRoot, "", "getDefaultOptions"); fn != nil {
		for _, pa := range c.enum(rule, fn, PathOpts{}) {
			rv := pa.RetVals()
			if rv == nil {
				continue
			}
			ok, why := false, ""
			if ld, isLd := rv[0].(*ssa.UnOp); isLd {
				if cell, isA := ld.X.(*ssa.Alloc); isA {
					lf := litFields(pa, cell, len(pa.Steps))
					tb := pa.TermsAt(pa.LastStep())
					a, b := lf["withPipelineRegistrationPolicy"], lf["withNodeRegistrationPolicy"]
					ok = a != nil && b != nil && tb.Of(a).Is("Const", allow) && tb.Of(b).Is("Const", allow)
					if !ok {
						why = fmt.Sprintf("defaults are pipeline=%v node=%v, expected AllowOverwrite for both", lfName(tb, a), lfName(tb, b))
					}
				}
			}
			if !ok && why == "" {
				why = "the defaults are not a literal options value"
			}
			r.Check(ok, rule, "getDefaultOptions", p.InstrPos(pa.End), "both registration policies default to AllowOverwrite", why)
		}
	}
	fn := c.Fn(rule, PkgRoot, "", "getOpts")
	if fn == nil {
		return
	}
	var dyn []ssa.CallInstruction
	eachInstr(fn, func(in ssa.Instruction) {
		if ci, ok := in.(ssa.CallInstruction); ok && ci.Common().StaticCallee() == nil && !ci.Common().IsInvoke() {
			if _, isB := ci.Common().Value.(*ssa.Builtin); !isB {
				dyn = append(dyn, ci)
			}
		}
	})
	if len(dyn) != 1 || len(dyn[0].Common().Args) != 1 {
		r.Bad(rule, "getOpts:apply", p.Pos(fn.Pos()), fmt.Sprintf("%d option applications found (expected exactly one, inside the loop over the options)", len(dyn)))
		return
	}
	app := dyn[0]
	cell, isA := app.Common().Args[0].(*ssa.Alloc)
	tb := p.NewTerms(nil)
	okCell := isA && privateSingleStoreIs(cell, "eventlogger.getDefaultOptions")
	callee := tb.Of(app.Common().Value)
	okCallee := callee.Op == "Index" && callee.Args[0].IsParam("0:opt")
	full, whyFull := c.fullLoop(app, true)
	r.Check(okCell && okCallee && full, rule, "getOpts:apply", p.InstrPos(app), "every option of the argument list is applied to the one options struct initialised from the defaults",
		fmt.Sprintf("option application: target-is-defaults-struct=%v callee-is-opt[i]=%v (%s) full-loop=%v %s", okCell, okCallee, callee, full, whyFull))
	nOK, nErr := 0, 0
	for _, pa := range c.enum(rule, fn, PathOpts{}) {
		rv := pa.RetVals()
		if rv == nil {
			continue
		}
		// a non-nil option seen on the path must have been applied
		for _, at := range pa.Atoms {
			if at.Op == "eq" && at.Neg && at.L.Op == "Index" && at.L.Args[0].IsParam("0:opt") && at.R.Is("Const", "nil") {
				applied := false
				for _, s := range pa.CallsOn() {
					if s.In == ssa.Instruction(app) {
						applied = true
					}
				}
				if !applied {
					r.Bad(rule, "getOpts:skip", p.InstrPos(pa.End), "a non-nil option is skipped: "+p.PathSummary(pa))
				}
			}
		}
		if isNilConst(rv[1]) {
			ld, isLd := rv[0].(*ssa.UnOp)
			ok := isLd && ld.X == ssa.Value(cell)
			// errors of applied options were tested nil
			for _, s := range pa.CallsOn() {
				if s.In == ssa.Instruction(app) {
					if !errNilOnPath(pa, func(l *Term) bool { return l.V == app.(ssa.Value) }) {
						ok = false
					}
				}
			}
			if ok {
				nOK++
			} else {
				r.Bad(rule, "getOpts:result", p.InstrPos(pa.End), "a successful return does not hand back the struct the options were applied to (or ignores an option's error): "+pa.TermsAt(pa.LastStep()).Of(rv[0]).String())
			}
		} else {
			nErr++
			t := pa.TermsAt(pa.LastStep()).Of(rv[1])
			r.Check(t.V == app.(ssa.Value), rule, "getOpts:error", p.InstrPos(pa.End), "the option's own error is returned", "a failing return carries "+t.String()+", not the option's error")
		}
	}
	r.Check(nOK >= 2 && nErr >= 1, rule, "getOpts:paths", p.Pos(fn.Pos()), fmt.Sprintf("%d successful and %d failing paths classified", nOK, nErr), fmt.Sprintf("getOpts: %d successful / %d failing paths (>=2 / >=1 expected)", nOK, nErr))
}

func lfName(tb *Terms, v ssa.Value) string {
	if v == nil {
		return "<unset>"
	}
	return tb.Of(v).String()
}

// privateSingleStoreIs: the cell's only store is the result of a call of callee.
func privateSingleStoreIs(cell *ssa.Alloc, callee string) bool {
	sv := singleStore(cell)
	if sv == nil {
		sv = privateSingleStore(cell)
	}
	call, ok := sv.(*ssa.Call)
	return ok && calleeName(&call.Call) == callee
}

// ruleSkip (C09.skip): closed vocabulary of the conditions that let the
// reflective walk move past a value without handing it to a handler.
//
// In each walker a conditional branch is skip-deciding when one successor can
// reach a handler call (filterValue, filterSlice, filterField, filterTaggable,
// trackMap, processUnfiltered, SetMapIndex) within the current iteration and
// the other cannot, yet leads to a nil-error return or to the next iteration.
// The condition of every such branch must have one of the shapes confirmed by
// reading (nil value, not interfaceable, ignored type, type/kind dispatch, loop
// bound, empty slice, public/none classification, ...); anything else — "seen
// before", "looks filtered already" — silently forwards plaintext.
func (c *Ctx) ruleSkip() {
	p, r := c.P, c.R
	const rule = "C09.skip"
	handlers := map[string]bool{
		"(*filters/encrypt.Filter).filterValue": true, "(*filters/encrypt.Filter).filterSlice": true, "(*filters/encrypt.Filter).filterField": true,
		"(*filters/encrypt.Filter).filterTaggable": true, "(*filters/encrypt.trackedMaps).trackMap": true, "(*filters/encrypt.trackedMaps).processUnfiltered": true,
		"(reflect.Value).SetMapIndex": true, "filters/encrypt.setValue": true, "(*filters/encrypt.Filter).encrypt": true, "(*filters/encrypt.Filter).hmacSha256": true,
		"(*filters/encrypt.trackedMaps).trackTaggable": true,
	}
	n := 0
	var inv []string
	for _, w := range []struct{ recv, name string }{{"Filter", "filterField"}, {"Filter", "filterSlice"}, {"Filter", "filterTaggable"}, {"Filter", "filterValue"}, {"trackedMaps", "processUnfiltered"}, {"Filter", "Process"}} {
		fn := c.Fn(rule, PkgEncrypt, w.recv, w.name)
		if fn == nil {
			continue
		}
		hasHandler := func(b *ssa.BasicBlock) bool {
			for _, in := range b.Instrs {
				if ci, ok := in.(ssa.CallInstruction); ok && handlers[calleeName(ci.Common())] {
					return true
				}
			}
			return false
		}
		tb := p.NewTerms(nil)
		for _, b := range fn.Blocks {
			cond, ts, fs := condOf(b)
			if cond == nil {
				continue
			}
			hdr := innermostHeader(b)
			// classify a successor: reaches a handler / ends the iteration silently / only fails
			classify := func(s *ssa.BasicBlock) (reach, silent bool) {
				seen := map[*ssa.BasicBlock]bool{}
				var walk func(x *ssa.BasicBlock)
				walk = func(x *ssa.BasicBlock) {
					if seen[x] {
						return
					}
					seen[x] = true
					if hasHandler(x) {
						reach = true
						return
					}
					if hdr != nil && x == hdr {
						silent = true // next iteration (or loop exit) without a handler
						return
					}
					if len(x.Instrs) > 0 {
						if ret, ok := x.Instrs[len(x.Instrs)-1].(*ssa.Return); ok {
							rv := RetVals(ret)
							if len(rv) > 0 {
								e := rv[len(rv)-1]
								et := tb.Of(e)
								fresh := et.Op == "Call" && (et.Name == "fmt.Errorf" || et.Name == "errors.New")
								if !fresh {
									silent = true
								}
							}
							return
						}
					}
					for _, sc := range x.Succs {
						walk(sc)
					}
				}
				walk(s)
				return
			}
			tr, tsil := classify(ts)
			fr, fsil := classify(fs)
			var neg bool
			switch {
			case tr && !fr && fsil:
				neg = true // the false edge skips
			case fr && !tr && tsil:
				neg = false
			default:
				continue
			}
			at := p.atomOf(cond, func(v ssa.Value) ssa.Value { return v }, nil, nil)
			shape := c.condShape(cond, 0)
			n++
			construct := p.ShortFn(fn) + ":skip:" + shape
			if shape == "flag" && w.name != "Process" {
				shape = "other:flag " + at.String() // only Process's nothing-to-filter flag is known (decided by C10.guards)
			}
			if strings.HasPrefix(shape, "other:") {
				r.Bad(rule, construct, p.InstrPos(lastInstr(b)), "a value can be passed over without a handler when "+map[bool]string{true: "NOT ", false: ""}[neg]+at.String()+": this condition is not one of the confirmed reasons to leave a value alone (nil, not interfaceable, ignored type, type/kind dispatch, loop bound, empty, public/none)")
			} else {
				r.Ok(rule, construct, p.InstrPos(lastInstr(b)), "skip condition of a confirmed shape")
				inv = append(inv, w.name+":"+shape+"@"+p.InstrPos(lastInstr(b)))
			}
		}
	}
	r.Notes = append(r.Notes, "skip-condition inventory: "+strings.Join(inv, ", "))
	if n < 20 {
		r.Und(rule, "instance-floor", "", fmt.Sprintf("only %d skip-deciding branches found in the walk (>= 20 confirmed by hand)", n))
	}
}

// condShape: shape of a branch condition; a short-circuit condition (phi of
// constants and sub-conditions) has the shape of its sub-conditions when they agree
// on being known, joined by "|".
func (c *Ctx) condShape(cond ssa.Value, d int) string {
	if phi, ok := cond.(*ssa.Phi); ok && d < 6 {
		var shapes []string
		for _, e := range phi.Edges {
			if _, isC := e.(*ssa.Const); isC || e == ssa.Value(phi) {
				continue
			}
			sh := c.condShape(e, d+1)
			if strings.HasPrefix(sh, "other:") {
				return sh
			}
			if !contains(shapes, sh) {
				shapes = append(shapes, sh)
			}
		}
		if len(shapes) > 0 {
			sort.Strings(shapes)
			return strings.Join(shapes, "|")
		}
		return "flag"
	}
	// a package-local predicate helper: the shape of what it returns
	cv := cond
	for {
		if u, ok := cv.(*ssa.UnOp); ok && u.Op == token.NOT {
			cv = u.X
			continue
		}
		break
	}
	if call, ok := cv.(*ssa.Call); ok && d < 6 {
		if sc := call.Call.StaticCallee(); sc != nil && sc.Blocks != nil && PkgPathOf(sc) == PkgPathOf(call.Parent()) && len(sc.Blocks) <= 12 &&
			sc.Signature.Results().Len() == 1 && types.Identical(sc.Signature.Results().At(0).Type().Underlying(), types.Typ[types.Bool]) &&
			funcShort(sc) != "(*filters/encrypt.Filter).ignore" && funcShort(sc) != "(*filters/encrypt.trackedMaps).isTracked" {
			var shapes []string
			for _, ret := range Returns(sc) {
				rv := RetVals(ret)
				if _, isC := rv[0].(*ssa.Const); isC {
					continue
				}
				sh := c.condShape(rv[0], d+1)
				if strings.HasPrefix(sh, "other:") {
					return sh
				}
				for _, x := range strings.Split(sh, "|") {
					if !contains(shapes, x) {
						shapes = append(shapes, x)
					}
				}
			}
			if len(shapes) > 0 {
				sort.Strings(shapes)
				return strings.Join(shapes, "|")
			}
		}
	}
	return skipShape(c.P.atomOf(cond, func(v ssa.Value) ssa.Value { return v }, nil, nil))
}

// skipShape names the shape of a skip-deciding condition; "other:..." is unknown.
func skipShape(at Atom) string {
	has := func(t *Term, name string) bool {
		return t.Find(func(x *Term) bool { return x.Op == "Call" && x.Name == name }) != nil
	}
	any := func(name string) bool { return (at.L != nil && has(at.L, name)) || (at.R != nil && has(at.R, name)) }
	isNilValue := func(t *Term) bool {
		return t != nil && t.Is("Call", "reflect.ValueOf") && len(t.Args) == 1 && t.Args[0].Is("Const", "nil")
	}
	switch {
	case at.Op == "eq" && (isNilValue(at.L) || isNilValue(at.R)):
		return "nil-value"
	case at.Op == "eq" && (at.R.Is("Const", "nil") || at.L.Is("Const", "nil")):
		return "nil"
	case typeFact(Atom{Op: at.Op, L: at.L, R: at.R}) != "":
		return "type-dispatch"
	case at.Op == "eq" && (any("(reflect.Value).Kind") || any("(reflect.Value).Type") || any("invoke reflect.Type.Kind") || any("invoke reflect.Type.Elem")):
		return "type-dispatch"
	case at.Op == "true" && at.L.Find(func(x *Term) bool { return x.Op == "Assert" }) != nil:
		return "type-dispatch"
	case at.Op == "true" && at.L.Is("Call", "(reflect.Value).CanInterface"):
		return "not-interfaceable"
	case at.Op == "true" && at.L.Is("Call", "(reflect.Value).CanSet"):
		return "settable-dispatch"
	case at.Op == "true" && at.L.Is("Call", "(reflect.Value).IsNil"), at.Op == "true" && at.L.Is("Call", "(reflect.Value).IsZero"), at.Op == "true" && at.L.Is("Call", "(reflect.Value).IsValid"):
		return "nil-value"
	case at.Op == "true" && at.L.Is("Call", "(*filters/encrypt.Filter).ignore"):
		return "ignored-type"
	case at.Op == "lt" || (at.Op == "eq" && (any("builtin len") || any("(reflect.Value).Len") || any("invoke reflect.Type.NumField") || any("(reflect.Value).NumField"))):
		return "bound"
	case at.Op == "true" && (at.L.Op == "Next" || (at.L.Op == "Extract" && at.L.Args[0].Op == "Next")):
		return "bound"
	case at.Op == "true" && at.L.Is("Call", "(*reflect.MapIter).Next"):
		return "bound"
	case at.Op == "eq" && (at.L.Is("Field", "Classification") || at.L.Is("Field", "Operation")) && at.R.Op == "Const":
		return "classification:" + at.R.Name
	case at.Op == "true" && at.L.Is("Field", "withIgnoreTaggable"):
		return "ignore-taggable-option"
	case at.Op == "true" && at.L.Is("Call", "errors.Is"):
		return "errors.Is"
	case at.Op == "true" && at.L.Op == "Extract" && at.L.Name == "1" && at.L.Args[0].Op == "Lookup" && at.L.Args[0].Args[0].Is("Field", "filteredFields"):
		return "tracked-filtered-field"
	case at.Op == "true" && at.L.Is("Call", "(*filters/encrypt.trackedMaps).isTracked") && len(at.L.Args) == 2 && at.L.Args[0].IsParam("0:maps") && at.L.Args[1].Is("Call", "(reflect.Value).Pointer"):
		return "tracked-separately"
	case at.Op == "true" && at.L.Op == "Extract" && at.L.Name == "1" && at.L.Args[0].Is("Call", "(*filters/encrypt.trackedMaps).getTracked") &&
		len(at.L.Args[0].Args) == 2 && at.L.Args[0].Args[0].IsParam("0:maps") && at.L.Args[0].Args[1].Is("Call", "(reflect.Value).Pointer"):
		// the value is a map tracked in THIS set: the sweep visits it on its own, with its record of filtered fields
		return "tracked-separately"
	}
	return "other:" + at.String()
}

// innermostHeader returns the header of the innermost natural loop containing b, or nil.
func innermostHeader(b *ssa.BasicBlock) *ssa.BasicBlock {
	var best *ssa.BasicBlock
	from := reachableFrom(b)
	for h := range loopHeaders(b.Parent()) {
		if (h == b || h.Dominates(b)) && from[h] {
			if best == nil || best.Dominates(h) {
				best = h
			}
		}
	}
	return best
}

// ruleRegistryInserts (C06.registry): a node enters Broker.nodes only as a
// fresh usage record around a node handed in by the caller of a registration
// function (a parameter), with a count that is zero or carried over from the
// entry being replaced. In particular a node that was taken out of the registry
// (an unregisteredNode on its way to, or back from, Close) is never put back:
// that would make "closed exactly once" and "unregistered after RemoveNode" false.
func (c *Ctx) ruleRegistryInserts() {
	p, r := c.P, c.R
	const rule = "C06.registry"
	n := 0
	for _, f := range p.FuncsIn(PkgRoot) {
		tb := p.NewTerms(nil)
		eachInstr(f, func(in ssa.Instruction) {
			mu, ok := in.(*ssa.MapUpdate)
			if !ok || !tb.Of(mu.Map).Is("Field", "nodes") || typeShort(mu.Map.Type()) == "" {
				return
			}
			if bt := tb.Of(mu.Map); len(bt.Args) != 1 || !strings.Contains(typeShort(bt.Args[0].V.Type()), "Broker") {
				return
			}
			n++
			r.SawFn(p.ShortFn(f))
			construct := p.ShortFn(f) + ":insert"
			ok2, why := c.freshUsageRecord(mu.Value, f, 0)
			r.Check(ok2, rule, construct, p.InstrPos(in), "the registry gains a fresh record around a caller-supplied node", why)
		})
	}
	if n < 1 {
		r.Und(rule, "instance-floor", "", "no insert into Broker.nodes found")
	}
}

// ruleGatedReset: whole-container assignments of gated.Filter's two containers.
// Accepted events may be discarded wholesale only when no Broker is configured:
// a store of nil (or of a new empty container) into Filter.gated /
// Filter.orderedGated must be either the lazy initialisation of a nil container
// (dominated by `container == nil`) or dominated, in its own function, by the
// true edge of `w.Broker == nil`. A reset in a deferred closure, or on an error
// path, throws away groups whose composition never failed.
func (c *Ctx) ruleGatedReset(rule string) {
	p, r := c.P, c.R
	n := 0
	for _, f := range p.FuncsIn(PkgGated) {
		tb := p.NewTerms(nil)
		eachInstr(f, func(in ssa.Instruction) {
			var name, valStr string
			valNil := false
			if call, isCall := in.(*ssa.Call); isCall {
				// emptying a container in place — clear(w.gated), w.orderedGated.Init() — drops every group just
				// as replacing it does
				nm, ok := gatedResetInPlace(call, tb)
				if !ok {
					return
				}
				name, valStr = nm, "emptied in place"
			} else {
				st, ok := in.(*ssa.Store)
				if !ok {
					return
				}
				fa, ok := st.Addr.(*ssa.FieldAddr)
				if !ok || typeShort(fa.X.Type()) != "gated.Filter" || isFresh(fa.X) {
					return
				}
				name = fa.X.Type().Underlying().(*types.Pointer).Elem().Underlying().(*types.Struct).Field(fa.Field).Name()
				if name != "gated" && name != "orderedGated" {
					return
				}
				valNil, valStr = isNilConst(st.Val), tb.Of(st.Val).String()
			}
			n++
			construct := p.ShortFn(f) + ":assign:" + name
			dominatedBy := func(match func(l, rr *Term) bool) bool {
				for d := in.Block(); d != nil && d.Idom() != nil; d = d.Idom() {
					cc, ts, fs := condOf(d.Idom())
					bo, isB := cc.(*ssa.BinOp)
					if !isB || (bo.Op != token.EQL && bo.Op != token.NEQ) {
						continue
					}
					edge := ts
					if bo.Op == token.NEQ {
						edge = fs
					}
					if !edgeDominates(d.Idom(), edge, in.Block()) {
						continue
					}
					if match(tb.Of(bo.X), tb.Of(bo.Y)) || match(tb.Of(bo.Y), tb.Of(bo.X)) {
						return true
					}
				}
				return false
			}
			lazy := dominatedBy(func(l, rr *Term) bool { return l.Is("Field", name) && rr.Is("Const", "nil") })
			noBroker := dominatedBy(func(l, rr *Term) bool { return l.Is("Field", "Broker") && rr.Is("Const", "nil") })
			if !noBroker && !lazy && f.Parent() == nil {
				// a helper ("drop everything"): every call site must be dominated by the no-Broker test
				sites := 0
				all := true
				for _, g := range p.FuncsIn(PkgGated) {
					gtb := p.NewTerms(nil)
					eachInstr(g, func(ci ssa.Instruction) {
						call, ok := ci.(ssa.CallInstruction)
						if !ok || call.Common().StaticCallee() != f {
							return
						}
						sites++
						if _, isDefer := ci.(*ssa.Defer); isDefer || g.Parent() != nil {
							all = false
							return
						}
						dom := false
						for d := ci.Block(); d != nil && d.Idom() != nil; d = d.Idom() {
							cc, ts, fs := condOf(d.Idom())
							bo, isB := cc.(*ssa.BinOp)
							if !isB || (bo.Op != token.EQL && bo.Op != token.NEQ) {
								continue
							}
							edge := ts
							if bo.Op == token.NEQ {
								edge = fs
							}
							if !edgeDominates(d.Idom(), edge, ci.Block()) {
								continue
							}
							l, rr := gtb.Of(bo.X), gtb.Of(bo.Y)
							if (l.Is("Field", "Broker") && rr.Is("Const", "nil")) || (rr.Is("Field", "Broker") && l.Is("Const", "nil")) {
								dom = true
							}
						}
						if !dom {
							all = false
						}
					})
				}
				noBroker = sites > 0 && all
			}
			switch {
			case lazy && !valNil:
				r.Ok(rule, construct+":lazy-init", p.InstrPos(in), "a nil container is initialised with an empty one")
			case noBroker && f.Parent() == nil && valNil:
				r.Bad(rule, construct+":nil", p.InstrPos(in), "the container "+name+" is set to nil: Process initialises the containers, releases the lock to expire old groups and relies on them afterwards — a concurrent FlushAll without a Broker makes it panic on the nil list / nil map. Dropping everything must leave empty containers")
			case noBroker && f.Parent() == nil:
				r.Ok(rule, construct+":no-broker", p.InstrPos(in), "everything is dropped only where no Broker is configured")
			default:
				r.Bad(rule, construct, p.InstrPos(in), "the container "+name+" is replaced as a whole ("+valStr+") at a point not dominated by `w.Broker == nil` (nor a lazy initialisation): groups that were accepted and never failed are discarded")
			}
		})
	}
	if n < 4 {
		r.Und(rule, "instance-floor", "", fmt.Sprintf("only %d whole-container assignments found (4 confirmed by hand: 2 lazy initialisations, 2 no-Broker resets)", n))
	}
}

// ruleGlobals (C19.globals): stock nodes share nothing through package-level
// state. Every package-level variable of the repository's packages that is
// used outside init is either an immutable sentinel — an error value or a value
// of basic type (string/number/bool), never assigned outside init — or it is
// reported: mutable state at package level (a pool, a cache, a map, a buffer) is
// shared by every node of every pipeline of every Broker, which is exactly what
// "safe to share across pipelines and goroutines" excludes unless proven
// otherwise by reading.
type use struct {
	fn    *ssa.Function
	in    ssa.Instruction
	write bool
}

func us2instrs(us []use) []ssa.Instruction {
	var out []ssa.Instruction
	for _, u := range us {
		if u.fn.Name() != "init" {
			out = append(out, u.in)
		}
	}
	return out
}

// readOnlyGlobal: outside init the global is only loaded, and the loaded value is
// only looked up / indexed / ranged / measured / compared (never stored into, never
// passed to a call, never converted to an interface).
func readOnlyGlobal(g *ssa.Global, uses []ssa.Instruction) bool {
	var roValue func(v ssa.Value, d int) bool
	roValue = func(v ssa.Value, d int) bool {
		if d > 4 {
			return false
		}
		for _, ref := range nonDebugRefs(v) {
			switch x := ref.(type) {
			case *ssa.Lookup:
				if x.X != v {
					return false
				}
			case *ssa.Index:
			case *ssa.IndexAddr:
				for _, r2 := range nonDebugRefs(x) {
					if ld, ok := r2.(*ssa.UnOp); !ok || ld.Op != token.MUL {
						return false
					}
				}
			case *ssa.Range:
			case *ssa.BinOp:
			case *ssa.Field:
				if !roValue(x, d+1) {
					return false
				}
			case *ssa.Extract:
			case ssa.CallInstruction:
				b, ok := x.Common().Value.(*ssa.Builtin)
				if !ok || (b.Name() != "len" && b.Name() != "cap") {
					return false
				}
			default:
				return false
			}
		}
		return true
	}
	for _, in := range uses {
		ld, ok := in.(*ssa.UnOp)
		if !ok || ld.Op != token.MUL || ld.X != ssa.Value(g) {
			return false
		}
		if !roValue(ld, 0) {
			return false
		}
	}
	return len(uses) > 0
}

func (c *Ctx) ruleGlobals(rule string) {
	p, r := c.P, c.R
	uses := map[*ssa.Global][]use{}
	for _, f := range c.P.Funcs {
		if p.InCtl(f) {
			continue
		}
		eachInstr(f, func(in ssa.Instruction) {
			for _, op := range in.Operands(nil) {
				g, ok := (*op).(*ssa.Global)
				if !ok || g.Pkg == nil || !strings.HasPrefix(g.Pkg.Pkg.Path(), PkgRoot) || strings.HasPrefix(g.Pkg.Pkg.Path(), PkgCtl) || strings.Contains(g.Pkg.Pkg.Path(), "/testing/") {
					continue
				}
				st, isSt := in.(*ssa.Store)
				uses[g] = append(uses[g], use{f, in, isSt && st.Addr == ssa.Value(g)})
			}
		})
	}
	n := 0
	var names []string
	for g, us := range uses {
		if strings.HasPrefix(g.Name(), "init$") {
			continue
		}
		elem := g.Type().Underlying().(*types.Pointer).Elem()
		n++
		names = append(names, g.Pkg.Pkg.Name()+"."+g.Name())
		construct := "var " + g.Pkg.Pkg.Name() + "." + g.Name()
		var wr *use
		for i := range us {
			if us[i].write && us[i].fn.Name() != "init" {
				wr = &us[i]
			}
		}
		if wr != nil {
			r.Bad(rule, construct+":assigned", p.InstrPos(wr.in), "package-level variable "+g.Name()+" is assigned outside init by "+p.ShortFn(wr.fn)+": state shared by every node, pipeline and Broker without a lock")
			continue
		}
		immutable := false
		switch u := elem.Underlying().(type) {
		case *types.Basic:
			immutable = true
		case *types.Interface:
			immutable = types.TypeString(elem, shortQual) == "error"
		default:
			_ = u
		}
		if !immutable && seamTarget(g) != nil {
			// a func variable only the package initialiser assigns (a seam tests can replace): read-only for the library
			r.Ok(rule, construct+":seam", p.Pos(g.Pos()), "func variable assigned once, by the package initialiser, to "+funcShort(seamTarget(g))+": never written by the library")
			continue
		}
		if !immutable && c.bufferPool(g) && c.poolUsesScratch(g) {
			r.Ok(rule, construct+":scratch-pool", p.Pos(g.Pos()), "a sync.Pool of *bytes.Buffer used only as reset-before-use scratch space whose contents leave as fresh copies")
			continue
		}
		if !immutable && readOnlyGlobal(g, us2instrs(us)) {
			r.Ok(rule, construct+":read-only", p.Pos(g.Pos()), "only read (lookups, indexing, ranging, comparisons): never written, never handed out")
			continue
		}
		if !immutable {
			var who string
			for _, u := range us {
				if u.fn.Name() != "init" {
					who = p.ShortFn(u.fn)
				}
			}
			if who == "" {
				continue // only touched by init (e.g. interface assertions)
			}
			r.Bad(rule, construct+":shared-mutable", p.Pos(g.Pos()), "package-level variable "+g.Name()+" of type "+types.TypeString(elem, shortQual)+" is used by "+who+": memory shared by every node of every pipeline (pooled or cached buffers alias the bytes stored in events that other pipelines still read)")
			continue
		}
		r.Ok(rule, construct, p.Pos(g.Pos()), "immutable sentinel (basic or error type, never assigned outside init)")
	}
	sort.Strings(names)
	r.Notes = append(r.Notes, "package-level variables in use: "+strings.Join(names, ", "))
	if n < 5 {
		r.Und(rule, "instance-floor", "", fmt.Sprintf("only %d package-level variables found in use (>= 5 confirmed by hand: error sentinels, cloudevents formats, gated defaults)", n))
	}
}

// unconditionalInLoop reports whether instruction in runs on every iteration of
// its innermost loop: walking the dominator chain from its block up to the loop
// header meets no conditional branch other than the header's own continuation test.
func unconditionalInLoop(in ssa.Instruction) (bool, *ssa.BasicBlock) {
	hdr := innermostHeader(in.Block())
	if hdr == nil {
		return false, nil
	}
	// the loop test may sit in the header itself or (range loops) in the header only
	for d := in.Block().Idom(); d != nil; d = d.Idom() {
		if d == hdr {
			return true, nil
		}
		if _, ok := lastInstr(d).(*ssa.If); ok {
			// a block between the header and the instruction that branches: the instruction is
			// conditional unless both successors lead to it (diamond rejoined before it)
			reach := 0
			for _, s := range d.Succs {
				if s != hdr && (s == in.Block() || s.Dominates(in.Block()) || postReaches(s, in.Block(), hdr)) {
					reach++
				}
			}
			if reach < len(d.Succs) {
				return false, d
			}
		}
		if !hdr.Dominates(d) {
			break
		}
	}
	return in.Block() == hdr, nil
}

// postReaches: every path from s reaches target before reaching stop (the loop header) or leaving.
func postReaches(s, target, stop *ssa.BasicBlock) bool {
	seen := map[*ssa.BasicBlock]bool{}
	var walk func(b *ssa.BasicBlock) bool
	walk = func(b *ssa.BasicBlock) bool {
		if b == target {
			return true
		}
		if b == stop || seen[b] {
			return false
		}
		seen[b] = true
		if len(b.Succs) == 0 {
			return false
		}
		for _, x := range b.Succs {
			if !walk(x) {
				return false
			}
		}
		return true
	}
	return walk(s)
}

// freshUsageRecord: v is a freshly built nodeUsage whose node field is a
// parameter of the function building it (a node handed in by the caller); when v
// is itself a parameter of a package-local helper, every call site must pass such a record.
func (c *Ctx) freshUsageRecord(v ssa.Value, f *ssa.Function, d int) (bool, string) {
	p := c.P
	tb := p.NewTerms(nil)
	switch x := v.(type) {
	case *ssa.Alloc:
		var nodeT *Term
		for _, ref := range nonDebugRefs(x) {
			fa, ok := ref.(*ssa.FieldAddr)
			if !ok {
				continue
			}
			name := fa.X.Type().Underlying().(*types.Pointer).Elem().Underlying().(*types.Struct).Field(fa.Field).Name()
			for _, r2 := range nonDebugRefs(fa) {
				if st, ok := r2.(*ssa.Store); ok && st.Addr == ssa.Value(fa) && name == "node" {
					nodeT = tb.Of(st.Val)
				}
			}
		}
		if nodeT != nil && nodeT.Op == "Param" {
			return true, ""
		}
		return false, "the node stored in the registry is " + nodeT.String() + ", not a node handed in by the caller (a node taken out of the registry for closing must not be put back)"
	case *ssa.Parameter:
		if d >= 2 {
			break
		}
		idx := -1
		for i, prm := range f.Params {
			if prm == x {
				idx = i
			}
		}
		sites := 0
		for _, g := range p.FuncsIn(PkgRoot) {
			var bad string
			eachInstr(g, func(ci ssa.Instruction) {
				call, ok := ci.(ssa.CallInstruction)
				if !ok || call.Common().StaticCallee() != f || idx < 0 || idx >= len(call.Common().Args) {
					return
				}
				sites++
				if ok2, why := c.freshUsageRecord(call.Common().Args[idx], g, d+1); !ok2 {
					bad = why
				}
			})
			if bad != "" {
				return false, bad
			}
		}
		if sites > 0 {
			return true, ""
		}
	}
	return false, "Broker.nodes receives " + tb.Of(v).String() + ", not a fresh usage record around a caller-supplied node"
}

// ruleNodeTypes: every stock node reports its kind truthfully and
// unconditionally: Type() is a single return of the NodeType constant of its
// role. The traversal classifies completions as sink completions by Type()
// (C02) and pipeline validation orders nodes by Type() (C05); the table is the
// nine implementations confirmed by reading, and the inventory of Type()
// implementations found in the program must equal it.
func (c *Ctx) ruleNodeTypes(rule string) {
	p, r := c.P, c.R
	want := map[string]string{
		"(*eventlogger.FileSink).Type":                          "NodeTypeSink",
		"(*sinks/writer.Sink).Type":                             "NodeTypeSink",
		"(*sinks/channel.ChannelSink).Type":                     "NodeTypeSink",
		"(*eventlogger.Filter).Type":                            "NodeTypeFilter",
		"(*filters/encrypt.Filter).Type":                        "NodeTypeFilter",
		"(*filters/gated.Filter).Type":                          "NodeTypeFilter",
		"(*eventlogger.JSONFormatter).Type":                     "NodeTypeFormatter",
		"(*eventlogger.JSONFormatterFilter).Type":               "NodeTypeFormatterFilter",
		"(*formatter_filters/cloudevents.FormatterFilter).Type": "NodeTypeFormatterFilter",
	}
	consts := map[string]string{}
	if pkg := p.SSAPkgs[PkgRoot]; pkg != nil {
		for _, nm := range []string{"NodeTypeSink", "NodeTypeFilter", "NodeTypeFormatter", "NodeTypeFormatterFilter"} {
			if k, ok := pkg.Members[nm].(*ssa.NamedConst); ok {
				consts[nm] = k.Value.Value.ExactString()
			}
		}
	}
	seen := map[string]bool{}
	for _, f := range p.Funcs {
		if p.InCtl(f) || f.Name() != "Type" || f.Signature.Recv() == nil || f.Synthetic != "" || f.Signature.Results().Len() != 1 ||
			typeShort(f.Signature.Results().At(0).Type()) != "eventlogger.NodeType" || strings.Contains(PkgPathOf(f), "/testing/") {
			continue
		}
		name := p.ShortFn(f)
		seen[name] = true
		w, known := want[name]
		if !known {
			r.Bad(rule, name, p.Pos(f.Pos()), "a Node implementation that is not in the confirmed table of stock nodes")
			continue
		}
		rets := Returns(f)
		ok := len(rets) == 1 && len(f.Blocks) == 1
		got := ""
		if len(rets) > 0 {
			got = p.NewTerms(nil).Of(RetVals(rets[0])[0]).String()
		}
		ok = ok && got == "Const("+consts[w]+")"
		r.Check(ok, rule, name, p.Pos(f.Pos()), "unconditionally returns "+w, "Type() is not the unconditional constant "+w+" (returns "+got+"): completions are classified and pipelines validated by this value")
	}
	for name := range want {
		if !seen[name] {
			r.Und(rule, name, "", "stock node Type() implementation not found")
		}
	}
}

// ruleChannelCtor (C13.ctor): what ChannelSink.Process selects on is what the
// caller configured: NewChannelSink stores exactly its channel and its timeout
// (not swapped, defaulted or clamped) after excluding a nil channel and a
// non-positive timeout, and nothing writes those two fields afterwards.
func (c *Ctx) ruleChannelCtor() {
	p, r := c.P, c.R
	const rule = "C13.ctor"
	fn := c.Fn(rule, PkgChannel, "", "NewChannelSink")
	if fn == nil {
		return
	}
	nOK := 0
	for _, pa := range c.enum(rule, fn, PathOpts{Inline: inlineSmall()}) {
		rv := pa.RetVals()
		if rv == nil || len(rv) != 2 || !isNilConst(rv[1]) {
			continue
		}
		cell, ok := rv[0].(*ssa.Alloc)
		if !ok {
			r.Bad(rule, "NewChannelSink:result", p.InstrPos(pa.End), "a successful path does not return a freshly built sink")
			continue
		}
		tb := pa.TermsAt(pa.LastStep())
		lf := litFields(pa, cell, len(pa.Steps))
		okF := lf["eventChan"] != nil && lf["timeoutDuration"] != nil && tb.Of(lf["eventChan"]).IsParam("0:c") && tb.Of(lf["timeoutDuration"]).IsParam("1:t")
		nilC, f1 := hasAtom(pa, func(at Atom) bool { return at.Op == "eq" && at.L.IsParam("0:c") && at.R.Is("Const", "nil") })
		pos, f2 := hasAtom(pa, func(at Atom) bool { return at.Op == "lt" && at.L.Is("Const", "0") && at.R.IsParam("1:t") })
		okG := f1 && !nilC && f2 && pos
		if okF && okG {
			nOK++
		} else {
			r.Bad(rule, "NewChannelSink:fields", p.InstrPos(pa.End), fmt.Sprintf("the sink is built with eventChan=%s timeoutDuration=%s (guards: channel non-nil=%v, timeout > 0=%v); expected the two arguments after both guards", lfName(tb, lf["eventChan"]), lfName(tb, lf["timeoutDuration"]), f1 && !nilC, f2 && pos))
		}
	}
	r.Check(nOK >= 1, rule, "NewChannelSink", p.Pos(fn.Pos()), "the sink carries exactly the given channel and timeout, after rejecting a nil channel and a non-positive timeout", "no successful constructor path verified")
	// immutability after construction
	for _, f := range p.FuncsIn(PkgChannel) {
		eachInstr(f, func(in ssa.Instruction) {
			st, ok := in.(*ssa.Store)
			if !ok {
				return
			}
			fa, ok := st.Addr.(*ssa.FieldAddr)
			if !ok || typeShort(fa.X.Type()) != "channel.ChannelSink" || isFresh(fa.X) {
				return
			}
			r.Bad(rule, p.ShortFn(f)+":write", p.InstrPos(in), "a field of ChannelSink is written after construction (Process reads them without a lock)")
		})
	}
}

// ruleFlatten (C06.flatten): the set that both the increments (RegisterPipeline)
// and the releases (graphMap.Nodes) are computed from really contains every node
// of the linked pipeline: in linkedNode.flatten's worklist loop the popped node's
// id is recorded unconditionally and all of its successors are pushed
// unconditionally (a full inner loop reached on every iteration). A skip of
// "already seen ids" that also skips the successors silently leaves every node
// behind a repeated id out of the reference counts.
func (c *Ctx) ruleFlatten(rule string) {
	p, r := c.P, c.R
	fn := c.Fn(rule, PkgRoot, "linkedNode", "flatten")
	if fn == nil {
		return
	}
	tb := p.NewTerms(nil)
	var rec *ssa.MapUpdate
	var nextLoad ssa.Instruction
	eachInstr(fn, func(in ssa.Instruction) {
		switch x := in.(type) {
		case *ssa.MapUpdate:
			if t := tb.Of(x.Key); t.Is("Field", "nodeID") {
				rec = x
			}
		case *ssa.UnOp:
			if x.Op == token.MUL {
				if fa, ok := x.X.(*ssa.FieldAddr); ok && typeShort(fa.X.Type()) == "eventlogger.linkedNode" {
					st := fa.X.Type().Underlying().(*types.Pointer).Elem().Underlying().(*types.Struct)
					if st.Field(fa.Field).Name() == "next" && nextLoad == nil {
						nextLoad = in
					}
				}
			}
		}
	})
	if rec == nil || nextLoad == nil {
		if c.flattenRecursive(rule, fn) {
			return
		}
		r.Und(rule, "flatten:shape", p.Pos(fn.Pos()), "cannot find the recording of node ids or the read of the successors")
		return
	}
	okRec, at1 := unconditionalInLoop(rec)
	where := func(b *ssa.BasicBlock) string {
		if b == nil {
			return ""
		}
		return " (branch at " + p.InstrPos(lastInstr(b)) + ")"
	}
	if !okRec && at1 != nil {
		// recording "if not present yet" is the same as recording
		if cond, _, _ := condOf(at1); cond != nil {
			ct := tb.Of(cond)
			if ct.Op == "Extract" && ct.Name == "1" && ct.Args[0].Op == "Lookup" && ct.Args[0].Args[0].V == rec.Map {
				okRec = true
			}
		}
	}
	r.Check(okRec, rule, "flatten:record", p.InstrPos(rec), "every visited node's id is recorded", "a visited node's id is recorded only under a condition"+where(at1))
	okNext, at2 := unconditionalInLoop(nextLoad)
	r.Check(okNext, rule, "flatten:successors", p.InstrPos(nextLoad), "the successors of every visited node are visited", "the successors of a visited node are pushed only under a condition"+where(at2)+": the nodes linked behind a node whose id was already seen are never visited, so they are neither counted as in use nor released")
	// the push itself is a full loop over node.next (or a variadic append of it)
	okPush := false
	pushWhy := ""
	eachInstr(fn, func(in ssa.Instruction) {
		call, ok := in.(*ssa.Call)
		if !ok {
			return
		}
		if b, isB := call.Call.Value.(*ssa.Builtin); !isB || b.Name() != "append" {
			return
		}
		arg := tb.Of(call.Call.Args[1])
		if arg.Is("Field", "next") {
			okPush = true // append(stack, node.next...)
		}
		if arg.Op == "Varargs" && len(arg.Args) == 1 && arg.Args[0].Op == "Index" && arg.Args[0].Args[0].Is("Field", "next") {
			full, why := innerLoopFull(call)
			unc, _ := unconditionalInLoop(call)
			if full && unc {
				okPush = true
			} else {
				pushWhy = fmt.Sprintf(" (full loop=%v %s, unconditional=%v)", full, why, unc)
			}
		}
	})
	// progress: every iteration takes one node off the worklist (stack = stack[:len(stack)-1]
	// unconditionally) — a visited node that stays on the stack makes the loop spin forever,
	// under the Broker's write lock
	okPop := false
	eachInstr(fn, func(in ssa.Instruction) {
		sl, ok := in.(*ssa.Slice)
		if !ok || sl.High == nil {
			return
		}
		ht := tb.Of(sl.High)
		if ht.Op == "Bin" && ht.Name == "-" && ht.Args[0].Is("Call", "builtin len") && ht.Args[1].Is("Const", "1") {
			if unc, _ := unconditionalInLoop(in); unc {
				okPop = true
			}
		}
	})
	r.Check(okPop, rule, "flatten:pop", p.Pos(fn.Pos()), "every iteration removes the visited node from the worklist", "the worklist loop does not unconditionally pop the node it visits: for a repeated node id the loop never terminates (while the Broker's write lock is held)")
	r.Check(okPush, rule, "flatten:push", p.Pos(fn.Pos()), "every successor is pushed (full, unconditional loop over node.next)", "not every successor of a visited node is pushed onto the worklist"+pushWhy)
}

// innerLoopFull: the innermost natural loop containing in is left only through its
// header's own continuation test (exhaustion): no break, return or goto out of the body.
func innerLoopFull(in ssa.Instruction) (bool, string) {
	h := innermostHeader(in.Block())
	if h == nil {
		return false, "not inside a loop"
	}
	body := map[*ssa.BasicBlock]bool{h: true}
	reach := blocksReaching(h)
	for _, b := range h.Parent().Blocks {
		if h.Dominates(b) && reach[b] {
			body[b] = true
		}
	}
	for b := range body {
		for _, s := range b.Succs {
			if !body[s] && b != h {
				return false, "the loop body can leave the loop at " + b.Parent().Prog.Fset.Position(lastInstr(b).Pos()).String()
			}
		}
	}
	return true, ""
}

// ruleOneSection (C04.section): check-then-act atomicity of the mutating Broker
// calls. On every path of RegisterNode, RegisterPipeline, RemoveNode,
// RemovePipeline, RemovePipelineAndNodes and the two threshold setters (helpers
// inlined), all accesses to broker state — lookups/updates of Broker.nodes and
// Broker.graphs, every graphMap operation, every read or write of a usage
// record — lie in ONE critical section of Broker.lock: the lock is not released
// between the first and the last of them. Validating under one acquisition and
// committing under another lets a concurrent call invalidate what was checked,
// although every single access is properly locked (so the lock-set rules and
// the race detector stay silent).
func (c *Ctx) ruleOneSection(rule string) {
	p, r := c.P, c.R
	n := 0
	for _, name := range []string{"RegisterNode", "RegisterPipeline", "RemoveNode", "RemovePipeline", "RemovePipelineAndNodes", "SetSuccessThreshold", "SetSuccessThresholdSinks"} {
		fn := c.Fn(rule, PkgRoot, "Broker", name)
		if fn == nil {
			continue
		}
		bad := false
		nPaths := 0
		for _, pa := range c.enum(rule, fn, PathOpts{Inline: func(caller *ssa.Function, call *ssa.Call, callee *ssa.Function) bool {
			if PkgPathOf(caller) != PkgPathOf(callee) || len(callee.Blocks) > 60 {
				return false
			}
			// graphMap methods and the pure helpers stay opaque calls (their accesses are the call itself)
			if callee.Signature.Recv() != nil && typeShort(callee.Signature.Recv().Type()) == "eventlogger.graphMap" {
				return false
			}
			switch funcShort(callee) {
			case "eventlogger.getOpts", "eventlogger.linkNodes", "(eventlogger.Pipeline).validate", "(*eventlogger.graph).doValidate", "(*eventlogger.linkedNode).flatten", "(eventlogger.unregisteredNode).close":
				return false
			}
			return true
		}, InlineDepth: 3}) {
			section, first, last := 0, -1, -1
			var firstIn, lastIn ssa.Instruction
			for _, s := range pa.Steps {
				in := s.In
				if s.Deferred {
					if d, ok := in.(*ssa.Defer); ok {
						if op := lockOpOf(&d.Call); op != nil && !op.Acquire && op.Class == "eventlogger.Broker.lock" {
							section++
						}
					}
					continue
				}
				if ci, ok := in.(ssa.CallInstruction); ok {
					if _, isDefer := in.(*ssa.Defer); isDefer {
						continue
					}
					if op := lockOpOf(ci.Common()); op != nil {
						if !op.Acquire && op.Class == "eventlogger.Broker.lock" {
							section++
						}
						continue
					}
				}
				if !isBrokerStateAccess(pa, s) {
					continue
				}
				if first < 0 {
					first, firstIn = section, in
				}
				last, lastIn = section, in
			}
			if first < 0 {
				continue
			}
			nPaths++
			if first != last && !bad {
				bad = true
				r.Bad(rule, "(*Broker)."+name+":one-section", p.InstrPos(lastIn), "broker state is accessed in more than one critical section of Broker.lock on one path: first at "+p.InstrPos(firstIn)+", again after the lock was released at "+p.InstrPos(lastIn)+" — what was checked under the first acquisition can be invalidated by a concurrent call before it is acted upon", p.PathSummary(pa))
			}
		}
		if !bad && nPaths > 0 {
			n++
			r.Ok(rule, "(*Broker)."+name+":one-section", p.Pos(fn.Pos()), fmt.Sprintf("%d paths: every access to broker state lies in one critical section", nPaths))
		}
	}
	if n < 6 {
		r.Und(rule, "instance-floor", "", fmt.Sprintf("only %d mutating Broker calls decided (7 expected)", n))
	}
}

// isBrokerStateAccess: the step reads or writes the registry.
func isBrokerStateAccess(pa *Path, s Step) bool {
	tb := pa.TermsAt(s)
	isReg := func(v ssa.Value) bool {
		t := tb.Of(v)
		return (t.Is("Field", "nodes") || t.Is("Field", "graphs")) && len(t.Args) == 1 && t.Args[0].V != nil && strings.Contains(typeShort(t.Args[0].V.Type()), "eventlogger.Broker")
	}
	switch x := s.In.(type) {
	case *ssa.Lookup:
		return isReg(x.X)
	case *ssa.MapUpdate:
		return isReg(x.Map)
	case *ssa.Range:
		return isReg(x.X)
	case ssa.CallInstruction:
		cc := x.Common()
		if b, ok := cc.Value.(*ssa.Builtin); ok && b.Name() == "delete" {
			return isReg(cc.Args[0])
		}
		if sc := cc.StaticCallee(); sc != nil && sc.Signature.Recv() != nil && typeShort(sc.Signature.Recv().Type()) == "eventlogger.graphMap" {
			return true
		}
	case *ssa.UnOp:
		if x.Op == token.MUL {
			if fa, ok := x.X.(*ssa.FieldAddr); ok && typeShort(fa.X.Type()) == "eventlogger.nodeUsage" && !isFresh(fa.X) {
				return true
			}
		}
	case *ssa.Store:
		if fa, ok := x.Addr.(*ssa.FieldAddr); ok && typeShort(fa.X.Type()) == "eventlogger.nodeUsage" && !isFresh(fa.X) {
			return true
		}
	}
	return false
}

// errorCarriedOnPaths is the path-sensitive complement of errorFlowRule for the
// accumulator idiom: on every returning path of fn, for every fallible call on
// the path, the call's error was either tested on that path (its branches are
// decided by errorFlowRule) or the error the path returns is built from it. An
// error that is merged into a variable which a later assignment overwrites is
// neither — it is dropped on that path even though, flow-insensitively, "it
// reaches a return".
func (c *Ctx) errorCarriedOnPaths(rule string, fn *ssa.Function, exc []ErrException) {
	p, r := c.P, c.R
	errIdx, ok := returnsError(fn.Signature)
	if !ok {
		return
	}
	flagged := map[string]bool{}
	for _, pa := range c.enum(rule, fn, PathOpts{}) {
		rv := pa.RetVals()
		if rv == nil || errIdx >= len(rv) {
			continue
		}
		retT := pa.TermsAt(pa.LastStep()).Of(rv[errIdx])
		for _, s := range pa.CallsOn() {
			call, isCall := s.In.(*ssa.Call)
			if !isCall {
				continue
			}
			idx, fallible := returnsError(call.Call.Signature())
			if !fallible || lockOpOf(&call.Call) != nil {
				continue
			}
			name := calleeName(&call.Call)
			skip := false
			for _, e := range exc {
				if e.Fn == p.ShortFn(fn) && e.Callee == name {
					skip = true
				}
			}
			if skip {
				continue
			}
			var errVal ssa.Value = call
			if call.Call.Signature().Results().Len() > 1 {
				errVal = nil
				for _, ref := range nonDebugRefs(call) {
					if ex, ok := ref.(*ssa.Extract); ok && ex.Index == idx {
						errVal = ex
					}
				}
			}
			if errVal == nil {
				continue // discarded outright: reported by errorFlowRule
			}
			tested := false
			for _, at := range pa.Atoms {
				if (at.L != nil && termMentions(at.L, errVal, "\x00")) || (at.R != nil && termMentions(at.R, errVal, "\x00")) {
					tested = true
				}
			}
			if tested || termMentions(retT, errVal, "\x00") {
				continue
			}
			construct := p.ShortFn(fn) + "->" + name + ":dropped-on-path"
			if !flagged[construct] {
				flagged[construct] = true
				r.Bad(rule, construct, p.InstrPos(call), "on a path to "+p.InstrPos(pa.End)+" the error of this call is neither tested nor part of the returned error ("+retT.String()+"): a later assignment overwrote it, so the failure is lost: "+p.PathSummary(pa))
			}
		}
	}
	if len(flagged) == 0 {
		r.Ok(rule, p.ShortFn(fn)+":carried-on-paths", p.Pos(fn.Pos()), "on every returning path every fallible call's error is tested or carried into the returned error")
	}
}

// ruleGatedDiscard (C11.discard): "an accepted event is discarded only when no
// Broker is configured or when composition or sending reports an error". Every
// path of openGate on which the group's removal has been registered and the
// composite is not handed to the Broker carries one of exactly these reasons:
// composition failed, composition returned a Gateable payload (refused), or
// Broker == nil. Any other early return (context state, size, age) silently drops
// the group's events.
func (c *Ctx) ruleGatedDiscard(rule string) {
	p, r := c.P, c.R
	fn := c.Fn(rule, PkgGated, "Filter", "openGate")
	if fn == nil {
		return
	}
	nDrop, nSend := 0, 0
	for _, pa := range c.enum(rule, fn, PathOpts{Inline: inlineSmall()}) {
		if _, ok := pa.End.(*ssa.Return); !ok {
			continue
		}
		removal, sent, composed := false, false, false
		var compose *ssa.Call
		for _, s := range pa.Steps {
			switch x := s.In.(type) {
			case *ssa.Defer:
				n := calleeName(&x.Call)
				if n == "(*container/list.List).Remove" || n == "builtin delete" {
					removal = true
				}
				// the removal may live in a package-local helper or closure that is deferred
				if callee := deferTarget(&x.Call); callee != nil && PkgPathOf(callee) == PkgGated &&
					(c.mayReachCallee(callee, "(*container/list.List).Remove", map[*ssa.Function]bool{}) || hasDelete(callee)) {
					removal = true
				}
			case *ssa.Call:
				n := calleeName(&x.Call)
				if n == "(*container/list.List).Remove" || n == "builtin delete" {
					removal = true
				}
				if callee := x.Call.StaticCallee(); callee != nil && callee != fn && PkgPathOf(callee) == PkgGated && callee.Blocks != nil &&
					c.mayReachCallee(callee, "(*container/list.List).Remove", map[*ssa.Function]bool{}) {
					removal = true
				}
				if strings.HasSuffix(n, ".Send") && strings.Contains(n, "invoke") {
					sent = true
				}
				if n == "dynamic" && pa.TermsAt(s).Of(x.Call.Value).Is("Field", "composeFrom") {
					composed, compose = true, x
				}
			}
		}
		if !removal {
			continue // nothing was (going to be) removed: parameter checks before the defers
		}
		if sent {
			nSend++
			continue
		}
		nDrop++
		reason := ""
		if composed {
			if pol, f := hasAtom(pa, func(at Atom) bool {
				return at.Op == "eq" && at.R.Is("Const", "nil") && at.L.Op == "Extract" && at.L.Name == "2" && at.L.Args[0].V == ssa.Value(compose)
			}); f && !pol {
				reason = "composition failed"
			}
			if pol, f := hasAtom(pa, func(at Atom) bool {
				return at.Op == "true" && at.L.Op == "Extract" && at.L.Name == "1" && at.L.Args[0].Is("Assert", "gated.Gateable")
			}); f && pol {
				reason = "composition returned a Gateable payload"
			}
			if pol, f := hasAtom(pa, func(at Atom) bool {
				return at.Op == "eq" && at.L.Is("Field", "Broker") && at.R.Is("Const", "nil")
			}); f && pol {
				reason = "no Broker configured"
			}
		}
		if reason == "" {
			r.Bad(rule, "openGate:discard", p.InstrPos(pa.End), "a group is removed from the gate without being handed to the Broker on a path that established none of: composition failed, Gateable composite, no Broker — its events are silently discarded ("+p.PathSummary(pa)+")")
		} else {
			r.Ok(rule, "openGate:discard:"+reason, p.InstrPos(pa.End), "the group is dropped for a stated reason")
		}
	}
	r.Check(nSend >= 1 && nDrop >= 3, rule, "openGate:paths", p.Pos(fn.Pos()), fmt.Sprintf("%d sending and %d dropping paths classified", nSend, nDrop), fmt.Sprintf("openGate has %d sending / %d dropping paths (>= 1 / >= 3 expected)", nSend, nDrop))
}

// ruleListOps (C17.listops / C11): arrival order is the list order. The only
// operations ever applied to a container/list.List in package gated are
// PushBack (a new group goes to the end), Remove, Front, Len and Init, and
// Element.Next: nothing reorders or inserts elsewhere (MoveToBack on activity,
// PushFront, InsertBefore, ...), so "oldest first" is the order of group creation.
func (c *Ctx) ruleListOps(rule string) {
	p, r := c.P, c.R
	allowed := map[string]bool{"PushBack": true, "Remove": true, "Front": true, "Len": true, "Init": true, "Next": true}
	n := 0
	for _, f := range p.FuncsIn(PkgGated) {
		eachInstr(f, func(in ssa.Instruction) {
			ci, ok := in.(ssa.CallInstruction)
			if !ok {
				return
			}
			sc := ci.Common().StaticCallee()
			if sc == nil || sc.Pkg == nil || sc.Pkg.Pkg.Path() != "container/list" || sc.Signature.Recv() == nil {
				return
			}
			n++
			r.Check(allowed[sc.Name()], rule, p.ShortFn(f)+"->list."+sc.Name(), p.InstrPos(in), "order-preserving list operation", "list operation "+sc.Name()+" can reorder or insert out of arrival order: expiry and FlushAll emit groups in list order, which must stay the order in which the groups were opened")
		})
	}
	if n < 6 {
		r.Und(rule, "instance-floor", "", fmt.Sprintf("only %d list operations found in package gated (>= 6 confirmed by hand)", n))
	}
}

// ruleMutationSinks (C10.sinks): shape preservation rests on WHICH reflective
// mutations the filter can perform at all. Inventory of every call, in package
// encrypt, of a reflect.Value method that mutates (Set*, and reflect.Append /
// Copy / MakeMapWithSize style growth) and of pointerstructure.Set:
//   - SetString / SetBytes occur only in setValue, each under its own type test
//     (string / []byte): only string-like leaves are ever rewritten;
//   - Set occurs only to fill a freshly created addressable copy (reflect.New(T).Elem());
//   - SetMapIndex occurs only in processUnfiltered, with a key taken from the very map
//     being iterated (no key added) and a value that is not the zero reflect.Value
//     (which would delete the key);
//   - nothing else (SetLen, SetInt, Append, ...) exists.
func (c *Ctx) ruleMutationSinks() {
	p, r := c.P, c.R
	const rule = "C10.sinks"
	n := 0
	for _, f := range p.FuncsIn(PkgEncrypt) {
		if strings.Contains(PkgPathOf(f), "/testing/") {
			continue
		}
		tb := p.NewTerms(nil)
		eachInstr(f, func(in ssa.Instruction) {
			ci, ok := in.(ssa.CallInstruction)
			if !ok {
				return
			}
			sc := ci.Common().StaticCallee()
			if sc == nil || sc.Pkg == nil {
				return
			}
			name := ""
			switch {
			case sc.Pkg.Pkg.Path() == "reflect" && sc.Signature.Recv() != nil && typeShort(sc.Signature.Recv().Type()) == "reflect.Value" && strings.HasPrefix(sc.Name(), "Set"):
				name = sc.Name()
			case sc.Pkg.Pkg.Path() == "reflect" && sc.Signature.Recv() == nil && (sc.Name() == "Append" || sc.Name() == "AppendSlice" || sc.Name() == "Copy"):
				name = "reflect." + sc.Name()
			case sc.String() == "github.com/mitchellh/pointerstructure.Set":
				name = "pointerstructure.Set"
			default:
				return
			}
			n++
			fn := p.ShortFn(f)
			construct := fn + "->" + name
			args := ci.Common().Args
			switch name {
			case "SetString", "SetBytes":
				okIn := fn == "filters/encrypt.setValue"
				// dominated by the matching type test
				want := map[string]string{"SetString": "string", "SetBytes": "[]uint8"}[name]
				okT := false
				for d := in.Block(); d != nil && d.Idom() != nil; d = d.Idom() {
					cc, ts, _ := condOf(d.Idom())
					if cc == nil || !edgeDominates(d.Idom(), ts, in.Block()) {
						continue
					}
					at := p.atomOf(cc, func(v ssa.Value) ssa.Value { return v }, nil, nil)
					if at.Neg {
						continue
					}
					if tf := typeFact(at); tf == "type=="+want {
						okT = true
					}
					// the test may be stored in a boolean first (isString := ftype == ...)
					if at.Op == "true" {
						if bo, ok := at.L.V.(*ssa.BinOp); ok && bo.Op == token.EQL {
							a2 := p.atomOf(bo, func(v ssa.Value) ssa.Value { return v }, nil, nil)
							if tf := typeFact(a2); tf == "type=="+want {
								okT = true
							}
						}
					}
				}
				r.Check(okIn && okT, rule, construct, p.InstrPos(in), name+" only in setValue, under the test that the value's type is "+want, name+" outside setValue or not under the test type == "+want+": a value of another kind could be rewritten")
			case "Set":
				dst := tb.Of(args[0])
				fresh := dst.Find(func(x *Term) bool { return x.Is("Call", "reflect.New") }) != nil
				r.Check(fresh, rule, construct, p.InstrPos(in), "Set only fills a freshly created addressable copy", "reflect.Value.Set on "+dst.String()+", which is not a freshly created copy (reflect.New(T).Elem()): an arbitrary value of the payload could be replaced")
			case "SetMapIndex":
				okIn := fn == "(*filters/encrypt.trackedMaps).processUnfiltered"
				key := tb.Of(args[1])
				okKey := key.Find(func(x *Term) bool {
					return x.Is("Call", "(reflect.Value).MapKeys") || x.Is("Call", "(*reflect.MapIter).Key")
				}) != nil
				val := tb.Of(args[2])
				notZero := !(val.Op == "Const" || val.Is("Alloc", "") && strings.HasPrefix(val.Name, "reflect.Value")) || val.Op == "Phi"
				if al, isAl := args[2].(*ssa.UnOp); isAl {
					if cell, ok := al.X.(*ssa.Alloc); ok && len(nonDebugRefs(cell)) == 1 {
						notZero = false // a zero reflect.Value{} literal
					}
				}
				r.Check(okIn && okKey && notZero, rule, construct, p.InstrPos(in), "SetMapIndex(key of the iterated map, non-zero value): keys are neither added nor deleted", fmt.Sprintf("SetMapIndex in-processUnfiltered=%v key-from-the-map=%v (%s) non-zero-value=%v: a key could be added or deleted", okIn, okKey, key, notZero))
			case "pointerstructure.Set":
				r.Check(fn == "(*filters/encrypt.Filter).filterValue", rule, construct, p.InstrPos(in), "write-back through the tag pointer only in filterValue", "pointerstructure.Set outside filterValue")
			default:
				r.Bad(rule, construct, p.InstrPos(in), "reflective mutation "+name+" is not one of the confirmed primitives (SetString/SetBytes in setValue, Set into a fresh copy, SetMapIndex on existing keys): lengths, keys or non-string values could change")
			}
		})
	}
	if n < 10 {
		r.Und(rule, "instance-floor", "", fmt.Sprintf("only %d reflective mutation sites found (10 confirmed by hand)", n))
	}
}

// deferTarget: the function a deferred call runs (static callee or closure).
func deferTarget(cc *ssa.CallCommon) *ssa.Function {
	if sc := cc.StaticCallee(); sc != nil {
		return sc
	}
	if mc, ok := cc.Value.(*ssa.MakeClosure); ok {
		if f, ok := mc.Fn.(*ssa.Function); ok {
			return f
		}
	}
	return nil
}

func hasDelete(f *ssa.Function) bool {
	found := false
	eachInstr(f, func(in ssa.Instruction) {
		if ci, ok := in.(ssa.CallInstruction); ok {
			if b, ok := ci.Common().Value.(*ssa.Builtin); ok && b.Name() == "delete" {
				found = true
			}
		}
	})
	return found
}

// ruleGatedInsert (C11.insert): a group is opened for an id only when the id has
// no group: every assignment into Filter.gated is dominated by the not-found edge
// of a lookup of the same key in the same map, and by nothing weaker (no "or it
// has expired", "or it is too large"). Overwriting the entry of a live group
// leaves the old group in the list without its map entry; its later removal then
// deletes the NEW group's entry by id, and events are orphaned.
func (c *Ctx) ruleGatedInsert(rule string) {
	p, r := c.P, c.R
	n := 0
	for _, f := range p.FuncsIn(PkgGated) {
		tb := p.NewTerms(nil)
		eachInstr(f, func(in ssa.Instruction) {
			mu, ok := in.(*ssa.MapUpdate)
			if !ok || !tb.Of(mu.Map).Is("Field", "gated") {
				return
			}
			n++
			keyS := tb.Of(mu.Key).String()
			okDom := false
			for b := in.Block(); b != nil && b.Idom() != nil; b = b.Idom() {
				cond, _, fsucc := condOf(b.Idom())
				ex, isEx := cond.(*ssa.Extract)
				if !isEx || ex.Index != 1 {
					continue
				}
				lk, isLk := ex.Tuple.(*ssa.Lookup)
				if isLk && tb.Of(lk.X).Is("Field", "gated") && tb.Of(lk.Index).String() == keyS && edgeDominates(b.Idom(), fsucc, in.Block()) {
					okDom = true
				}
			}
			r.Check(okDom, rule, p.ShortFn(f)+":open-group", p.InstrPos(in), "a group is opened only on the not-found edge of a lookup of the same id", "the id map is assigned at a point that is not dominated by `_, ok := w.gated[id]; !ok` for the same id: an existing group's entry can be overwritten while the group stays in the list (its events are later orphaned or the new group's entry deleted by id)")
		})
	}
	if n < 1 {
		r.Und(rule, "instance-floor", "", "no assignment into Filter.gated found")
	}
}

// ruleNamePattern (C15.pattern): "rotated files carry the base name plus a
// timestamp" and "files outside the sink's own name space are never removed"
// both rest on fileNamePattern: on every path it returns
// strings.TrimSuffix(FileName, ext) + "-%s" + ext with the same ext in both
// places, ext being filepath.Ext(FileName) when that is non-empty and ".log"
// otherwise. (TrimRight/Trim treat ext as a character set and eat into the stem;
// a different separator changes both the names and the pruning glob.)
func (c *Ctx) ruleNamePattern() {
	p, r := c.P, c.R
	const rule = "C15.pattern"
	fn := c.Fn(rule, PkgRoot, "FileSink", "fileNamePattern")
	if fn == nil {
		return
	}
	n := 0
	for _, pa := range c.enum(rule, fn, PathOpts{Inline: inlineSmall()}) {
		rv := pa.RetVals()
		if rv == nil {
			continue
		}
		n++
		t := pa.TermsAt(pa.LastStep()).Of(rv[0])
		ok := t.Op == "Bin" && t.Name == "+" && len(t.Args) == 2 && t.Args[0].Op == "Bin" && t.Args[0].Name == "+" && t.Args[0].Args[1].Is("Const", `"-%s"`)
		why := ""
		if ok {
			ext, extEsc := pctEscaped(t.Args[1])
			stem, stemEsc := pctEscaped(t.Args[0].Args[0])
			// the pattern is a fmt format: the configured text in it must have its % doubled (F40)
			r.Check(stemEsc && extEsc, rule, "fileNamePattern:text-escaped", p.InstrPos(pa.End), "the file name's stem and extension enter the format with % escaped", "the configured file name is put into the format string as it is: a % in FileName is read as a verb, the timestamped names come out garbled (cpu100%s.log%!(EXTRA ...)) and are not recognised by pruning")
			ok = stem.Is("Call", "strings.TrimSuffix") && len(stem.Args) == 2 && stem.Args[0].Is("Field", "FileName") && stem.Args[0].Args[0].IsParam("0:fs") && stem.Args[1].String() == ext.String()
			if ok {
				isExt := ext.Is("Call", "path/filepath.Ext") && ext.Args[0].Is("Field", "FileName")
				empty, found := hasAtom(pa, func(at Atom) bool {
					return at.Op == "eq" && at.L.Is("Call", "path/filepath.Ext") && at.R.Is("Const", `""`)
				})
				switch {
				case isExt && found && !empty:
				case ext.Is("Const", `".log"`) && found && empty:
				default:
					ok = false
					why = "the extension used is " + ext.String() + " on a path where filepath.Ext(FileName) is " + map[bool]string{true: "empty", false: "non-empty"}[empty]
				}
			} else {
				why = "the stem is " + stem.String() + ", not strings.TrimSuffix(fs.FileName, <the same extension>)"
			}
		} else {
			why = "the pattern is " + t.String()
		}
		r.Check(ok, rule, "fileNamePattern", p.InstrPos(pa.End), "TrimSuffix(FileName, ext) + \"-%s\" + ext with ext = filepath.Ext(FileName) or \".log\"", "fileNamePattern does not build <stem>-%s<ext> from the file name: "+why)
	}
	if n < 2 {
		r.Und(rule, "fileNamePattern", p.Pos(fn.Pos()), fmt.Sprintf("%d returning paths (2 expected: with and without an extension)", n))
	}
}

// ruleOptionsForwarded (C16.forward): below Process the per-event key material
// travels in the variadic options. Every walker hands its own `opt` parameter on
// to the value operations it calls — unchanged, extended by appends, or with
// elements removed by slicing `opt` itself — and never a freshly built list (which
// silently loses whichever per-event option the rebuild forgets).
func (c *Ctx) ruleOptionsForwarded() {
	p, r := c.P, c.R
	const rule = "C16.forward"
	targets := map[string]bool{
		"(*filters/encrypt.Filter).filterValue": true, "(*filters/encrypt.Filter).filterSlice": true, "(*filters/encrypt.Filter).filterField": true,
		"(*filters/encrypt.Filter).filterTaggable": true, "(*filters/encrypt.trackedMaps).processUnfiltered": true,
		"(*filters/encrypt.Filter).encrypt": true, "(*filters/encrypt.Filter).hmacSha256": true,
	}
	n := 0
	for _, f := range p.FuncsIn(PkgEncrypt) {
		if !targets[p.ShortFn(f)] && p.ShortFn(f) != "filters/encrypt.setValue" {
			continue
		}
		var optParam *ssa.Parameter
		for _, prm := range f.Params {
			if prm.Name() == "opt" && strings.HasSuffix(types.TypeString(prm.Type(), shortQual), "[]encrypt.Option") {
				optParam = prm
			}
		}
		if optParam == nil {
			continue
		}
		var derives func(v ssa.Value, seen map[ssa.Value]bool) bool
		derives = func(v ssa.Value, seen map[ssa.Value]bool) bool {
			if seen[v] {
				return true
			}
			seen[v] = true
			switch x := v.(type) {
			case *ssa.Parameter:
				return x == optParam
			case *ssa.Phi:
				for _, e := range x.Edges {
					if !derives(e, seen) {
						return false
					}
				}
				return true
			case *ssa.Slice:
				// a slice of the options that keeps ALL of them: opt[:], opt[:len(opt)], opt[:len(opt):len(opt)].
				// opt[:0:0] (an "empty list of the same type") drops the per-event wrapper, salt and info.
				if x.Low != nil {
					if k, isK := constInt(x.Low); !isK || k != 0 {
						return false
					}
				}
				if x.High != nil {
					la := lenArg(x.High)
					if la == nil || !derives(la, map[ssa.Value]bool{}) {
						return false
					}
				}
				return derives(x.X, seen)
			case *ssa.Call:
				if b, ok := x.Call.Value.(*ssa.Builtin); ok && b.Name() == "append" {
					if derives(x.Call.Args[0], seen) {
						return true
					}
					// a copy: an empty fresh list to which slices of the parameter are appended
					if sl, isSl := x.Call.Args[1].(*ssa.Slice); isSl {
						if _, isArr := sl.X.(*ssa.Alloc); !isArr && derives(sl.X, map[ssa.Value]bool{}) {
							return freshOrCopy(x.Call.Args[0], derives)
						}
					}
				}
			}
			return false
		}
		eachInstr(f, func(in ssa.Instruction) {
			ci, ok := in.(ssa.CallInstruction)
			if !ok || !targets[calleeName(ci.Common())] {
				return
			}
			args := ci.Common().Args
			last := args[len(args)-1]
			if !strings.HasSuffix(types.TypeString(last.Type(), shortQual), "[]encrypt.Option") {
				return
			}
			n++
			r.Check(derives(last, map[ssa.Value]bool{}), rule, p.ShortFn(f)+"->"+calleeName(ci.Common()), p.InstrPos(in), "the walker's own options are handed on (unchanged, appended to, or sliced)", "the options handed to "+calleeName(ci.Common())+" are "+p.NewTerms(nil).Of(last).String()+", not derived from this function's own opt parameter: a per-event wrapper, salt or info can be lost on the way down, and the value is then protected with the filter's key material instead")
		})
	}
	if n < 12 {
		r.Und(rule, "instance-floor", "", fmt.Sprintf("only %d forwarding call sites found (>= 12 confirmed by hand)", n))
	}
}

// ruleNoResweep (C10.resweep): a map that is tracked on its own — a tag pointer led
// into it, so it carries the record of which of its fields were already filtered
// (including public ones, which must stay as they are) — is never swept a second
// time through its parent: in processUnfiltered the nested-map arm builds a fresh
// tracking set for the value only on the not-tracked edge of
// maps.getTracked(<that value>.Pointer()). Sweeping it from the parent with a fresh
// set forgets the record and redacts public and already encrypted fields.
func (c *Ctx) ruleNoResweep() {
	p, r := c.P, c.R
	const rule = "C10.resweep"
	fn := c.Fn(rule, PkgEncrypt, "trackedMaps", "processUnfiltered")
	if fn == nil {
		return
	}
	tb := p.NewTerms(nil)
	n := 0
	for _, ci := range callsTo(fn, func(nm string, cc *ssa.CallCommon) bool { return nm == "filters/encrypt.newTrackedMaps" }) {
		arg := tb.Of(ci.Common().Args[0])
		if arg.Op != "Varargs" || len(arg.Args) == 0 {
			continue // an empty set (struct arm): nothing is swept through it directly
		}
		n++
		ok := false
		in := ci.(ssa.Instruction)
		for b := in.Block(); b != nil && b.Idom() != nil; b = b.Idom() {
			cond, _, fsucc := condOf(b.Idom())
			var gt *ssa.Call
			if ex, isEx := cond.(*ssa.Extract); isEx && ex.Index == 1 {
				gt, _ = ex.Tuple.(*ssa.Call)
			} else if cl, isCall := cond.(*ssa.Call); isCall {
				gt = cl
			}
			if gt == nil || !edgeDominates(b.Idom(), fsucc, in.Block()) {
				continue
			}
			if n := calleeName(&gt.Call); n != "(*filters/encrypt.trackedMaps).getTracked" && n != "(*filters/encrypt.trackedMaps).isTracked" {
				continue
			}
			pt := tb.Of(gt.Call.Args[1])
			if tb.Of(gt.Call.Args[0]).IsParam("0:maps") && pt.Is("Call", "(reflect.Value).Pointer") {
				ok = true
				// the sets created during the sweep are linked (nested-set-linked below), and a map a tag
				// pointer led into is tracked by the OUTERMOST set: the test has to ask the whole chain
				// of enclosing sets (isTracked), not only the set being swept (getTracked) — otherwise a
				// pointer of three or more segments reaches a map that an inner sweep does not recognise
				chain := calleeName(&gt.Call) == "(*filters/encrypt.trackedMaps).isTracked"
				r.Check(chain, rule, "processUnfiltered:nested-map-chain", p.InstrPos(gt), "the nested-map test asks the whole chain of enclosing tracking sets", "the nested-map test only asks the set being swept (getTracked), not the enclosing sets: a map that a tag pointer of three or more segments led into is tracked by the outermost set, an inner sweep does not find it there and sweeps it again with a fresh record — its public value is redacted, its encrypted / hmac-ed value replaced")
			}
		}
		r.Check(ok, rule, "processUnfiltered:nested-map", p.InstrPos(in), "a nested map is swept through its parent only when it is not tracked on its own", "a nested map value is swept with a fresh tracking set without first testing maps.getTracked(value.Pointer()): when a tag pointer led into that map, the record of its already filtered fields is ignored and public / encrypted / hmac-ed fields are redacted")
	}
	if n < 1 {
		r.Und(rule, "instance-floor", "", "no nested-map sweep found in processUnfiltered")
	}
	// isTracked really walks the chain: a loop that follows .parent and asks each set
	if it := p.Method(PkgEncrypt, "trackedMaps", "isTracked"); it != nil && it.Blocks != nil {
		walks, asks := false, false
		for _, b := range it.Blocks {
			if !inCycle(b) {
				continue
			}
			for _, in := range b.Instrs {
				if fa, ok := in.(*ssa.FieldAddr); ok && fieldName(fa) == "parent" {
					walks = true
				}
				if ci, ok := in.(ssa.CallInstruction); ok && calleeName(ci.Common()) == "(*filters/encrypt.trackedMaps).getTracked" {
					asks = true
				}
			}
		}
		r.Check(walks && asks, rule, "isTracked:walks-parents", p.Pos(it.Pos()), "isTracked asks every set on the parent chain", "isTracked does not loop over the parent chain asking each set")
	} else {
		r.Und(rule, "isTracked:walks-parents", "", "(*trackedMaps).isTracked not found")
	}
	// every tracking set created during the sweep is linked to the set being swept, so that maps
	// found deeper down (in slices, in struct values) are recognised as tracked by an enclosing sweep
	for _, ci := range callsTo(fn, func(nm string, cc *ssa.CallCommon) bool { return nm == "filters/encrypt.newTrackedMaps" }) {
		v, isV := ci.(ssa.Value)
		if !isV {
			continue
		}
		linked := false
		for _, ref := range nonDebugRefs(v) {
			ex, ok := ref.(*ssa.Extract)
			if !ok || ex.Index != 0 {
				continue
			}
			for _, r2 := range nonDebugRefs(ex) {
				fa, ok := r2.(*ssa.FieldAddr)
				if !ok {
					continue
				}
				if st := fa.X.Type().Underlying().(*types.Pointer).Elem().Underlying().(*types.Struct); st.Field(fa.Field).Name() != "parent" {
					continue
				}
				for _, r3 := range nonDebugRefs(fa) {
					if sto, ok := r3.(*ssa.Store); ok && tb.Of(sto.Val).IsParam("0:maps") {
						linked = true
					}
				}
			}
		}
		r.Check(linked, rule, "processUnfiltered:nested-set-linked", p.InstrPos(ci.(ssa.Instruction)), "a tracking set created during the sweep knows the set it was created from", "a tracking set created during the sweep is not linked to the set being swept (parent): a map found below it that a tag pointer led into is swept again without its record of filtered fields")
	}
}

// ruleMarkFiltered (C09.mark): a key is marked "already filtered" only in the map
// that directly holds the filtered value: every markFieldFiltered call is made on the
// tracking record obtained for the map the pointer's parent path resolves to (or the
// Taggable itself for a one-level pointer), with the LAST path segment as the key.
// Marking a key of an ancestor map hides everything else below that key from the
// sweep — unclassified siblings in the intermediate maps leave in plaintext.
func (c *Ctx) ruleMarkFiltered(rule string) {
	p, r := c.P, c.R
	n := 0
	for _, f := range p.FuncsIn(PkgEncrypt) {
		tb := p.NewTerms(nil)
		for _, ci := range callsTo(f, func(nm string, cc *ssa.CallCommon) bool { return nm == "(*filters/encrypt.tMap).markFieldFiltered" }) {
			n++
			key := tb.Of(ci.Common().Args[1])
			// the key is the last segment, unescaped the way pointerstructure resolves it
			// (RFC 6901: ~1 -> "/", then ~0 -> "~"): the tracking and the resolver must agree on
			// which key of the map a pointer names
			inner, unescaped := c.pointerUnescape(key)
			r.Check(unescaped, rule, p.ShortFn(f)+"->markFieldFiltered:key-unescaped", p.InstrPos(ci), "the recorded key is the pointer segment with ~1 and ~0 unescaped, as pointerstructure resolves it", "the key recorded as filtered is the pointer segment as written ("+key.String()+"), while pointerstructure unescapes ~1 and ~0 before it looks the key up: for a key that contains '/' or '~' the record names a key the map does not have, and the sweep filters the real key a second time — a public value is redacted, an encrypted or hmac-ed one is replaced")
			key = inner
			// key = segs[len(segs)-1]
			okKey := key.Op == "Index" && len(key.Args) == 2 && key.Args[1].Op == "Bin" && key.Args[1].Name == "-" &&
				key.Args[1].Args[0].Is("Call", "builtin len") && key.Args[1].Args[0].Args[0].V == key.Args[0].V && key.Args[1].Args[1].Is("Const", "1") &&
				key.Args[0].Is("Call", "strings.Split")
			// receiver = getTracked(ptr)#0 with ptr the Pointer() of either the Taggable or of Get(taggable, Join(segs[:len-1]))
			recv := tb.Of(ci.Common().Args[0])
			okRecv := recv.Op == "Extract" && recv.Name == "0" && recv.Args[0].Is("Call", "(*filters/encrypt.trackedMaps).getTracked")
			if okRecv {
				ptr := recv.Args[0].Args[1]
				okRecv = ptr.Is("Call", "(reflect.Value).Pointer")
				if okRecv {
					src := ptr.Args[0]
					direct := src.Is("Call", "reflect.ValueOf") && src.Args[0].Op == "Param"
					viaGet := src.Is("Call", "reflect.ValueOf") && src.Args[0].Op == "Extract" && src.Args[0].Args[0].Is("Call", "github.com/mitchellh/pointerstructure.Get") &&
						src.Args[0].Args[0].Args[1].Is("Call", "strings.Join") && src.Args[0].Args[0].Args[1].Find(func(x *Term) bool { return x.Op == "Slice" && x.Args[0].V == key.Args[0].V }) != nil
					okRecv = direct || viaGet
				}
			}
			r.Check(okKey && okRecv, rule, p.ShortFn(f)+"->markFieldFiltered", p.InstrPos(ci), "the last path segment is marked in the record of the map that directly holds the value", fmt.Sprintf("markFieldFiltered(%s) on %s: not the last pointer segment in the record of the map the parent path resolves to — a key of an ancestor map would be skipped by the sweep together with every unclassified value below it", key, recv))
		}
	}
	if n < 2 {
		r.Und(rule, "instance-floor", "", fmt.Sprintf("only %d markFieldFiltered calls found (2 confirmed by hand)", n))
	}
}

// ruleFormatTableWrites (C19.table / C14): bytes handed out by Event.Format stay
// what they were: nothing writes through a slice loaded from Event.Formatted, and no
// append or copy targets such a slice (append into spare capacity rewrites bytes a
// sink of another pipeline may be writing out at that moment). Entries are only
// ever replaced by MapUpdate.
func (c *Ctx) ruleFormatTableWrites(rule string) {
	p, r := c.P, c.R
	n := 0
	for _, f := range p.Funcs {
		if p.InCtl(f) {
			continue
		}
		tb := p.NewTerms(nil)
		fromTable := func(v ssa.Value) bool {
			t := tb.Of(v)
			return t.Find(func(x *Term) bool {
				return x.Op == "Lookup" && len(x.Args) == 2 && x.Args[0].Is("Field", "Formatted")
			}) != nil
		}
		eachInstr(f, func(in ssa.Instruction) {
			switch x := in.(type) {
			case *ssa.Lookup:
				if tb.Of(x.X).Is("Field", "Formatted") {
					n++
				}
			case *ssa.Store:
				if ia, ok := x.Addr.(*ssa.IndexAddr); ok && fromTable(ia.X) {
					r.Bad(rule, p.ShortFn(f)+":write-through", p.InstrPos(in), "a byte of a slice taken from Event.Formatted is overwritten in place")
				}
			case *ssa.Call:
				if b, ok := x.Call.Value.(*ssa.Builtin); ok && (b.Name() == "append" || b.Name() == "copy") && len(x.Call.Args) > 0 && fromTable(x.Call.Args[0]) {
					r.Bad(rule, p.ShortFn(f)+":"+b.Name()+"-into-entry", p.InstrPos(in), b.Name()+" targets a slice taken from Event.Formatted ("+tb.Of(x.Call.Args[0]).String()+"): it can rewrite the bytes of the entry in place while a sink of another pipeline, which obtained them from Format, is still writing them out")
				}
			}
		})
	}
	if n < 1 {
		r.Und(rule, "instance-floor", "", "no lookup of Event.Formatted found")
	} else {
		r.Ok(rule, "Event.Formatted:entries", "", fmt.Sprintf("%d lookups; no write through, append into or copy onto an entry", n))
	}
}

// ruleReopenNilPaths (C20.all): Broker.Reopen returns nil only after walking the
// graphs: every nil-returning path ranges over Broker.graphs (taking the snapshot)
// and passes through the loop that reopens them. A guard that returns nil earlier
// ("another Reopen is running", "nothing changed") leaves nodes unreopened and
// failures unreported.
func (c *Ctx) ruleReopenNilPaths(fn *ssa.Function, reopenCall ssa.CallInstruction) {
	p, r := c.P, c.R
	const rule = "C20.all"
	hdr := innermostHeader(reopenCall.Block())
	nNil := 0
	for _, pa := range c.enum(rule, fn, PathOpts{}) {
		rv := pa.RetVals()
		if rv == nil || !isNilConst(rv[0]) {
			continue
		}
		nNil++
		ranged, looped := false, false
		for _, s := range pa.Steps {
			if rg, ok := s.In.(*ssa.Range); ok && pa.TermsAt(s).Of(rg.X).Is("Field", "graphs") {
				ranged = true
			}
		}
		for _, b := range pa.Blocks {
			if b == hdr {
				looped = true
			}
		}
		if !ranged || !looped {
			r.Bad(rule, "(*Broker).Reopen:nil-without-walk", p.InstrPos(pa.End), "Reopen returns nil on a path that never walks the registered graphs: "+p.PathSummary(pa))
			return
		}
	}
	r.Check(nNil >= 1, rule, "(*Broker).Reopen:nil-paths", p.Pos(fn.Pos()), fmt.Sprintf("%d nil-returning paths, each through the snapshot of all graphs and the reopen loop", nNil), "no nil-returning path of Broker.Reopen found")
}

// rulePointerValues (C10.ptrvalue): the sweep of a map dereferences pointer values
// before looking at them. What it stores back must have the representation the map
// held: for every SetMapIndex in processUnfiltered the stored value is chosen between
// a plain and a pointer form (value.Addr(), or reflect.ValueOf(&T{...})) — otherwise a
// map[string]*string makes reflect panic ("value of type string is not assignable to
// type *string") and a map[string]interface{} silently changes the dynamic type of
// its entry from *T to T.
func (c *Ctx) rulePointerValues() {
	p, r := c.P, c.R
	const rule = "C10.ptrvalue"
	fn := c.Fn(rule, PkgEncrypt, "trackedMaps", "processUnfiltered")
	if fn == nil {
		return
	}
	tb := p.NewTerms(nil)
	n := 0
	for _, ci := range callsTo(fn, func(nm string, cc *ssa.CallCommon) bool { return nm == "(reflect.Value).SetMapIndex" }) {
		n++
		v := tb.Of(ci.Common().Args[2])
		ptrForm := func(t *Term) bool {
			return t.Is("Call", "(reflect.Value).Addr") || (t.Is("Call", "reflect.ValueOf") && len(t.Args) == 1 && t.Args[0].Op == "Alloc")
		}
		ok := false
		if v.Op == "Phi" {
			hasPtr, hasPlain := false, false
			for _, a := range v.Args {
				if ptrForm(a) {
					hasPtr = true
				} else {
					hasPlain = true
				}
			}
			ok = hasPtr && hasPlain
		}
		r.Check(ok, rule, "processUnfiltered->SetMapIndex", p.InstrPos(ci), "the value stored back is a pointer when the map held a pointer", "the value stored back ("+v.String()+") has one representation only although pointer values are dereferenced before filtering: a map of pointers (map[string]*string, map[string]*wrapperspb.StringValue) makes reflect panic inside Process, and an interface-valued map has its entry's dynamic type changed from *T to T")
	}
	if n < 5 {
		r.Und(rule, "instance-floor", "", fmt.Sprintf("only %d SetMapIndex calls found in processUnfiltered (5 confirmed by hand)", n))
	}
}

// sliceOrigins walks the construction of a slice value through phis, reslices and
// appends, collecting the append calls and the appended elements, and reports the
// leaf values it started from (a make, a call result, ...).
func sliceOrigins(v ssa.Value, seen map[ssa.Value]bool, elems *[]ssa.Value, apps *[]*ssa.Call, leaves *[]ssa.Value) {
	if v == nil || seen[v] {
		return
	}
	seen[v] = true
	switch x := v.(type) {
	case *ssa.Phi:
		for _, e := range x.Edges {
			sliceOrigins(e, seen, elems, apps, leaves)
		}
	case *ssa.Slice:
		sliceOrigins(x.X, seen, elems, apps, leaves)
	case *ssa.Call:
		if b, ok := x.Call.Value.(*ssa.Builtin); ok && b.Name() == "append" {
			*apps = append(*apps, x)
			sliceOrigins(x.Call.Args[0], seen, elems, apps, leaves)
			if sl, ok := x.Call.Args[1].(*ssa.Slice); ok {
				if al, ok := sl.X.(*ssa.Alloc); ok {
					for _, ref := range nonDebugRefs(al) {
						if ia, ok := ref.(*ssa.IndexAddr); ok {
							for _, r2 := range nonDebugRefs(ia) {
								if st, ok := r2.(*ssa.Store); ok {
									*elems = append(*elems, st.Val)
								}
							}
						}
					}
				}
			}
			return
		}
		*leaves = append(*leaves, v)
	default:
		*leaves = append(*leaves, v)
	}
}

// listingName: t is filepath.Join(fs.Path, entry.Name()) for an entry of
// os.ReadDir(fs.Path) — a name of the sink's own directory; returns the entry.Name() term.
func listingName(t *Term) *Term {
	if !t.Is("Call", "path/filepath.Join") || len(t.Args) != 1 || t.Args[0].Op != "Varargs" || len(t.Args[0].Args) != 2 {
		return nil
	}
	dir, name := t.Args[0].Args[0], t.Args[0].Args[1]
	if !isSinkDir(dir) || !name.Is("Call", "invoke os.DirEntry.Name") || len(name.Args) == 0 || name.Args[0].Op != "Index" {
		return nil
	}
	ds := dir.String()
	if name.Args[0].Args[0].Find(func(x *Term) bool {
		return x.Is("Call", "os.ReadDir") && len(x.Args) == 1 && x.Args[0].String() == ds
	}) == nil {
		return nil
	}
	return name
}

// fromGlob: the string value is a name found in the sink's directory — an element
// of the result of filepath.Glob, or Join(fs.Path, entry.Name()) for an entry of
// os.ReadDir(fs.Path) — read directly, or through a slice accumulated (append) from
// such elements.
func fromGlob(tb *Terms, v ssa.Value) bool {
	isGlobElem := func(e ssa.Value) bool {
		t := tb.Of(e)
		if t.Op == "Index" && t.Args[0].Find(func(x *Term) bool { return x.Is("Call", "path/filepath.Glob") }) != nil {
			return true
		}
		return listingName(t) != nil
	}
	if isGlobElem(v) {
		if ld, ok := stripConv(v).(*ssa.UnOp); ok {
			if ia, ok := ld.X.(*ssa.IndexAddr); ok {
				var elems, leaves []ssa.Value
				var apps []*ssa.Call
				sliceOrigins(ia.X, map[ssa.Value]bool{}, &elems, &apps, &leaves)
				if len(apps) == 0 {
					return true // straight from the glob result
				}
				for _, e := range elems {
					if !isGlobElem(e) {
						return false
					}
				}
				return true
			}
		}
		return true
	}
	ld, ok := stripConv(v).(*ssa.UnOp)
	if !ok {
		return false
	}
	ia, ok := ld.X.(*ssa.IndexAddr)
	if !ok {
		return false
	}
	var elems, leaves []ssa.Value
	var apps []*ssa.Call
	sliceOrigins(ia.X, map[ssa.Value]bool{}, &elems, &apps, &leaves)
	if len(elems) == 0 {
		return false
	}
	for _, e := range elems {
		if !isGlobElem(e) {
			return false
		}
	}
	return true
}

// ruleOptionAliasing (C09.optalias): the variadic option lists of the walkers share
// their backing arrays with the callers' lists.
//
//	A. No append targets a truncating reslice (x[:k] without a capacity bound) of a
//	   slice that derives from the function's own slice parameter: such an append
//	   rewrites, or lets later appends rewrite, elements the CALLER still sees — a
//	   write-back pointer appended three levels down ends up in the option list the
//	   caller uses for the next sibling field, whose value is then "filtered" at
//	   that other location and itself forwarded in plaintext.
//	B. The internal withIgnoreTaggable option is added for one recursion only: the
//	   result of appending it is used as a call argument and never flows back into
//	   the list used for the following fields (no loop-carried phi).
func (c *Ctx) ruleOptionAliasing() {
	p, r := c.P, c.R
	const rule = "C09.optalias"
	n := 0
	for _, f := range c.encryptReach() {
		var params []*ssa.Parameter
		for _, prm := range f.Params {
			if _, ok := prm.Type().Underlying().(*types.Slice); ok && strings.HasSuffix(types.TypeString(prm.Type(), shortQual), "[]encrypt.Option") {
				params = append(params, prm)
			}
		}
		if len(params) == 0 {
			continue
		}
		fromParam := func(v ssa.Value) bool {
			seen := map[ssa.Value]bool{}
			var walk func(v ssa.Value) bool
			walk = func(v ssa.Value) bool {
				if seen[v] {
					return false
				}
				seen[v] = true
				switch x := v.(type) {
				case *ssa.Parameter:
					for _, prm := range params {
						if prm == x {
							return true
						}
					}
				case *ssa.Phi:
					for _, e := range x.Edges {
						if walk(e) {
							return true
						}
					}
				case *ssa.Slice:
					return walk(x.X)
				case *ssa.Call:
					if b, ok := x.Call.Value.(*ssa.Builtin); ok && b.Name() == "append" {
						// append may return the same backing array
						return walk(x.Call.Args[0])
					}
				}
				return false
			}
			return walk(v)
		}
		tb := p.NewTerms(nil)
		eachInstr(f, func(in ssa.Instruction) {
			call, ok := in.(*ssa.Call)
			if !ok {
				return
			}
			b, isB := call.Call.Value.(*ssa.Builtin)
			if !isB || b.Name() != "append" || !strings.HasSuffix(types.TypeString(call.Type(), shortQual), "[]encrypt.Option") {
				return
			}
			n++
			// A: destination is a truncating, capacity-unbounded reslice of the parameter's array
			if sl, ok := call.Call.Args[0].(*ssa.Slice); ok && sl.High != nil && sl.Max == nil && fromParam(sl.X) {
				r.Bad(rule, p.ShortFn(f)+":append-into-caller-list", p.InstrPos(in), "append targets "+tb.Of(sl).String()+", a truncated view of the option list the caller passed in: it rewrites elements of the caller's list (and lets appends further down land in it), so an option meant for one value — a write-back pointer — is seen by the caller's next sibling field, which is then filtered somewhere else and forwarded in plaintext")
				return
			}
			// B: the ignore-taggable option does not flow back into a loop-carried list
			if t := tb.Of(call.Call.Args[1]); t.Find(func(x *Term) bool { return x.Is("Call", "filters/encrypt.withIgnoreTaggable") }) != nil && fromParam(call.Call.Args[0]) {
				for _, ref := range nonDebugRefs(call) {
					if phi, isPhi := ref.(*ssa.Phi); isPhi && phiCarriedAroundLoop(phi, in.Block(), loopHeaders(f), 0) {
						r.Bad(rule, p.ShortFn(f)+":ignore-taggable-leaks-to-siblings", p.InstrPos(in), "the option list extended with withIgnoreTaggable() is kept for the following loop iterations: the fields after a Taggable field are walked with the option set, so their own Taggable children are not consulted (and the list aliases the caller's)")
						return
					}
				}
			}
			r.Ok(rule, p.ShortFn(f)+":append", p.InstrPos(in), "option list extended without writing into the caller's view of it")
		})
	}
	if n < 3 {
		r.Und(rule, "instance-floor", "", fmt.Sprintf("only %d appends to option lists found in the walk (>= 3 confirmed by hand)", n))
	}
}

// freshOrCopy: v is an empty freshly made slice, or itself a copy built by appending
// slices of the parameter to one.
func freshOrCopy(v ssa.Value, derives func(ssa.Value, map[ssa.Value]bool) bool) bool {
	switch x := v.(type) {
	case *ssa.MakeSlice:
		return true
	case *ssa.Slice:
		if al, ok := x.X.(*ssa.Alloc); ok && al.Comment == "makeslice" {
			return true
		}
	case *ssa.Call:
		if b, ok := x.Call.Value.(*ssa.Builtin); ok && b.Name() == "append" {
			if sl, isSl := x.Call.Args[1].(*ssa.Slice); isSl {
				if _, isArr := sl.X.(*ssa.Alloc); !isArr && derives(sl.X, map[ssa.Value]bool{}) {
					return freshOrCopy(x.Call.Args[0], derives)
				}
			}
		}
	}
	return false
}

// ruleTaggableMapTracked (C09.handlers): in both dispatchers that know the Taggable
// arm (Process for the payload, filterField for struct fields), a successful path that
// established "Taggable" and "kind == Map" for the value passes through trackMap: a
// Taggable map is tracked for the final sweep even when none of its tags matched.
func (c *Ctx) ruleTaggableMapTracked(fn *ssa.Function, construct string) {
	p, r := c.P, c.R
	const rule = "C09.handlers"
	kMapS := fmt.Sprint(c.reflectKind("Map"))
	n, ok := 0, true
	for _, pa := range c.enum(rule, fn, PathOpts{}) {
		rv := pa.RetVals()
		if rv == nil || !isNilConst(rv[len(rv)-1]) {
			continue
		}
		tg, f1 := hasAtom(pa, func(at Atom) bool {
			return at.Op == "true" && at.L.Op == "Extract" && at.L.Name == "1" && at.L.Args[0].Is("Assert", "encrypt.Taggable") && !strings.Contains(at.L.String(), "(reflect.Value).Index")
		})
		if !f1 || !tg {
			continue
		}
		// the `kind != Map` test of the Taggable arm, taken on its map side
		mp, f2 := false, false
		for _, at := range pa.Atoms {
			if at.Op == "eq" && at.L.Is("Call", "(reflect.Value).Kind") && at.R.Is("Const", kMapS) && !strings.Contains(at.L.String(), "(reflect.Value).Index") {
				f2, mp = true, !at.Neg
			}
		}
		if !f2 || !mp {
			continue
		}
		taggableCalled, tracked := false, false
		for _, s := range pa.CallsOn() {
			switch stepCallName(s) {
			case "(*filters/encrypt.Filter).filterTaggable":
				taggableCalled = true
			case "(*filters/encrypt.trackedMaps).trackMap":
				if s.Depth == 0 {
					tracked = true
				}
			}
		}
		if !taggableCalled {
			continue
		}
		n++
		if !tracked && ok {
			ok = false
			r.Bad(rule, construct, p.InstrPos(pa.End), "a Taggable map is handed to filterTaggable and then left alone: when none of its tags matches a key it is never tracked, the sweep does not visit it and its values leave in plaintext ("+p.PathSummary(pa)+")")
		}
	}
	if ok {
		r.Check(n > 0, rule, construct, p.Pos(fn.Pos()), fmt.Sprintf("%d successful Taggable-map paths, each tracks the map", n), "no successful path handles a Taggable map")
	}
}

// ruleGoCapturedWrites (C04.goroutines): a goroutine started by a Broker / graph
// function does not assign variables of the starting function (captured by
// reference) — results are handed back through channels, never through shared
// locals, unless the assignment happens with a mutex held in the goroutine. Several
// goroutines appending to one captured error variable race and lose errors.
func (c *Ctx) ruleGoCapturedWrites(rule string) {
	p, r := c.P, c.R
	must := c.MustLocks()
	n := 0
	for _, f := range p.FuncsIn(PkgRoot) {
		eachInstr(f, func(in ssa.Instruction) {
			g, ok := in.(*ssa.Go)
			if !ok {
				return
			}
			mc, ok := g.Call.Value.(*ssa.MakeClosure)
			if !ok {
				return
			}
			n++
			cl := mc.Fn.(*ssa.Function)
			bad := false
			eachInstr(cl, func(ci ssa.Instruction) {
				st, ok := ci.(*ssa.Store)
				if !ok {
					return
				}
				if fv, isFV := st.Addr.(*ssa.FreeVar); isFV {
					if len(must.At(ci)) == 0 {
						bad = true
						r.Bad(rule, p.ShortFn(f)+":go-closure-writes:"+fv.Name(), p.InstrPos(ci), "a goroutine started here assigns the starting function's variable "+fv.Name()+" without holding a lock: with more than one such goroutine the writes race and updates are lost")
					}
				}
			})
			if !bad {
				r.Ok(rule, p.ShortFn(f)+":go-closure", p.InstrPos(in), "the goroutine does not assign captured variables")
			}
		})
	}
	if n < 1 {
		r.Und(rule, "instance-floor", "", "no goroutine closure found in package eventlogger (the collector's launcher is expected)")
	}
}

// ruleIgnoreIdentity (C09.ignore): IgnoreTypes exempts exactly the listed types: the
// predicate returns true only on a path that compared the value's reflect.Type for
// identity with an element of IgnoreTypes. (Assignability or kind-based matching
// also exempts every unnamed type with the same underlying type: listing
// json.RawMessage would switch off filtering of every []byte.)
func (c *Ctx) ruleIgnoreIdentity() {
	p, r := c.P, c.R
	const rule = "C09.ignore"
	fn := c.Fn(rule, PkgEncrypt, "Filter", "ignore")
	if fn == nil {
		return
	}
	nTrue := 0
	for _, pa := range c.enum(rule, fn, PathOpts{}) {
		rv := pa.RetVals()
		if rv == nil {
			continue
		}
		if b, ok := constBool(rv[0]); !ok || !b {
			if !ok {
				r.Bad(rule, "ignore:result", p.InstrPos(pa.End), "ignore returns a computed value instead of a decision made by type identity: "+pa.TermsAt(pa.LastStep()).Of(rv[0]).String())
			}
			continue
		}
		nTrue++
		okId, found := hasAtom(pa, func(at Atom) bool {
			if at.Op != "eq" {
				return false
			}
			isT := func(t *Term) bool { return t.Is("Call", "(reflect.Value).Type") && t.Args[0].IsParam("1:v") }
			isEl := func(t *Term) bool {
				return t.Op == "Index" && t.Args[0].Is("Field", "IgnoreTypes")
			}
			return (isT(at.L) && isEl(at.R)) || (isT(at.R) && isEl(at.L))
		})
		r.Check(found && okId, rule, "ignore:true", p.InstrPos(pa.End), "a value is ignored only when its reflect.Type is identical to a listed type", "ignore returns true on a path that did not establish v.Type() == IgnoreTypes[i]: types other than the listed ones are exempted from filtering ("+p.PathSummary(pa)+")")
	}
	if nTrue == 0 {
		r.Und(rule, "ignore:true", p.Pos(fn.Pos()), "no path of ignore returns true")
	}
}

// ruleExactLeafTypes (C10.exacttype): the sweep reads a map value as a string or as
// bytes (reflect.Value.String / Bytes) only under a test of its exact type (string,
// []byte, wrapperspb.StringValue / BytesValue): what is stored back is a plain
// string or []byte, which only those types accept. A kind test (reflect.String) lets
// named string types in: a map[string]Email makes SetMapIndex panic and an
// interface-valued entry changes its dynamic type.
func (c *Ctx) ruleExactLeafTypes() {
	p, r := c.P, c.R
	const rule = "C10.exacttype"
	fn := c.Fn(rule, PkgEncrypt, "trackedMaps", "processUnfiltered")
	if fn == nil {
		return
	}
	n := 0
	for _, ci := range callsTo(fn, func(nm string, cc *ssa.CallCommon) bool {
		return nm == "(reflect.Value).String" || nm == "(reflect.Value).Bytes"
	}) {
		in := ci.(ssa.Instruction)
		// key.String() of the map key is not a leaf read
		if t := p.NewTerms(nil).Of(ci.Common().Args[0]); t.Op == "Index" && t.Args[0].Is("Call", "(reflect.Value).MapKeys") {
			continue
		}
		n++
		ok := false
		for b := in.Block(); b != nil && b.Idom() != nil; b = b.Idom() {
			cond, ts, _ := condOf(b.Idom())
			if cond == nil || !edgeDominates(b.Idom(), ts, in.Block()) {
				continue
			}
			at := p.atomOf(cond, func(v ssa.Value) ssa.Value { return v }, nil, nil)
			if at.Neg {
				continue
			}
			switch typeFact(at) {
			case "type==string", "type==[]uint8", "type==wrapperspb.StringValue", "type==wrapperspb.BytesValue":
				ok = true
			}
		}
		r.Check(ok, rule, "processUnfiltered->"+calleeName(ci.Common()), p.InstrPos(in), "leaf values are read under an exact type test", "a map value is read with "+calleeName(ci.Common())+" without an exact type test (type == string / []byte / wrapper value) dominating the read: named string or byte-slice types get a plain string / []byte stored back (reflect panic for typed maps, changed dynamic type for interface maps)")
	}
	if n < 4 {
		r.Und(rule, "instance-floor", "", fmt.Sprintf("only %d leaf reads found in processUnfiltered (4 confirmed by hand)", n))
	}
}

// ruleComposer (C11.composer): composition sees the group exactly as it was gated:
// Filter.composeFrom is only ever assigned the payload's own ComposeFrom method value
// (no wrapper that reorders, filters or copies the events first).
func (c *Ctx) ruleComposer(rule string) {
	p, r := c.P, c.R
	n := 0
	for _, f := range p.FuncsIn(PkgGated) {
		eachInstr(f, func(in ssa.Instruction) {
			st, ok := in.(*ssa.Store)
			if !ok {
				return
			}
			fa, ok := st.Addr.(*ssa.FieldAddr)
			if !ok || typeShort(fa.X.Type()) != "gated.Filter" {
				return
			}
			if fa.X.Type().Underlying().(*types.Pointer).Elem().Underlying().(*types.Struct).Field(fa.Field).Name() != "composeFrom" {
				return
			}
			n++
			okV := false
			if mc, isMC := st.Val.(*ssa.MakeClosure); isMC {
				if fnv, ok := mc.Fn.(*ssa.Function); ok && strings.Contains(fnv.Name(), "ComposeFrom") && strings.Contains(fnv.Synthetic, "bound method") {
					okV = true
					// ... bound to the payload at hand itself (the event's Payload asserted Gateable), not to a value
					// made up from its type: a nil *T whose methods have value receivers panics in the generated
					// wrapper before ComposeFrom runs — inside the pipeline's goroutine
					if len(mc.Bindings) == 1 {
						isPayload := func(v ssa.Value) bool {
							bt := p.NewTerms(nil).Of(v)
							return bt.Op == "Extract" && bt.Name == "0" && len(bt.Args) == 1 && bt.Args[0].Op == "Assert" && strings.Contains(bt.Args[0].String(), "Field[Payload]")
						}
						okV = isPayload(mc.Bindings[0])
						// ... or the parameter of an initialisation helper which every caller hands that payload
						if par, isPar := mc.Bindings[0].(*ssa.Parameter); isPar && !okV {
							idx := -1
							for i, fp := range f.Params {
								if fp == par {
									idx = i
								}
							}
							sites := 0
							okV = idx >= 0
							for _, g := range p.FuncsIn(PkgGated) {
								for _, ci := range callsTo(g, func(n string, cc *ssa.CallCommon) bool { return cc.StaticCallee() == f }) {
									sites++
									if args := ci.Common().Args; idx >= len(args) || !isPayload(args[idx]) {
										okV = false
									}
								}
							}
							if sites == 0 {
								okV = false
							}
						}
					}
				}
			}
			r.Check(okV, rule, p.ShortFn(f)+":composeFrom", p.InstrPos(in), "the composer is the payload's own ComposeFrom method value", "Filter.composeFrom is assigned "+p.NewTerms(nil).Of(st.Val).String()+", not the payload's ComposeFrom method value: a wrapper can reorder or alter the group before composition sees it")
		})
	}
	if n < 1 {
		r.Und(rule, "instance-floor", "", "no assignment of Filter.composeFrom found")
	}
}

// rulePartialWrite (C08.partial): "only whole events": a first write that fails may
// have put some of the event's bytes into the file. The retry path must look at how
// many (to roll the fragment back, or at least to know about it) before it writes
// the whole event again behind it. A retry that ignores the first attempt's byte
// count leaves fragment + whole event in the file when the retry succeeds.
func (c *Ctx) rulePartialWrite() {
	p, r := c.P, c.R
	const rule = "C08.partial"
	fn := c.Fn(rule, PkgRoot, "FileSink", "Process")
	if fn == nil {
		return
	}
	n := 0
	for _, pa := range c.enum(rule, fn, PathOpts{Inline: inlineSmall("(*eventlogger.FileSink).open", "(*eventlogger.FileSink).rotate", "(*eventlogger.FileSink).reopen", "(*eventlogger.Event).Format")}) {
		var writes []*ssa.Call
		for _, s := range pa.Steps {
			if cl, ok := s.In.(*ssa.Call); ok && !s.Deferred && calleeName(&cl.Call) == "(*bytes.Reader).WriteTo" {
				writes = append(writes, cl)
			}
		}
		if len(writes) < 2 {
			continue
		}
		n++
		first := writes[0]
		examined := false
		for _, ref := range nonDebugRefs(first) {
			ex, ok := ref.(*ssa.Extract)
			if !ok || ex.Index != 0 {
				continue
			}
			// used on the failure side: any use other than the success-side addition to BytesWritten
			for _, u := range nonDebugRefs(ex) {
				if bo, isB := u.(*ssa.BinOp); isB && bo.Op == token.ADD {
					continue
				}
				examined = true
			}
		}
		r.Check(examined, rule, "(*FileSink).Process:retry-after-partial-write", p.InstrPos(writes[1]), "the retry path examines how many bytes the failed first attempt wrote", "the whole event is written again after a failed first attempt whose byte count is never looked at: if that attempt wrote part of the event (disk full, file size limit), the file holds the fragment followed by the whole event — not only whole events")
		break
	}
	if n == 0 {
		r.Und(rule, "(*FileSink).Process:retry-after-partial-write", p.Pos(fn.Pos()), "no path with a retried write found")
	}
}

// rulePipelineCopies (C04.copy): the set of registered pipelines has ONE home, the
// sync.Map inside graphMap. Any other long-lived field of Broker / graph / graphMap
// whose type can hold pipelines (a cache, a snapshot list) is a second copy that Send
// reads while RegisterPipeline / RemovePipeline update the first: it is tolerable only
// if every write to it happens with Broker.lock held for writing (then it changes
// atomically with the map). A copy refreshed from Send's side (no lock, "publish what
// I just ranged over") can overwrite a newer invalidation and keep delivering to a
// removed pipeline, or never to a new one, after every caller has returned.
func (c *Ctx) rulePipelineCopies(rule string) {
	p, r := c.P, c.R
	must := c.MustLocks()
	var pkg *types.Package
	for _, sp := range p.SSA.AllPackages() {
		if sp.Pkg.Path() == PkgRoot {
			pkg = sp.Pkg
		}
	}
	if pkg == nil {
		r.Und(rule, "anchor", "", "package eventlogger not loaded")
		return
	}
	roots := map[string]bool{"Broker": true, "graph": true, "graphMap": true}
	var holds func(t types.Type, seen map[types.Type]bool) bool
	holds = func(t types.Type, seen map[types.Type]bool) bool {
		if seen[t] {
			return false
		}
		seen[t] = true
		switch x := t.(type) {
		case *types.Named:
			if x.Obj().Pkg() == pkg && (x.Obj().Name() == "registeredPipeline" || x.Obj().Name() == "linkedNode") {
				return true
			}
			if ta := x.TypeArgs(); ta != nil {
				for i := 0; i < ta.Len(); i++ {
					if holds(ta.At(i), seen) {
						return true
					}
				}
			}
			if x.Obj().Pkg() == pkg && roots[x.Obj().Name()] {
				return false // reported at that struct's own fields
			}
			if x.Obj().Pkg() != pkg {
				return false
			}
			return holds(x.Underlying(), seen)
		case *types.Pointer:
			return holds(x.Elem(), seen)
		case *types.Slice:
			return holds(x.Elem(), seen)
		case *types.Array:
			return holds(x.Elem(), seen)
		case *types.Chan:
			return holds(x.Elem(), seen)
		case *types.Map:
			return holds(x.Key(), seen) || holds(x.Elem(), seen)
		case *types.Struct:
			for i := 0; i < x.NumFields(); i++ {
				if holds(x.Field(i).Type(), seen) {
					return true
				}
			}
		}
		return false
	}
	type fld struct{ owner, name string }
	var copies []fld
	nFields := 0
	for name := range roots {
		obj := pkg.Scope().Lookup(name)
		if obj == nil {
			r.Und(rule, "anchor:"+name, "", "type "+name+" not found in package eventlogger")
			continue
		}
		st, ok := obj.Type().Underlying().(*types.Struct)
		if !ok {
			continue
		}
		for i := 0; i < st.NumFields(); i++ {
			nFields++
			if holds(st.Field(i).Type(), map[types.Type]bool{}) {
				copies = append(copies, fld{name, st.Field(i).Name()})
			}
		}
	}
	sort.Slice(copies, func(i, j int) bool { return copies[i].owner+copies[i].name < copies[j].owner+copies[j].name })
	if nFields < 3 {
		r.Und(rule, "instance-floor", "", "fewer than 3 fields of Broker/graph/graphMap inspected")
	}
	if len(copies) == 0 {
		r.Ok(rule, "pipeline-set:single-home", p.Pos(token.NoPos), fmt.Sprintf("%d fields of Broker, graph and graphMap inspected: none besides the sync.Map can hold pipelines", nFields))
		return
	}
	for _, cp := range copies {
		construct := cp.owner + "." + cp.name
		bad := false
		nW := 0
		for _, f := range p.FuncsIn(PkgRoot) {
			eachInstr(f, func(in ssa.Instruction) {
				isField := func(v ssa.Value) bool {
					fa, ok := v.(*ssa.FieldAddr)
					if !ok {
						return false
					}
					pt, ok := fa.X.Type().Underlying().(*types.Pointer)
					if !ok {
						return false
					}
					n, ok := pt.Elem().(*types.Named)
					if !ok || n.Obj().Pkg() != pkg || n.Obj().Name() != cp.owner {
						return false
					}
					return n.Underlying().(*types.Struct).Field(fa.Field).Name() == cp.name
				}
				write := false
				switch x := in.(type) {
				case *ssa.Store:
					write = isField(x.Addr)
				case *ssa.MapUpdate:
					if ld, ok := x.Map.(*ssa.UnOp); ok {
						write = isField(ld.X)
					}
				case ssa.CallInstruction:
					cc := x.Common()
					if !cc.IsInvoke() && len(cc.Args) > 0 && isField(cc.Args[0]) {
						if sc := cc.StaticCallee(); sc != nil {
							switch sc.Name() {
							case "Load", "Range", "Len":
							default:
								write = true
							}
						}
					}
				}
				if !write {
					return
				}
				nW++
				if must.At(in)["eventlogger.Broker.lock"] != 'W' {
					bad = true
					r.Bad(rule, construct+":written-without-registry-lock@"+p.ShortFn(f), p.InstrPos(in), "field "+construct+" can hold registered pipelines — a second copy of the set kept in the sync.Map — and is written here without Broker.lock held for writing: refreshed from a reader's side it can overwrite a newer invalidation, so a Send that starts after RemovePipeline returned still delivers to the removed pipeline (or never to a new one)")
				}
			})
		}
		if !bad {
			r.Ok(rule, construct, p.Pos(token.NoPos), fmt.Sprintf("second holder of pipelines; all %d writes happen under Broker.lock held for writing", nW))
		}
	}
}

// ruleCloserFirst (C06.close): NodeController.Close closes the REGISTERED node when it
// is a Closer and unwraps only a node that is not: every Unwrap() is reached only on
// the failed side of a Closer assertion of the very value it unwraps. With the tests
// the other way round a decorator that has both methods is unregistered without ever
// being closed, and the node behind it — which the broker never registered, and which
// several decorators may share — is closed instead, once per decorator.
func (c *Ctx) ruleCloserFirst(rule string) {
	p, r := c.P, c.R
	fn := c.Fn(rule, PkgRoot, "NodeController", "Close")
	if fn == nil {
		return
	}
	asserted := func(v ssa.Value) (ssa.Value, string) { // v = extract #0 of typeassert,ok X.(T)
		ex, ok := v.(*ssa.Extract)
		if !ok {
			if ta, ok := v.(*ssa.TypeAssert); ok {
				return ta.X, typeShort(ta.AssertedType)
			}
			return nil, ""
		}
		ta, ok := ex.Tuple.(*ssa.TypeAssert)
		if !ok {
			return nil, ""
		}
		return ta.X, typeShort(ta.AssertedType)
	}
	n := 0
	for _, ci := range callsTo(fn, func(name string, cc *ssa.CallCommon) bool { return name == "invoke eventlogger.NodeUnwrapper.Unwrap" }) {
		n++
		x, _ := asserted(ci.Common().Value)
		ok := false
		if x != nil {
			for _, b := range fn.Blocks {
				cond, _, fsucc := condOf(b)
				ex, isEx := cond.(*ssa.Extract)
				if !isEx || ex.Index != 1 {
					continue
				}
				ta, isTA := ex.Tuple.(*ssa.TypeAssert)
				if !isTA || ta.X != x || typeShort(ta.AssertedType) != "eventlogger.Closer" {
					continue
				}
				if edgeDominates(b, fsucc, ci.Block()) {
					ok = true
				}
			}
		}
		r.Check(ok, rule, "NodeController.Close:closer-first", p.InstrPos(ci), "a node is unwrapped only after it was found not to be a Closer itself", "a node is unwrapped without first having been found not to be a Closer: a registered node that has both Close and Unwrap is never closed, and the node behind it, which the broker did not register, is closed in its place")
	}
	if n == 0 {
		r.Und(rule, "NodeController.Close:closer-first", p.Pos(fn.Pos()), "no Unwrap() call found in NodeController.Close")
	}
	// Close gives up ("nothing to close", a result that is not the node's own Close result) only for a node that
	// was found to be NEITHER a Closer NOR a NodeUnwrapper (or nil): an iteration budget, a depth counter or any other
	// exit leaves the Closer behind the remaining wrappers open while the broker has already forgotten the node.
	nRet := 0
	for _, b := range fn.Blocks {
		if len(b.Instrs) == 0 {
			continue
		}
		ret, isRet := b.Instrs[len(b.Instrs)-1].(*ssa.Return)
		if !isRet || len(ret.Results) != 1 {
			continue
		}
		if call, isCall := ret.Results[0].(*ssa.Call); isCall && calleeName(call.Common()) == "invoke eventlogger.Closer.Close" {
			continue
		}
		nRet++
		neg := map[string]bool{}
		for _, d := range fn.Blocks {
			cond, tsucc, fsucc := condOf(d)
			if cond == nil {
				continue
			}
			if ex, isEx := cond.(*ssa.Extract); isEx && ex.Index == 1 {
				if ta, isTA := ex.Tuple.(*ssa.TypeAssert); isTA && edgeDominates(d, fsucc, b) {
					neg[typeShort(ta.AssertedType)] = true
				}
			}
			if bo, isB := cond.(*ssa.BinOp); isB && bo.Op == token.EQL && (isNilConst(bo.X) || isNilConst(bo.Y)) && edgeDominates(d, tsucc, b) {
				neg["eventlogger.Closer"], neg["eventlogger.NodeUnwrapper"] = true, true
			}
		}
		r.Check(neg["eventlogger.Closer"] && neg["eventlogger.NodeUnwrapper"], rule, "NodeController.Close:gives-up-only-at-plain-node", p.InstrPos(ret),
			"Close returns without closing only for a node that is neither a Closer nor a NodeUnwrapper",
			"Close can return without having called a Close although the node at hand was not found to be neither a Closer nor a NodeUnwrapper (an iteration budget or another exit of the unwrap loop): the Closer behind the remaining wrappers stays open although the broker has released the node")
	}
	if nRet == 0 {
		r.Und(rule, "NodeController.Close:gives-up-only-at-plain-node", p.Pos(fn.Pos()), "no `nothing to close` return found in NodeController.Close")
	}
}

// ruleFileReopen (C08.reopen): "external renames of the active file followed by
// Reopen". After Reopen returned successfully the sink writes to the file that is NOW
// at the configured path. (a) the exported Reopen always runs the internal reopen()
// unless the path is one of the pass-through specials — a shortcut "the file is still
// there" cannot tell the file it has open from a new one created in its place (the
// logrotate `create` flow), and later acknowledged events land in the moved file.
// (b) every successful path of reopen() for a real file ends in open(), and a handle
// that is still held at that point was closed before.
func (c *Ctx) ruleFileReopen(rule string) {
	p, r := c.P, c.R
	special := func(pa *Path) bool {
		for _, at := range pa.Atoms {
			if at.Op == "eq" && !at.Neg && at.L.Is("Field", "Path") && at.R.Op == "Const" &&
				(at.R.Name == `"/dev/null"` || at.R.Name == `"/dev/stdout"` || at.R.Name == `"/dev/stderr"`) {
				return true
			}
		}
		return false
	}
	if fn := c.Fn(rule, PkgRoot, "FileSink", "Reopen"); fn != nil {
		ok, n := true, 0
		for _, pa := range c.enum(rule, fn, PathOpts{}) {
			if special(pa) {
				continue
			}
			n++
			var call ssa.Value
			for _, s := range pa.CallsOn() {
				if s.Depth == 0 && stepCallName(s) == "(*eventlogger.FileSink).reopen" {
					call = s.In.(ssa.Value)
				}
			}
			rv := pa.RetVals()
			if call == nil || len(rv) != 1 || stripConv(rv[0]) != call {
				ok = false
				r.Bad(rule, "(*FileSink).Reopen:always-reopens", p.InstrPos(pa.End), "Reopen can return without having closed and reopened the file (and without returning reopen()'s result): a file that was moved aside and replaced at the same path stays the one written to, and events acknowledged afterwards are lost with it ("+p.PathSummary(pa)+")")
				break
			}
		}
		if ok {
			r.Check(n > 0, rule, "(*FileSink).Reopen:always-reopens", p.Pos(fn.Pos()), fmt.Sprintf("%d paths for a real file, each returns the result of reopen()", n), "no path of Reopen for a real file found")
		}
	}
	if fn := c.Fn(rule, PkgRoot, "FileSink", "reopen"); fn != nil {
		ok, n := true, 0
		for _, pa := range c.enum(rule, fn, PathOpts{}) {
			if special(pa) {
				continue
			}
			n++
			var openCall ssa.Value
			closed := false
			var handleTest *bool // the last `fs.f == nil` test before open
			for _, s := range pa.CallsOn() {
				if s.Depth != 0 {
					continue
				}
				switch stepCallName(s) {
				case "(*eventlogger.FileSink).open":
					openCall = s.In.(ssa.Value)
				case "(*os.File).Close":
					if openCall == nil {
						closed = true
					}
				}
			}
			for _, at := range pa.Atoms {
				if at.Op == "eq" && at.L.Is("Field", "f") && at.R.Is("Const", "nil") {
					v := !at.Neg
					handleTest = &v
				}
			}
			rv := pa.RetVals()
			success := len(rv) == 1 && (isNilConst(rv[0]) || (openCall != nil && stripConv(rv[0]) == openCall))
			if !success {
				continue // an error is reported: nothing is acknowledged on it
			}
			switch {
			case openCall == nil:
				ok = false
				r.Bad(rule, "reopen:ends-in-open", p.InstrPos(pa.End), "reopen() succeeds without opening the file at the configured path ("+p.PathSummary(pa)+")")
			case handleTest != nil && !*handleTest && !closed:
				ok = false
				r.Bad(rule, "reopen:close-before-open", p.InstrPos(pa.End), "reopen() opens the configured path again while the old handle, found still valid, was not closed ("+p.PathSummary(pa)+")")
			}
			if !ok {
				break
			}
		}
		if ok {
			r.Check(n > 0, rule, "reopen:ends-in-open", p.Pos(fn.Pos()), fmt.Sprintf("%d paths for a real file: every successful one ends in open(), closing a handle that was still held", n), "no path of reopen() for a real file found")
		}
	}
}

// ruleShortcutConverse (C09.shortcut): the "nothing is being filtered" early return
// of Process forwards the event untouched, so it may be taken ONLY when the effective
// operation of every classification is none. The flag that decides it (a boolean
// carried around a loop) therefore (1) starts false, (2) is computed in a loop over
// the complete effective table — the map returned by DefaultFilterOperations(), into
// which the overrides are written —, (3) stays unset in an iteration only on the
// failed side of `table[class] != none` for that iteration's class, and (4) the loop
// runs to exhaustion. A flag seeded from the configuration (len(overrides) == 0) or
// computed over the overrides alone lets a partial all-none override set switch the
// whole filter off: secret and unclassified values leave in plaintext.
func (c *Ctx) ruleShortcutConverse(proc *ssa.Function, flag *ssa.Phi, noneConst string) {
	p, r := c.P, c.R
	const rule, construct = "C09.shortcut", "Process:nothing-to-filter-only-if-all-none"
	hdr := flag.Block()
	var reasons []string
	// the loop of the flag: ranges over DefaultFilterOperations()
	var next *ssa.Next
	for _, in := range hdr.Instrs {
		if n, ok := in.(*ssa.Next); ok {
			next = n
		}
	}
	var table ssa.Value
	if next == nil {
		reasons = append(reasons, "the flag is not carried around a range loop")
	} else if rg, ok := next.Iter.(*ssa.Range); !ok {
		reasons = append(reasons, "the loop of the flag does not range over a map")
	} else if call, ok := rg.X.(*ssa.Call); !ok || calleeName(&call.Call) != "filters/encrypt.DefaultFilterOperations" {
		reasons = append(reasons, "the loop that computes the flag does not range over the complete table of operations (DefaultFilterOperations() with the overrides applied) but over "+p.NewTerms(nil).Of(rg.X).String())
	} else {
		table = rg.X
	}
	inLoop := func(b *ssa.BasicBlock) bool { return b == hdr || (hdr.Dominates(b) && reachableFrom(b)[hdr]) }
	for i, e := range flag.Edges {
		pred := hdr.Preds[i]
		if !inLoop(pred) {
			if b, ok := constBool(e); !ok || b {
				reasons = append(reasons, "the flag does not start out false (it is "+p.NewTerms(nil).Of(e).String()+" before the loop): a configuration can pre-empt the per-class tests")
			}
			continue
		}
		if b, ok := constBool(e); ok && b {
			continue // set: direction decided by C10.guards
		}
		if e != ssa.Value(flag) {
			reasons = append(reasons, "the flag is assigned something other than true inside the loop")
			continue
		}
		// carried unchanged: only by the failed side of table[class] != none
		cond, _, fsucc := condOf(pred)
		okTest := false
		if bo, isB := cond.(*ssa.BinOp); isB && bo.Op == token.NEQ && fsucc == hdr && table != nil && next != nil {
			if lk, isL := bo.X.(*ssa.Lookup); isL && lk.X == table {
				if k, isK := bo.Y.(*ssa.Const); isK && k.Value != nil && k.Value.ExactString() == noneConst {
					if ex, isE := lk.Index.(*ssa.Extract); isE && ex.Tuple == ssa.Value(next) && ex.Index == 1 {
						okTest = true
					}
				}
			}
		}
		if !okTest {
			reasons = append(reasons, "an iteration can leave the flag unset other than by finding that the table's operation for this iteration's class is none")
		}
	}
	// exhaustion: the only edge leaving the loop is the range's own
	for _, b := range proc.Blocks {
		if !inLoop(b) {
			continue
		}
		for _, s := range b.Succs {
			if !inLoop(s) && b != hdr {
				reasons = append(reasons, "the loop can be left before every class was looked at")
			}
		}
	}
	if len(reasons) == 0 {
		r.Ok(rule, construct, p.Pos(flag.Pos()), "the flag starts false, is computed over every class of DefaultFilterOperations() with the overrides applied, and stays unset in an iteration only when that class's operation is none")
		return
	}
	sort.Strings(reasons)
	at := flag.Pos()
	if !at.IsValid() {
		at = proc.Pos()
	}
	r.Bad(rule, construct, p.Pos(at), "the untouched early return can be taken although some classification still has an operation: "+strings.Join(uniqStrings(reasons), "; ")+" — with such a configuration secret, sensitive or unclassified values are forwarded in plaintext")
}

func uniqStrings(in []string) []string {
	var out []string
	for i, s := range in {
		if i == 0 || s != in[i-1] {
			out = append(out, s)
		}
	}
	return out
}

// ruleShortcut locates the nothing-to-filter flag of Process — an If on a boolean phi,
// ahead of the deep copy, whose false side returns the event parameter untouched —
// and applies ruleShortcutConverse to it.
func (c *Ctx) ruleShortcut(proc *ssa.Function) {
	p, r := c.P, c.R
	noneConst := "?"
	if pkg := p.SSAPkgs[PkgEncrypt]; pkg != nil {
		if k, ok := pkg.Members["NoOperation"].(*ssa.NamedConst); ok {
			noneConst = k.Value.Value.ExactString()
		}
	}
	copies := callsTo(proc, func(n string, cc *ssa.CallCommon) bool { return n == "github.com/mitchellh/copystructure.Copy" })
	if len(copies) != 1 {
		return // C10.copy reports
	}
	cp := copies[0]
	tb := p.NewTerms(nil)
	n := 0
	for _, b := range proc.Blocks {
		cond, _, fs := condOf(b)
		phi, isPhi := cond.(*ssa.Phi)
		if !isPhi || !(b == cp.Block() || b.Dominates(cp.Block())) || len(fs.Instrs) == 0 {
			continue
		}
		ret, ok := fs.Instrs[len(fs.Instrs)-1].(*ssa.Return)
		if !ok {
			continue
		}
		rv := RetVals(ret)
		if len(rv) != 2 || !tb.Of(rv[0]).IsParam("2:e") || !isNilConst(rv[1]) {
			continue
		}
		n++
		c.ruleShortcutConverse(proc, phi, noneConst)
	}
	if n == 0 {
		r.Ok("C09.shortcut", "Process:nothing-to-filter-only-if-all-none", p.Pos(proc.Pos()), "Process has no flag-guarded untouched early return ahead of the copy (C10.guards decides whether it must)")
	}
}

// ruleNoHandOff (C11.section / C17.section): a helper of the gated filter that is
// entered with Filter.l held by every caller (openGate) keeps it held throughout. If it
// lets go of the lock in the middle — "don't stall other callers during the send" —
// the sweep that called it is holding a saved list position and the group is still in
// the list: a concurrent Process / FlushAll emits the same group a second time, and
// the sweep, resuming at an element that was unlinked meanwhile, stops early and
// leaves younger groups gated although it reports success.
func (c *Ctx) ruleNoHandOff(rule, pkg string) {
	p, r := c.P, c.R
	must := c.MustLocks()
	n, bad := 0, false
	for f, e := range must.Entry {
		if PkgPathOf(f) == pkg && len(e) > 0 {
			n++
		}
	}
	for _, is := range must.Issues {
		if PkgPathOf(is.Fn) != pkg || !strings.HasPrefix(is.Detail, "hand-off:") {
			continue
		}
		bad = true
		r.Bad(rule, p.ShortFn(is.Fn)+":releases-callers-lock:"+is.Class, p.InstrPos(is.Instr), p.ShortFn(is.Fn)+" "+strings.TrimPrefix(is.Detail, "hand-off: "))
	}
	if !bad {
		r.Check(n > 0, rule, "helpers-keep-callers-lock", "", fmt.Sprintf("%d function(s) entered with a lock held by every caller; none releases it", n), "no function of the package is entered with a lock held (openGate is expected)")
	}
}

// pointerUnescape: t is the RFC 6901 unescaping of some term X — Replace(Replace(X,
// "~1", "/"), "~0", "~") written in place or as the body of a package-local helper —
// and returns X. Otherwise returns t itself and false.
func (c *Ctx) pointerUnescape(t *Term) (*Term, bool) {
	chain := func(t *Term) (*Term, bool) {
		isRepl := func(x *Term, from, to string) (*Term, bool) {
			if x.Op != "Call" || (x.Name != "strings.Replace" && x.Name != "strings.ReplaceAll") || len(x.Args) < 3 {
				return nil, false
			}
			if !x.Args[1].Is("Const", from) || !x.Args[2].Is("Const", to) {
				return nil, false
			}
			if x.Name == "strings.Replace" && (len(x.Args) != 4 || !x.Args[3].Is("Const", "-1")) {
				return nil, false
			}
			return x.Args[0], true
		}
		in1, ok := isRepl(t, `"~0"`, `"~"`)
		if !ok {
			return nil, false
		}
		return isRepl(in1, `"~1"`, `"/"`)
	}
	if x, ok := chain(t); ok {
		return x, true
	}
	if t.Op == "Call" && len(t.Args) == 1 {
		if call, ok := t.V.(*ssa.Call); ok {
			if callee := call.Call.StaticCallee(); callee != nil && PkgPathOf(callee) == PkgEncrypt && len(callee.Params) == 1 {
				tb := c.P.NewTerms(nil)
				okAll, n := true, 0
				for _, b := range callee.Blocks {
					if len(b.Instrs) == 0 {
						continue
					}
					if ret, isRet := b.Instrs[len(b.Instrs)-1].(*ssa.Return); isRet {
						n++
						rv := RetVals(ret)
						if len(rv) != 1 {
							okAll = false
							continue
						}
						x, ok := chain(tb.Of(rv[0]))
						if !ok || x.Op != "Param" {
							okAll = false
						}
					}
				}
				if okAll && n > 0 {
					return t.Args[0], true
				}
			}
		}
	}
	return t, false
}

// ruleNilNode (C05.nilnode): RegisterNode stores only a non-nil Node. A nil Node in
// the registry makes the next RegisterPipeline that lists its id panic on Type()
// (in doValidate, under the write lock) — it neither succeeds nor returns an error.
func (c *Ctx) ruleNilNode(rule string) {
	p, r := c.P, c.R
	fn := c.Fn(rule, PkgRoot, "Broker", "RegisterNode")
	if fn == nil {
		return
	}
	n, ok := 0, true
	for _, pa := range c.enum(rule, fn, PathOpts{Inline: inlineSmall()}) {
		stores := false
		for _, s := range pa.Steps {
			if mu, isMU := s.In.(*ssa.MapUpdate); isMU && pa.TermsAt(s).Of(mu.Map).Is("Field", "nodes") {
				stores = true
			}
		}
		if !stores {
			continue
		}
		n++
		isNil, found := hasAtom(pa, func(at Atom) bool { return at.Op == "eq" && at.L.IsParam("2:node") && at.R.Is("Const", "nil") })
		if (!found || isNil) && ok {
			ok = false
			r.Bad(rule, "RegisterNode:nil-node-rejected", p.InstrPos(pa.End), "a node is entered in the registry on a path that did not exclude a nil Node: the next RegisterPipeline that lists this id calls Type() on it and panics instead of returning an error ("+p.PathSummary(pa)+")")
		}
	}
	if ok {
		r.Check(n > 0, rule, "RegisterNode:nil-node-rejected", p.Pos(fn.Pos()), fmt.Sprintf("%d registering paths, each after node != nil", n), "no path of RegisterNode stores into Broker.nodes")
	}
}

// ruleSendUnderNodeLock (C12.held-send): "including when a node's Process or Close
// calls Send on the same Broker". A library node that sends through the Broker
// (gated.Filter through its Sender) must not do so while it holds a lock that its own
// Process acquires: the event it sends runs a whole pipeline, and if any node of that
// pipeline — a sink that emits an audit event, say — sends an event which is routed
// to this node again, that Process blocks on the lock, the pipeline never finishes,
// and the outer Send never returns. Exception E1 (C12.e1-*) only covers the event
// the node sends ITSELF (it is not Gateable, so its own pass through Process returns
// before the lock); it says nothing about what the nodes downstream send.
func (c *Ctx) ruleSendUnderNodeLock(rule string) {
	p, r := c.P, c.R
	may := c.MayLocks()
	proc := c.Fn(rule, PkgGated, "Filter", "Process")
	if proc == nil {
		return
	}
	// lock classes Process acquires, directly or through package-local callees
	acquired := map[string]string{}
	seen := map[*ssa.Function]bool{}
	var walk func(f *ssa.Function, d int)
	walk = func(f *ssa.Function, d int) {
		if seen[f] || d > 4 {
			return
		}
		seen[f] = true
		eachInstr(f, func(in ssa.Instruction) {
			ci, ok := in.(ssa.CallInstruction)
			if !ok {
				return
			}
			if op := lockOpOf(ci.Common()); op != nil && op.Acquire {
				if _, dup := acquired[op.Class]; !dup {
					acquired[op.Class] = p.InstrPos(in)
				}
			}
			if callee := ci.Common().StaticCallee(); callee != nil && PkgPathOf(callee) == PkgGated {
				walk(callee, d+1)
			}
		})
	}
	walk(proc, 0)
	n := 0
	for _, f := range p.FuncsIn(PkgGated) {
		eachInstr(f, func(in ssa.Instruction) {
			ci, ok := in.(ssa.CallInstruction)
			if !ok || !ci.Common().IsInvoke() {
				return
			}
			nt, ok := ci.Common().Value.Type().(*types.Named)
			if !ok || nt.Obj().Pkg() == nil || nt.Obj().Pkg().Path() != PkgGated || nt.Obj().Name() != "Sender" {
				return
			}
			n++
			held := may.At(in)
			var classes []string
			for h := range held {
				if _, acq := acquired[h]; acq {
					classes = append(classes, h)
				}
			}
			sort.Strings(classes)
			if len(classes) == 0 {
				r.Ok(rule, p.ShortFn(f)+"->Sender.Send", p.InstrPos(in), "no lock that Process acquires is held across the send")
				return
			}
			for _, h := range classes {
				r.Bad(rule, p.ShortFn(f)+"->Sender.Send:held:"+h, p.InstrPos(in), "the filter sends through the Broker while "+h+" may be held, and (*Filter).Process acquires that lock ("+acquired[h]+"): a node of the pipeline that processes the sent event and itself sends a Gateable event re-enters Process, which blocks on the lock; the outer Broker.Send never returns", append([]string{"lock held at the send because:"}, may.WhyChain(f, h)...)...)
			}
		})
	}
	if n == 0 {
		r.Und(rule, "instance-floor", "", "no Sender.Send call found in package gated")
	}
}

// ---------------------------------------------------------------------------
// ruleNilElem (C09.nilelem): reflect.Value.Elem() of a nil pointer or nil interface is
// the zero Value, and nearly every method of the zero Value panics (Type, Interface,
// Field, Len, ...). The walkers dereference struct fields, slice elements and map
// values; each dereference whose operand was not proven non-nil must be followed by a
// validity test (== reflect.ValueOf(nil), IsValid, or a Kind() == K test) on every path
// to such a method — the struct-field arm does this (`if field == reflect.ValueOf(nil)
// { continue }`), and its siblings (slice elements in Process, filterField and the
// sweep) must agree, or a nil element ([]*T{nil}, a JSON null inside a list) makes
// Process panic inside the pipeline goroutine instead of filtering or failing.
// The analysis is a forward reachability search on the SSA CFG from each Elem() (and,
// one level down, from the parameter of a package-local callee the value is handed
// to) that is cut at the safe side of every validity test on the value or a phi of it.
type nilElemException struct{ Fn, Operand, Why string }

// confirmed by reading; an exception applies to the Elem() whose operand term contains Operand
var nilElemExceptions = []nilElemException{
	{"(*filters/encrypt.Filter).Process", "Call[reflect.ValueOf](Field[Payload](", "the payload pointer itself: a nil or zero payload returned the original before the copy (C10.guards copy-guards decides that), and the deep copy of a non-nil pointer is non-nil"},
	{"(*filters/encrypt.trackedMaps).processUnfiltered", "Call[(reflect.Value).MapIndex](", "a map value that is a nil interface was skipped by the `field.Interface() == nil` test just above it (the rule verifies that test is still there); values of tracked maps can be interfaced, they are reached through exported fields of the deep copy"},
	{"(*filters/encrypt.trackedMaps).processUnfiltered", "Field[value](Index(Call[(*filters/encrypt.trackedMaps).unfiltered](", "a tracked value of type *structpb.Struct is non-nil: every caller of trackMap hands over such a pointer only after having looked through it (Elem().FieldByName(\"Fields\") is a map)"},
}

func (c *Ctx) ruleNilElem(rule string) {
	p, r := c.P, c.R
	safe := map[string]bool{"Kind": true, "IsValid": true, "CanSet": true, "CanAddr": true, "String": true}
	isValueMethod := func(cc *ssa.CallCommon) (string, bool) {
		if cc.IsInvoke() {
			return "", false
		}
		f := cc.StaticCallee()
		if f == nil || f.Signature.Recv() == nil || typeShort(f.Signature.Recv().Type()) != "reflect.Value" {
			return "", false
		}
		return f.Name(), true
	}
	isValueOfNil := func(v ssa.Value) bool {
		call, ok := v.(*ssa.Call)
		if !ok || calleeName(&call.Call) != "reflect.ValueOf" {
			return false
		}
		return isNilConst(call.Call.Args[0])
	}
	// derived set: the source and every phi fed by a member
	derive := func(f *ssa.Function, src ssa.Value) map[ssa.Value]bool {
		d := map[ssa.Value]bool{src: true}
		for changed := true; changed; {
			changed = false
			eachInstr(f, func(in ssa.Instruction) {
				ph, ok := in.(*ssa.Phi)
				if !ok || d[ph] {
					return
				}
				for _, e := range ph.Edges {
					if d[e] {
						d[ph] = true
						changed = true
					}
				}
			})
		}
		return d
	}
	// unsafeSucc: the block ends in a validity test of a derived value; returns the successor on
	// which the value may still be the zero Value (nil: not such a test)
	unsafeSucc := func(b *ssa.BasicBlock, d map[ssa.Value]bool) *ssa.BasicBlock {
		cond, ts, fs := condOf(b)
		if cond == nil {
			return nil
		}
		switch x := cond.(type) {
		case *ssa.BinOp:
			if x.Op != token.EQL && x.Op != token.NEQ {
				return nil
			}
			eqSucc, neSucc := ts, fs
			if x.Op == token.NEQ {
				eqSucc, neSucc = fs, ts
			}
			switch {
			case d[x.X] && isValueOfNil(x.Y), d[x.Y] && isValueOfNil(x.X):
				return eqSucc // equal to the zero Value: unsafe; the other side is valid
			}
			// Kind() == K (K a real kind)
			kindOf := func(v ssa.Value) bool {
				call, ok := v.(*ssa.Call)
				if !ok {
					return false
				}
				if m, isM := isValueMethod(&call.Call); isM && m == "Kind" && d[call.Call.Args[0]] {
					return true
				}
				return false
			}
			if k, ok := constInt(x.Y); ok && k != 0 && kindOf(x.X) {
				return neSucc
			}
		case *ssa.Call:
			if m, isM := isValueMethod(&x.Call); isM && m == "IsValid" && d[x.Call.Args[0]] {
				return fs
			}
		}
		return nil
	}
	type finding struct {
		at  ssa.Instruction
		why string
	}
	var search func(f *ssa.Function, src ssa.Value, start *ssa.BasicBlock, startIdx int, depth int, seenFn map[*ssa.Function]bool) *finding
	search = func(f *ssa.Function, src ssa.Value, start *ssa.BasicBlock, startIdx int, depth int, seenFn map[*ssa.Function]bool) *finding {
		d := derive(f, src)
		var srcBlock *ssa.BasicBlock
		if in, ok := src.(ssa.Instruction); ok {
			srcBlock = in.Block()
		}
		type item struct {
			b   *ssa.BasicBlock
			idx int
		}
		visited := map[*ssa.BasicBlock]bool{}
		work := []item{{start, startIdx}}
		for len(work) > 0 {
			it := work[0]
			work = work[1:]
			for i := it.idx; i < len(it.b.Instrs); i++ {
				ci, ok := it.b.Instrs[i].(ssa.CallInstruction)
				if !ok {
					continue
				}
				cc := ci.Common()
				if m, isM := isValueMethod(cc); isM && len(cc.Args) > 0 && d[cc.Args[0]] && !safe[m] {
					return &finding{it.b.Instrs[i], "reflect.Value." + m + "() is called on it"}
				}
				if callee := cc.StaticCallee(); callee != nil && PkgPathOf(callee) == PkgEncrypt && len(callee.Blocks) > 0 && depth < 2 && !seenFn[callee] {
					for ai, a := range cc.Args {
						if d[a] && ai < len(callee.Params) {
							seenFn[callee] = true
							if fd := search(callee, callee.Params[ai], callee.Blocks[0], 0, depth+1, seenFn); fd != nil {
								return &finding{it.b.Instrs[i], "it is handed to " + p.ShortFn(callee) + ", where " + fd.why + " (" + p.InstrPos(fd.at) + ")"}
							}
							delete(seenFn, callee)
						}
					}
				}
			}
			succs := it.b.Succs
			if us := unsafeSucc(it.b, d); us != nil {
				succs = []*ssa.BasicBlock{us}
			}
			for _, s := range succs {
				if srcBlock != nil && s != srcBlock && s.Dominates(srcBlock) {
					continue // leaves the scope of the value (next loop iteration)
				}
				if srcBlock != nil && s == srcBlock {
					continue
				}
				if !visited[s] {
					visited[s] = true
					work = append(work, item{s, 0})
				}
			}
		}
		return nil
	}
	n, nGuarded := 0, 0
	for _, f := range p.FuncsIn(PkgEncrypt) {
		if strings.Contains(p.ShortFn(f), "$") && f.Parent() == nil {
			continue
		}
		eachInstr(f, func(in ssa.Instruction) {
			call, ok := in.(*ssa.Call)
			if !ok {
				return
			}
			if m, isM := isValueMethod(&call.Call); isM && m == "MapIndex" {
				// the zero Value for a key that is not in the map — or not equal to itself (a NaN key
				// taken from MapKeys): same obligation as for Elem()
				ot := shortStr(p.NewTerms(nil).Of(call.Call.Args[1]).String(), 60)
				construct := p.ShortFn(f) + ":MapIndex(" + ot + ")"
				if fd := search(f, call, in.Block(), instrIndex(in)+1, 0, map[*ssa.Function]bool{f: true}); fd != nil {
					r.Bad(rule, construct, p.InstrPos(fd.at), "the result of MapIndex() at "+p.InstrPos(in)+" is the zero Value for a key that cannot be looked up (a NaN key of a map[float64]…), and "+fd.why+" on a path with no validity test in between: such a map makes Process panic instead of returning an error")
				} else {
					r.Ok(rule, construct, p.InstrPos(in), "every path to a method that panics on the zero Value passes a validity test first")
				}
				return
			}
			if m, isM := isValueMethod(&call.Call); !isM || m != "Elem" {
				return
			}
			n++
			o := call.Call.Args[0]
			ot := p.NewTerms(nil).Of(o).String()
			if len(ot) > 70 {
				ot = ot[:70] + "…"
			}
			construct := p.ShortFn(f) + ":Elem(" + ot + ")"
			// operand proven non-nil
			if oc, ok := o.(*ssa.Call); ok {
				switch calleeName(&oc.Call) {
				case "reflect.New":
					r.Ok(rule, construct, p.InstrPos(in), "Elem of reflect.New: never the zero Value")
					return
				}
			}
			for _, b := range f.Blocks {
				cond, _, fs := condOf(b)
				if cc, ok := cond.(*ssa.Call); ok {
					if m, isM := isValueMethod(&cc.Call); isM && m == "IsNil" && cc.Call.Args[0] == o && edgeDominates(b, fs, in.Block()) {
						r.Ok(rule, construct, p.InstrPos(in), "the operand was tested !IsNil()")
						return
					}
				}
			}
			// the same operand was already looked through: Kind(Elem(o)) == K on the way here
			for _, b := range f.Blocks {
				cond, ts, _ := condOf(b)
				if bo, ok := cond.(*ssa.BinOp); ok && bo.Op == token.EQL {
					if k, isK := constInt(bo.Y); isK && k != 0 {
						if kc, ok := bo.X.(*ssa.Call); ok {
							if m, isM := isValueMethod(&kc.Call); isM && m == "Kind" {
								if ec, ok := kc.Call.Args[0].(*ssa.Call); ok {
									if m2, isM2 := isValueMethod(&ec.Call); isM2 && m2 == "Elem" && ec.Call.Args[0] == o && edgeDominates(b, ts, in.Block()) {
										r.Ok(rule, construct, p.InstrPos(in), "Elem() of the same operand was found to have a real kind on the way here")
										return
									}
								}
							}
						}
					}
				}
			}
			fullOT := p.NewTerms(nil).Of(o).String()
			for _, exc := range nilElemExceptions {
				if exc.Fn != p.ShortFn(f) || !strings.HasPrefix(fullOT, exc.Operand) {
					continue
				}
				okExc := true
				if strings.Contains(exc.Operand, "MapIndex") {
					// the `Interface() == nil` test of the operand precedes the dereference (it sits behind
					// `CanInterface() &&`, so it does not dominate it)
					okExc = false
					for _, b := range f.Blocks {
						cond, _, _ := condOf(b)
						if bo, ok := cond.(*ssa.BinOp); ok && bo.Op == token.EQL && isNilConst(bo.Y) && reachableFrom(b)[in.Block()] {
							if ic, ok := bo.X.(*ssa.Call); ok {
								if m, isM := isValueMethod(&ic.Call); isM && m == "Interface" && ic.Call.Args[0] == o {
									okExc = true
								}
							}
						}
					}
				}
				if okExc {
					r.Ok(rule, construct, p.InstrPos(in), "exception: "+exc.Why)
					r.Exceptions = append(r.Exceptions, rule+" "+construct+": "+exc.Why)
					return
				}
			}
			if fd := search(f, call, in.Block(), instrIndex(in)+1, 0, map[*ssa.Function]bool{f: true}); fd != nil {
				r.Bad(rule, construct, p.InstrPos(fd.at), "the result of Elem() at "+p.InstrPos(in)+" is the zero Value when the pointer or interface is nil, and "+fd.why+" on a path with no validity test in between: a nil element or field makes Process panic (the struct-field arm tests `== reflect.ValueOf(nil)` first; this site does not)")
				return
			}
			nGuarded++
			r.Ok(rule, construct, p.InstrPos(in), "every path to a method that panics on the zero Value passes a validity test first")
		})
	}
	if n < 8 {
		r.Und(rule, "instance-floor", "", fmt.Sprintf("only %d Elem() sites found in package encrypt (at least 8 confirmed by hand)", n))
	}
}

// pctEscaped: t is X with every % doubled (a strings.Replacer for "%" -> "%%", or
// strings.ReplaceAll(X, "%", "%%")); returns X.
func pctEscaped(t *Term) (*Term, bool) {
	if t.Is("Call", "(*strings.Replacer).Replace") && len(t.Args) == 2 && t.Args[0].Is("Call", "strings.NewReplacer") {
		if va := t.Args[0].Args; len(va) == 1 && va[0].Op == "Varargs" && len(va[0].Args) == 2 && va[0].Args[0].Is("Const", `"%"`) && va[0].Args[1].Is("Const", `"%%"`) {
			return t.Args[1], true
		}
	}
	if t.Is("Call", "strings.ReplaceAll") && len(t.Args) == 3 && t.Args[1].Is("Const", `"%"`) && t.Args[2].Is("Const", `"%%"`) {
		return t.Args[0], true
	}
	return t, false
}

// ruleRotatedName (C15.pattern): isRotatedName accepts exactly <text before the
// stamp><digits><text after it>: every path that answers true established the
// prefix, the suffix and a non-empty stamp, and the function answers false from
// inside its loop over the stamp for a rune outside '0'..'9'.
func (c *Ctx) ruleRotatedName() { c.ruleRotatedNameAs("C15.pattern") }

// ruleRotatedNameAs: the own-name test under C08's name (files of ANOTHER sink that the test
// accepts are removed by this sink's retention: events the other sink acknowledged are lost).
func (c *Ctx) ruleRotatedNameAs(rule string) {
	p, r := c.P, c.R
	var fn *ssa.Function
	for _, f := range p.FuncsIn(PkgRoot) {
		if f.Name() == "isRotatedName" && f.Parent() == nil {
			fn = f
		}
	}
	if fn == nil {
		r.Und(rule, "isRotatedName", "", "function isRotatedName not found")
		return
	}
	n, ok, okRoom := 0, true, true
	for _, pa := range c.enum(rule, fn, PathOpts{}) {
		rv := pa.RetVals()
		if len(rv) != 1 {
			continue
		}
		if b, isC := constBool(rv[0]); !isC || !b {
			continue
		}
		n++
		has := func(call string) bool {
			for _, at := range pa.Atoms {
				if at.Op == "true" && !at.Neg && at.L.Is("Call", call) && len(at.L.Args) == 2 && at.L.Args[0].IsParam("1:name") {
					return true
				}
			}
			return false
		}
		nonEmpty := false
		for _, at := range pa.Atoms {
			if at.Op == "eq" && at.Neg && at.R.Is("Const", `""`) && strings.Contains(at.L.String(), "Param(1:name)") {
				nonEmpty = true
			}
			if at.Op == "eq" && at.Neg && at.R.Is("Const", "0") && at.L.Is("Call", "builtin len") && strings.Contains(at.L.String(), "Param(1:name)") {
				nonEmpty = true
			}
		}
		// the name holds prefix and suffix one after the other: len(prefix)+len(suffix) < len(name)
		// (or <=) was established — without it the two may overlap (x.l-og has the prefix x.l- and
		// the suffix .l-og), and the slice that cuts the stamp out panics with low > high
		room, strict := false, false
		for _, at := range pa.Atoms {
			if at.Op != "lt" {
				continue
			}
			isSum := func(t *Term) bool {
				return t.Op == "Bin" && t.Name == "+" && len(t.Args) == 2 && t.Args[0].Is("Call", "builtin len") && t.Args[1].Is("Call", "builtin len")
			}
			isLenName := func(t *Term) bool {
				return t.Is("Call", "builtin len") && len(t.Args) == 1 && t.Args[0].IsParam("1:name")
			}
			if !at.Neg && isSum(at.L) && isLenName(at.R) { // sum < len(name)
				room, strict = true, true
			}
			if at.Neg && isLenName(at.L) && isSum(at.R) { // !(len(name) < sum)
				room = true
			}
		}
		if strict {
			nonEmpty = true
		}
		if has("strings.HasPrefix") && has("strings.HasSuffix") && !room && okRoom {
			okRoom = false
			r.Bad(rule, "isRotatedName:no-overlap", p.InstrPos(pa.End), "isRotatedName can answer true for a name in which the pattern's prefix and suffix overlap (no test that the name is at least as long as both together): the slice that cuts out the stamp then has low > high and pruning panics inside Process at the first rotation — a foreign file x.l-og next to a sink named x.l.l-og")
		}
		if !(has("strings.HasPrefix") && has("strings.HasSuffix") && nonEmpty) && ok {
			ok = false
			r.Bad(rule, "isRotatedName:accepts", p.InstrPos(pa.End), "isRotatedName can answer true without having established the prefix, the suffix and a non-empty stamp of the name ("+p.PathSummary(pa)+")")
		}
	}
	// the digit test: inside a loop, a comparison of the rune with '0' (48) / '9' (57) leads to `return false`
	lo, hi := false, false
	for _, b := range fn.Blocks {
		if !inCycle(b) {
			continue
		}
		cond, ts, _ := condOf(b)
		bo, isB := cond.(*ssa.BinOp)
		if !isB {
			continue
		}
		k, isK := constInt(bo.Y)
		if !isK {
			continue
		}
		retFalse := func(s *ssa.BasicBlock) bool {
			if len(s.Instrs) == 0 {
				return false
			}
			ret, isR := s.Instrs[len(s.Instrs)-1].(*ssa.Return)
			if !isR {
				return false
			}
			rv := RetVals(ret)
			if len(rv) != 1 {
				return false
			}
			bv, isC := constBool(rv[0])
			return isC && !bv
		}
		if bo.Op == token.LSS && k == 48 && retFalse(ts) {
			lo = true
		}
		if bo.Op == token.GTR && k == 57 && retFalse(ts) {
			hi = true
		}
	}
	if !(lo && hi) {
		ok = false
		r.Bad(rule, "isRotatedName:digits", p.Pos(fn.Pos()), "isRotatedName does not reject, from inside its loop over the stamp, a rune below '0' and a rune above '9': names that are not <base>-<digits><ext> count as this sink's rotated files")
	}
	if ok {
		r.Check(n > 0, rule, "isRotatedName", p.Pos(fn.Pos()), fmt.Sprintf("%d accepting paths: prefix, suffix, non-empty stamp; all-digit loop", n), "isRotatedName never answers true")
	}
	if okRoom && n > 0 {
		r.Ok(rule, "isRotatedName:no-overlap", p.Pos(fn.Pos()), "every accepting path established that the name is long enough for prefix and suffix side by side")
	}
}

// ruleFuncFieldNil (C14.pred funcfield): a stock node calls a func-typed field of its
// own configuration (Predicate, Signer, NowFunc, ...) only where that field was found
// non-nil: calling a nil func panics in the pipeline's goroutine, which nothing
// recovers — the whole process goes down instead of the pipeline reporting an error.
// Most sites test first (JSONFormatterFilter, cloudevents, gated.Filter.Now); the
// rule makes the siblings agree.
func (c *Ctx) ruleFuncFieldNil(rule string) {
	p, r := c.P, c.R
	n := 0
	for _, f := range p.RepoFuncs() {
		if p.InCtl(f) || f.Signature.Recv() == nil {
			continue
		}
		eachInstr(f, func(in ssa.Instruction) {
			ci, ok := in.(ssa.CallInstruction)
			if !ok || ci.Common().IsInvoke() {
				return
			}
			ld, ok := ci.Common().Value.(*ssa.UnOp)
			if !ok || ld.Op != token.MUL {
				return
			}
			fa, ok := ld.X.(*ssa.FieldAddr)
			if !ok {
				return
			}
			if _, isSig := ld.Type().Underlying().(*types.Signature); !isSig {
				return
			}
			if len(f.Params) == 0 || fa.X != ssa.Value(f.Params[0]) {
				return
			}
			n++
			st := fa.X.Type().Underlying().(*types.Pointer).Elem().Underlying().(*types.Struct)
			fname := st.Field(fa.Field).Name()
			construct := p.ShortFn(f) + ":call:" + fname
			// dominated by the non-nil side of a test of (a load of) the same field
			okNil := false
			for _, b := range f.Blocks {
				cond, ts, fs := condOf(b)
				bo, isB := cond.(*ssa.BinOp)
				if !isB || (bo.Op != token.EQL && bo.Op != token.NEQ) || !isNilConst(bo.Y) {
					continue
				}
				l2, isL := bo.X.(*ssa.UnOp)
				if !isL {
					continue
				}
				fa2, isF := l2.X.(*ssa.FieldAddr)
				if !isF || fa2.X != fa.X || fa2.Field != fa.Field {
					continue
				}
				nonNil := ts
				if bo.Op == token.EQL {
					nonNil = fs
				}
				if edgeDominates(b, nonNil, in.Block()) {
					okNil = true
				}
				// lazy initialisation: the nil side assigns the field, and the test dominates the call
				isNilSide := fs
				if bo.Op == token.EQL {
					isNilSide = ts
				}
				if b.Dominates(in.Block()) {
					for _, x := range isNilSide.Instrs {
						if st, isSt := x.(*ssa.Store); isSt {
							if fa3, isF3 := st.Addr.(*ssa.FieldAddr); isF3 && fa3.X == fa.X && fa3.Field == fa.Field && !isNilConst(st.Val) {
								okNil = true
							}
						}
					}
				}
			}
			// ... or the lazy initialisation sits in a helper of the same receiver that every path to the call went through
			if !okNil {
				for _, hc := range callsTo(f, func(_ string, cc *ssa.CallCommon) bool {
					sc := cc.StaticCallee()
					return sc != nil && sc.Blocks != nil && sc != f && len(cc.Args) > 0 && cc.Args[0] == fa.X && ensuresFieldNonNil(sc, fa.Field)
				}) {
					if hcall, isCall := hc.(*ssa.Call); isCall && dominatesInstr(hcall, in) {
						okNil = true
					}
				}
			}
			r.Check(okNil, rule, construct, p.InstrPos(in), "called only where the field was found non-nil", "the node calls its func field "+fname+" without having found it non-nil: a node configured without it panics inside the pipeline's goroutine (nothing recovers it) instead of returning an error")
		})
	}
	if n < 3 {
		r.Und(rule, "funcfield:instance-floor", "", fmt.Sprintf("only %d calls through func-typed configuration fields found (Filter.Predicate, JSONFormatterFilter.Predicate, cloudevents Predicate expected)", n))
	}
}

// ruleNoFlatten (C20.carry no-flatten): multierror.Append flattens an argument that
// is itself a *multierror.Error — its elements are appended instead of the error, so
// an EMPTY (or typed nil) *multierror.Error, which is a non-nil error, contributes
// nothing and the accumulated result can come out nil although a node failed. An
// error that comes from outside the package (returned by a Node / Closer method,
// directly or through package-local functions that hand it on unchanged) is
// therefore never passed to multierror.Append as it is; it is wrapped first
// (fmt.Errorf("...: %w")) or stored in the Errors list directly.
func (c *Ctx) ruleNoFlatten(rule string) {
	p, r := c.P, c.R
	var foreign func(v ssa.Value, depth int, seen map[ssa.Value]bool) (string, bool)
	foreign = func(v ssa.Value, depth int, seen map[ssa.Value]bool) (string, bool) {
		if seen[v] || depth > 4 {
			return "", false
		}
		seen[v] = true
		switch x := v.(type) {
		case *ssa.Phi:
			for _, e := range x.Edges {
				if w, ok := foreign(e, depth, seen); ok {
					return w, true
				}
			}
		case *ssa.Extract:
			return foreign(x.Tuple, depth, seen)
		case *ssa.ChangeInterface:
			return foreign(x.X, depth, seen)
		case *ssa.MakeInterface:
			return "", false
		case *ssa.Call:
			if x.Call.IsInvoke() {
				if nt, ok := x.Call.Value.Type().(*types.Named); ok && nt.Obj().Pkg() != nil && strings.HasPrefix(nt.Obj().Pkg().Path(), ModRoot) {
					return "the result of " + nt.Obj().Name() + "." + x.Call.Method.Name() + " (user code)", true
				}
				return "", false
			}
			callee := x.Call.StaticCallee()
			if callee == nil || PkgPathOf(callee) != PkgPathOf(x.Parent()) || len(callee.Blocks) == 0 {
				return "", false
			}
			for _, b := range callee.Blocks {
				if len(b.Instrs) == 0 {
					continue
				}
				if ret, ok := b.Instrs[len(b.Instrs)-1].(*ssa.Return); ok {
					for _, rv := range RetVals(ret) {
						if types.TypeString(rv.Type(), nil) != "error" {
							continue
						}
						if w, ok := foreign(rv, depth+1, seen); ok {
							return w + " handed on by " + p.ShortFn(callee), true
						}
					}
				}
			}
		}
		return "", false
	}
	n := 0
	for _, f := range p.FuncsIn(PkgRoot) {
		for _, ci := range callsTo(f, func(nm string, cc *ssa.CallCommon) bool { return nm == "github.com/hashicorp/go-multierror.Append" }) {
			n++
			// the variadic elements: stores into the backing array of the slice argument
			var elems []ssa.Value
			if len(ci.Common().Args) == 2 {
				if sl, ok := ci.Common().Args[1].(*ssa.Slice); ok {
					if al, ok := sl.X.(*ssa.Alloc); ok {
						for _, ref := range nonDebugRefs(al) {
							if ia, ok := ref.(*ssa.IndexAddr); ok {
								for _, r2 := range nonDebugRefs(ia) {
									if st, ok := r2.(*ssa.Store); ok {
										elems = append(elems, st.Val)
									}
								}
							}
						}
					}
				} else {
					elems = append(elems, ci.Common().Args[1]) // errs... passed through
				}
			}
			bad := ""
			for _, e := range elems {
				if w, ok := foreign(e, 0, map[ssa.Value]bool{}); ok {
					bad = w
				}
			}
			construct := p.ShortFn(f) + "->multierror.Append"
			r.Check(bad == "", rule, construct, p.InstrPos(ci), "only errors made by this package are appended (Append cannot flatten them away)", "multierror.Append is given "+bad+" as it is: if that error is itself a *multierror.Error it is flattened, and an empty or typed-nil one — a non-nil error — vanishes, so the accumulated result can be nil although a node failed")
		}
	}
	if n == 0 {
		r.Ok(rule, "multierror.Append:none", "", "package eventlogger does not use multierror.Append")
	}
}

// ruleUnwrapProgress (C12.progress): the unwrap loop of NodeController.Close makes
// progress on its own account: every iteration that does not return replaces the
// node under examination by the result of Unwrap(). If an iteration can keep the
// same node (an Unwrap() result that is ignored when nil, say), the loop examines
// it again for ever, and RemoveNode / RemovePipelineAndNodes never return although
// every node method returns at once.
func (c *Ctx) ruleUnwrapProgress(rule string) {
	p, r := c.P, c.R
	fn := c.Fn(rule, PkgRoot, "NodeController", "Close")
	if fn == nil {
		return
	}
	n, ok := 0, true
	for h := range loopHeaders(fn) {
		for _, in := range h.Instrs {
			ph, isPhi := in.(*ssa.Phi)
			if !isPhi || typeShort(ph.Type()) != "eventlogger.Node" {
				continue
			}
			n++
			for i, e := range ph.Edges {
				pred := h.Preds[i]
				if !(h.Dominates(pred) && reachableFrom(pred)[h]) {
					continue // entry edge
				}
				// the value carried around the loop is an Unwrap() result (possibly through phis
				// of Unwrap() results), never the node examined in this iteration
				var bad func(v ssa.Value, seen map[ssa.Value]bool) bool
				bad = func(v ssa.Value, seen map[ssa.Value]bool) bool {
					if seen[v] {
						return false
					}
					seen[v] = true
					switch x := v.(type) {
					case *ssa.Phi:
						if x == ph {
							return true
						}
						for _, e2 := range x.Edges {
							if bad(e2, seen) {
								return true
							}
						}
						return false
					case *ssa.Call:
						return !(x.Call.IsInvoke() && x.Call.Method.Name() == "Unwrap")
					}
					return true
				}
				if bad(e, map[ssa.Value]bool{}) {
					ok = false
					at := pred.Instrs[len(pred.Instrs)-1].Pos()
					if !at.IsValid() {
						at = fn.Pos()
					}
					r.Bad(rule, "NodeController.Close:unwrap-progress", p.Pos(at), "an iteration of the unwrap loop can go round with the same node (the value carried back is not the result of Unwrap()): such a node is examined again for ever and the Broker call that closes it never returns")
				}
			}
		}
	}
	if ok {
		r.Check(n > 0, rule, "NodeController.Close:unwrap-progress", p.Pos(fn.Pos()), "every iteration that does not return continues with the result of Unwrap()", "no loop over a Node value found in NodeController.Close")
	}
}

// ruleGatedPassOnly (C11.pass, converse): "non-Gateable events pass through
// unchanged" — Process answers anything other than (e, nil) only after it found the
// payload to be Gateable, the one exception being the missing event. A guard placed
// in front of the Gateable test (a "missing payload" check, say) rejects events the
// filter has no business with, and they never reach the rest of their pipeline.
func (c *Ctx) ruleGatedPassOnly(rule string) {
	p, r := c.P, c.R
	fn := c.Fn(rule, PkgGated, "Filter", "Process")
	if fn == nil {
		return
	}
	n, ok := 0, true
	for _, pa := range c.enum(rule, fn, PathOpts{}) {
		rv := pa.RetVals()
		if len(rv) != 2 {
			continue
		}
		gateable, tested := hasAtom(pa, func(at Atom) bool {
			return at.Op == "true" && at.L.Op == "Extract" && at.L.Name == "1" && at.L.Args[0].Is("Assert", "gated.Gateable")
		})
		if tested && gateable {
			continue
		}
		if nilEv, f := hasAtom(pa, func(at Atom) bool { return at.Op == "eq" && at.L.IsParam("2:e") && at.R.Is("Const", "nil") }); f && nilEv {
			continue
		}
		n++
		if !(pa.TermsAt(pa.LastStep()).Of(rv[0]).IsParam("2:e") && isNilConst(rv[1])) && ok {
			ok = false
			r.Bad(rule, "gated.(*Filter).Process:only-gateable-rejected", p.InstrPos(pa.End), "Process answers something other than (e, nil) on a path that did not find the payload Gateable (and the event is not nil): a non-Gateable event is rejected or swallowed instead of passing through unchanged ("+p.PathSummary(pa)+")")
		}
	}
	if ok {
		r.Check(n > 0, rule, "gated.(*Filter).Process:only-gateable-rejected", p.Pos(fn.Pos()), fmt.Sprintf("%d paths without a Gateable payload, each returns (e, nil)", n), "no path of Process for a non-Gateable payload found")
	}
}

// ruleTaggedRaw (C16.raw): the bytes that are encrypted / hmac-ed for a value reached
// through a pointer tag are the value's own bytes: the interface value returned by
// pointerstructure.Get is turned into bytes only by a closed set of conversions that
// are the identity on strings and byte slices — fmt.Sprintf with the constant format
// "%s", a type assertion (to string, []byte, *structpb.Value and its
// GetStringValue()), or a type test. fmt.Sprint / %v print a []byte as a list of
// decimal numbers: the value then decrypts to "[115 51 99 ...]", and its digest
// differs from the digest of the same bytes held in a string.
func (c *Ctx) ruleTaggedRaw(rule string) {
	p, r := c.P, c.R
	fn := c.Fn(rule, PkgEncrypt, "Filter", "filterValue")
	if fn == nil {
		return
	}
	gets := callsTo(fn, func(n string, cc *ssa.CallCommon) bool { return n == "github.com/mitchellh/pointerstructure.Get" })
	if len(gets) == 0 {
		r.Und(rule, "filterValue:tagged-raw", p.Pos(fn.Pos()), "no pointerstructure.Get call in filterValue")
		return
	}
	n, ok := 0, true
	for _, g := range gets {
		var val ssa.Value
		for _, ref := range nonDebugRefs(g.(ssa.Value)) {
			if ex, isEx := ref.(*ssa.Extract); isEx && ex.Index == 0 {
				val = ex
			}
		}
		if val == nil {
			continue
		}
		// every use of the value (through the variadic array of a call)
		var visit func(v ssa.Value, seen map[ssa.Value]bool)
		visit = func(v ssa.Value, seen map[ssa.Value]bool) {
			if seen[v] {
				return
			}
			seen[v] = true
			for _, ref := range nonDebugRefs(v) {
				switch x := ref.(type) {
				case *ssa.TypeAssert, *ssa.BinOp, *ssa.If:
					// assertion / comparison: identity-preserving
				case *ssa.Phi:
					visit(x, seen)
				case *ssa.ChangeInterface:
					visit(x, seen)
				case *ssa.MakeInterface:
					visit(x, seen)
				case *ssa.Store:
					// stored as a variadic element: find the call that takes the slice
					if ia, isIA := x.Addr.(*ssa.IndexAddr); isIA {
						if al, isAl := ia.X.(*ssa.Alloc); isAl {
							for _, r2 := range nonDebugRefs(al) {
								if sl, isSl := r2.(*ssa.Slice); isSl {
									for _, r3 := range nonDebugRefs(sl) {
										if call, isCall := r3.(ssa.CallInstruction); isCall {
											n++
											name := calleeName(call.Common())
											good := false
											if name == "fmt.Sprintf" {
												if k, isK := call.Common().Args[0].(*ssa.Const); isK && k.Value != nil && k.Value.ExactString() == `"%s"` {
													good = true
												}
											}
											if strings.HasPrefix(name, "fmt.Errorf") {
												good = true // an error message, not the bytes
											}
											if !good {
												ok = false
												r.Bad(rule, "filterValue:tagged-raw", p.InstrPos(call), "the value a pointer tag leads to is turned into bytes with "+name+" — not the identity on []byte (it prints a list of numbers) — so what is encrypted or hmac-ed is not the value's own bytes: it does not decrypt to the original, and equal inputs held as string and as []byte give different digests")
											}
										}
									}
								}
							}
						}
					}
				case ssa.CallInstruction:
					name := calleeName(x.Common())
					switch name {
					case "reflect.TypeOf", "reflect.ValueOf":
					default:
						if !strings.HasPrefix(name, "(*google.golang.org/protobuf/types/known/structpb.Value)") {
							n++
							ok = false
							r.Bad(rule, "filterValue:tagged-raw", p.InstrPos(x), "the value a pointer tag leads to is handed to "+name+" to obtain its bytes: not one of the identity-preserving conversions (Sprintf(\"%s\"), type assertion)")
						}
					}
				}
			}
		}
		visit(val, map[ssa.Value]bool{})
	}
	if ok {
		r.Check(n > 0, rule, "filterValue:tagged-raw", p.Pos(fn.Pos()), fmt.Sprintf("%d conversions of a tagged value to bytes, all identity-preserving for string and []byte", n), "no conversion of the tagged value found")
	}
}

// ruleSweepStoresFiltered (C09.value sweep-store): map values are not addressable, so
// every arm of the sweep filters a private copy and must put THAT copy back with
// SetMapIndex. For each SetMapIndex on each path, the value stored is the one that was
// handed to the arm's filter call (filterValue / filterField) — itself, its Addr(), or
// a value rebuilt from the very variable the filter call was pointed at. Storing the
// original map value back throws the filtered copy away: the struct (or string) stays
// in plaintext and Process reports no error.
func (c *Ctx) ruleSweepStoresFiltered(rule string) {
	p, r := c.P, c.R
	fn := c.Fn(rule, PkgEncrypt, "trackedMaps", "processUnfiltered")
	if fn == nil {
		return
	}
	argIndex := map[string]int{"(*filters/encrypt.Filter).filterValue": 2, "(*filters/encrypt.Filter).filterField": 2, "(*filters/encrypt.Filter).filterSlice": 3}
	n, ok := 0, true
	reported := map[string]bool{}
	for _, pa := range c.enum(rule, fn, PathOpts{}) {
		var lastFilter *Step
		for i := range pa.Steps {
			s := pa.Steps[i]
			if s.Depth != 0 {
				continue
			}
			ci, isCall := s.In.(ssa.CallInstruction)
			if !isCall {
				continue
			}
			name := calleeName(ci.Common())
			if _, isF := argIndex[name]; isF {
				lastFilter = &pa.Steps[i]
				continue
			}
			if name != "(reflect.Value).SetMapIndex" {
				continue
			}
			n++
			if lastFilter == nil {
				if !reported["nofilter"] {
					reported["nofilter"] = true
					ok = false
					r.Bad(rule, "processUnfiltered:sweep-store:unfiltered", p.InstrPos(s.In), "a value is stored into the swept map on a path on which no filter call preceded it")
				}
				continue
			}
			fci := lastFilter.In.(ssa.CallInstruction)
			at := pa.TermsAt(*lastFilter).Of(fci.Common().Args[argIndex[calleeName(fci.Common())]])
			xt := pa.TermsAt(s).Of(ci.Common().Args[2])
			// the variable(s) the filter call was pointed at
			roots := map[ssa.Value]bool{}
			at.Find(func(x *Term) bool {
				if (x.Op == "Alloc" || x.Op == "Cell") && x.V != nil {
					roots[x.V] = true
				}
				return false
			})
			same := func(a, b *Term) bool { return (a.V != nil && a.V == b.V) || a.String() == b.String() }
			derived := same(xt, at) ||
				(xt.Is("Call", "(reflect.Value).Addr") && len(xt.Args) == 1 && same(xt.Args[0], at)) ||
				xt.Find(func(x *Term) bool { return x.V != nil && roots[x.V] }) != nil
			// a pointer held by the map: the value behind it was filtered in place, the pointer goes back
			if !derived && xt.Is("Call", "(reflect.Value).Addr") && len(xt.Args) == 1 && xt.Args[0].Is("Call", "(reflect.Value).Elem") {
				derived = true
			}
			// a struct literal rebuilt around the filtered variable (wrapperspb values): one of its
			// fields is stored from that variable
			if !derived {
				xt.Find(func(x *Term) bool {
					al, isAl := x.V.(*ssa.Alloc)
					if !isAl {
						return false
					}
					for _, ref := range nonDebugRefs(al) {
						fa, isFA := ref.(*ssa.FieldAddr)
						if !isFA {
							continue
						}
						for _, r2 := range nonDebugRefs(fa) {
							if st, isSt := r2.(*ssa.Store); isSt {
								if ld, isLd := st.Val.(*ssa.UnOp); isLd && roots[ld.X] {
									derived = true
								}
							}
						}
					}
					return false
				})
			}
			if !derived {
				key := p.InstrPos(s.In)
				if !reported[key] {
					reported[key] = true
					ok = false
					r.Bad(rule, "processUnfiltered:sweep-store@"+calleeName(fci.Common()), p.InstrPos(s.In), "the value stored back into the map ("+shortStr(xt.String(), 90)+") is not the copy that was just filtered ("+shortStr(at.String(), 90)+"): the filtered copy is thrown away and the map keeps the plaintext value, with no error")
				}
			}
		}
	}
	if ok {
		r.Check(n > 0, rule, "processUnfiltered:sweep-store", p.Pos(fn.Pos()), fmt.Sprintf("%d SetMapIndex steps on the enumerated paths, each stores the value its arm filtered", n), "no SetMapIndex found in the sweep")
	}
}

func shortStr(s string, n int) string {
	if len(s) > n {
		return s[:n] + "…"
	}
	return s
}

// ruleSweepTaggable (C09.handlers sweep:taggable-map): "Taggable maps ... nested
// arbitrarily". The dispatchers for the payload and for struct fields hand a Taggable
// value to filterTaggable; the sweep over map values must agree: wherever it takes a
// map-kind value into a nested sweep, it first asks whether the value is Taggable,
// and if so applies its tags (filterTaggable) before sweeping. Otherwise a Taggable
// map that is a value of an untagged map — or an element of a list held by one — is
// treated as untagged: public values are redacted, values tagged encrypt / hmac are
// redacted instead of protected as their tag says.
func (c *Ctx) ruleSweepTaggable(rule string) {
	p, r := c.P, c.R
	fn := c.Fn(rule, PkgEncrypt, "trackedMaps", "processUnfiltered")
	if fn == nil {
		return
	}
	kMapS := fmt.Sprint(c.reflectKind("Map"))
	n, ok := 0, true
	for _, pa := range c.enum(rule, fn, PathOpts{}) {
		rv := pa.RetVals()
		if rv == nil || !isNilConst(rv[len(rv)-1]) {
			continue
		}
		// a map-kind VALUE was found (kind test on something other than the swept map itself) and
		// a nested sweep was started
		// (every successful path has one positive kind == Map atom: the swept map itself)
		nMap := 0
		for _, at := range pa.Atoms {
			if at.Op == "eq" && !at.Neg && at.L.Is("Call", "(reflect.Value).Kind") && at.R.Is("Const", kMapS) {
				nMap++
			}
		}
		isMap := nMap >= 2
		nested, tagged := false, false
		for _, s := range pa.CallsOn() {
			if s.Depth != 0 {
				continue
			}
			switch stepCallName(s) {
			case "(*filters/encrypt.trackedMaps).processUnfiltered":
				nested = true
			case "(*filters/encrypt.Filter).filterTaggable":
				tagged = true
			}
		}
		if !isMap || !nested {
			continue
		}
		n++
		asked, isTaggable := false, false
		for _, at := range pa.Atoms {
			ls := at.L.String()
			if at.Op == "true" && at.Neg && strings.HasPrefix(ls, "Call[(reflect.Value).CanInterface]") {
				asked = true // cannot be had as an interface value: cannot be asked
			}
			if at.Op == "true" && (strings.Contains(ls, "filters/encrypt.taggableOf") || strings.Contains(ls, "Assert[encrypt.Taggable]")) {
				asked = true
				if !at.Neg {
					isTaggable = true
				}
			}
		}
		if os.Getenv("EVDEBUG") != "" && !asked {
			for _, at := range pa.Atoms {
				fmt.Fprintln(os.Stderr, "DBG", at.Neg, at.Op, shortStr(at.L.String(), 200), "|", shortStr(at.R.String(), 40))
			}
			fmt.Fprintln(os.Stderr, "DBG ---- end", p.InstrPos(pa.End))
		}
		switch {
		case !asked && ok:
			ok = false
			r.Bad(rule, "processUnfiltered:taggable-map-value", p.InstrPos(pa.End), "the sweep takes a map-kind value into a nested sweep without asking whether it is Taggable: the tags of a Taggable map held by an untagged map (or by a list in one) are never applied — public values are redacted, values tagged for encryption or hmac are redacted instead ("+shortStr(p.PathSummary(pa), 300)+")")
		case asked && isTaggable && !tagged && ok:
			ok = false
			r.Bad(rule, "processUnfiltered:taggable-map-value", p.InstrPos(pa.End), "a map value found Taggable is swept without its tags having been applied (no filterTaggable call on the path)")
		}
	}
	if ok {
		r.Check(n > 0, rule, "processUnfiltered:taggable-map-value", p.Pos(fn.Pos()), fmt.Sprintf("%d paths take a map value into a nested sweep, each after a Taggable test (tags applied when it is)", n), "no path of the sweep takes a map-kind value into a nested sweep")
	}
}

// ruleRotateEnabledAgrees (C15.trigger enabled): rotateEnabled — which decides whether
// the active file gets a timestamped name — counts as a limit exactly what rotate()
// acts on: a POSITIVE MaxBytes / MaxDuration. A `!= 0` test makes a negative value
// turn timestamped names on for a sink that never rotates (and never prunes).
func (c *Ctx) ruleRotateEnabledAgrees(rule string) {
	p, r := c.P, c.R
	fn := c.Fn(rule, PkgRoot, "FileSink", "rotateEnabled")
	if fn == nil {
		return
	}
	tb := p.NewTerms(nil)
	n, ok := 0, true
	eachInstr(fn, func(in ssa.Instruction) {
		bo, isB := in.(*ssa.BinOp)
		if !isB {
			return
		}
		switch bo.Op {
		case token.EQL, token.NEQ, token.LSS, token.GTR, token.LEQ, token.GEQ:
		default:
			return
		}
		lt, rt := tb.Of(bo.X), tb.Of(bo.Y)
		field := ""
		for _, f := range []string{"MaxBytes", "MaxDuration"} {
			if lt.Find(func(x *Term) bool { return x.Is("Field", f) }) != nil || rt.Find(func(x *Term) bool { return x.Is("Field", f) }) != nil {
				field = f
			}
		}
		if field == "" {
			return
		}
		n++
		positive := (bo.Op == token.GTR && rt.Is("Const", "0") && lt.Find(func(x *Term) bool { return x.Is("Field", field) }) != nil) ||
			(bo.Op == token.LSS && lt.Is("Const", "0") && rt.Find(func(x *Term) bool { return x.Is("Field", field) }) != nil)
		if !positive {
			ok = false
			r.Bad(rule, "rotateEnabled:"+field, p.InstrPos(in), "rotateEnabled tests "+field+" with "+bo.Op.String()+" instead of `> 0`: rotate() only acts on a positive "+field+", so a negative value gives the active file a timestamped name on a sink that never rotates or prunes (every Reopen leaves another file behind)")
		}
	})
	if ok {
		r.Check(n >= 2, rule, "rotateEnabled", p.Pos(fn.Pos()), "rotateEnabled counts exactly a positive MaxBytes / MaxDuration as a limit, as rotate() does", "rotateEnabled does not test both MaxBytes and MaxDuration")
	}
}

// ruleRegistryNoBlocking (C12.blocking): "every Broker call returns in bounded time
// for every history in which the nodes themselves return". Outside Send's status
// protocol (decided by C03) a Broker call that fans work out to goroutines collects
// their results without being able to block them: a goroutine started once per
// element of a loop does not send on a channel whose capacity is a constant (the
// number of senders is not bounded by it, and the channel is drained only after
// all of them are done).
func (c *Ctx) ruleRegistryNoBlocking(rule string) {
	p, r := c.P, c.R
	a := c.protoAnchors(rule)
	if a == nil {
		return
	}
	protocol := map[*ssa.Function]bool{a.send: true, a.collector: true, a.fanout: true, a.callback: true, a.traverse: true}
	for _, an := range AnonOf(a.collector) {
		protocol[an] = true
	}
	n, bad := 0, false
	for _, f := range p.FuncsIn(PkgRoot) {
		root := f
		for root.Parent() != nil {
			root = root.Parent()
		}
		if protocol[f] || protocol[root] {
			continue
		}
		if root.Signature.Recv() == nil || typeShort(root.Signature.Recv().Type()) != "eventlogger.Broker" {
			continue
		}
		n++
		eachInstr(f, func(in ssa.Instruction) {
			snd, isSend := in.(*ssa.Send)
			if !isSend {
				return
			}
			// a send in a goroutine that is started once per element of a loop, on a channel
			// whose capacity is a constant: the number of senders is not bounded by it
			if f.Parent() == nil {
				return
			}
			startedInLoop := false
			eachInstr(f.Parent(), func(pin ssa.Instruction) {
				if g, ok := pin.(*ssa.Go); ok {
					if mc, ok := g.Call.Value.(*ssa.MakeClosure); ok && mc.Fn == ssa.Value(f) && inCycle(pin.Block()) {
						startedInLoop = true
					}
				}
			})
			if !startedInLoop {
				return
			}
			capConst := "unknown"
			var find func(v ssa.Value, depth int)
			find = func(v ssa.Value, depth int) {
				if depth > 4 {
					return
				}
				switch x := v.(type) {
				case *ssa.MakeChan:
					if k, ok := constInt(x.Size); ok {
						capConst = fmt.Sprint(k)
					} else {
						capConst = ""
					}
				case *ssa.FreeVar:
					// bound value in the parent's MakeClosure
					eachInstr(f.Parent(), func(pin ssa.Instruction) {
						if mc, ok := pin.(*ssa.MakeClosure); ok && mc.Fn == ssa.Value(f) {
							for i, fv := range f.FreeVars {
								if fv == x && i < len(mc.Bindings) {
									find(mc.Bindings[i], depth+1)
								}
							}
						}
					})
				case *ssa.UnOp:
					if al, ok := x.X.(*ssa.Alloc); ok {
						for _, ref := range nonDebugRefs(al) {
							if st, ok := ref.(*ssa.Store); ok {
								find(st.Val, depth+1)
							}
						}
					} else {
						find(x.X, depth+1)
					}
				case *ssa.Alloc:
					for _, ref := range nonDebugRefs(x) {
						if st, ok := ref.(*ssa.Store); ok && st.Addr == ssa.Value(x) {
							find(st.Val, depth+1)
						}
					}
				}
			}
			find(snd.Chan, 0)
			if capConst != "" {
				bad = true
				r.Bad(rule, p.ShortFn(root)+":send-per-goroutine", p.InstrPos(in), p.ShortFn(f)+", started once per element of a loop, sends on a channel of constant capacity ("+capConst+") that is only drained after all of them are done: the sender that finds it full blocks for ever, and the Broker call waiting for it never returns although every node returned")
			}
		})
	}
	if !bad {
		r.Check(n >= 10, rule, "registry-calls:no-unbounded-senders", "", fmt.Sprintf("%d Broker functions outside the Send protocol: no per-element goroutine sends on a channel of constant capacity", n), "fewer than 10 Broker functions inspected")
	}
}

// ruleSweepNoCarriedFlags (C10.ptrvalue per-value): what the sweep decides for one
// map value (is it held by pointer? was it copied?) is decided afresh for the next:
// no boolean is carried around the loop over a map's keys. A flag that is set for
// one value and never reset (a `var fPtr bool` hoisted out of the loop) makes every
// later value of the map be treated like the earlier one — a plain string comes
// back as *string, a struct value makes Addr() panic — depending on the random
// order in which the keys are visited.
func (c *Ctx) ruleSweepNoCarriedFlags(rule string) {
	p, r := c.P, c.R
	fn := c.Fn(rule, PkgEncrypt, "trackedMaps", "processUnfiltered")
	if fn == nil {
		return
	}
	n, ok := 0, true
	for h := range loopHeaders(fn) {
		n++
		for _, in := range h.Instrs {
			ph, isPhi := in.(*ssa.Phi)
			if !isPhi {
				continue
			}
			if b, isB := ph.Type().Underlying().(*types.Basic); !isB || b.Kind() != types.Bool {
				continue
			}
			for i, e := range ph.Edges {
				pred := h.Preds[i]
				if !(h.Dominates(pred) && reachableFrom(pred)[h]) {
					continue
				}
				if _, isConst := e.(*ssa.Const); isConst {
					continue
				}
				ok = false
				name := ph.Comment
				if name == "" {
					name = ph.Name()
				}
				r.Bad(rule, "processUnfiltered:carried-flag:"+name, p.Pos(fn.Pos()), "the boolean "+name+" is carried from one iteration of a loop of the sweep to the next: what was found out about one map value (for instance that it is held by pointer) is applied to the values visited after it, so their dynamic type in the forwarded event depends on the order of the keys")
				break
			}
		}
	}
	if ok {
		r.Check(n >= 2, rule, "processUnfiltered:per-value-state", p.Pos(fn.Pos()), fmt.Sprintf("%d loops: no boolean is carried from one iteration to the next", n), "fewer than 2 loops found in the sweep")
	}
}

// unconditionalBetween: every block on the dominator chain from `to` up to `from` is
// entered unconditionally from its immediate dominator (no If in between decides
// whether `to` is reached) — locking and plain statements only.
func unconditionalBetween(from, to *ssa.BasicBlock) bool {
	for b := to; b != nil && b != from; b = b.Idom() {
		d := b.Idom()
		if d == nil {
			return false
		}
		if len(d.Succs) == 1 {
			continue
		}
		// a branch in between is harmless when its other side certainly fails the call: a straight line to a return
		// of a non-nil error (a validation that refuses the input — nothing is forwarded on that side)
		okBranch := len(d.Succs) == 2
		for _, s := range d.Succs {
			if s == b || !okBranch {
				continue
			}
			t := s
			for len(t.Succs) == 1 && len(t.Preds) == 1 {
				t = t.Succs[0]
			}
			okBranch = false
			if len(t.Instrs) > 0 && len(t.Succs) == 0 {
				if ret, isRet := t.Instrs[len(t.Instrs)-1].(*ssa.Return); isRet {
					rv := RetVals(ret)
					if idx, isErr := returnsError(t.Parent().Signature); isErr && idx < len(rv) && !isNilConst(rv[idx]) {
						okBranch = true
					}
				}
			}
		}
		if !okBranch {
			return false
		}
	}
	return true
}

// ruleSweepNestedSet (C09.handlers sweep:nested-set): when the sweep hands a struct (or
// a Taggable map) found among a map's values to the walkers, the maps those find are
// recorded in a FRESH set, and that set is swept right afterwards. Recording them in
// the set that is being swept is too late — its list of maps was taken before the
// loop started — so they are never visited and their values leave in plaintext.
func (c *Ctx) ruleSweepNestedSet(rule string) {
	p, r := c.P, c.R
	fn := c.Fn(rule, PkgEncrypt, "trackedMaps", "processUnfiltered")
	if fn == nil {
		return
	}
	argIdx := map[string]int{"(*filters/encrypt.Filter).filterField": 4, "(*filters/encrypt.Filter).filterTaggable": 4}
	n, ok := 0, true
	eachInstr(fn, func(in ssa.Instruction) {
		ci, isCall := in.(*ssa.Call)
		if !isCall {
			return
		}
		idx, isW := argIdx[calleeName(&ci.Call)]
		if !isW || idx >= len(ci.Call.Args) {
			return
		}
		n++
		set := ci.Call.Args[idx]
		fresh := false
		var setVal ssa.Value
		if ex, isEx := set.(*ssa.Extract); isEx && ex.Index == 0 {
			if nc, isC := ex.Tuple.(*ssa.Call); isC && calleeName(&nc.Call) == "filters/encrypt.newTrackedMaps" {
				fresh, setVal = true, ex
			}
		}
		swept := false
		if fresh {
			for _, ref := range nonDebugRefs(setVal) {
				if sc, isC := ref.(*ssa.Call); isC && calleeName(&sc.Call) == "(*filters/encrypt.trackedMaps).processUnfiltered" && sc.Call.Args[0] == setVal && (dominatesInstr(in, sc) || (in.Block() != sc.Block() && reachableFrom(in.Block())[sc.Block()] && !inSameLoopBackPath(in.Block(), sc.Block()))) {
					swept = true
				}
			}
		}
		if !(fresh && swept) {
			ok = false
			r.Bad(rule, "processUnfiltered:nested-set@"+calleeName(&ci.Call), p.InstrPos(in), "the walker called from the sweep records the maps it finds in "+shortStr(p.NewTerms(nil).Of(set).String(), 80)+" — not a set created here and swept right afterwards: maps recorded in the set that is being swept are never visited (its list was taken before the loop), and their values are forwarded in plaintext")
		}
	})
	if ok {
		r.Check(n >= 2, rule, "processUnfiltered:nested-set", p.Pos(fn.Pos()), fmt.Sprintf("%d walker calls in the sweep, each with a fresh set that is swept afterwards", n), "fewer than 2 walker calls found in the sweep")
	}
}

// inSameLoopBackPath: b is reachable from a only by going round a loop that contains
// both (so "a then b" would be in a later iteration).
func inSameLoopBackPath(a, b *ssa.BasicBlock) bool {
	// b reachable from a without passing a loop header that dominates a?  approximate:
	// b must not dominate a (b comes after a in the iteration)
	return b.Dominates(a)
}

// ruleFormattedBytesPrivate (C08.bytes): "present exactly once, byte for byte". The
// sinks write the bytes an earlier node stored under the format key, possibly much
// later and on another goroutine. Those bytes therefore belong to the event: every
// FormattedAs in the library stores the Bytes() of a buffer allocated by that very
// call (directly, or through a package-local helper that returns the bytes of its own
// fresh buffer) — never memory that outlives the call and is reused for the next
// event (a sync.Pool buffer, a field of the node, a global), which the next event's
// formatting would overwrite before or while this event is written.
func (c *Ctx) ruleFormattedBytesPrivate(rule string) {
	p, r := c.P, c.R
	n := 0
	var freshBytes func(t *Term, depth int) bool
	freshBytes = func(t *Term, depth int) bool {
		if t.Is("Call", "(*bytes.Buffer).Bytes") && len(t.Args) == 1 && t.Args[0].Op == "Alloc" {
			return true
		}
		if t.Op == "Extract" && len(t.Args) == 1 {
			t = t.Args[0]
		}
		if t.Op == "Call" && depth < 2 {
			if call, ok := t.V.(*ssa.Call); ok {
				if callee := call.Call.StaticCallee(); callee != nil && p.InRepo(callee) && len(callee.Blocks) > 0 {
					tb := p.NewTerms(nil)
					okAll, k := true, 0
					for _, ret := range Returns(callee) {
						rv := RetVals(ret)
						if len(rv) == 0 {
							continue
						}
						if isNilConst(rv[0]) {
							continue // error return
						}
						k++
						if !freshBytes(tb.Of(rv[0]), depth+1) {
							okAll = false
						}
					}
					return okAll && k > 0
				}
			}
		}
		return false
	}
	for _, f := range p.RepoFuncs() {
		if p.InCtl(f) {
			continue
		}
		tb := p.NewTerms(nil)
		for _, ci := range callsTo(f, func(nm string, cc *ssa.CallCommon) bool { return nm == "(*eventlogger.Event).FormattedAs" }) {
			n++
			t := tb.Of(ci.Common().Args[2])
			r.Check(freshBytes(t, 0) || c.freshCopyOfScratch(ci.Common().Args[2]), rule, p.ShortFn(f)+"->FormattedAs:private-bytes", p.InstrPos(ci), "the stored bytes are those of a buffer allocated by this call", "the bytes stored under the format ("+shortStr(t.String(), 100)+") are not the contents of a buffer allocated by this call: memory that is reused for later events (a pooled buffer, a field) is overwritten by the next event's formatting before or while a sink writes this one — acknowledged events come out duplicated, torn or not at all")
		}
	}
	if n < 3 {
		r.Und(rule, "FormattedAs:instance-floor", "", fmt.Sprintf("only %d FormattedAs calls found in the library (JSONFormatter, JSONFormatterFilter, cloudevents x2 expected)", n))
	}
}

// ruleGateSectionLeak (C11.section leak): a group (*gatedEvent) or a list position
// (*list.Element) is only meaningful inside the critical section of Filter.l in which
// it was looked up: once the lock is released another caller may compose, send and
// remove the group. A function that takes the lock itself therefore never RETURNS such
// pointers (or containers of them) — "collect the expired groups under the read lock,
// open them under the write lock" hands the second section groups that may already
// have been emitted: they are composed and sent a second time, and the stale removal
// deletes whatever group was opened under the id meanwhile.
func (c *Ctx) ruleGateSectionLeak(rule string) {
	p, r := c.P, c.R
	var holds func(t types.Type, seen map[types.Type]bool) bool
	holds = func(t types.Type, seen map[types.Type]bool) bool {
		if seen[t] {
			return false
		}
		seen[t] = true
		switch x := t.(type) {
		case *types.Named:
			if x.Obj().Pkg() != nil {
				if x.Obj().Pkg().Path() == PkgGated && x.Obj().Name() == "gatedEvent" {
					return true
				}
				if x.Obj().Pkg().Path() == "container/list" && (x.Obj().Name() == "Element" || x.Obj().Name() == "List") {
					return true
				}
			}
			return false
		case *types.Pointer:
			return holds(x.Elem(), seen)
		case *types.Slice:
			return holds(x.Elem(), seen)
		case *types.Array:
			return holds(x.Elem(), seen)
		case *types.Map:
			return holds(x.Key(), seen) || holds(x.Elem(), seen)
		case *types.Chan:
			return holds(x.Elem(), seen)
		}
		return false
	}
	n, ok := 0, true
	for _, f := range p.FuncsIn(PkgGated) {
		if f.Parent() != nil {
			continue
		}
		acquires := false
		eachInstr(f, func(in ssa.Instruction) {
			if ci, isCall := in.(ssa.CallInstruction); isCall {
				if op := lockOpOf(ci.Common()); op != nil && op.Acquire && op.Class == "gated.Filter.l" {
					acquires = true
				}
			}
		})
		if !acquires {
			continue
		}
		n++
		res := f.Signature.Results()
		for i := 0; i < res.Len(); i++ {
			if holds(res.At(i).Type(), map[types.Type]bool{}) {
				ok = false
				r.Bad(rule, p.ShortFn(f)+":returns-gate-internals", p.Pos(f.Pos()), p.ShortFn(f)+" takes Filter.l itself and returns "+types.TypeString(res.At(i).Type(), shortQual)+": groups / list positions looked up in its critical section are used by the caller after the lock was released, when another caller may already have composed, sent and removed them — the group is emitted twice and the stale removal hits a newer group of the same id")
			}
		}
	}
	if ok {
		r.Check(n >= 3, rule, "gate-internals-stay-in-section", "", fmt.Sprintf("%d functions take Filter.l; none returns groups or list positions", n), "fewer than 3 functions of package gated take Filter.l")
	}
}

// ruleCopyLengths (C16.mac copy-length): a private copy of key material is made with
// the length of what is copied: for every copy(dst, src) in package encrypt whose
// destination was made with make([]byte, len(X)), X is src. A buffer sized after a
// different slice (the salt's length for the info) truncates or zero-pads the copy,
// and the derived key is not the one for the info in force.
func (c *Ctx) ruleCopyLengths(rule string) {
	p, r := c.P, c.R
	n := 0
	for _, f := range p.FuncsIn(PkgEncrypt) {
		tb := p.NewTerms(nil)
		eachInstr(f, func(in ssa.Instruction) {
			call, isCall := in.(*ssa.Call)
			if !isCall {
				return
			}
			b, isB := call.Call.Value.(*ssa.Builtin)
			if !isB || b.Name() != "copy" || len(call.Call.Args) != 2 {
				return
			}
			// destination: a MakeSlice (possibly through a field store/load of the same function)
			var mk *ssa.MakeSlice
			var find func(v ssa.Value, depth int)
			find = func(v ssa.Value, depth int) {
				if depth > 3 || mk != nil {
					return
				}
				switch x := v.(type) {
				case *ssa.MakeSlice:
					mk = x
				case *ssa.UnOp:
					// load of a field that was just stored with a MakeSlice in this function
					if fa, isFA := x.X.(*ssa.FieldAddr); isFA {
						eachInstr(f, func(i2 ssa.Instruction) {
							if st, isSt := i2.(*ssa.Store); isSt {
								if fa2, isF2 := st.Addr.(*ssa.FieldAddr); isF2 && fa2.X == fa.X && fa2.Field == fa.Field && dominatesInstr(i2, in) {
									find(st.Val, depth+1)
								}
							}
						})
					}
					// ... or of a local that became a memory cell (a closure reads it): the store that precedes the
					// copy in the same block
					if cell, isCell := x.X.(*ssa.Alloc); isCell && x.Op == token.MUL {
						if fv := forwardedStoreIgnoringCalls(x, cell); fv != nil {
							find(fv, depth+1)
						}
					}
				}
			}
			find(call.Call.Args[0], 0)
			if mk == nil {
				return
			}
			la := lenArg(mk.Len)
			if la == nil {
				return
			}
			n++
			lt, st := tb.Of(la).String(), tb.Of(call.Call.Args[1]).String()
			r.Check(lt == st, rule, p.ShortFn(f)+":copy-length:"+shortStr(st, 60), p.InstrPos(in), "the copy's destination is sized after its source", "copy(dst, "+shortStr(st, 80)+") into a buffer made with len("+shortStr(lt, 80)+"): the copy is truncated or zero-padded whenever the two lengths differ, so the key is not derived from the value in force")
		})
	}
	if n < 4 {
		r.Und(rule, "copy-length:instance-floor", "", fmt.Sprintf("only %d sized copies found in package encrypt (salt and info in hmacSha256 and in the rotation arm of Process expected)", n))
	}
}

// ruleOverrideVerbatim (C09.defaults snapshot:verbatim / option:verbatim): the operation
// overrides reach the tag decision exactly as configured. The per-event snapshot
// (copyFilterOperationOverrides) stores, for every key of Filter.FilterOperationOverrides,
// the value the range produced, and the option constructor stores the map it was given.
// An unrecognised override must arrive at filterValue's switch unchanged, where it is an
// error (the event is not forwarded): a snapshot that "normalises" it to the empty
// operation turns a misconfigured class into plaintext.
func (c *Ctx) ruleOverrideVerbatim(rule string) {
	p, r := c.P, c.R
	if fn := c.Fn(rule, PkgEncrypt, "Filter", "copyFilterOperationOverrides"); fn != nil {
		tb := p.NewTerms(nil)
		n := 0
		eachInstr(fn, func(in ssa.Instruction) {
			mu, ok := in.(*ssa.MapUpdate)
			if !ok {
				return
			}
			n++
			fromRange := func(v ssa.Value, idx int) bool {
				ex, ok := v.(*ssa.Extract)
				if !ok || ex.Index != idx {
					return false
				}
				nx, ok := ex.Tuple.(*ssa.Next)
				if !ok {
					return false
				}
				rg, ok := nx.Iter.(*ssa.Range)
				if !ok {
					return false
				}
				return strings.Contains(tb.Of(rg.X).String(), "Field[FilterOperationOverrides]")
			}
			r.Check(fromRange(mu.Key, 1) && fromRange(mu.Value, 2), rule, "snapshot:verbatim", p.InstrPos(in),
				"the snapshot stores each configured override under its own class, as configured",
				"the snapshot of the operation overrides stores "+shortStr(tb.Of(mu.Value).String(), 100)+" under "+shortStr(tb.Of(mu.Key).String(), 60)+" instead of the configured (class, operation) pair: an override the filter does not recognise no longer fails the event in filterValue — the class is forwarded in plaintext or under another operation")
		})
		if n == 0 {
			// no element-wise copy: the result has to be a library clone of the field
			okAll := true
			for _, ret := range Returns(fn) {
				for _, v := range RetVals(ret) {
					t := tb.Of(v)
					if isNilConst(v) {
						continue
					}
					if !(t.Op == "Call" && (strings.HasSuffix(t.Name, "maps.Clone") || strings.HasPrefix(t.Name, "maps.Clone[")) && len(t.Args) == 1 && strings.Contains(t.Args[0].String(), "Field[FilterOperationOverrides]")) {
						okAll = false
					}
				}
			}
			r.Check(okAll, rule, "snapshot:verbatim", p.Pos(fn.Pos()), "the snapshot is a clone of the configured overrides", "copyFilterOperationOverrides neither copies the configured overrides element by element nor clones them")
		}
	}
	if fn := c.Fn(rule, PkgEncrypt, "", "withFilterOperations"); fn != nil {
		n := 0
		for _, cl := range fn.AnonFuncs {
			eachInstr(cl, func(in ssa.Instruction) {
				st, ok := in.(*ssa.Store)
				if !ok {
					return
				}
				fa, ok := st.Addr.(*ssa.FieldAddr)
				if !ok || fieldName(fa) != "withFilterOperations" {
					return
				}
				n++
				val := st.Val
				if u, isU := val.(*ssa.UnOp); isU && u.Op == token.MUL {
					val = u.X // captured by reference: the load of the captured variable
				}
				fv, isFV := val.(*ssa.FreeVar)
				okV := isFV && len(fn.Params) == 1 && len(cl.FreeVars) >= 1 && fv.Name() == fn.Params[0].Name()
				r.Check(okV, rule, "option:verbatim", p.InstrPos(in), "the option hands the given overrides to the tag decision", "withFilterOperations stores something other than the map it was given")
			})
		}
		if n == 0 {
			r.Und(rule, "option:verbatim", p.Pos(fn.Pos()), "no store of the overrides option found")
		}
	}
}

// fieldName: the name of the struct field a FieldAddr selects.
func fieldName(fa *ssa.FieldAddr) string {
	pt, ok := fa.X.Type().Underlying().(*types.Pointer)
	if !ok {
		return ""
	}
	st, ok := pt.Elem().Underlying().(*types.Struct)
	if !ok || fa.Field >= st.NumFields() {
		return ""
	}
	return st.Field(fa.Field).Name()
}

// ruleEveryElement (C09.every / C10.every): the element walkers of package encrypt
// handle EVERY element of what they iterate over: a loop over tags, fields, slice
// elements or map keys is left before its last element only with an error. A path
// that leaves such a loop from its body (return or break) and ends in a nil error
// abandons the remaining elements — tags that are never applied (their values are
// then swept as unclassified: public ones redacted, C10) or fields never filtered
// (plaintext, C09).
func (c *Ctx) ruleEveryElement(rule string) {
	p, r := c.P, c.R
	walkers := []struct{ recv, name string }{
		{"Filter", "filterTaggable"}, {"Filter", "filterSlice"}, {"Filter", "filterField"},
		{"trackedMaps", "processUnfiltered"}, {"trackedMaps", "unfiltered"},
	}
	nLoops := 0
	for _, w := range walkers {
		fn := p.Method(PkgEncrypt, w.recv, w.name)
		if fn == nil || fn.Blocks == nil {
			if w.name != "unfiltered" {
				r.Und(rule, "anchor:"+w.name, "", "walker "+w.name+" cannot be resolved")
			}
			continue
		}
		r.SawFn(p.ShortFn(fn))
		hdrs := loopHeaders(fn)
		loops := map[*ssa.BasicBlock]map[*ssa.BasicBlock]bool{}
		for h := range hdrs {
			set := naturalLoop(h)
			// a loop that handles nothing (no call that can fail: a search for an index,
			// a copy) may be left early
			handles := false
			for b := range set {
				for _, in := range b.Instrs {
					if ci, isCall := in.(ssa.CallInstruction); isCall {
						if sig := ci.Common().Signature(); sig != nil && sig.Results().Len() > 0 && typeShort(sig.Results().At(sig.Results().Len()-1).Type()) == "error" {
							handles = true
						}
					}
				}
			}
			if !handles {
				continue
			}
			loops[h] = set
			nLoops++
		}
		if len(loops) == 0 {
			continue
		}
		reported := map[string]bool{}
		for _, pa := range c.enum(rule, fn, PathOpts{}) {
			rv := pa.RetVals()
			if rv == nil || len(rv) == 0 {
				continue
			}
			ev := rv[len(rv)-1]
			if !isNilConst(ev) {
				continue
			}
			for i := 0; i+1 < len(pa.Blocks); i++ {
				a, b := pa.Blocks[i], pa.Blocks[i+1]
				if a.Parent() != fn || b.Parent() != fn {
					continue
				}
				for h, set := range loops {
					if set[a] && !set[b] && a != h {
						key := fmt.Sprintf("%s:early-success:loop@%d", w.name, h.Index)
						if reported[key] {
							continue
						}
						reported[key] = true
						pos := p.InstrPos(pa.End)
						if len(a.Instrs) > 0 {
							pos = p.InstrPos(a.Instrs[len(a.Instrs)-1])
						}
						r.Bad(rule, w.name+":early-success", pos, "the loop of "+w.name+" is left from its body and the function reports success: the remaining elements (tags, fields, values) are never handled — values they classify are swept as unclassified or leave untouched ("+shortStr(p.PathSummary(pa), 200)+")")
					}
				}
			}
		}
		if len(reported) == 0 {
			r.Ok(rule, w.name+":early-success", p.Pos(fn.Pos()), fmt.Sprintf("%d loop(s): every successful path leaves each loop at its header (after the last element)", len(loops)))
		}
	}
	if nLoops < 6 {
		r.Und(rule, "every:instance-floor", "", fmt.Sprintf("only %d element loops found in the walkers of package encrypt (6 confirmed by hand)", nLoops))
	}
}

// naturalLoop: the blocks of the natural loop(s) with header h — h and every block
// that reaches a back edge into h without passing through h.
func naturalLoop(h *ssa.BasicBlock) map[*ssa.BasicBlock]bool {
	set := map[*ssa.BasicBlock]bool{h: true}
	var work []*ssa.BasicBlock
	for _, t := range h.Preds {
		if t == h || h.Dominates(t) {
			if !set[t] {
				set[t] = true
				work = append(work, t)
			}
		}
	}
	for len(work) > 0 {
		b := work[len(work)-1]
		work = work[:len(work)-1]
		for _, q := range b.Preds {
			if !set[q] {
				set[q] = true
				work = append(work, q)
			}
		}
	}
	return set
}

// ruleRejectLeavesState (C16.atomic all-or-nothing / C18.sig reject-before-store): a
// call that REJECTS what it was given — it returns an error — has not replaced any of
// the fields it guards: no path stores one of the named fields of the receiver and then
// ends in a non-nil error. A rotation that reports failure after it stored the new salt
// but kept the old wrapper leaves key material that was never in force; a Rotate(nil)
// that answers "missing signer" after it stored nil switches signing off.
func (c *Ctx) ruleRejectLeavesState(rule string, fn *ssa.Function, recvType string, fields []string) {
	p, r := c.P, c.R
	if fn == nil {
		return
	}
	want := map[string]bool{}
	for _, f := range fields {
		want[f] = true
	}
	nStorePaths := 0
	reported := map[string]bool{}
	errIdx, hasErr := returnsError(fn.Signature)
	for _, pa := range c.enum(rule, fn, PathOpts{}) {
		var stored []Step
		for _, s := range pa.Steps {
			if s.Depth != 0 || s.Deferred {
				continue
			}
			st, ok := s.In.(*ssa.Store)
			if !ok {
				continue
			}
			fa, ok := st.Addr.(*ssa.FieldAddr)
			if !ok || typeShort(fa.X.Type()) != recvType || isFresh(fa.X) || !want[fieldName(fa)] {
				continue
			}
			stored = append(stored, s)
		}
		if len(stored) == 0 {
			continue
		}
		nStorePaths++
		if !hasErr {
			continue
		}
		rv := pa.RetVals()
		if rv == nil || errIdx >= len(rv) || isNilConst(rv[errIdx]) {
			continue
		}
		for _, s := range stored {
			nm := fieldName(s.In.(*ssa.Store).Addr.(*ssa.FieldAddr))
			key := p.ShortFn(fn) + ":store-then-error:" + nm
			if reported[key] {
				continue
			}
			reported[key] = true
			r.Bad(rule, key, p.InstrPos(s.In), nm+" is replaced on a path that then returns an error ("+shortStr(pa.TermsAt(pa.LastStep()).Of(rv[errIdx]).String(), 100)+"): the caller is told the change was refused, yet part of it is in force — "+shortStr(p.PathSummary(pa), 160))
		}
	}
	if len(reported) == 0 {
		if nStorePaths == 0 {
			r.Und(rule, p.ShortFn(fn)+":store-then-error", p.Pos(fn.Pos()), "no path stores any of "+strings.Join(fields, ", ")+" (anchor lost)")
		} else {
			r.Ok(rule, p.ShortFn(fn)+":store-then-error", p.Pos(fn.Pos()), fmt.Sprintf("%d storing paths: none of them ends in an error", nStorePaths))
		}
	}
}

// isSinkDir: t names a directory of the sink — fs.Path itself, or the directory the
// sink's files live in when the configured FileName carries a directory part:
// Dir(Join(fs.Path, <pattern formatted>)) or Join(fs.Path, Dir(fs.FileName)).
func isSinkDir(t *Term) bool {
	return t.String() == "Field[Path](Param(0:fs))" || isActiveFileDir(t)
}

func isActiveFileDir(t *Term) bool {
	const path, name = "Field[Path](Param(0:fs))", "Field[FileName](Param(0:fs))"
	join2 := func(x *Term) (a, b *Term, ok bool) {
		if !x.Is("Call", "path/filepath.Join") || len(x.Args) != 1 || x.Args[0].Op != "Varargs" || len(x.Args[0].Args) != 2 {
			return nil, nil, false
		}
		return x.Args[0].Args[0], x.Args[0].Args[1], true
	}
	// Dir(Join(Path, <a rotated file's name>)): the name is the sink's pattern formatted with
	// some stamp, or newFileName(...). (Dir(Join(Path, FileName)) is NOT it: for an empty
	// FileName the join is Path itself and its Dir the parent of Path — F53.)
	if t.Is("Call", "path/filepath.Dir") && len(t.Args) == 1 {
		if a, b, ok := join2(t.Args[0]); ok && a.String() == path {
			if b.Is("Call", "(*eventlogger.FileSink).newFileName") {
				return true
			}
			if b.Is("Call", "fmt.Sprintf") && len(b.Args) >= 1 && b.Args[0].Find(func(x *Term) bool { return x.Is("Call", "(*eventlogger.FileSink).fileNamePattern") }) != nil {
				return true
			}
		}
	}
	if a, b, ok := join2(t); ok && a.String() == path && b.Is("Call", "path/filepath.Dir") && len(b.Args) == 1 && b.Args[0].String() == name {
		return true
	}
	return false
}

// ruleCloseClearsHandle (C15.prune <fn>:close-clears-handle): wherever a FileSink method
// closes the sink's file, the handle is dropped (fs.f = nil, or replaced) on EVERY path
// that follows — also the one on which Close reported an error. A closed *os.File left
// in fs.f makes open() return early: every later write re-enters the due rotation, closes
// the closed file again and fails, so the sink neither rotates nor writes until someone
// calls Reopen (reopen() drops the handle first; rotate() has to agree with its sibling).
func (c *Ctx) ruleCloseClearsHandle(rule string) {
	p, r := c.P, c.R
	n := 0
	for _, fn := range p.FuncsIn(PkgRoot) {
		if fn.Signature.Recv() == nil || typeShort(fn.Signature.Recv().Type()) != "eventlogger.FileSink" {
			continue
		}
		tb := p.NewTerms(nil)
		isHandle := func(addr ssa.Value) bool {
			b, ok := tb.Of(addr).IsFieldAddr("f")
			return ok && b.IsParam("0:fs")
		}
		for _, cl := range callsTo(fn, func(nm string, cc *ssa.CallCommon) bool { return nm == "(*os.File).Close" }) {
			if _, isDefer := cl.(*ssa.Defer); isDefer {
				continue
			}
			ld, ok := cl.Common().Args[0].(*ssa.UnOp)
			if !ok || !isHandle(ld.X) {
				continue
			}
			n++
			var bad ssa.Instruction
			seen := map[*ssa.BasicBlock]bool{}
			var walk func(b *ssa.BasicBlock, from int)
			walk = func(b *ssa.BasicBlock, from int) {
				for i := from; i < len(b.Instrs); i++ {
					switch x := b.Instrs[i].(type) {
					case *ssa.Store:
						if isHandle(x.Addr) {
							return
						}
					case *ssa.Return:
						if bad == nil {
							bad = x
						}
						return
					}
				}
				for _, s := range b.Succs {
					if !seen[s] {
						seen[s] = true
						walk(s, 0)
					}
				}
			}
			walk(cl.Block(), instrIndex(cl)+1)
			pos := p.InstrPos(cl)
			why := ""
			if bad != nil {
				why = "after fs.f.Close() the method can return at " + p.InstrPos(bad) + " with the closed handle still in fs.f: open() then returns early, every later write closes the closed file again in rotate and fails — the due rotation never happens and nothing is written until an explicit Reopen"
			}
			r.Check(bad == nil, rule, p.ShortFn(fn)+":close-clears-handle", pos, "the closed handle is dropped on every path after Close, also when Close failed", why)
		}
	}
	if n < 2 {
		r.Und(rule, "close-clears-handle:instance-floor", "", fmt.Sprintf("only %d closes of the sink's file found in FileSink methods (rotate and reopen expected)", n))
	}
}

// ruleMakeSizes (C03.private make-size): no allocation reachable from Send can panic on
// its size: every make(chan T, n) and make([]T, n[, m]) in package eventlogger takes a
// size that is a non-negative constant or the length / capacity of something. A size
// read from a counter that other calls adjust (a pipeline count decremented by every
// removal, also one that removed nothing) can go negative, and Send then panics with
// "makechan: size out of range" in the caller's goroutine, whatever the context.
func (c *Ctx) ruleMakeSizes(rule string) {
	p, r := c.P, c.R
	n := 0
	var okSizeD func(v ssa.Value, d int, seen map[ssa.Value]bool) bool
	okSizeD = func(v ssa.Value, d int, seen map[ssa.Value]bool) bool {
		v = stripConv(v)
		if seen[v] {
			return true // a counter carried round a loop: decided by its other edges
		}
		seen[v] = true
		if k, ok := v.(*ssa.Const); ok {
			if i, isInt := constInt(k); isInt {
				return i >= 0
			}
			return false
		}
		if lenArg(v) != nil {
			return true
		}
		switch x := v.(type) {
		case *ssa.Call:
			if b, isB := x.Call.Value.(*ssa.Builtin); isB && (b.Name() == "len" || b.Name() == "cap") {
				return true
			}
			// a helper of the repository all of whose results are such sizes
			if sc := x.Call.StaticCallee(); sc != nil && p.InRepo(sc) && sc.Blocks != nil && d < 2 {
				for _, ret := range Returns(sc) {
					rv := RetVals(ret)
					if len(rv) != 1 || !okSizeD(rv[0], d+1, map[ssa.Value]bool{}) {
						return false
					}
				}
				return true
			}
		case *ssa.Phi:
			for _, e := range x.Edges {
				if !okSizeD(e, d, seen) {
					return false
				}
			}
			return true
		case *ssa.BinOp:
			if x.Op == token.ADD || x.Op == token.MUL {
				return okSizeD(x.X, d, seen) && okSizeD(x.Y, d, seen)
			}
		}
		return false
	}
	okSize := func(v ssa.Value) bool { return okSizeD(v, 0, map[ssa.Value]bool{}) }
	for _, f := range p.FuncsIn(PkgRoot) {
		tb := p.NewTerms(nil)
		eachInstr(f, func(in ssa.Instruction) {
			var sizes []ssa.Value
			what := ""
			switch x := in.(type) {
			case *ssa.MakeChan:
				sizes, what = []ssa.Value{x.Size}, "make(chan)"
			case *ssa.MakeSlice:
				sizes, what = []ssa.Value{x.Len, x.Cap}, "make([]T)"
			default:
				return
			}
			n++
			for _, s := range sizes {
				if s == nil {
					continue
				}
				r.Check(okSize(s), rule, p.ShortFn(f)+":make-size", p.InstrPos(in), what+" with a constant or length-derived size",
					what+" is sized with "+shortStr(tb.Of(s).String(), 100)+", which is not a non-negative constant or a length: if it can be negative the allocation panics (makechan / makeslice: size out of range) inside a Broker call")
			}
		})
	}
	if n < 2 {
		r.Und(rule, "make-size:instance-floor", "", fmt.Sprintf("only %d sized allocations found in package eventlogger (the status channel and the node list of RegisterPipeline expected)", n))
	}
}

// ruleRotationApplies (C16.atomic …:rotation-applied:<field>): key material that a
// rotation brings IS taken: on every path of Rotate and of the rotation arm of Process
// on which the new wrapper / salt / info was found non-nil, the corresponding field of
// the Filter is stored. A rotation that keeps the old wrapper under some further
// condition — "same key id", "already announced" — leaves every later event under the
// old key although the rotation was consumed.
func (c *Ctx) ruleRotationApplies(rule string) {
	p, r := c.P, c.R
	fieldOfSource := func(t *Term) string {
		if t.Op == "Call" {
			switch {
			case strings.HasSuffix(t.Name, "RotateWrapper.Wrapper"):
				return "Wrapper"
			case strings.HasSuffix(t.Name, "RotateWrapper.HmacSalt"):
				return "HmacSalt"
			case strings.HasSuffix(t.Name, "RotateWrapper.HmacInfo"):
				return "HmacInfo"
			}
		}
		switch {
		case t.Is("Field", "withWrapper"):
			return "Wrapper"
		case t.Is("Field", "withSalt"):
			return "HmacSalt"
		case t.Is("Field", "withInfo"):
			return "HmacInfo"
		}
		return ""
	}
	// a rotation cannot be REFUSED: Rotate has no result to refuse with, and the rotation arm of Process
	// ends in (nil, nil) — "after Rotate, or after a rotation payload has been processed, every event
	// started later uses the new wrapper" leaves no room for a validation that keeps the old key in force
	// (and whose error the existing callers of Rotate, written against a func without results, never see)
	if fn := c.Fn(rule, PkgEncrypt, "Filter", "Rotate"); fn != nil {
		r.Check(fn.Signature.Results().Len() == 0, rule, p.ShortFn(fn)+":cannot-refuse", p.Pos(fn.Pos()), "Rotate has no result: it applies what it is given", "Rotate returns a value: it can refuse a rotation (a probe of the new wrapper, a validation), leaving the replaced wrapper, salt and info in force for every later event")
	}
	if fn := c.Fn(rule, PkgEncrypt, "Filter", "Process"); fn != nil {
		for _, b := range fn.Blocks {
			cond, ts, _ := condOf(b)
			ex, ok := cond.(*ssa.Extract)
			if !ok || ex.Index != 1 {
				continue
			}
			ta, ok := ex.Tuple.(*ssa.TypeAssert)
			if !ok || !strings.HasSuffix(typeShort(ta.AssertedType), "RotateWrapper") {
				continue
			}
			nRet, bad := 0, false
			for _, ret := range Returns(fn) {
				if !(ret.Block() == ts || ts.Dominates(ret.Block())) || !edgeDominates(b, ts, ret.Block()) {
					continue
				}
				nRet++
				if rv := RetVals(ret); len(rv) == 2 && !isNilConst(rv[1]) {
					bad = true
					r.Check(false, rule, p.ShortFn(fn)+":cannot-refuse", p.InstrPos(ret), "", "the rotation arm of Process can end in an error: a rotation payload is refused (and consumed), so the wrapper, salt and info it was to replace stay in force for every later event")
				}
			}
			if !bad {
				r.Check(nRet > 0, rule, p.ShortFn(fn)+":cannot-refuse", p.InstrPos(lastInstr(b)), "every return of the rotation arm is (nil, nil)", "no return found in the rotation arm")
			}
		}
	}
	for _, name := range []string{"Rotate", "Process"} {
		fn := c.Fn(rule, PkgEncrypt, "Filter", name)
		if fn == nil {
			continue
		}
		seenField := map[string]bool{}
		reported := map[string]bool{}
		for _, pa := range c.enum(rule, fn, PathOpts{}) {
			if _, isRet := pa.End.(*ssa.Return); !isRet {
				continue
			}
			brought := map[string]bool{}
			for _, at := range pa.Atoms {
				if at.Op == "eq" && at.Neg && at.R.Is("Const", "nil") {
					if f := fieldOfSource(at.L); f != "" {
						brought[f] = true
					}
				}
			}
			if len(brought) == 0 {
				continue
			}
			stored := map[string]bool{}
			for _, s := range pa.Steps {
				if st, ok := s.In.(*ssa.Store); ok {
					if fa, ok := st.Addr.(*ssa.FieldAddr); ok && typeShort(fa.X.Type()) == "encrypt.Filter" {
						stored[fieldName(fa)] = true
					}
				}
			}
			// only paths that report the rotation as done
			rv := pa.RetVals()
			if len(rv) > 0 && !isNilConst(rv[len(rv)-1]) && typeShort(rv[len(rv)-1].Type()) == "error" {
				continue
			}
			for f := range brought {
				seenField[f] = true
				if !stored[f] && !reported[f] {
					reported[f] = true
					r.Bad(rule, p.ShortFn(fn)+":rotation-applied:"+f, p.InstrPos(pa.End), "the rotation brought a new "+f+" (found non-nil on this path) and the call ends without storing it: every later event is still protected under the old "+f+" although the rotation was accepted — "+shortStr(p.PathSummary(pa), 200))
				}
			}
		}
		for _, f := range []string{"Wrapper", "HmacSalt", "HmacInfo"} {
			if !seenField[f] {
				r.Und(rule, p.ShortFn(fn)+":rotation-applied:"+f, p.Pos(fn.Pos()), "no path found on which a new "+f+" is tested against nil")
			} else if !reported[f] {
				r.Ok(rule, p.ShortFn(fn)+":rotation-applied:"+f, p.Pos(fn.Pos()), "every path that found a new "+f+" stores it")
			}
		}
	}
}

// ruleFormatReaders (C19.table readers): the format table of the one Event shared by all
// pipelines of a Send is READ only by sinks. A formatter, filter or other inner node that
// looks at what is already stored under a format (to skip its own work, say) makes its
// output depend on how far ANOTHER pipeline has got — and the private copy the encrypt
// filter takes inherits whatever the other pipeline stored, so the redacted pipeline's
// sink can write the other pipeline's plain rendering. Who-may-call: every call of
// (*Event).Format, and every direct read of Event.Formatted outside package eventlogger's
// own accessors, lies in a method of a type whose Type() is the sink constant.
func (c *Ctx) ruleFormatReaders(rule string) {
	p, r := c.P, c.R
	isSinkType := func(fn *ssa.Function) (bool, string) {
		root := fn
		for root.Parent() != nil {
			root = root.Parent()
		}
		recv := root.Signature.Recv()
		if recv == nil {
			return false, "a plain function"
		}
		ts := typeShort(recv.Type())
		parts := strings.SplitN(ts, ".", 2)
		if len(parts) != 2 {
			return false, ts
		}
		var tm *ssa.Function
		for _, f := range p.Funcs {
			if f.Name() == "Type" && f.Signature.Recv() != nil && typeShort(f.Signature.Recv().Type()) == ts && f.Blocks != nil && f.Synthetic == "" {
				tm = f
			}
		}
		if tm == nil {
			return false, ts + " (no Type method)"
		}
		for _, ret := range Returns(tm) {
			rv := RetVals(ret)
			sink := p.SSAPkgs[PkgRoot].Const("NodeTypeSink")
			v, ok := constInt(rv[0])
			if len(rv) != 1 || !ok || sink == nil || v != sink.Value.Int64() {
				return false, ts + " (not a sink)"
			}
		}
		return true, ts
	}
	n := 0
	for _, f := range p.RepoFuncs() {
		eachInstr(f, func(in ssa.Instruction) {
			ci, ok := in.(ssa.CallInstruction)
			if !ok {
				return
			}
			if calleeName(ci.Common()) != "(*eventlogger.Event).Format" {
				return
			}
			n++
			ok2, who := isSinkType(f)
			r.Check(ok2, rule, p.ShortFn(f)+":reads-format-table", p.InstrPos(in), "the format table is read by a sink ("+who+")",
				"(*Event).Format is called by "+who+", which is not a sink: what an inner node finds in the shared format table depends on how far the other pipelines of the same Send have got, so its result (and what the sinks behind it write) is decided by another pipeline's formatting")
		})
	}
	if n < 2 {
		r.Und(rule, "reads-format-table:instance-floor", "", fmt.Sprintf("only %d calls of (*Event).Format found (FileSink and writer.Sink expected)", n))
	}
}

// ruleTaggableFieldAlways (C09.handlers filterField:taggable-field-unconditional, also
// C10): a struct field (or slice element) that the field walk found to implement
// Taggable has its tags applied before it is walked or tracked as a plain struct / map —
// whatever options the walk was called with. The walk of a Taggable STRUCT passes
// "ignore taggable" to the walk of that struct's own fields; if that option also
// switches off the Taggable arm for those fields, a Taggable map (or struct) held by a
// Taggable struct is handled as an untagged one: its public values are redacted and
// the operations its tags ask for are replaced by redaction.
func (c *Ctx) ruleTaggableFieldAlways(rule string) {
	p, r := c.P, c.R
	fn := c.Fn(rule, PkgEncrypt, "Filter", "filterField")
	if fn == nil {
		return
	}
	nPos := 0
	var bad *Path
	var badAt ssa.Instruction
	for _, pa := range c.enum(rule, fn, PathOpts{}) {
		if _, isRet := pa.End.(*ssa.Return); !isRet {
			continue
		}
		// first positive Taggable assertion on the path
		first := -1
		for _, at := range pa.Atoms {
			if at.Op == "true" && !at.Neg && at.If != nil && strings.Contains(at.L.String(), "Assert[encrypt.Taggable]") {
				if i := stepIndex(pa, at.If); first < 0 || i < first {
					first = i
				}
			}
		}
		if first < 0 {
			continue
		}
		nPos++
		applied := false
		for i, s := range pa.Steps {
			if i < first || s.Depth != 0 {
				continue
			}
			ci, ok := s.In.(ssa.CallInstruction)
			if !ok {
				continue
			}
			switch calleeName(ci.Common()) {
			case "(*filters/encrypt.Filter).filterTaggable":
				applied = true
			case "(*filters/encrypt.Filter).filterField", "(*filters/encrypt.trackedMaps).trackMap":
				if !applied && bad == nil {
					bad, badAt = pa, s.In
				}
			}
		}
	}
	if nPos == 0 {
		r.Und(rule, "filterField:taggable-field-unconditional", p.Pos(fn.Pos()), "no path of filterField on which a field was found Taggable")
		return
	}
	if bad != nil {
		r.Bad(rule, "filterField:taggable-field-unconditional", p.InstrPos(badAt), "a field (or element) found to implement Taggable is walked / tracked as a plain value on a path on which filterTaggable was not applied to it: a Taggable map or struct held by a Taggable struct loses its tags (public values redacted, encrypt / hmac tags replaced by redaction) — "+shortStr(p.PathSummary(bad), 260))
		return
	}
	r.Ok(rule, "filterField:taggable-field-unconditional", p.Pos(fn.Pos()), fmt.Sprintf("%d paths with a Taggable field: tags applied before the plain walk on each", nPos))
}

// ruleRegistryNodeReaders (C07.node registry-node-readers): the Node value held by the
// registry (nodeUsage.node) is read only where a pipeline is LINKED from it
// (RegisterPipeline) and where it leaves the registry (unregisterNode). Nothing that
// acts for registered pipelines — Send, Reopen — takes its nodes from there: after an
// id is re-registered the registry holds the NEW node while pipelines registered before
// still run the OLD one, so whoever works off the registry's node touches (or misses)
// pipelines registered before the re-registration.
func (c *Ctx) ruleRegistryNodeReaders(rule string) {
	p, r := c.P, c.R
	allowed := map[string]string{
		"(*eventlogger.Broker).RegisterPipeline": "links the pipeline from the nodes registered now",
		"(*eventlogger.Broker).unregisterNode":   "hands the node out of the registry to be closed",
	}
	n := 0
	var calledOnlyFrom func(f *ssa.Function, d int) (string, bool)
	calledOnlyFrom = func(f *ssa.Function, d int) (string, bool) {
		if d > 2 {
			return "", false
		}
		via, nCalls := "", 0
		okAll := true
		for _, g := range p.FuncsIn(PkgRoot) {
			gr := g
			for gr.Parent() != nil {
				gr = gr.Parent()
			}
			eachInstr(g, func(in ssa.Instruction) {
				ci, ok := in.(ssa.CallInstruction)
				if !ok || ci.Common().StaticCallee() != f {
					return
				}
				nCalls++
				if _, ok := allowed[p.ShortFn(gr)]; ok {
					via = p.ShortFn(gr)
					return
				}
				if v, ok := calledOnlyFrom(gr, d+1); ok {
					via = v
					return
				}
				okAll = false
			})
		}
		return via, okAll && nCalls > 0
	}
	for _, f := range p.FuncsIn(PkgRoot) {
		root := f
		for root.Parent() != nil {
			root = root.Parent()
		}
		eachInstr(f, func(in ssa.Instruction) {
			ld, ok := in.(*ssa.UnOp)
			if !ok || ld.Op != token.MUL {
				return
			}
			fa, ok := ld.X.(*ssa.FieldAddr)
			if !ok || typeShort(fa.X.Type()) != "eventlogger.nodeUsage" || fieldName(fa) != "node" {
				return
			}
			n++
			why, ok2 := allowed[p.ShortFn(root)]
			if !ok2 {
				// a helper extracted from an allowed function: every call of it is made by one
				if via, okVia := calledOnlyFrom(root, 0); okVia {
					why, ok2 = "a helper of "+via+", which "+allowed[via], true
				}
			}
			r.Check(ok2, rule, p.ShortFn(root)+":registry-node-readers", p.InstrPos(in), "the registry's node is read where "+why,
				p.ShortFn(root)+" takes a Node from the registry (nodeUsage.node) and works with it: the registry holds whatever was registered LAST under the id, while a pipeline registered before a re-registration still runs the node it was linked with — acting on the registry's node makes a re-registration reach into (or bypass) pipelines registered earlier")
		})
	}
	if n < 2 {
		r.Und(rule, "registry-node-readers:instance-floor", "", fmt.Sprintf("only %d reads of nodeUsage.node found (RegisterPipeline and unregisterNode expected)", n))
	}
}

// ruleGateKeyAgreement (C17.cleanup key-agreement, also C11): a group is stored in the id
// map under the id it carries (gatedEvent.id): the two places that take a group out —
// the flush arm of Process by the key it computed, openGate by the group's own id field —
// then name the same entry. A group stored under a derived key (trimmed, lower-cased)
// but carrying the raw id is emitted by expiry / FlushAll and stays in the map for ever.
func (c *Ctx) ruleGateKeyAgreement(rule string) {
	p, r := c.P, c.R
	n := 0
	for _, f := range p.FuncsIn(PkgGated) {
		tb := p.NewTerms(nil)
		eachInstr(f, func(in ssa.Instruction) {
			mu, ok := in.(*ssa.MapUpdate)
			if !ok || !tb.Of(mu.Map).Is("Field", "gated") {
				return
			}
			al, ok := stripConv(mu.Value).(*ssa.Alloc)
			if !ok {
				return
			}
			n++
			var idVal ssa.Value
			for _, st := range litStores(al) {
				if fa, ok := st.Addr.(*ssa.FieldAddr); ok && fieldName(fa) == "id" {
					idVal = st.Val
				}
			}
			okKey := idVal != nil && (idVal == mu.Key || tb.Of(idVal).String() == tb.Of(mu.Key).String())
			got := "<none>"
			if idVal != nil {
				got = shortStr(tb.Of(idVal).String(), 80)
			}
			r.Check(okKey, rule, p.ShortFn(f)+":key-agreement", p.InstrPos(in), "a group is stored under the id it carries", "a group carrying the id "+got+" is stored in the id map under "+shortStr(tb.Of(mu.Key).String(), 80)+": openGate removes groups by their own id field, so a group whose key differs from its id is emitted by expiry / FlushAll / Close but never leaves the map — later events of that id join the emitted group and are emitted again")
		})
		// every delete from the id map names the key a group was stored under: the function's own
		// key expression, or the id field of a group
		eachInstr(f, func(in ssa.Instruction) {
			ci, ok := in.(ssa.CallInstruction)
			if !ok || !isDeleteOf(ci, tb, "gated") {
				return
			}
			kt := tb.Of(ci.Common().Args[1])
			isIDField := kt.Is("Field", "id")
			sameAsInsert := false
			eachInstr(f, func(i2 ssa.Instruction) {
				if mu, ok := i2.(*ssa.MapUpdate); ok && tb.Of(mu.Map).Is("Field", "gated") && tb.Of(mu.Key).String() == kt.String() {
					sameAsInsert = true
				}
			})
			r.Check(isIDField || sameAsInsert, rule, p.ShortFn(f)+":delete-key", p.InstrPos(in), "the entry deleted is named by a group's id field or by the key the group was stored under", "delete(w.gated, "+shortStr(kt.String(), 80)+") names neither a group's id field nor the key this function stores groups under")
		})
	}
	if n < 1 {
		r.Und(rule, "key-agreement:instance-floor", "", "no insertion of a fresh group into the id map found")
	}
}

// ruleChainImmutable (C01.link chain-immutable, the store half of C04.immutable): a
// linkedNode or registeredPipeline is written only through an object allocated by the
// writing call (before it is published). Send walks these chains without any lock and
// reads node.next AFTER the node's Process returned: a removal that takes the chain
// apart (next = nil) ends an in-flight traversal in the middle of its pipeline.
func (c *Ctx) ruleChainImmutable(rule string) {
	p, r := c.P, c.R
	n, bad := 0, 0
	for _, f := range p.FuncsIn(PkgRoot) {
		eachInstr(f, func(in ssa.Instruction) {
			st, ok := in.(*ssa.Store)
			if !ok {
				return
			}
			fa, ok := st.Addr.(*ssa.FieldAddr)
			if !ok {
				return
			}
			ts := typeShort(fa.X.Type())
			if ts != "eventlogger.linkedNode" && ts != "eventlogger.registeredPipeline" {
				return
			}
			n++
			if isFresh(fa.X) {
				return
			}
			bad++
			r.Bad(rule, p.ShortFn(f)+":chain-immutable:"+fieldName(fa), p.InstrPos(in), "the field "+fieldName(fa)+" of a "+ts+" that is not allocated by this call is assigned: a registered pipeline's chain is walked by Send without a lock, and a node's successors are read after the node returned — an in-flight traversal loses the nodes behind the one that is running")
		})
	}
	if bad == 0 {
		r.Check(n >= 3, rule, "chain-immutable", "", fmt.Sprintf("%d field stores, all through objects allocated by the storing call", n), "fewer than 3 stores into linkedNode / registeredPipeline found (linkNodes and RegisterPipeline expected)")
	}
}

// ruleKeyBufferFresh (C19.confined key-buffer-fresh, the store rule of C16.atomic under
// C19): salt and info taken from a rotation payload are stored as freshly allocated
// slices. The slice the filter held before may be shared — two Filters built from one
// configuration slice, or the slice a caller handed to Rotate — and each filter reads
// its salt under ITS OWN lock: writing the new value through the old buffer is a write
// under filter A's lock to memory filter B reads under B's, a data race between stock
// nodes (and B silently derives another key).
func (c *Ctx) ruleKeyBufferFresh(rule string) {
	p, r := c.P, c.R
	fn := c.Fn(rule, PkgEncrypt, "Filter", "Process")
	if fn == nil {
		return
	}
	n := 0
	eachInstr(fn, func(in ssa.Instruction) {
		st, ok := in.(*ssa.Store)
		if !ok {
			return
		}
		fa, ok := st.Addr.(*ssa.FieldAddr)
		if !ok || typeShort(fa.X.Type()) != "encrypt.Filter" {
			return
		}
		nm := fieldName(fa)
		if nm != "HmacSalt" && nm != "HmacInfo" {
			return
		}
		n++
		vt := p.NewTerms(nil).Of(st.Val)
		r.Check(vt.Is("Make", "slice") || isFreshBytes(vt), rule, p.ShortFn(fn)+":key-buffer-fresh:"+nm, p.InstrPos(in), "the rotated "+nm+" is a freshly allocated slice",
			"the rotated "+nm+" is "+shortStr(vt.String(), 100)+", which can reuse the array the filter held before: that array may be shared with another Filter (or the caller), which reads it under its own lock — a data race between two stock nodes, and the other filter's HMAC key changes without a rotation")
	})
	if n < 2 {
		r.Und(rule, "key-buffer-fresh:instance-floor", "", "fewer than 2 stores of salt / info found in the rotation arm of Process")
	}
}

// rulePanicSites (C03.private / C04.selfsync <fn>:panic-site): the instructions of package
// eventlogger that panic by construction when their operand is not what they expect are a
// closed, confirmed set: unchecked type assertions appear only inside graphMap's methods, on
// what the sync.Map hands back (Store's signature types what goes in, C05.map / C04.selfsync
// confine the map to those methods), and there is no explicit panic(). An unchecked assertion
// on anything a caller or a node supplies (a payload, a Node, an option) turns a wrong value
// into a crash inside Send or a registry call.
func (c *Ctx) rulePanicSites(rule string) {
	p, r := c.P, c.R
	n := 0
	for _, f := range p.FuncsIn(PkgRoot) {
		root := f
		for root.Parent() != nil {
			root = root.Parent()
		}
		inGraphMap := root.Signature.Recv() != nil && typeShort(root.Signature.Recv().Type()) == "eventlogger.graphMap"
		eachInstr(f, func(in ssa.Instruction) {
			switch x := in.(type) {
			case *ssa.TypeAssert:
				if x.CommaOk {
					return
				}
				n++
				if c.pooledScratch(x) {
					r.Ok(rule, p.ShortFn(f)+":panic-site:assert", p.InstrPos(in), "unchecked assertion on what a package-level pool of *bytes.Buffer hands back (typed by its New and every Put)")
					return
				}
				r.Check(inGraphMap, rule, p.ShortFn(f)+":panic-site:assert", p.InstrPos(in), "unchecked assertion on what graphMap's own sync.Map hands back (typed by Store)",
					"an unchecked type assertion to "+typeShort(x.AssertedType)+" outside graphMap's methods: a value of another type panics inside a Broker call instead of being reported as an error")
			case *ssa.Panic:
				// go/ssa also emits Panic for a function that falls off its end without a return in dead code; only explicit calls have a position
				if !x.Pos().IsValid() {
					return
				}
				n++
				r.Bad(rule, p.ShortFn(f)+":panic-site:panic", p.InstrPos(in), "an explicit panic in package eventlogger: the Broker's calls are specified not to panic")
			}
		})
	}
	if n < 2 {
		r.Und(rule, "panic-site:instance-floor", "", fmt.Sprintf("only %d unchecked assertions found (the two in graphMap.Range expected)", n))
	}
}

// rulePositiveExpiration (C11.insert positive-expiration; the stamp half of C17.first): a
// group is opened with an expiry in the FUTURE: every path of Process that stamps a group
// with w.Now().Add(w.Expiration) established Expiration > 0 or stored the default first. A
// group born expired is composed on its own by the very next sweep, so the events that
// follow under the same id form a second group — "together with exactly the other events of
// the same ID received since the group was opened" no longer holds (and without a Broker
// the first event is silently discarded).
func (c *Ctx) rulePositiveExpiration(rule string) {
	p, r := c.P, c.R
	proc := c.Fn(rule, PkgGated, "Filter", "Process")
	if proc == nil {
		return
	}
	okPos, nStamp := true, 0
	tiny := func(caller *ssa.Function, call *ssa.Call, callee *ssa.Function) bool {
		if PkgPathOf(caller) != PkgPathOf(callee) {
			return false
		}
		if len(callee.Blocks) <= 6 {
			return true // a defaulting helper, not the sweep
		}
		// a longer straight-line initialiser: no loop, no call into the module
		if len(callee.Blocks) > 24 || len(loopHeaders(callee)) > 0 {
			return false
		}
		leaf := true
		eachInstr(callee, func(in ssa.Instruction) {
			if ci, ok := in.(ssa.CallInstruction); ok {
				if sc := ci.Common().StaticCallee(); sc != nil && sc.Blocks != nil && p.InRepo(sc) {
					leaf = false
				}
			}
		})
		return leaf
	}
	for _, pa := range c.enum(rule, proc, PathOpts{Inline: tiny}) {
		stamps := false
		for _, s := range pa.CallsOn() {
			if stepCallName(s) == "(time.Time).Add" && s.Depth == 0 {
				if ci, ok := s.In.(ssa.CallInstruction); ok && pa.TermsAt(s).Of(ci.Common().Args[1]).Is("Field", "Expiration") {
					stamps = true
				}
			}
		}
		if !stamps {
			continue
		}
		nStamp++
		positive := false
		for _, at := range pa.Atoms {
			if at.Op == "lt" && !at.Neg && at.R.Is("Field", "Expiration") && at.L.Op == "Const" {
				if k, ok := constInt(at.L.V); ok && k >= 0 {
					positive = true
				}
			}
		}
		for _, s := range pa.Steps {
			if st, ok := s.In.(*ssa.Store); ok {
				if fa, ok := st.Addr.(*ssa.FieldAddr); ok && typeShort(fa.X.Type()) == "gated.Filter" && fieldName(fa) == "Expiration" {
					positive = true
				}
			}
		}
		if !positive && okPos {
			okPos = false
			r.Bad(rule, "Process:positive-expiration", p.InstrPos(pa.End), "a group is stamped with w.Now().Add(w.Expiration) on a path that neither found the expiration positive nor replaced it by the default: the group is born expired, the next sweep composes it alone and the events that follow under its id form a second group ("+shortStr(p.PathSummary(pa), 200)+")")
		}
	}
	if okPos {
		r.Check(nStamp > 0, rule, "Process:positive-expiration", p.Pos(proc.Pos()), fmt.Sprintf("%d stamping paths, each with a positive or defaulted expiration", nStamp), "no path of Process stamps a group")
	}
}

// ruleSweepUnknown (C09.value sweep-classification): what the sweep finds in a map that no
// tag classified is UNCLASSIFIED: the classification handed to filterValue / filterSlice by
// processUnfiltered is the literal (unknown, unknown), which filterValue always redacts. It
// is not computed from a class and the overrides: the overrides speak about public,
// sensitive and secret data, and "secret: none" must not turn every untagged map value
// into plaintext.
func (c *Ctx) ruleSweepUnknown(rule string) {
	p, r := c.P, c.R
	fn := c.Fn(rule, PkgEncrypt, "trackedMaps", "processUnfiltered")
	if fn == nil {
		return
	}
	n := 0
	eachInstr(fn, func(in ssa.Instruction) {
		ci, ok := in.(ssa.CallInstruction)
		if !ok {
			return
		}
		idx := -1
		switch calleeName(ci.Common()) {
		case "(*filters/encrypt.Filter).filterValue":
			idx = 3
		case "(*filters/encrypt.Filter).filterSlice":
			idx = 2
		default:
			return
		}
		if idx >= len(ci.Common().Args) {
			return
		}
		n++
		v := ci.Common().Args[idx]
		okLit := false
		var check func(v ssa.Value, d int) bool
		check = func(v ssa.Value, d int) bool {
			switch x := v.(type) {
			case *ssa.Alloc:
				cls, op := "", ""
				for _, st := range litStores(x) {
					if fa, ok := st.Addr.(*ssa.FieldAddr); ok {
						s, _ := constString(st.Val)
						switch fieldName(fa) {
						case "Classification":
							cls = s
						case "Operation":
							op = s
						}
					}
				}
				return cls == "unknown" && op == "unknown"
			case *ssa.Phi:
				if d > 3 {
					return false
				}
				for _, e := range x.Edges {
					if !check(e, d+1) {
						return false
					}
				}
				return len(x.Edges) > 0
			}
			return false
		}
		okLit = check(v, 0)
		r.Check(okLit, rule, "processUnfiltered->"+calleeName(ci.Common())+":sweep-classification", p.InstrPos(in), "untagged map values are filtered as (unknown, unknown): always redacted",
			"the sweep hands "+shortStr(p.NewTerms(nil).Of(v).String(), 120)+" to "+calleeName(ci.Common())+" instead of the literal (unknown, unknown): the values of untagged maps then follow a class's operation and its override — with that class overridden to none they leave in plaintext")
	})
	if n < 5 {
		r.Und(rule, "sweep-classification:instance-floor", "", fmt.Sprintf("only %d value-handler calls found in the sweep (5 expected: string, []byte, two wrapper arms, slice)", n))
	}
}

// ruleTaggableTrackIdentity (C10.mark track-identity, also C09): the "make sure it's tracked"
// registration that follows filterTaggable(t) registers the map under the SAME identity that
// trackTaggable keys its record by — reflect.ValueOf(t), the Taggable itself. A Taggable map
// held through a pointer has two addresses (the pointer and the map header): registering the
// dereferenced field tracks the same map a second time with an empty record, and the sweep
// of that second entry redacts what the tags preserved or encrypted.
func (c *Ctx) ruleTaggableTrackIdentity(rule string) {
	p, r := c.P, c.R
	n := 0
	for _, w := range []struct{ recv, name string }{{"Filter", "Process"}, {"Filter", "filterField"}} {
		fn := p.Method(PkgEncrypt, w.recv, w.name)
		if fn == nil || fn.Blocks == nil {
			continue
		}
		tb := p.NewTerms(nil)
		ft := callsTo(fn, func(nm string, cc *ssa.CallCommon) bool { return nm == "(*filters/encrypt.Filter).filterTaggable" })
		for _, tk := range callsTo(fn, func(nm string, cc *ssa.CallCommon) bool { return nm == "(*filters/encrypt.trackedMaps).trackMap" }) {
			// the tracking call of a Taggable arm: dominated by a filterTaggable call
			var tag ssa.CallInstruction
			for _, f := range ft {
				if dominatesInstr(f, tk) {
					tag = f
				}
			}
			if tag == nil {
				continue
			}
			al, ok := stripConv(tk.Common().Args[1]).(*ssa.Alloc)
			if !ok {
				continue
			}
			var val ssa.Value
			for _, st := range litStores(al) {
				if fa, ok := st.Addr.(*ssa.FieldAddr); ok && fieldName(fa) == "value" {
					val = st.Val
				}
			}
			if val == nil {
				continue
			}
			n++
			vt := tb.Of(val)
			tt := tb.Of(tag.Common().Args[2])
			okID := false
			if vc, isCall := val.(*ssa.Call); isCall && calleeName(&vc.Call) == "reflect.ValueOf" && len(vc.Call.Args) == 1 {
				unwrap := func(v ssa.Value) ssa.Value {
					for i := 0; i < 4; i++ {
						switch x := v.(type) {
						case *ssa.MakeInterface:
							v = x.X
						case *ssa.ChangeInterface:
							v = x.X
						case *ssa.ChangeType:
							v = x.X
						default:
							return v
						}
					}
					return v
				}
				okID = unwrap(vc.Call.Args[0]) == unwrap(tag.Common().Args[2])
			}
			r.Check(okID, rule, p.ShortFn(fn)+":track-identity", p.InstrPos(tk), "the Taggable map is tracked under reflect.ValueOf(the Taggable), the identity trackTaggable uses",
				"after filterTaggable("+shortStr(tt.String(), 60)+") the map is tracked as "+shortStr(vt.String(), 100)+", not as reflect.ValueOf of that Taggable: for a Taggable map held through a pointer the two have different addresses, so the map is tracked twice — once with the record of its tagged keys, once without — and the sweep of the second entry redacts the public and replaces the encrypted / hmac-ed values")
		}
	}
	if n < 2 {
		r.Und(rule, "track-identity:instance-floor", "", fmt.Sprintf("only %d tracking calls after filterTaggable found (Process and filterField expected)", n))
	}
}

// rulePointerKindGuard (C09.nilelem <fn>:Pointer-kind): reflect.Value.Pointer panics for
// kinds that have no pointer (a struct, a string, an int). Every call of it in package
// encrypt is made on a path that established the operand's kind as Map or Ptr (or its type
// as a pointer type): what a Taggable is, and what a tag pointer's parent path leads to, is
// the caller's data — a by-value Taggable struct whose tag names one of its own fields, or a
// pointer through a struct held by value, must yield an error, not a panic inside Process.
func (c *Ctx) rulePointerKindGuard(rule string) {
	p, r := c.P, c.R
	n := 0
	for _, f := range p.FuncsIn(PkgEncrypt) {
		calls := callsTo(f, func(nm string, cc *ssa.CallCommon) bool { return nm == "(reflect.Value).Pointer" })
		if len(calls) == 0 || f.Blocks == nil {
			continue
		}
		paths := c.enum(rule, f, PathOpts{})
		if f.Parent() != nil {
			// a closure called on the spot: the guard is established by the enclosing function on the
			// way to the closure's call; decide there, on the operand as the closure names it
			parent := f.Parent()
			var site ssa.Instruction
			eachInstr(parent, func(in ssa.Instruction) {
				if ci, ok := in.(ssa.CallInstruction); ok {
					if mc, ok := ci.Common().Value.(*ssa.MakeClosure); ok && mc.Fn == ssa.Value(f) {
						site = in
					}
				}
			})
			for _, call := range calls {
				n++
				ot := p.NewTerms(nil).Of(call.Common().Args[0]).String()
				construct := p.ShortFn(f) + ":Pointer-kind(" + shortStr(ot, 50) + ")"
				okAll, reached := site != nil, false
				if site != nil {
					for _, pa := range c.enum(rule, parent, PathOpts{}) {
						hit := false
						for _, s := range pa.Steps {
							if s.In == site && s.Depth == 0 {
								hit = true
							}
						}
						if !hit {
							continue
						}
						reached = true
						g := false
						for _, at := range pa.Atoms {
							if at.Op == "eq" && !at.Neg && len(at.L.Args) == 1 && at.L.Args[0].String() == ot {
								if at.L.Is("Call", "(reflect.Value).Kind") {
									if k, ok := constInt(at.R.V); ok && (k == 21 || k == 22) {
										g = true
									}
								}
								if at.L.Is("Call", "(reflect.Value).Type") && at.R.Is("Call", "reflect.TypeOf") {
									g = true
								}
							}
						}
						if !g {
							okAll = false
						}
					}
				}
				r.Check(okAll && reached, rule, construct, p.InstrPos(call), "the enclosing function established the operand's kind before it calls the closure", "reflect.Value.Pointer() inside a closure whose enclosing function does not establish the operand's kind on every path to the closure's call")
			}
			continue
		}
		for _, call := range calls {
			n++
			tb0 := p.NewTerms(nil)
			construct := p.ShortFn(f) + ":Pointer-kind(" + shortStr(tb0.Of(call.Common().Args[0]).String(), 50) + ")"
			bad := ""
			seen := false
			for _, pa := range paths {
				idx := -1
				for i, s := range pa.Steps {
					if s.In == ssa.Instruction(call.(ssa.Instruction)) && s.Depth == 0 {
						idx = i
					}
				}
				if idx < 0 {
					continue
				}
				seen = true
				otT := pa.TermsAt(pa.Steps[idx]).Of(call.Common().Args[0])
				ot := otT.String()
				same := func(x *Term) bool {
					return x.String() == ot || (x.V != nil && otT.V != nil && x.V == otT.V)
				}
				guarded := false
				for _, at := range pa.Atoms {
					if at.Op != "eq" || at.Neg {
						continue
					}
					if at.L.Is("Call", "(reflect.Value).Kind") && len(at.L.Args) == 1 && same(at.L.Args[0]) {
						if k, ok := constInt(at.R.V); ok && (k == 21 || k == 22 || k == 18 || k == 19 || k == 23 || k == 26) {
							guarded = true
						}
					}
					if at.L.Is("Call", "(reflect.Value).Type") && len(at.L.Args) == 1 && same(at.L.Args[0]) && at.R.Is("Call", "reflect.TypeOf") {
						guarded = true // equal to the type of a pointer literal (&structpb.Struct{})
					}
				}
				if !guarded && bad == "" {
					bad = shortStr(p.PathSummary(pa), 220)
				}
			}
			if !seen {
				continue // unreachable within the enumeration bounds
			}
			r.Check(bad == "", rule, construct, p.InstrPos(call), "Pointer() is called only where the operand's kind was found to be Map or Ptr",
				"reflect.Value.Pointer() is called on a value whose kind was not established on the way ("+bad+"): for a struct held by value (a by-value Taggable struct whose tag names its own field, a pointer that leads through a struct) reflect panics inside Process instead of the tag being reported as an error")
		}
	}
	if n < 4 {
		r.Und(rule, "Pointer-kind:instance-floor", "", fmt.Sprintf("only %d Pointer() calls found in package encrypt (trackMap, the sweep and trackTaggable expected)", n))
	}
}

// ruleTaggableThenGeneric (C09.handlers <fn>:taggable-then-generic): applying an
// element's / field's pointer tags (filterTaggable) is an ADDITION to the generic
// handling, not an alternative to it: filterTaggable touches only what the tags name
// (and tracks a map only when a tag matched one of its keys), so everything else in
// a Taggable map is redacted only because the map is also tracked for the sweep and
// everything else in a Taggable struct only because its fields are also walked.
// Decided on the flow graph: from every filterTaggable call in Process and
// filterField, within the same iteration of the enclosing loop, a trackMap call AND
// a filterField call are still reachable.
func (c *Ctx) ruleTaggableThenGeneric(rule string) {
	p, r := c.P, c.R
	n := 0
	// every method of the filter that applies tags (Process and filterField today; a loop moved into a method of its
	// own is found as well). The sweep (a method of trackedMaps) tracks BEFORE it applies the tags and is not part of this.
	var fns []*ssa.Function
	for _, f := range p.FuncsIn(PkgEncrypt) {
		if f.Signature.Recv() != nil && typeShort(f.Signature.Recv().Type()) == "encrypt.Filter" && f.Name() != "filterTaggable" && f.Synthetic == "" {
			fns = append(fns, f)
		}
	}
	sort.Slice(fns, func(i, j int) bool { return fns[i].Name() < fns[j].Name() })
	for _, fn := range fns {
		name := fn.Name()
		calls := callsTo(fn, func(nm string, cc *ssa.CallCommon) bool { return nm == "(*filters/encrypt.Filter).filterTaggable" })
		for k, ci := range calls {
			n++
			h := innermostHeader(ci.Block())
			seen := map[*ssa.BasicBlock]bool{ci.Block(): true}
			work := []*ssa.BasicBlock{}
			for _, s := range ci.Block().Succs {
				if s != h && !seen[s] {
					seen[s] = true
					work = append(work, s)
				}
			}
			found := map[string]bool{}
			scan := func(b *ssa.BasicBlock, after ssa.Instruction) {
				on := after == nil
				for _, in := range b.Instrs {
					if !on {
						on = in == after
						continue
					}
					if cc, ok := in.(ssa.CallInstruction); ok {
						found[calleeName(cc.Common())] = true
					}
				}
			}
			scan(ci.Block(), ci)
			for len(work) > 0 {
				b := work[len(work)-1]
				work = work[:len(work)-1]
				scan(b, nil)
				for _, s := range b.Succs {
					if s != h && !seen[s] {
						seen[s] = true
						work = append(work, s)
					}
				}
			}
			ok := found["(*filters/encrypt.trackedMaps).trackMap"] && found["(*filters/encrypt.Filter).filterField"]
			r.Check(ok, rule, fmt.Sprintf("%s:taggable-then-generic#%d", name, k+1), p.InstrPos(ci),
				"after the tags of a Taggable value were applied, tracking it as a map and walking it as a struct are both still reachable for the same value",
				"after filterTaggable the same value can no longer reach both trackMap and filterField (the Taggable arm became an alternative to the generic handling): filterTaggable touches only what the tags name, so the untagged values of a Taggable map whose tags match no key, or the class-tagged and unclassified fields of a Taggable struct, are forwarded in plaintext")
		}
	}
	if n < 4 {
		r.Und(rule, "taggable-then-generic:instance-floor", "", fmt.Sprintf("only %d filterTaggable calls found in Process and filterField (4 confirmed by hand)", n))
	}
}

// rulePanicSafeRelease (C12.release <fn>:<lock>:panic-safe): "no sequence of API calls
// can leave the Broker permanently locked". A critical section of the Broker's registry
// lock that is released by an explicit Unlock (not a deferred one) stays locked for good
// when something inside it panics and the caller recovers. That is harmless only for
// sections that run no code but the library's own; a section that (transitively, through
// the package's own functions) invokes a method of a user-implementable interface — even
// an accessor such as Node.Type() — or calls a function value handed in from outside must
// release the lock in a defer.
func (c *Ctx) rulePanicSafeRelease(rule string, ifacePkgs []string) {
	p, r := c.P, c.R
	var foreign func(fn *ssa.Function, seen map[*ssa.Function]bool) string
	foreignCall := func(ci ssa.CallInstruction, seen map[*ssa.Function]bool) string {
		cc := ci.Common()
		if cc.IsInvoke() {
			if n, ok := cc.Value.Type().(*types.Named); ok && n.Obj().Pkg() != nil {
				for _, ip := range ifacePkgs {
					if n.Obj().Pkg().Path() == ip {
						return fmt.Sprintf("%s.%s at %s", n.Obj().Name(), cc.Method.Name(), p.InstrPos(ci))
					}
				}
			}
			return ""
		}
		if callee := cc.StaticCallee(); callee != nil {
			if callee.Pkg != nil && strings.HasPrefix(callee.Pkg.Pkg.Path(), PkgRoot) || callee.Parent() != nil {
				if w := foreign(callee, seen); w != "" {
					return p.ShortFn(callee) + " -> " + w
				}
			}
			return ""
		}
		if _, isBuiltin := cc.Value.(*ssa.Builtin); isBuiltin {
			return ""
		}
		if mc, ok := cc.Value.(*ssa.MakeClosure); ok {
			if f, ok := mc.Fn.(*ssa.Function); ok {
				return foreign(f, seen)
			}
		}
		fv := cc.Value
		if ld, ok := fv.(*ssa.UnOp); ok && ld.Op == token.MUL {
			fv = ld.X
		}
		switch fv.(type) {
		case *ssa.Parameter, *ssa.FreeVar:
			// a callback handed in by a caller inside the library: the closure is looked at where it is made
			if fn := ci.Parent(); fn != nil && !apiVisible(fn) {
				return ""
			}
		}
		return fmt.Sprintf("function value %s called at %s", cc.Value.Name(), p.InstrPos(ci))
	}
	// operations that run code chosen by the dynamic type of a user's value without any call being
	// written: hashing / comparing an interface value (map[Node]..., n1 == n2) panics for a dynamic
	// type that is not comparable (a struct with a slice, map or func field held by value)
	implicit := func(in ssa.Instruction) string {
		isIface := func(t types.Type) bool { return types.IsInterface(t) }
		switch x := in.(type) {
		case *ssa.MapUpdate:
			if mt, ok := x.Map.Type().Underlying().(*types.Map); ok && isIface(mt.Key()) {
				return fmt.Sprintf("map keyed by the interface type %s is written at %s (hashing panics for a dynamic type that is not comparable)", typeShort(mt.Key()), p.InstrPos(in))
			}
		case *ssa.Lookup:
			if mt, ok := x.X.Type().Underlying().(*types.Map); ok && isIface(mt.Key()) {
				return fmt.Sprintf("map keyed by the interface type %s is read at %s (hashing panics for a dynamic type that is not comparable)", typeShort(mt.Key()), p.InstrPos(in))
			}
		case *ssa.BinOp:
			if (x.Op == token.EQL || x.Op == token.NEQ) && isIface(x.X.Type()) && isIface(x.Y.Type()) && !isNilConst(x.X) && !isNilConst(x.Y) {
				return fmt.Sprintf("two interface values are compared at %s (panics when both hold the same type and it is not comparable)", p.InstrPos(in))
			}
		}
		return ""
	}
	closureArgs := func(ci ssa.CallInstruction, seen map[*ssa.Function]bool) string {
		for _, a := range ci.Common().Args {
			if mc, ok := a.(*ssa.MakeClosure); ok {
				if f, ok := mc.Fn.(*ssa.Function); ok {
					if w := foreign(f, seen); w != "" {
						return p.ShortFn(f) + " -> " + w
					}
				}
			}
		}
		return ""
	}
	foreign = func(fn *ssa.Function, seen map[*ssa.Function]bool) string {
		if seen[fn] || fn.Blocks == nil {
			return ""
		}
		seen[fn] = true
		for _, b := range fn.Blocks {
			for _, in := range b.Instrs {
				if _, isGo := in.(*ssa.Go); isGo {
					continue
				}
				if w := implicit(in); w != "" {
					return w
				}
				if ci, ok := in.(ssa.CallInstruction); ok {
					if w := foreignCall(ci, seen); w != "" {
						return w
					}
					if w := closureArgs(ci, seen); w != "" {
						return w
					}
				}
			}
		}
		return ""
	}
	n := 0
	for _, f := range p.FuncsIn(PkgRoot) {
		for _, b := range f.Blocks {
			for i, in := range b.Instrs {
				ci, ok := in.(*ssa.Call)
				if !ok {
					continue
				}
				op := lockOpOf(ci.Common())
				if op == nil || !op.Acquire || !strings.HasPrefix(op.Class, "eventlogger.Broker.") {
					continue
				}
				n++
				construct := p.ShortFn(f) + ":" + op.Class + ":panic-safe"
				deferred := false
				eachInstr(f, func(x ssa.Instruction) {
					if d, ok := x.(*ssa.Defer); ok {
						if o := lockOpOf(d.Common()); o != nil && !o.Acquire && o.Class == op.Class {
							deferred = true
						}
					}
				})
				if deferred {
					r.Ok(rule, construct, p.InstrPos(in), "released by a deferred unlock: a panic inside the section releases the lock")
					continue
				}
				// the section: instructions from the acquire up to an explicit release of the class
				why := ""
				seenB := map[*ssa.BasicBlock]bool{}
				var walk func(blk *ssa.BasicBlock, from int)
				walk = func(blk *ssa.BasicBlock, from int) {
					for _, x := range blk.Instrs[from:] {
						if w := implicit(x); w != "" && why == "" {
							why = w
						}
						if cx, ok := x.(ssa.CallInstruction); ok {
							if o := lockOpOf(cx.Common()); o != nil && !o.Acquire && o.Class == op.Class {
								return
							}
							if _, isGo := x.(*ssa.Go); isGo {
								continue
							}
							if _, isDefer := x.(*ssa.Defer); isDefer {
								continue
							}
							if w := foreignCall(cx, map[*ssa.Function]bool{}); w != "" && why == "" {
								why = w
							}
							if w := closureArgs(cx, map[*ssa.Function]bool{}); w != "" && why == "" {
								why = w
							}
						}
					}
					for _, s := range blk.Succs {
						if !seenB[s] {
							seenB[s] = true
							walk(s, 0)
						}
					}
				}
				walk(b, i+1)
				r.Check(why == "", rule, construct, p.InstrPos(in), "explicitly released section runs only the library's own code (nothing in it can panic on behalf of a user implementation)",
					"the section is released by an explicit unlock, not a deferred one, and runs foreign code ("+why+"): when that code panics and the caller recovers, the lock is never released and every later Broker call blocks for good")
			}
		}
	}
	if n < 10 {
		r.Und(rule, "panic-safe:instance-floor", "", fmt.Sprintf("only %d acquisitions of the Broker lock found (10 confirmed by hand)", n))
	}
}

// lockPathIn reports where t (held by value) contains a synchronisation primitive that
// must not be copied after first use: sync.Mutex, RWMutex, Map, WaitGroup, Once, Cond,
// Pool and the typed atomics.
func lockPathIn(t types.Type, seen map[types.Type]bool) string {
	if seen[t] {
		return ""
	}
	seen[t] = true
	if n, ok := t.(*types.Named); ok && n.Obj().Pkg() != nil {
		switch n.Obj().Pkg().Path() {
		case "sync":
			switch n.Obj().Name() {
			case "Mutex", "RWMutex", "Map", "WaitGroup", "Once", "Cond", "Pool":
				return "sync." + n.Obj().Name()
			}
		case "sync/atomic":
			if _, isStruct := n.Underlying().(*types.Struct); isStruct {
				return "atomic." + n.Obj().Name()
			}
		}
	}
	switch u := t.Underlying().(type) {
	case *types.Struct:
		for i := 0; i < u.NumFields(); i++ {
			if w := lockPathIn(u.Field(i).Type(), seen); w != "" {
				return u.Field(i).Name() + ":" + w
			}
		}
	case *types.Array:
		return lockPathIn(u.Elem(), seen)
	}
	return ""
}

// ruleNoLockCopy (<prefix>.nocopy): the Broker's registry, the per-type graphs, the
// pipeline map (a sync.Map wrapper ranged by Send WITHOUT the Broker lock) and the stock
// nodes are shared by address. A method with a VALUE receiver on such a type — or a
// by-value parameter, result, or `x := *p` — copies the sync.Map / mutex inside with
// plain loads while other goroutines write it (Range promotes the dirty map, Lock sets
// state bits) and then works on the copy: a data race, an update applied to a private
// copy (lost), or a copied locked mutex that nobody ever unlocks. go vet's copylocks is
// not among the analyzers `go test` runs, so the suite never sees it.
func (c *Ctx) ruleNoLockCopy(rule string) {
	p, r := c.P, c.R
	nTypes, nFns := 0, 0
	seenT := map[types.Type]bool{}
	for _, f := range c.allFuncs() {
		if !p.InRepo(f) || f.Synthetic != "" {
			continue
		}
		nFns++
		sig := f.Signature
		check := func(what string, v *types.Var) {
			if v == nil {
				return
			}
			if w := lockPathIn(v.Type(), map[types.Type]bool{}); w != "" {
				r.Bad(rule, p.ShortFn(f)+":"+what, p.Pos(f.Pos()), fmt.Sprintf("%s %s of %s is passed BY VALUE although it contains %s: every call copies the primitive with plain loads while other goroutines use it and then works on the private copy (race, lost update, or a copied locked mutex that is never unlocked)", what, v.Name(), p.ShortFn(f), w))
			}
		}
		check("receiver", sig.Recv())
		for i := 0; i < sig.Params().Len(); i++ {
			check("parameter", sig.Params().At(i))
		}
		for i := 0; i < sig.Results().Len(); i++ {
			check("result", sig.Results().At(i))
		}
		if rv := sig.Recv(); rv != nil {
			if pt, ok := rv.Type().(*types.Pointer); ok {
				if !seenT[pt.Elem()] && lockPathIn(pt.Elem(), map[types.Type]bool{}) != "" {
					seenT[pt.Elem()] = true
					nTypes++
				}
			}
		}
		eachInstr(f, func(in ssa.Instruction) {
			ld, ok := in.(*ssa.UnOp)
			if !ok || ld.Op != token.MUL {
				return
			}
			if _, isAlloc := ld.X.(*ssa.Alloc); isAlloc {
				// a local that was just built (composite literal) and is moved to its final place
				if al := ld.X.(*ssa.Alloc); !al.Heap {
					return
				}
			}
			if w := lockPathIn(ld.Type(), map[types.Type]bool{}); w != "" {
				r.Bad(rule, p.ShortFn(f)+":copy", p.InstrPos(ld), fmt.Sprintf("a %s value is copied out of its shared location although it contains %s", typeShort(ld.Type()), w))
			}
		})
	}
	if nTypes < 6 {
		r.Und(rule, "nocopy:instance-floor", "", fmt.Sprintf("only %d repository types with methods contain a synchronisation primitive (6 confirmed by hand: Broker, graph, graphMap, Event, FileSink, encrypt.Filter, gated.Filter, ...)", nTypes))
		return
	}
	r.Ok(rule, "nocopy", "", fmt.Sprintf("%d functions, %d lock-holding types: no by-value receiver, parameter, result or dereference copy of a type that contains a synchronisation primitive", nFns, nTypes))
}

// gatedResetInPlace: clear(w.gated) / w.orderedGated.Init() — the in-place forms of "drop every group".
func gatedResetInPlace(call *ssa.Call, tb *Terms) (string, bool) {
	if b, ok := call.Call.Value.(*ssa.Builtin); ok && b.Name() == "clear" && len(call.Call.Args) == 1 {
		if t := tb.Of(call.Call.Args[0]); t.Is("Field", "gated") {
			return "gated", true
		}
		return "", false
	}
	if sc := call.Call.StaticCallee(); sc != nil && sc.String() == "(*container/list.List).Init" && len(call.Call.Args) == 1 {
		if t := tb.Of(call.Call.Args[0]); t.Is("Field", "orderedGated") {
			return "orderedGated", true
		}
	}
	return "", false
}

// ruleListProgress (C12.progress <fn>:list-progress): every loop of the gated filter
// over its container/list (they run under Filter.l, inside Process / Close, inside a
// Broker call) moves on in every iteration: the element carried round the back edge is
// the successor of the current one (e.Next(), read before the body may remove e) — or,
// when the loop re-reads the list's Front(), every way round passes a call that removes
// the element at hand (openGate / List.Remove). A pop-front loop whose body can leave
// the front in place (the unexpired-group arm) examines the same element for ever.
func (c *Ctx) ruleListProgress(rule string) {
	p, r := c.P, c.R
	const next = "(*container/list.Element).Next"
	const front = "(*container/list.List).Front"
	const remove = "(*container/list.List).Remove"
	n := 0
	for _, fn := range p.FuncsIn(PkgGated) {
		for _, b := range fn.Blocks {
			for _, in := range b.Instrs {
				phi, ok := in.(*ssa.Phi)
				if !ok || typeShort(phi.Type()) != "list.Element" {
					continue
				}
				h := phi.Block()
				if !loopHeaders(fn)[h] {
					continue
				}
				loop := naturalLoop(h)
				n++
				construct := p.ShortFn(fn) + ":list-progress"
				okAll, why := true, ""
				for i, e := range phi.Edges {
					pred := h.Preds[i]
					if !loop[pred] {
						continue // entry edge
					}
					// the value carried round: a successor read from the loop's own element ...
					var derivesNext func(v ssa.Value, d int) bool
					derivesNext = func(v ssa.Value, d int) bool {
						if d > 4 {
							return false
						}
						switch x := v.(type) {
						case *ssa.Call:
							if sc := x.Call.StaticCallee(); sc != nil && sc.String() == next {
								return x.Call.Args[0] == ssa.Value(phi)
							}
						case *ssa.Phi:
							if x == phi {
								return false
							}
							for _, pe := range x.Edges {
								if !derivesNext(pe, d+1) {
									return false
								}
							}
							return len(x.Edges) > 0
						}
						return false
					}
					if derivesNext(e, 0) {
						continue
					}
					// ... or the list's front, re-read after the element at hand was removed on every way round
					if call, isCall := e.(*ssa.Call); isCall && call.Call.StaticCallee() != nil && call.Call.StaticCallee().String() == front {
						removing := map[*ssa.BasicBlock]bool{}
						for lb := range loop {
							for _, li := range lb.Instrs {
								ci, ok := li.(*ssa.Call) // (a deferred removal runs when the function returns, not in this iteration)
								if !ok || ci.Call.StaticCallee() == nil {
									continue
								}
								sc := ci.Call.StaticCallee()
								removes := sc.String() == remove
								if !removes && (p.InRepo(sc) || p.InCtl(sc)) {
									always, onSuccess := c.mustRemoveFront(sc)
									removes = always
									if !always && onSuccess {
										// a helper that removes unless it fails: its failure has to leave the loop
										cond, tsucc, _ := condOf(lb)
										if bo, isB := cond.(*ssa.BinOp); isB && bo.Op == token.NEQ && (bo.X == ssa.Value(ci) || bo.Y == ssa.Value(ci)) && (isNilConst(bo.X) || isNilConst(bo.Y)) && !loop[tsucc] {
											removes = true
										}
									}
								}
								if removes {
									if dominatesInstr(li, call) || lb != call.Block() {
										removing[lb] = true
									}
								}
							}
						}
						// is the latch reachable from the header inside the loop without a removing block?
						seen := map[*ssa.BasicBlock]bool{h: true}
						work := []*ssa.BasicBlock{h}
						bypass := removing[h] == false && h == pred
						for len(work) > 0 && !bypass {
							x := work[len(work)-1]
							work = work[:len(work)-1]
							for _, sx := range x.Succs {
								if !loop[sx] || seen[sx] || removing[sx] || sx == h {
									continue
								}
								if sx == pred {
									bypass = true
									break
								}
								seen[sx] = true
								work = append(work, sx)
							}
						}
						if removing[pred] {
							bypass = false
						}
						if !bypass {
							continue
						}
						okAll, why = false, "the loop re-reads the list's Front() at "+p.InstrPos(call)+", and an iteration can come round without having removed the element at hand"
						continue
					}
					okAll, why = false, "the element carried round the loop is neither the current element's successor nor a re-read front"
				}
				r.Check(okAll, rule, construct, p.InstrPos(phi), "every iteration of the list loop moves on to the successor read from the current element (or re-reads the front after removing it)",
					why+": the same group is examined again for ever, under the filter's lock, inside Filter.Process / Close — the Broker call that runs the filter never returns although every node returns")
			}
		}
	}
	if n < 2 {
		r.Und(rule, "list-progress:instance-floor", "", fmt.Sprintf("only %d loops over a container/list found in package gated (2 confirmed by hand: processExpiredEvents, FlushAll)", n))
	}
}

// mustRemoveFront: fn removes an element from a container/list on every path that returns (always), or at least on
// every path that returns a nil error (onSuccess). A deferred Remove counts for the returns it dominates.
func (c *Ctx) mustRemoveFront(fn *ssa.Function) (always, onSuccess bool) {
	const remove = "(*container/list.List).Remove"
	if fn.Blocks == nil || len(Returns(fn)) == 0 {
		return false, false
	}
	always, onSuccess = true, true
	idx, isErr := returnsError(fn.Signature)
	for _, ret := range Returns(fn) {
		found := false
		eachInstr(fn, func(in ssa.Instruction) {
			ci, ok := in.(ssa.CallInstruction)
			if !ok {
				return
			}
			if _, isGo := in.(*ssa.Go); isGo {
				return
			}
			if sc := ci.Common().StaticCallee(); sc != nil && sc.String() == remove && dominatesInstr(in, ret) {
				found = true
			}
		})
		if found {
			continue
		}
		always = false
		rv := RetVals(ret)
		if !(isErr && idx < len(rv) && !isNilConst(rv[idx])) {
			onSuccess = false
		}
	}
	return always, onSuccess
}

// ruleFormatFromTable (C13.format / C14.table Format:reads-table): what a sink writes is
// "the bytes stored for its configured format" — Event.Format answers from the format
// table itself, under Event.l: each of its returns is either the comma-ok look-up
// e.Formatted[formatType] of the requested type, or (nil, false). A memo kept beside the
// table (an atomic pointer refreshed by FormattedAs) answers with what was stored LAST
// THROUGH FormattedAs: the exported table can be edited or the entry deleted without it.
func (c *Ctx) ruleFormatFromTable(rule string) {
	p, r := c.P, c.R
	fn := c.Fn(rule, PkgRoot, "Event", "Format")
	if fn == nil {
		return
	}
	must := c.MustLocks()
	tb := p.NewTerms(nil)
	n := 0
	for _, ret := range Returns(fn) {
		rv := RetVals(ret)
		if len(rv) != 2 {
			continue
		}
		n++
		if b, isC := constBool(rv[1]); isC && !b && isNilConst(rv[0]) {
			r.Ok(rule, "Format:reads-table", p.InstrPos(ret), "(nil, false)")
			continue
		}
		ok := false
		e0, is0 := rv[0].(*ssa.Extract)
		e1, is1 := rv[1].(*ssa.Extract)
		if is0 && is1 && e0.Index == 0 && e1.Index == 1 && e0.Tuple == e1.Tuple {
			if lk, isLk := e0.Tuple.(*ssa.Lookup); isLk && lk.CommaOk {
				_, held := must.At(lk)["eventlogger.Event.l"]
				ok = held && tb.Of(lk.X).String() == "Field[Formatted](Param(0:e))" && tb.Of(lk.Index).IsParam("1:formatType")
			}
		}
		r.Check(ok, rule, "Format:reads-table", p.InstrPos(ret), "Format answers with the table's own entry for the requested type, looked up under Event.l",
			"Format can answer with something other than the comma-ok look-up e.Formatted[formatType] made under Event.l ("+shortStr(tb.Of(rv[0]).String(), 80)+"): a value remembered beside the table goes stale when the exported table is edited or the entry deleted, and the sinks write bytes that are no longer the ones stored for their format — or report success where `no bytes for that format` is an error")
	}
	if n == 0 {
		r.Und(rule, "Format:reads-table", p.Pos(fn.Pos()), "no return of (*Event).Format found")
	}
}

// flattenRecursive: flatten written as a recursion — a method of linkedNode that records its receiver's id in the map
// it is given (unconditionally) and calls itself for every element of the receiver's next (a full, unconditional loop,
// with the same map). Each call descends one link of the chain linkNodes built, so it terminates where the worklist
// version does. Reports the same constructs as the worklist form; false when the shape is not this one.
func (c *Ctx) flattenRecursive(rule string, fn *ssa.Function) bool {
	p, r := c.P, c.R
	for _, ci := range callsTo(fn, func(n string, cc *ssa.CallCommon) bool {
		sc := cc.StaticCallee()
		return sc != nil && sc.Blocks != nil && PkgPathOf(sc) == PkgRoot && sc.Signature.Recv() != nil && typeShort(sc.Signature.Recv().Type()) == "eventlogger.linkedNode"
	}) {
		h := ci.Common().StaticCallee()
		self := callsTo(h, func(n string, cc *ssa.CallCommon) bool { return cc.StaticCallee() == h })
		if len(self) != 1 || len(h.Params) < 2 {
			continue
		}
		// flatten hands over its own receiver and a map it returns
		if ci.Common().Args[0] != ssa.Value(fn.Params[0]) {
			continue
		}
		tb := p.NewTerms(nil)
		var rec *ssa.MapUpdate
		eachInstr(h, func(in ssa.Instruction) {
			if mu, ok := in.(*ssa.MapUpdate); ok {
				if kt := tb.Of(mu.Key); kt.Is("Field", "nodeID") && kt.Args[0].V == ssa.Value(h.Params[0]) && mu.Map == ssa.Value(h.Params[1]) {
					rec = mu
				}
			}
		})
		if rec == nil {
			continue
		}
		okRec := true
		for _, ret := range Returns(h) {
			if !dominatesInstr(rec, ret) {
				okRec = false
			}
		}
		r.Check(okRec, rule, "flatten:record", p.InstrPos(rec), "every visited node's id is recorded", "a visited node's id is recorded only under a condition")
		call := self[0]
		at := tb.Of(call.Common().Args[0])
		okElem := at.Op == "Index" && at.Args[0].Is("Field", "next") && at.Args[0].Args[0].V == ssa.Value(h.Params[0]) && call.Common().Args[1] == ssa.Value(h.Params[1])
		full, why := innerLoopFull(call)
		unc, _ := unconditionalInLoop(call)
		r.Check(okElem && unc, rule, "flatten:successors", p.InstrPos(call), "the successors of every visited node are visited", "the successors of a visited node are visited only under a condition, or not with the same map")
		r.Check(okElem && full && unc, rule, "flatten:push", p.InstrPos(call), "every successor is visited (full, unconditional loop over node.next)", "not every successor of a visited node is visited ("+why+")")
		r.Ok(rule, "flatten:pop", p.Pos(h.Pos()), "recursion: every call descends one link of the chain, which linkNodes builds without cycles")
		return true
	}
	return false
}

// ruleRecoverResults (<prefix>.recover): a deferred function that recovers a panic makes
// the enclosing function return its RESULT VARIABLES as they stand — go/ssa models this as
// the function's recover block, which returns the named results (or, for unnamed results,
// spill cells that only a completed return statement fills). Two obligations follow for
// every function of the given packages that recovers:
//   - <fn>:error-reaches-result — when the function returns an error, the recovering
//     closure stores a non-nil error into a cell the recover block returns. An assignment
//     to an ordinary local (the result is unnamed, or shadowed) is lost: the caller gets
//     the zero value, i.e. SUCCESS, for a call that panicked half way.
//   - <fn>:changed-flag (only for methods of the Broker with a bool result, "something was
//     removed") — the closure stores true into that result, or the flag is already true
//     wherever foreign code can panic: a removal that panicked after the registry was changed
//     must not report false, which promises that everything is as it was.
func (c *Ctx) ruleRecoverResults(rule string, pkgs []string, changedFlag bool) {
	// the repository has no recovering function today: the control pair shows on every run that the rule is armed
	if !c.R.controlsWant["ctl.recover"] {
		c.recoverControls()
	}
	c.recoverResults(rule, pkgs, changedFlag, false)
}

// recoverControls: the Bad / Good pair of the recover rule (control package locks).
func (c *Ctx) recoverControls() {
	c.recoverResults("ctl.recover", []string{PkgCtl + "/locks"}, false, true)
	c.R.WantControl("ctl.recover")
}

func (c *Ctx) recoverResults(rule string, pkgs []string, changedFlag, control bool) {
	p, r := c.P, c.R
	inPkgs := func(f *ssa.Function) bool {
		for _, pk := range pkgs {
			if PkgPathOf(f) == pk {
				return true
			}
		}
		return false
	}
	callsRecover := func(g *ssa.Function) bool {
		found := false
		eachInstr(g, func(in ssa.Instruction) {
			if ci, ok := in.(*ssa.Call); ok {
				if b, isB := ci.Call.Value.(*ssa.Builtin); isB && b.Name() == "recover" {
					found = true
				}
			}
		})
		return found
	}
	n := 0
	for _, f := range c.allFuncs() {
		if !inPkgs(f) || f.Blocks == nil {
			continue
		}
		eachInstr(f, func(in ssa.Instruction) {
			d, ok := in.(*ssa.Defer)
			if !ok {
				return
			}
			mc, ok := d.Call.Value.(*ssa.MakeClosure)
			var g *ssa.Function
			if ok {
				g, _ = mc.Fn.(*ssa.Function)
			} else if sc := d.Call.StaticCallee(); sc != nil {
				g = sc
			}
			if g == nil || g.Blocks == nil || !callsRecover(g) {
				return
			}
			n++
			// a closure that panics again (after logging, say) does not turn the panic into a return
			rePanics := false
			eachInstr(g, func(gi ssa.Instruction) {
				if _, isP := gi.(*ssa.Panic); isP {
					rePanics = true
				}
			})
			if rePanics {
				r.Ok(rule, p.ShortFn(f)+":error-reaches-result", p.InstrPos(d), "the recovering closure panics again: the panic is not turned into a return")
				return
			}
			// the cells the recover block returns, by result index
			resultCell := map[ssa.Value]int{}
			if f.Recover != nil {
				if ret, ok := lastInstr(f.Recover).(*ssa.Return); ok {
					for i, rv := range ret.Results {
						if ld, isLd := rv.(*ssa.UnOp); isLd && ld.Op == token.MUL {
							resultCell[ld.X] = i
						}
					}
				}
			}
			// what the closure stores, and where: free variable -> binding in f
			binding := map[ssa.Value]ssa.Value{}
			if mc != nil {
				for i, fv := range g.FreeVars {
					if i < len(mc.Bindings) {
						binding[fv] = mc.Bindings[i]
					}
				}
			}
			storesTo := map[int][]ssa.Value{} // result index -> stored values
			eachInstr(g, func(gi ssa.Instruction) {
				st, ok := gi.(*ssa.Store)
				if !ok {
					return
				}
				if b, ok := binding[st.Addr]; ok {
					if idx, isRes := resultCell[b]; isRes {
						storesTo[idx] = append(storesTo[idx], st.Val)
					}
				}
			})
			if idx, isErr := returnsError(f.Signature); isErr {
				okErr := false
				for _, v := range storesTo[idx] {
					if !isNilConst(v) {
						okErr = true
					}
				}
				if control {
					switch {
					case !okErr && isBadName(f.Name()):
						r.ControlFired(rule, p.ShortFn(f), p.InstrPos(d), "recovered panic does not reach the error result")
					case !okErr:
						r.Und(rule, p.ShortFn(f), p.InstrPos(d), "negative control flagged")
					case isBadName(f.Name()):
						r.Und(rule, p.ShortFn(f), p.InstrPos(d), "positive control not flagged")
					}
					return
				}
				r.Check(okErr, rule, p.ShortFn(f)+":error-reaches-result", p.InstrPos(d), "the recovering closure stores a non-nil error into the function's error result",
					"the function recovers a panic but the recovering closure does not store an error into the function's error RESULT (the result is unnamed or shadowed: the assignment goes to an ordinary local): after a recovered panic the caller receives the zero value — success — for a call that panicked half way")
			}
			if changedFlag && f.Signature.Recv() != nil && typeShort(f.Signature.Recv().Type()) == "eventlogger.Broker" {
				res := f.Signature.Results()
				for i := 0; i < res.Len(); i++ {
					if b, isBasic := res.At(i).Type().Underlying().(*types.Basic); !isBasic || b.Kind() != types.Bool {
						continue
					}
					okFlag := false
					for _, v := range storesTo[i] {
						if bv, isC := constBool(v); isC && bv {
							okFlag = true
						}
					}
					r.Check(okFlag, rule, p.ShortFn(f)+":changed-flag", p.InstrPos(d), "a recovered panic reports the change flag as true",
						"the function recovers a panic and returns its results as they stand, but the recovering closure does not set the boolean result: a panic after the registry was changed (a node's Close, say) makes the call report FALSE — `nothing was removed, everything is as it was` — although the pipeline and its nodes are gone")
				}
			}
		})
	}
	if !control {
		r.Notes = append(r.Notes, fmt.Sprintf("%s: %d recovering deferred functions examined", rule, n))
	}
}

// ruleWaitGroupFields (<prefix>.wgfield): a sync.WaitGroup that lives in a FIELD of a
// shared object (the Broker, a graph, a sink) is used by different calls, possibly at the
// same time — unlike the wait group a single Send makes for itself. sync.WaitGroup
// requires that an Add which starts from a zero counter happens before Wait; an Add in
// one API call (Send counting itself in) racing with a Wait in another (a removal
// draining the Sends) is "WaitGroup misuse" / "WaitGroup is reused before previous Wait
// has returned": a PANIC, raised in whichever goroutine loses, typically one the caller
// cannot recover. So every Add site and every Wait site of such a field must hold a
// common lock. control: the rule runs over the control package only.
func (c *Ctx) ruleWaitGroupFields(rule string, control bool) {
	p, r := c.P, c.R
	must := c.MustLocks()
	type site struct {
		fn   *ssa.Function
		in   ssa.Instruction
		held LockSet
	}
	adds, waits := map[string][]site{}, map[string][]site{}
	for _, f := range c.allFuncs() {
		if control != p.InCtl(f) || (!control && !p.InRepo(f)) {
			continue
		}
		eachInstr(f, func(in ssa.Instruction) {
			ci, ok := in.(ssa.CallInstruction)
			if !ok {
				return
			}
			sc := ci.Common().StaticCallee()
			if sc == nil || sc.Signature.Recv() == nil || typeShort(sc.Signature.Recv().Type()) != "sync.WaitGroup" || len(ci.Common().Args) == 0 {
				return
			}
			fa, isField := ci.Common().Args[0].(*ssa.FieldAddr)
			if !isField {
				return // a wait group local to one call
			}
			st, ok := fa.X.Type().Underlying().(*types.Pointer).Elem().Underlying().(*types.Struct)
			if !ok {
				return
			}
			class := typeShort(fa.X.Type()) + "." + st.Field(fa.Field).Name()
			s := site{f, in, must.At(in)}
			switch sc.Name() {
			case "Add":
				adds[class] = append(adds[class], s)
			case "Wait":
				waits[class] = append(waits[class], s)
			}
		})
	}
	var classes []string
	for cl := range adds {
		classes = append(classes, cl)
	}
	for cl := range waits {
		if _, ok := adds[cl]; !ok {
			classes = append(classes, cl)
		}
	}
	sort.Strings(classes)
	for _, cl := range classes {
		// a lock held at every Add and every Wait
		var common map[string]bool
		for _, s := range append(append([]site{}, adds[cl]...), waits[cl]...) {
			h := map[string]bool{}
			for k := range s.held {
				h[k] = true
			}
			if common == nil {
				common = h
				continue
			}
			for k := range common {
				if !h[k] {
					delete(common, k)
				}
			}
		}
		okWG := len(common) > 0 || len(adds[cl]) == 0 || len(waits[cl]) == 0
		pos, who := "", ""
		if len(waits[cl]) > 0 {
			pos, who = p.InstrPos(waits[cl][0].in), p.ShortFn(waits[cl][0].fn)
		} else if len(adds[cl]) > 0 {
			pos, who = p.InstrPos(adds[cl][0].in), p.ShortFn(adds[cl][0].fn)
		}
		detail := fmt.Sprintf("wait group field %s: %d Add and %d Wait sites share no lock (Wait in %s): an Add that starts from a zero counter can run while another call is in Wait — sync.WaitGroup panics (`misuse: Add called concurrently with Wait` / `reused before previous Wait has returned`), in a goroutine the caller may not be able to recover", cl, len(adds[cl]), len(waits[cl]), who)
		switch {
		case control && !okWG:
			if isBadName(cl) {
				r.ControlFired(rule, cl, pos, detail)
			} else {
				r.Und(rule, cl, pos, "negative control flagged: "+detail)
			}
		case control:
			if isBadName(cl) {
				r.Und(rule, cl, pos, "positive control not flagged")
			}
		default:
			r.Check(okWG, rule, cl, pos, "every Add and Wait of the shared wait group holds a common lock", detail)
		}
	}
	if !control {
		r.Notes = append(r.Notes, fmt.Sprintf("%s: %d wait groups held in fields of shared objects", rule, len(classes)))
	}
}

// ruleGatedSendOnce (C17.once / C11.once): "every previously gated group was emitted
// exactly once". A group leaves through ONE Sender.Send: the filter has one call site of
// Sender.Send, and it does not sit in a loop of the function that holds it (a retry —
// "send again while the Broker reports warnings" — re-delivers the composite to the
// pipelines that had already taken it: a warning means SOME pipeline failed).
func (c *Ctx) ruleGatedSendOnce(rule string) {
	p, r := c.P, c.R
	n := 0
	for _, f := range p.FuncsIn(PkgGated) {
		for _, ci := range callsTo(f, func(nm string, cc *ssa.CallCommon) bool { return nm == "invoke gated.Sender.Send" }) {
			n++
			r.Check(!inCycle(ci.Block()), rule, p.ShortFn(f)+"->Sender.Send", p.InstrPos(ci), "the composite is sent by a call that is not repeated",
				"Sender.Send sits in a loop of "+p.ShortFn(f)+": the composite of one group can be sent more than once (a retry re-delivers it to every pipeline that had already taken it) while Process, FlushAll and Close report success — the group is emitted twice or more, not exactly once")
		}
	}
	r.Check(n == 1, rule, "Sender.Send:sites", "", "exactly one call site of Sender.Send in the gated filter", fmt.Sprintf("%d call sites of Sender.Send in package gated (1 expected: openGate's)", n))
}

// rulePayloadBytesReadOnly (C10.mut payload-bytes-readonly): "Process never modifies the
// event or payload it was given". The salt and info of an EventWrapperInfo payload are
// handed out by the ORIGINAL payload (they are read before the event is copied, and travel
// on in the per-event options): whatever the filter does with them, it must not write
// through them. A helper that overwrites a byte slice in place (a "scrub" of key
// material, an in-place normalisation) is fine for the filter's own copies and a
// modification of the caller's event when it is handed the payload's slice — directly, via
// a local that may hold it, or via a deferred closure that captured that local.
func (c *Ctx) rulePayloadBytesReadOnly(rule string) {
	p, r := c.P, c.R
	isBytes := func(t types.Type) bool {
		sl, ok := t.Underlying().(*types.Slice)
		if !ok {
			return false
		}
		b, ok := sl.Elem().Underlying().(*types.Basic)
		return ok && b.Kind() == types.Uint8
	}
	var fns []*ssa.Function
	var addAll func(f *ssa.Function)
	addAll = func(f *ssa.Function) {
		fns = append(fns, f)
		for _, a := range f.AnonFuncs {
			addAll(a)
		}
	}
	for _, f := range p.FuncsIn(PkgEncrypt) {
		if f.Parent() == nil {
			addAll(f)
		}
	}
	// base of a slice value through re-slicing
	var base func(v ssa.Value) ssa.Value
	base = func(v ssa.Value) ssa.Value {
		if sl, ok := v.(*ssa.Slice); ok {
			return base(sl.X)
		}
		return v
	}
	// writes[f][k]: f writes through its k-th parameter
	writes := map[*ssa.Function]map[int]bool{}
	paramIdx := func(f *ssa.Function, v ssa.Value) int {
		v = base(v)
		for i, pr := range f.Params {
			if ssa.Value(pr) == v && isBytes(pr.Type()) {
				return i
			}
		}
		return -1
	}
	for changed := true; changed; {
		changed = false
		for _, f := range fns {
			mark := func(k int) {
				if k < 0 {
					return
				}
				if writes[f] == nil {
					writes[f] = map[int]bool{}
				}
				if !writes[f][k] {
					writes[f][k] = true
					changed = true
				}
			}
			eachInstr(f, func(in ssa.Instruction) {
				switch x := in.(type) {
				case *ssa.Store:
					if ia, ok := x.Addr.(*ssa.IndexAddr); ok {
						mark(paramIdx(f, ia.X))
					}
				case *ssa.Call:
					if b, isB := x.Call.Value.(*ssa.Builtin); isB {
						if (b.Name() == "copy" || b.Name() == "clear") && len(x.Call.Args) > 0 {
							mark(paramIdx(f, x.Call.Args[0]))
						}
						return
					}
					if sc := x.Call.StaticCallee(); sc != nil && writes[sc] != nil {
						for k := range writes[sc] {
							if k < len(x.Call.Args) {
								mark(paramIdx(f, x.Call.Args[k]))
							}
						}
					}
				}
			})
		}
	}
	// may the value hold a slice handed out by the original payload / carried by the per-event options?
	var derived func(f *ssa.Function, v ssa.Value, d int) string
	derived = func(f *ssa.Function, v ssa.Value, d int) string {
		if d > 6 || v == nil {
			return ""
		}
		v = base(v)
		switch x := v.(type) {
		case *ssa.Call:
			if x.Call.IsInvoke() && (x.Call.Method.Name() == "HmacSalt" || x.Call.Method.Name() == "HmacInfo") {
				return "the payload's " + x.Call.Method.Name() + "()"
			}
		case *ssa.Phi:
			for _, e := range x.Edges {
				if w := derived(f, e, d+1); w != "" {
					return w
				}
			}
		case *ssa.UnOp:
			if x.Op != token.MUL {
				return ""
			}
			cell := x.X
			owner := f
			// a captured variable: continue in the function that owns the cell
			if fv, isFV := cell.(*ssa.FreeVar); isFV && f.Parent() != nil {
				for i, g := range f.FreeVars {
					if g == fv {
						eachInstr(f.Parent(), func(pi ssa.Instruction) {
							if mc, ok := pi.(*ssa.MakeClosure); ok && mc.Fn == ssa.Value(f) && i < len(mc.Bindings) {
								cell, owner = mc.Bindings[i], f.Parent()
							}
						})
					}
				}
			}
			if fa, isFA := cell.(*ssa.FieldAddr); isFA {
				if st, ok := fa.X.Type().Underlying().(*types.Pointer).Elem().Underlying().(*types.Struct); ok {
					if nm := st.Field(fa.Field).Name(); nm == "withSalt" || nm == "withInfo" {
						return "the per-event option " + nm + " (which may be the payload's own slice)"
					}
				}
				return ""
			}
			if al, isAl := cell.(*ssa.Alloc); isAl {
				why := ""
				var scan func(g *ssa.Function)
				scan = func(g *ssa.Function) {
					eachInstr(g, func(gi ssa.Instruction) {
						if st, ok := gi.(*ssa.Store); ok && st.Addr == ssa.Value(al) && why == "" {
							why = derived(g, st.Val, d+1)
						}
					})
					for _, a := range g.AnonFuncs {
						scan(a)
					}
				}
				scan(owner)
				return why
			}
		case *ssa.Field:
			if st, ok := x.X.Type().Underlying().(*types.Struct); ok {
				if nm := st.Field(x.Field).Name(); nm == "withSalt" || nm == "withInfo" {
					return "the per-event option " + nm + " (which may be the payload's own slice)"
				}
			}
		}
		return ""
	}
	n := 0
	for _, f := range fns {
		eachInstr(f, func(in ssa.Instruction) {
			switch x := in.(type) {
			case *ssa.Store:
				if ia, ok := x.Addr.(*ssa.IndexAddr); ok && isBytes(ia.X.Type()) {
					if w := derived(f, ia.X, 0); w != "" {
						n++
						r.Bad(rule, p.ShortFn(f)+":payload-bytes-readonly", p.InstrPos(in), "a byte of "+w+" is overwritten in place: that slice belongs to the event the caller handed in (it is read before the event is copied) — the caller, and every other pipeline, see the modified salt / info afterwards")
					}
				}
			case ssa.CallInstruction:
				cc := x.Common()
				var ks map[int]bool
				if b, isB := cc.Value.(*ssa.Builtin); isB && (b.Name() == "copy" || b.Name() == "clear") {
					ks = map[int]bool{0: true}
				} else if sc := cc.StaticCallee(); sc != nil {
					ks = writes[sc]
				}
				for k := range ks {
					if k >= len(cc.Args) || !isBytes(cc.Args[k].Type()) {
						continue
					}
					n++
					if w := derived(f, cc.Args[k], 0); w != "" {
						r.Bad(rule, p.ShortFn(f)+":payload-bytes-readonly", p.InstrPos(in), calleeName(cc)+" writes through its argument, and here the argument may be "+w+": that slice belongs to the event the caller handed in (it is read before the event is copied) — the caller, and every other pipeline, see the modified salt / info afterwards")
					}
				}
			}
		})
	}
	r.Ok(rule, "payload-bytes-readonly", "", fmt.Sprintf("%d in-place writes to byte slices examined in package encrypt: none can reach a slice handed out by the payload", n))
}

// forwardedStoreIgnoringCalls: the last store to cell before ld in ld's block, for a cell no call can change
// (readOnlyCapturedCell).
func forwardedStoreIgnoringCalls(ld *ssa.UnOp, cell *ssa.Alloc) ssa.Value {
	if !readOnlyCapturedCell(cell) {
		return nil
	}
	instrs := ld.Block().Instrs
	for j := instrIndex(ld) - 1; j >= 0; j-- {
		if st, ok := instrs[j].(*ssa.Store); ok && st.Addr == ssa.Value(cell) {
			return st.Val
		}
	}
	return nil
}

// ruleStoreSites: every place that puts a registration into a graph's pipeline map.
//   - rule5 (C05.store-validated): the chain it stores was validated on the way (doValidate on
//     that very root dominates the Store) or is the chain of a registration that is already in the
//     map — "only well-formed pipelines are ever registered" holds for every writer of the map,
//     not only for RegisterPipeline (a hot-swap API that re-links chains and stores them
//     unvalidated registers [filter, filter, sink]).
//   - rule7 (C07.store-policy): the registration it stores carries a registration policy: the
//     call's option, or the policy of the entry it replaces — a copy that leaves the field out
//     stores the zero value, which RegisterPipeline does not recognise as DenyOverwrite.
func (c *Ctx) ruleStoreSites(rule5, rule7 string) {
	p, r := c.P, c.R
	n := 0
	var fns []*ssa.Function
	var addAll func(f *ssa.Function)
	addAll = func(f *ssa.Function) {
		fns = append(fns, f)
		for _, a := range f.AnonFuncs {
			addAll(a)
		}
	}
	for _, f := range p.FuncsIn(PkgRoot) {
		if f.Parent() == nil && !(f.Signature.Recv() != nil && typeShort(f.Signature.Recv().Type()) == "eventlogger.graphMap") {
			addAll(f)
		}
	}
	for _, f := range fns {
		tb := p.NewTerms(nil)
		for _, ci := range callsTo(f, func(nm string, cc *ssa.CallCommon) bool { return nm == "(*eventlogger.graphMap).Store" }) {
			n++
			construct := p.ShortFn(f) + ":Store"
			al, isLit := stripConv(ci.Common().Args[2]).(*ssa.Alloc)
			if !isLit || typeShort(al.Type()) != "eventlogger.registeredPipeline" {
				// an existing registration stored again as it is: nothing new enters the map
				t := tb.Of(ci.Common().Args[2])
				okSame := t.Op == "Param" || t.Op == "Extract" || t.Op == "Assert" || t.Op == "Field"
				if rule5 != "" {
					r.Check(okSame, rule5, construct, p.InstrPos(ci), "an existing registration is stored as it is", "what is stored into the pipeline map is neither a registration built here nor one taken from the map: "+shortStr(t.String(), 80))
				}
				continue
			}
			var root, pol ssa.Value
			for _, st := range litStores(al) {
				fa := st.Addr.(*ssa.FieldAddr)
				switch fa.X.Type().Underlying().(*types.Pointer).Elem().Underlying().(*types.Struct).Field(fa.Field).Name() {
				case "rootNode":
					root = st.Val
				case "registrationPolicy":
					pol = st.Val
				}
			}
			if rule5 != "" {
				okRoot := false
				why := "no rootNode"
				if root != nil {
					rt := tb.Of(root)
					why = "the chain " + shortStr(rt.String(), 70) + " is neither validated before the store nor taken from a registered pipeline"
					// (b) the chain of a registration that is already registered
					if rt.Is("Field", "rootNode") {
						okRoot = true
					}
					// (a) validated on the way: doValidate(.., root) dominates the store
					for _, g := range append([]*ssa.Function{f}, parentsOf(f)...) {
						for _, vc := range callsTo(g, func(nm string, cc *ssa.CallCommon) bool { return nm == "(*eventlogger.graph).doValidate" }) {
							args := vc.Common().Args
							if len(args) == 3 && tb.Of(args[2]).String() == rt.String() && (g != f || dominatesInstr(vc, ci)) {
								okRoot = true
							}
						}
					}
				}
				r.Check(okRoot, rule5, construct, p.InstrPos(ci), "the chain that is stored was validated (or is the chain of a registered pipeline)", "a registration is stored into the pipeline map although "+why+": a pipeline that is not well-formed (no formatter in front of the sink, a filter in the formatter's place) receives events")
			}
			if rule7 != "" {
				okPol := false
				if pol != nil {
					pt := tb.Of(pol)
					okPol = pt.Is("Field", "withPipelineRegistrationPolicy") || pt.Is("Field", "registrationPolicy")
				}
				r.Check(okPol, rule7, construct+":policy", p.InstrPos(ci), "the stored registration carries the call's policy or the policy of the entry it replaces",
					"the registration that is stored does not carry a registration policy (the field is left out of the copy, or set from something else): a pipeline registered with DenyOverwrite becomes overwritable, and the original stops receiving events although it was never removed")
			}
		}
	}
	if n < 1 {
		r.Und(rule5+rule7, "Store:instance-floor", "", "no call of graphMap.Store found outside graphMap")
	}
}

// parentsOf: the enclosing functions of a closure, innermost first.
func parentsOf(f *ssa.Function) []*ssa.Function {
	var out []*ssa.Function
	for g := f.Parent(); g != nil; g = g.Parent() {
		out = append(out, g)
	}
	return out
}

// ruleWhoMayClose (C06.close who-may-close): a node is closed by the Broker because it LEFT
// the registry: the only place that builds an unregisteredNode that is to be closed
// (closer: true) is unregisterNode, which deletes the id in the same breath, and close() is
// only called on what unregisterNode / unregisterPipelineAndNodes handed back. Any other
// construction site — "close the node I just replaced" — closes a node the accounting knows
// nothing about: it may be the very instance that stays registered (closed now, and again
// when it is removed), or one a pipeline still runs.
func (c *Ctx) ruleWhoMayClose(rule string) {
	p, r := c.P, c.R
	n := 0
	for _, f := range c.allFuncs() {
		if PkgPathOf(f) != PkgRoot {
			continue
		}
		eachInstr(f, func(in ssa.Instruction) {
			st, ok := in.(*ssa.Store)
			if !ok {
				return
			}
			fa, ok := st.Addr.(*ssa.FieldAddr)
			if !ok {
				return
			}
			stt, ok := fa.X.Type().Underlying().(*types.Pointer).Elem().Underlying().(*types.Struct)
			if !ok || typeShort(fa.X.Type()) != "eventlogger.unregisteredNode" || stt.Field(fa.Field).Name() != "closer" {
				return
			}
			if b, isC := constBool(st.Val); isC && !b {
				return
			}
			n++
			r.Check(f.Name() == "unregisterNode", rule, p.ShortFn(f)+":who-may-close", p.InstrPos(in), "a node to be closed is produced only by unregisterNode (it left the registry)",
				p.ShortFn(f)+" builds an unregisteredNode that is to be closed although the node does not leave the registry through unregisterNode: the Broker closes a node outside its accounting — possibly the very instance that stays registered (closed again when it is removed) or one a pipeline still runs")
		})
	}
	if n < 1 {
		r.Und(rule, "who-may-close:instance-floor", "", "no construction of a to-be-closed unregisteredNode found")
	}
}

// ruleNoCallerSliceRetained (C01.link no-caller-slice): what a pipeline IS — its chain —
// is built from the definition at registration and does not depend on memory the caller
// keeps: no Broker function stores a slice it was handed (a slice parameter, a slice field
// of a by-value struct parameter, or a re-slice of either) into a field of an object. A
// registration that remembers def.NodeIDs as it is changes when the caller re-uses the
// slice for the next definition; anything later derived from it (a re-link, a node list for
// removal) belongs to another pipeline.
func (c *Ctx) ruleNoCallerSliceRetained(rule string) {
	p, r := c.P, c.R
	n := 0
	for _, f := range p.FuncsIn(PkgRoot) {
		if f.Signature.Recv() == nil || typeShort(f.Signature.Recv().Type()) != "eventlogger.Broker" {
			continue
		}
		tb := p.NewTerms(nil)
		eachInstr(f, func(in ssa.Instruction) {
			st, ok := in.(*ssa.Store)
			if !ok {
				return
			}
			if _, isSlice := st.Val.Type().Underlying().(*types.Slice); !isSlice {
				return
			}
			if _, isField := st.Addr.(*ssa.FieldAddr); !isField {
				return
			}
			n++
			v := st.Val
			for {
				if sl, ok := v.(*ssa.Slice); ok {
					v = sl.X
					continue
				}
				break
			}
			t := tb.Of(v)
			fromCaller := t.Op == "Param" || (t.Op == "Field" && len(t.Args) == 1 && t.Args[0].Op == "Param")
			r.Check(!fromCaller, rule, p.ShortFn(f)+":no-caller-slice", p.InstrPos(in), "no slice handed in by the caller is kept",
				"a slice the caller handed in ("+shortStr(t.String(), 60)+") is stored into an object as it is: the caller still owns the backing array, and re-using it (building the next definition in the same slice) silently changes what the Broker remembers about this pipeline")
		})
	}
	r.Notes = append(r.Notes, fmt.Sprintf("%s: %d stores of slice values into object fields examined in Broker methods", rule, n))
}

// ruleStatusReadOnly (C02.merge status-readonly): the id lists of a Status are written by the
// collector alone. A method of Status gets its receiver BY VALUE, but the slices inside still
// share their backing arrays with the Status that Send returned: an accessor that filters
// "in place" (append onto s.complete[:0]) or sorts / overwrites elements rewrites the
// caller's Complete() list.
func (c *Ctx) ruleStatusReadOnly(rule string) {
	p, r := c.P, c.R
	n := 0
	for _, f := range c.allFuncs() {
		if PkgPathOf(f) != PkgRoot || f.Signature.Recv() == nil || typeShort(f.Signature.Recv().Type()) != "eventlogger.Status" || f.Synthetic != "" {
			continue
		}
		n++
		tb := p.NewTerms(nil)
		var isListD func(v ssa.Value, seen map[ssa.Value]bool) bool
		isListD = func(v ssa.Value, seen map[ssa.Value]bool) bool {
			if seen[v] {
				return false
			}
			seen[v] = true
			switch x := v.(type) {
			case *ssa.Slice:
				return isListD(x.X, seen)
			case *ssa.Phi:
				for _, e := range x.Edges {
					if isListD(e, seen) {
						return true
					}
				}
				return false
			case *ssa.Call:
				// the result of append shares the array of what was appended to (while capacity lasts)
				if b, isB := x.Call.Value.(*ssa.Builtin); isB && b.Name() == "append" && len(x.Call.Args) > 0 {
					return isListD(x.Call.Args[0], seen)
				}
			}
			t := tb.Of(v)
			return t.Op == "Field" && (t.Name == "complete" || t.Name == "completeSinks" || t.Name == "Warnings")
		}
		isList := func(v ssa.Value) bool { return isListD(v, map[ssa.Value]bool{}) }
		okFn := true
		where := ssa.Instruction(nil)
		eachInstr(f, func(in ssa.Instruction) {
			switch x := in.(type) {
			case *ssa.Store:
				if ia, ok := x.Addr.(*ssa.IndexAddr); ok && isList(ia.X) {
					okFn, where = false, in
				}
			case *ssa.Call:
				if b, isB := x.Call.Value.(*ssa.Builtin); isB && (b.Name() == "append" || b.Name() == "copy" || b.Name() == "clear") && len(x.Call.Args) > 0 && isList(x.Call.Args[0]) {
					okFn, where = false, in
				}
			}
		})
		pos := p.Pos(f.Pos())
		if where != nil {
			pos = p.InstrPos(where)
		}
		r.Check(okFn, rule, p.ShortFn(f)+":status-readonly", pos, "the method does not write through the Status's lists",
			"a method of Status appends onto, copies into or overwrites an element of one of the Status's own lists (a re-slice such as s.complete[:0] shares the backing array): the lists of the Status that Send returned change under the caller — ids vanish or appear twice, and complete-sinks is no longer a sub-list of completes")
	}
	if n < 3 {
		r.Und(rule, "status-readonly:instance-floor", "", fmt.Sprintf("only %d methods of Status found (Complete, CompleteSinks, getError expected)", n))
	}
}

// ruleLazyInitMonotone (C19.lazyinit): gated.Filter has no constructor; Process initialises
// the fields it finds nil in a first critical section, gives the lock up (the expiry scan takes
// it itself) and relies on them in later sections — and so does every concurrent call that is
// between its own sections at that moment. The lazily initialised fields (those stored under a
// test "field == nil", discovered from the code) are therefore monotone: nothing ever stores
// nil into them again. A reset in the gap makes another goroutine's call of the func field, or
// its insert into the map / list, hit nil (panic) or fail an event that is perfectly valid.
func (c *Ctx) ruleLazyInitMonotone(rule, pkg, owner string) {
	p, r := c.P, c.R
	lazy := map[string]bool{}
	type site struct {
		f  *ssa.Function
		st *ssa.Store
	}
	var nilStores []site
	for _, f := range p.FuncsIn(pkg) {
		eachInstr(f, func(in ssa.Instruction) {
			st, ok := in.(*ssa.Store)
			if !ok {
				return
			}
			fa, ok := st.Addr.(*ssa.FieldAddr)
			if !ok || typeShort(fa.X.Type()) != owner {
				return
			}
			name := fieldName(fa)
			if isNilConst(st.Val) {
				nilStores = append(nilStores, site{f, st})
				return
			}
			// guarded by "load(same field) == nil"?
			for _, b := range f.Blocks {
				cond, t, _ := condOf(b)
				bo, isB := cond.(*ssa.BinOp)
				if !isB || bo.Op != token.EQL || t == nil {
					continue
				}
				x, y := bo.X, bo.Y
				if isNilConst(x) {
					x, y = y, x
				}
				if !isNilConst(y) {
					continue
				}
				ld, isL := x.(*ssa.UnOp)
				if !isL || ld.Op != token.MUL {
					continue
				}
				fa2, isF := ld.X.(*ssa.FieldAddr)
				if !isF || fa2.Field != fa.Field || typeShort(fa2.X.Type()) != owner {
					continue
				}
				if edgeDominates(b, t, st.Block()) {
					lazy[name] = true
				}
			}
		})
	}
	var names []string
	for n := range lazy {
		names = append(names, n)
	}
	sort.Strings(names)
	r.Notes = append(r.Notes, rule+": lazily initialised fields of "+owner+": "+strings.Join(names, ", "))
	if len(lazy) < 3 {
		r.Und(rule, "instance-floor", "", fmt.Sprintf("only %d lazily initialised fields of %s found (3 confirmed by hand: gated, orderedGated, composeFrom)", len(lazy), owner))
	}
	for _, name := range names {
		bad := false
		for _, s := range nilStores {
			if fieldName(s.st.Addr.(*ssa.FieldAddr)) != name {
				continue
			}
			bad = true
			r.Check(false, rule, p.ShortFn(s.f)+":"+name, p.InstrPos(s.st), "", owner+"."+name+" is initialised lazily (when found nil) in one critical section and relied upon in later ones, but is reset to nil here: a concurrent call that is between its sections finds it nil again — a nil func is called / a nil container is used (panic), or a valid event is refused")
		}
		if !bad {
			r.Check(true, rule, owner+"."+name+":never-reset", "", "a lazily initialised field is never stored nil again", "")
		}
	}
}

// apiVisible: fn can be called from outside the module (exported function, or exported method
// of an exported type); closures are not.
func apiVisible(fn *ssa.Function) bool {
	if fn.Parent() != nil || fn.Object() == nil || !fn.Object().Exported() {
		return false
	}
	if recv := fn.Signature.Recv(); recv != nil {
		t := recv.Type()
		if pt, ok := t.(*types.Pointer); ok {
			t = pt.Elem()
		}
		if n, ok := t.(*types.Named); ok {
			return n.Obj().Exported()
		}
		return false
	}
	return true
}

// keyRoot strips conversions, re-slicings and the load of a captured variable: two values with
// the same root share a backing array.
func keyRoot(v ssa.Value) ssa.Value {
	for i := 0; i < 16; i++ {
		switch x := v.(type) {
		case *ssa.ChangeType:
			v = x.X
		case *ssa.Convert:
			v = x.X
		case *ssa.Slice:
			v = x.X
		case *ssa.Call:
			// the bytes package's trimming helpers return a sub-slice of their argument
			switch calleeName(&x.Call) {
			case "bytes.TrimSuffix", "bytes.TrimPrefix", "bytes.TrimSpace", "bytes.TrimRight", "bytes.TrimLeft", "bytes.Trim", "bytes.TrimFunc", "bytes.TrimRightFunc", "bytes.TrimLeftFunc":
				v = x.Call.Args[0]
			default:
				return v
			}
		case *ssa.UnOp:
			if x.Op != token.MUL {
				return v
			}
			switch a := x.X.(type) {
			case *ssa.Alloc:
				return a
			case *ssa.FreeVar:
				if b := freeVarBinding(a); b != nil {
					return b
				}
				return a
			}
			return v
		default:
			return v
		}
	}
	return v
}

// freeVarBinding resolves a captured variable to the cell it is bound to where the closure is made.
func freeVarBinding(fv *ssa.FreeVar) ssa.Value {
	fn := fv.Parent()
	if fn == nil || fn.Parent() == nil {
		return nil
	}
	idx := -1
	for i, x := range fn.FreeVars {
		if x == fv {
			idx = i
		}
	}
	var out ssa.Value
	eachInstr(fn.Parent(), func(in ssa.Instruction) {
		if mc, ok := in.(*ssa.MakeClosure); ok && mc.Fn == ssa.Value(fn) && idx >= 0 && idx < len(mc.Bindings) {
			out = mc.Bindings[idx]
		}
	})
	if inner, ok := out.(*ssa.FreeVar); ok {
		return freeVarBinding(inner)
	}
	return out
}

// writesInPlace lists the instructions of fn (and, when deep, of the closures it makes) that write
// into the backing array of a slice: clear(x), copy(x, ...), x[i] = ..., and calls of a function of
// the module that does one of these to the parameter x is passed as.
func (c *Ctx) writesInPlace(fn *ssa.Function, deep bool, visit func(in ssa.Instruction, target ssa.Value, inClosure bool)) {
	var scan func(f *ssa.Function, closure bool)
	scan = func(f *ssa.Function, closure bool) {
		eachInstr(f, func(in ssa.Instruction) {
			switch x := in.(type) {
			case *ssa.Store:
				if ia, ok := x.Addr.(*ssa.IndexAddr); ok {
					if _, isSlice := ia.X.Type().Underlying().(*types.Slice); isSlice {
						visit(in, ia.X, closure)
					}
				}
			case ssa.CallInstruction:
				cc := x.Common()
				if b, ok := cc.Value.(*ssa.Builtin); ok && (b.Name() == "clear" || b.Name() == "copy") && len(cc.Args) > 0 {
					if _, isSlice := cc.Args[0].Type().Underlying().(*types.Slice); isSlice {
						visit(in, cc.Args[0], closure)
					}
					return
				}
				// append(x[:k], ...) writes behind x[:k] into x's own array whenever it has room
				if b, ok := cc.Value.(*ssa.Builtin); ok && b.Name() == "append" && len(cc.Args) > 0 {
					if sl, isRe := cc.Args[0].(*ssa.Slice); isRe {
						visit(in, sl, closure)
					}
					return
				}
				if sc := cc.StaticCallee(); sc != nil && sc.Blocks != nil && c.P.InRepo(sc) && sc != fn {
					for i, a := range cc.Args {
						if _, isSlice := a.Type().Underlying().(*types.Slice); !isSlice || i >= len(sc.Params) {
							continue
						}
						prm := sc.Params[i]
						hit := false
						c.writesInPlace(sc, false, func(_ ssa.Instruction, t ssa.Value, _ bool) {
							if keyRoot(t) == ssa.Value(prm) {
								hit = true
							}
						})
						if hit {
							visit(in, a, closure)
						}
					}
				}
			}
		})
		if deep {
			for _, an := range f.AnonFuncs {
				scan(an, true)
			}
		}
	}
	scan(fn, false)
}

// ruleKeyHandedOver (C16.derive <fn>:key-handed-over): (*aead.Wrapper).SetAesGcmKeyBytes keeps
// the slice it is given (KeyBytes() hands the same array to the HKDF that derives the HMAC key,
// and re-keying reads it again), so from the hand-over on the bytes belong to the wrapper: the
// function that derived them never writes into that array afterwards — no clear(), copy() into
// it, element store or scrubbing helper, neither on a path behind the call nor in anything
// deferred. A "wipe the key material" clean-up of that slice zeroes the key every value of the
// event is protected with: the ciphertext no longer decrypts under the wrapper derived from
// the filter's wrapper and the event id, and every HMAC is keyed with zeros.
func (c *Ctx) ruleKeyHandedOver(rule string) {
	p, r := c.P, c.R
	const sink = "(*github.com/hashicorp/go-kms-wrapping/v2/aead.Wrapper).SetAesGcmKeyBytes"
	n := 0
	for _, f := range p.FuncsIn(PkgEncrypt) {
		if f.Parent() != nil {
			continue
		}
		for _, ci := range callsTo(f, func(nm string, cc *ssa.CallCommon) bool { return nm == sink }) {
			args := ci.Common().Args
			if len(args) < 2 {
				continue
			}
			n++
			root := keyRoot(args[1])
			construct := p.ShortFn(f) + ":key-handed-over"
			bad := false
			c.writesInPlace(f, true, func(in ssa.Instruction, target ssa.Value, inClosure bool) {
				if keyRoot(target) != root {
					return
				}
				after := inClosure
				if !inClosure {
					if _, isDefer := in.(*ssa.Defer); isDefer {
						after = true
					} else if in.Block() == ci.Block() {
						after = instrIndex(in) > instrIndex(ci) || inCycle(in.Block())
					} else {
						after = reachableFrom(ci.Block())[in.Block()]
					}
				}
				if !after {
					return
				}
				bad = true
				r.Check(false, rule, construct, p.InstrPos(in), "", "the key bytes handed to SetAesGcmKeyBytes at "+p.InstrPos(ci)+" are written in place afterwards (the wrapper keeps that very slice: KeyBytes() and the HMAC key derivation read it): the per-event wrapper ends up keyed with other bytes than the ones derived from the filter's wrapper and the event id — values no longer decrypt under the wrapper in force, HMACs are keyed with zeros")
			})
			if !bad {
				r.Check(true, rule, construct, p.InstrPos(ci), "the slice handed to the AEAD wrapper is never written after the hand-over (also not by deferred clean-up)", "")
			}
		}
	}
	if n < 1 {
		r.Und(rule, "key-handed-over:instance-floor", "", "no hand-over of key bytes to an AEAD wrapper found (1 confirmed by hand: NewEventWrapper)")
	}
}

// ruleSkipIdentity (C09.mark / C10.mark processUnfiltered:skip-identity): the sweep leaves a
// map entry alone only because a tag already handled it, and it decides that by looking the
// entry's key up in tMap.filteredFields. The name it looks up is derived from the key's own
// typed accessors (Value.String, Int, Uint, ... and plain formatting of those): it never goes
// through Value.Interface / Value.Elem or the fmt verbs, which erase the key's dynamic type —
// under an interface-typed key "1" and 1 (or two struct keys that print alike) then share a
// name, and the entry a tag did NOT handle is skipped with its plaintext in place (C09), or a
// public value next to it is redacted because the lookup of the handled one missed (C10).
func (c *Ctx) ruleSkipIdentity(rule string) {
	p, r := c.P, c.R
	n := 0
	for _, f := range p.FuncsIn(PkgEncrypt) {
		eachInstr(f, func(in ssa.Instruction) {
			lk, ok := in.(*ssa.Lookup)
			if !ok {
				return
			}
			ld, ok := lk.X.(*ssa.UnOp)
			if !ok || ld.Op != token.MUL {
				return
			}
			fa, ok := ld.X.(*ssa.FieldAddr)
			if !ok || fieldName(fa) != "filteredFields" {
				return
			}
			n++
			erased := ""
			sawKey := false
			seen := map[ssa.Value]bool{}
			var visitFn func(fn *ssa.Function, depth int)
			var back func(v ssa.Value, depth int)
			checkCall := func(cc *ssa.CallCommon, pos string, depth int) {
				name := calleeName(cc)
				switch {
				case name == "(reflect.Value).Interface" || name == "(reflect.Value).Elem":
					if erased == "" {
						erased = name + " at " + pos
					}
				case strings.HasPrefix(name, "fmt.Sprint") || name == "fmt.Sprintf" || name == "fmt.Sprintln":
					if erased == "" {
						erased = name + " at " + pos
					}
				case name == "(reflect.Value).MapKeys" || name == "(*reflect.MapIter).Key":
					sawKey = true
				}
				if sc := cc.StaticCallee(); sc != nil && sc.Blocks != nil && p.InRepo(sc) && depth < 3 {
					visitFn(sc, depth+1)
				}
			}
			visitFn = func(fn *ssa.Function, depth int) {
				eachInstr(fn, func(x ssa.Instruction) {
					if ci, ok := x.(ssa.CallInstruction); ok {
						checkCall(ci.Common(), p.InstrPos(x), depth)
					}
				})
			}
			back = func(v ssa.Value, depth int) {
				if v == nil || seen[v] || depth > 24 {
					return
				}
				seen[v] = true
				if call, ok := v.(*ssa.Call); ok {
					checkCall(&call.Call, p.InstrPos(call), 0)
					if nm := calleeName(&call.Call); nm == "(reflect.Value).MapKeys" || nm == "(*reflect.MapIter).Key" {
						return // the key itself: where the map came from is not part of the name's derivation
					}
				}
				if al, ok := v.(*ssa.Alloc); ok {
					// a local array / cell (the varargs of a formatting call): what is stored into it
					for _, ref := range nonDebugRefs(al) {
						switch u := ref.(type) {
						case *ssa.Store:
							back(u.Val, depth+1)
						case *ssa.IndexAddr:
							for _, r2 := range nonDebugRefs(u) {
								if st, ok := r2.(*ssa.Store); ok {
									back(st.Val, depth+1)
								}
							}
						}
					}
				}
				if in, ok := v.(ssa.Instruction); ok {
					for _, op := range in.Operands(nil) {
						if op != nil && *op != nil {
							back(*op, depth+1)
						}
					}
				}
			}
			back(lk.Index, 0)
			construct := p.ShortFn(f) + ":skip-identity"
			if !sawKey {
				r.Und(rule, construct, p.InstrPos(in), "the name looked up in filteredFields is not derived from a key of the swept map")
				return
			}
			r.Check(erased == "", rule, construct, p.InstrPos(in), "the name looked up in filteredFields comes from the key's own typed accessors",
				"the name under which the sweep looks a map key up among the already filtered fields is derived through "+erased+", which erases the key's dynamic type: two different keys (\"1\" and 1 under an interface-typed key, struct keys that print alike) share a name, so an entry no tag handled is skipped with its plaintext in place, or a handled public one is swept and redacted")
		})
	}
	if n < 1 {
		r.Und(rule, "skip-identity:instance-floor", "", "no lookup in tMap.filteredFields found (1 confirmed by hand: processUnfiltered)")
	}
}

// ruleNilHandle (C03.private <fn>:nil-handle): FileSink.f is nil whenever the sink has no file
// of its own — before the first event, after a failed open or close, and ALWAYS for the
// /dev/stdout and /dev/stderr specials (open and reopen return nil without opening anything).
// Writing to a nil *os.File is harmless (os.ErrInvalid), but the methods that read the struct
// without the validity check — (*os.File).Name — dereference it: such a call sits on the true
// side of a test "fs.f != nil" of the same function, with no store to the field and no call
// that may store it in between. A sink runs in a goroutine created by Send, so the nil
// dereference cannot be recovered by the caller: the process dies.
func (c *Ctx) ruleNilHandle(rule string) {
	p, r := c.P, c.R
	unsafe := map[string]bool{"(*os.File).Name": true}
	isHandleLoad := func(v ssa.Value) (*ssa.FieldAddr, bool) {
		ld, ok := v.(*ssa.UnOp)
		if !ok || ld.Op != token.MUL {
			return nil, false
		}
		fa, ok := ld.X.(*ssa.FieldAddr)
		if !ok || typeShort(fa.X.Type()) != "eventlogger.FileSink" || fieldName(fa) != "f" {
			return nil, false
		}
		return fa, true
	}
	mayStore := func(in ssa.Instruction) bool {
		switch x := in.(type) {
		case *ssa.Store:
			if fa, ok := x.Addr.(*ssa.FieldAddr); ok && typeShort(fa.X.Type()) == "eventlogger.FileSink" && fieldName(fa) == "f" {
				return true
			}
		case ssa.CallInstruction:
			if sc := x.Common().StaticCallee(); sc != nil && sc.Signature.Recv() != nil && typeShort(sc.Signature.Recv().Type()) == "eventlogger.FileSink" {
				return true
			}
		}
		return false
	}
	n := 0
	// when the handle is not a concrete *os.File but an interface (a seam for tests), a nil handle is a nil
	// interface: EVERY method call on it, and every call that is handed it to write to, dereferences nil
	ifaceHandle := false
	if fsT := p.Named(PkgRoot, "FileSink"); fsT != nil {
		if st, ok := fsT.Underlying().(*types.Struct); ok {
			for i := 0; i < st.NumFields(); i++ {
				if st.Field(i).Name() == "f" && types.IsInterface(st.Field(i).Type()) {
					ifaceHandle = true
				}
			}
		}
	}
	for _, f := range p.FuncsIn(PkgRoot) {
		for _, ci := range callsTo(f, func(nm string, cc *ssa.CallCommon) bool {
			if unsafe[nm] {
				return true
			}
			if !ifaceHandle {
				return false
			}
			if cc.IsInvoke() {
				_, ok := isHandleLoad(cc.Value)
				return ok
			}
			for _, a := range cc.Args {
				v := a
				if mi, ok := v.(*ssa.MakeInterface); ok {
					v = mi.X
				}
				if ch, ok := v.(*ssa.ChangeInterface); ok {
					v = ch.X
				}
				if _, ok := isHandleLoad(v); ok {
					return true
				}
			}
			return false
		}) {
			args := ci.Common().Args
			if ci.Common().IsInvoke() {
				args = append([]ssa.Value{ci.Common().Value}, args...)
			}
			hit := false
			for _, a := range args {
				v := a
				if mi, ok := v.(*ssa.MakeInterface); ok {
					v = mi.X
				}
				if ch, ok := v.(*ssa.ChangeInterface); ok {
					v = ch.X
				}
				if _, ok := isHandleLoad(v); ok {
					hit = true
				}
			}
			if !hit {
				continue
			}
			n++
			guarded := false
			for _, b := range f.Blocks {
				cond, t, fb := condOf(b)
				bo, ok := cond.(*ssa.BinOp)
				if !ok || (bo.Op != token.NEQ && bo.Op != token.EQL) {
					continue
				}
				x, y := bo.X, bo.Y
				if isNilConst(x) {
					x, y = y, x
				}
				if !isNilConst(y) {
					continue
				}
				if _, ok := isHandleLoad(x); !ok {
					continue
				}
				side := t
				if bo.Op == token.EQL {
					side = fb
				}
				if !edgeDominates(b, side, ci.Block()) {
					continue
				}
				// nothing between the test and the call may replace the handle
				clean := true
				reach := reachableFrom(side)
				reach[side] = true
				for _, bb := range f.Blocks {
					if !reach[bb] || !side.Dominates(bb) {
						continue
					}
					if bb != ci.Block() && !reachableFrom(bb)[ci.Block()] {
						continue
					}
					for _, in := range bb.Instrs {
						if bb == ci.Block() && instrIndex(in) >= instrIndex(ci) {
							break
						}
						if mayStore(in) {
							clean = false
						}
					}
				}
				if clean {
					guarded = true
				}
			}
			r.Check(guarded, rule, p.ShortFn(f)+":nil-handle:"+calleeName(ci.Common()), p.InstrPos(ci), "called on the sink's handle only where the same function found it non-nil",
				calleeName(ci.Common())+" dereferences its receiver, and FileSink.f has not been found non-nil here: the handle is nil before the first open, after a failed open and always for the /dev/stdout and /dev/stderr specials (reopen returns nil without opening) — the nil dereference happens in a goroutine created by Send and takes the process down")
		}
	}
	if n < 1 {
		r.Und(rule, "nil-handle:instance-floor", "", "no dereferencing call on FileSink.f found (1 confirmed by hand: reopen's os.Stat(fs.f.Name()))")
	}
}

// ensuresFieldNonNil: every path through the method tests the receiver's field against nil and
// stores a non-nil value into it on the nil side; nothing stores nil into it.
func ensuresFieldNonNil(fn *ssa.Function, field int) bool {
	if len(fn.Params) == 0 {
		return false
	}
	recv := ssa.Value(fn.Params[0])
	isField := func(v ssa.Value) bool {
		fa, ok := v.(*ssa.FieldAddr)
		return ok && fa.X == recv && fa.Field == field
	}
	ok := false
	for _, b := range fn.Blocks {
		cond, ts, fs := condOf(b)
		bo, isB := cond.(*ssa.BinOp)
		if !isB || (bo.Op != token.EQL && bo.Op != token.NEQ) || !isNilConst(bo.Y) {
			continue
		}
		ld, isL := bo.X.(*ssa.UnOp)
		if !isL || ld.Op != token.MUL || !isField(ld.X) {
			continue
		}
		nilSide := ts
		if bo.Op == token.NEQ {
			nilSide = fs
		}
		stores := false
		for _, x := range nilSide.Instrs {
			if st, isSt := x.(*ssa.Store); isSt && isField(st.Addr) && !isNilConst(st.Val) {
				stores = true
			}
		}
		if !stores {
			continue
		}
		all := true
		for _, ret := range Returns(fn) {
			if !b.Dominates(ret.Block()) {
				all = false
			}
		}
		if all {
			ok = true
		}
	}
	eachInstr(fn, func(in ssa.Instruction) {
		if st, isSt := in.(*ssa.Store); isSt && isField(st.Addr) && isNilConst(st.Val) {
			ok = false
		}
	})
	return ok
}

// ruleNoWaitUnderLock (C12.wait <fn>:wait-under-lock): nothing in package eventlogger WAITS for
// other goroutines while the registry lock may be held — no WaitGroup.Wait, Cond.Wait, time.Sleep,
// channel receive / send or blocking select. What is waited for runs node code, and node code may
// call back into the Broker: its RLock queues behind the held (or a queued) write lock, so the
// wait never ends and every later Broker call blocks for good (a drain of in-flight events in
// RemovePipelineAndNodes, say).
func (c *Ctx) ruleNoWaitUnderLock(rule, class string) {
	p, r := c.P, c.R
	may := c.MayLocks()
	n, bad := 0, 0
	for _, f := range p.FuncsIn(PkgRoot) {
		eachInstr(f, func(in ssa.Instruction) {
			what := ""
			switch x := in.(type) {
			case *ssa.Call:
				switch calleeName(&x.Call) {
				case "(*sync.WaitGroup).Wait", "(*sync.Cond).Wait", "time.Sleep":
					what = calleeName(&x.Call)
				}
			case *ssa.Select:
				if x.Blocking {
					what = "blocking select"
				}
			case *ssa.UnOp:
				if x.Op == token.ARROW {
					what = "channel receive"
				}
			case *ssa.Send:
				what = "channel send"
			}
			if what == "" {
				return
			}
			n++
			if _, held := may.At(in)[class]; held {
				bad++
				r.Check(false, rule, p.ShortFn(f)+":wait-under-lock:"+what, p.InstrPos(in), "", what+" may run while "+class+" is held: what it waits for runs node code, and a node that calls back into the Broker queues behind the lock — neither returns, and the Broker stays locked for every later call")
			}
		})
	}
	if bad == 0 {
		r.Check(n >= 2, rule, "wait-under-lock", "", fmt.Sprintf("%d waiting operations in package eventlogger, none with %s possibly held", n, class), "fewer than 2 waiting operations found (the collector's select and the launcher's Wait expected)")
	}
}

// ruleKeyWriters (C16.atomic <fn>:who-may-rotate): the key material in force — Filter.Wrapper,
// HmacSalt, HmacInfo — is replaced only by a rotation: Rotate and the rotation arm of Process.
// No other method (Reopen, a reset hook, a lazy "restore") stores into them: "every event
// started later uses the new wrapper, salt and info" holds only while nothing else can put an
// older value back.
func (c *Ctx) ruleKeyWriters(rule string) {
	p, r := c.P, c.R
	n, bad := 0, 0
	for _, f := range p.FuncsIn(PkgEncrypt) {
		eachInstr(f, func(in ssa.Instruction) {
			st, ok := in.(*ssa.Store)
			if !ok {
				return
			}
			fa, ok := st.Addr.(*ssa.FieldAddr)
			if !ok || typeShort(fa.X.Type()) != "encrypt.Filter" || isFresh(fa.X) {
				return
			}
			nm := fieldName(fa)
			if nm != "Wrapper" && nm != "HmacSalt" && nm != "HmacInfo" {
				return
			}
			n++
			root := f
			for root.Parent() != nil {
				root = root.Parent()
			}
			okWho := root.Signature.Recv() != nil && typeShort(root.Signature.Recv().Type()) == "encrypt.Filter" && (root.Name() == "Rotate" || root.Name() == "Process")
			if !okWho {
				bad++
				r.Check(false, rule, p.ShortFn(f)+":who-may-rotate:"+nm, p.InstrPos(in), "", "Filter."+nm+" is assigned by "+p.ShortFn(f)+", which is neither Rotate nor the rotation arm of Process: key material that a rotation replaced can be put back (or changed) outside a rotation, so events started after the rotation are no longer protected with the new wrapper, salt and info")
			}
		})
	}
	if bad == 0 {
		r.Check(n >= 6, rule, "who-may-rotate", "", fmt.Sprintf("%d stores of Wrapper / HmacSalt / HmacInfo, all in Rotate or Process", n), fmt.Sprintf("only %d stores of the key material found (6 confirmed by hand: three in Rotate, three in the rotation arm)", n))
	}
}

// ruleUnwrapOnce (C10.exacttype <fn>:unwrap-once): the walkers of package encrypt take a value
// out of its interface and its pointer ONE level at a time, and remember what they took off in a
// flag (fPtr) so that the replacement they store has the type of what it replaces. No Elem() is
// applied to a loop-carried value (for { v = v.Elem() }): behind an arbitrary depth of pointers
// and interfaces one flag cannot say what to rebuild, and a **string or *interface{} entry is
// forwarded as *string — or SetMapIndex panics on a typed map.
func (c *Ctx) ruleUnwrapOnce(rule string) {
	p, r := c.P, c.R
	n, bad := 0, 0
	for _, f := range p.FuncsIn(PkgEncrypt) {
		for _, ci := range callsTo(f, func(nm string, cc *ssa.CallCommon) bool { return nm == "(reflect.Value).Elem" }) {
			call, ok := ci.(*ssa.Call)
			if !ok || len(call.Call.Args) == 0 {
				continue
			}
			n++
			if phi, isPhi := call.Call.Args[0].(*ssa.Phi); isPhi && flowsIntoPhi(call, phi) {
				bad++
				r.Check(false, rule, p.ShortFn(f)+":unwrap-once", p.InstrPos(call), "", "Elem() is applied to a value that is itself the result of an earlier round's Elem() (iterative unwrapping): how many pointer / interface levels were taken off is not recorded, so the replacement that is stored does not have the type of what it replaces (**string or *interface{} becomes *string; a typed map makes SetMapIndex panic)")
			}
		}
	}
	if bad == 0 {
		r.Check(n >= 10, rule, "unwrap-once", "", fmt.Sprintf("%d Elem() calls in package encrypt, none on a loop-carried value", n), fmt.Sprintf("only %d Elem() calls found in package encrypt (>= 10 confirmed by hand)", n))
	}
}

// ruleStructKindGuard (C09.kind <fn>:struct-kind): reflect's NumField / Field panic for a value
// that is not a struct. The field walk of package encrypt is handed whatever a Taggable payload
// is (a slice type or a named string may carry a Tags method): every NumField / Field call on a
// reflect.Value (or on its Type()) lies behind a test of that value's Kind() against
// reflect.Struct in the same function, so a value of another kind is an ERROR, not a panic in
// the pipeline's goroutine (F56).
func (c *Ctx) ruleStructKindGuard(rule string) {
	p, r := c.P, c.R
	n := 0
	for _, f := range p.FuncsIn(PkgEncrypt) {
		if strings.Contains(PkgPathOf(f), "/testing") {
			continue
		}
		flagged := map[ssa.Value]bool{}
		for _, ci := range callsTo(f, func(nm string, cc *ssa.CallCommon) bool {
			return nm == "(reflect.Value).NumField" || nm == "(reflect.Value).Field" || nm == "invoke reflect.Type.NumField" || nm == "invoke reflect.Type.Field"
		}) {
			call, ok := ci.(*ssa.Call)
			if !ok {
				continue
			}
			// the reflect.Value concerned: the receiver, or the receiver of the Type() call
			var val ssa.Value
			if call.Call.IsInvoke() {
				if tc, ok := call.Call.Value.(*ssa.Call); ok && calleeName(&tc.Call) == "(reflect.Value).Type" && len(tc.Call.Args) > 0 {
					val = tc.Call.Args[0]
				}
			} else if len(call.Call.Args) > 0 {
				val = call.Call.Args[0]
			}
			if val == nil {
				continue
			}
			n++
			guarded := false
			for _, b := range f.Blocks {
				cond, ts, fs := condOf(b)
				bo, isB := cond.(*ssa.BinOp)
				if !isB || (bo.Op != token.EQL && bo.Op != token.NEQ) {
					continue
				}
				kc, kv := bo.X, bo.Y
				if _, isC := kc.(*ssa.Const); isC {
					kc, kv = kv, kc
				}
				k, isConst := constInt(kv)
				kcall, isCall := kc.(*ssa.Call)
				if !isConst || k != int64(reflect.Struct) || !isCall || calleeName(&kcall.Call) != "(reflect.Value).Kind" || len(kcall.Call.Args) == 0 || kcall.Call.Args[0] != val {
					continue
				}
				structSide := ts
				if bo.Op == token.NEQ {
					structSide = fs
				}
				if edgeDominates(b, structSide, call.Block()) {
					guarded = true
				}
			}
			if !guarded && !flagged[val] {
				flagged[val] = true
				r.Check(false, rule, p.ShortFn(f)+":struct-kind", p.InstrPos(call), "", calleeName(&call.Call)+" is called on a reflect.Value whose Kind() was not found to be reflect.Struct in this function: a Taggable payload of another kind (a slice type or a named string with a Tags method) reaches the field walk and panics inside the pipeline's goroutine instead of failing with an error")
			}
		}
	}
	if n < 4 {
		r.Und(rule, "struct-kind:instance-floor", "", fmt.Sprintf("only %d NumField / Field calls found in package encrypt (>= 4 confirmed by hand, all in filterField)", n))
	}
	bad := false
	for _, o := range r.Obls {
		if o.Rule == rule && strings.HasSuffix(o.Construct, ":struct-kind") && o.Status != "ok" {
			bad = true
		}
	}
	if !bad && n >= 4 {
		r.Check(true, rule, "struct-kind", "", fmt.Sprintf("%d NumField / Field calls, each behind a Kind() == Struct test of its value", n), "")
	}
}

// ruleRejectCauses (C05.exact RegisterPipeline:failure-causes): RegisterPipeline succeeds EXACTLY when
// the listed conditions hold, so it fails only for the listed reasons. Every return of a non-nil
// error in RegisterPipeline is controlled by one of: a failed definition check (validate), a rejected
// option (getOpts), an existing pipeline that forbids overwriting, a listed node that is not
// registered, a linking failure, or the structural validator's verdict. A return behind any other
// condition (a count of formatters, a name pattern, a size limit) rejects definitions the property
// says are registered.
func (c *Ctx) ruleRejectCauses(rule string) {
	p, r := c.P, c.R
	fn := c.Fn(rule, PkgRoot, "Broker", "RegisterPipeline")
	if fn == nil {
		return
	}
	// the locked body may live in a helper that holds the Store
	isStore := func(n string, cc *ssa.CallCommon) bool { return n == "(*eventlogger.graphMap).Store" }
	fns := []*ssa.Function{fn}
	if len(callsTo(fn, isStore)) == 0 {
		for _, ci := range callsTo(fn, func(n string, cc *ssa.CallCommon) bool {
			sc := cc.StaticCallee()
			return sc != nil && sc.Blocks != nil && PkgPathOf(sc) == PkgRoot && len(callsTo(sc, isStore)) > 0
		}) {
			fns = append(fns, ci.Common().StaticCallee())
		}
	}
	known := map[string]bool{"(eventlogger.Pipeline).validate": true, "eventlogger.getOpts": true, "eventlogger.linkNodes": true, "(*eventlogger.graph).doValidate": true}
	n, bad := 0, 0
	var examine func(f *ssa.Function, depth int, report bool) (int, int)
	examine = func(f *ssa.Function, depth int, report bool) (n int, bad int) {
		tb := p.NewTerms(nil)
		errIdx, hasErr := returnsError(f.Signature)
		if !hasErr {
			return 0, 0
		}
		helperCause := func(x *ssa.BinOp, onTrue bool) (int, int) {
			if (x.Op == token.NEQ) != onTrue || depth >= 2 {
				return 0, 0
			}
			v := x.X
			if isNilConst(v) {
				v = x.Y
			}
			if ex, ok := v.(*ssa.Extract); ok {
				v = ex.Tuple
			}
			call, ok := v.(*ssa.Call)
			if !ok {
				return 0, 0
			}
			sc := call.Call.StaticCallee()
			if sc == nil || sc.Blocks == nil || PkgPathOf(sc) != PkgRoot || sc == f {
				return 0, 0
			}
			return examine(sc, depth+1, false)
		}
		for _, ret := range Returns(f) {
			rv := RetVals(ret)
			if errIdx >= len(rv) || isNilConst(rv[errIdx]) {
				continue
			}
			// a failure handed up from a helper of the module that was itself examined here
			if call, ok := rv[errIdx].(*ssa.Call); ok {
				isHelper := false
				for _, g := range fns {
					if call.Call.StaticCallee() == g {
						isHelper = true
					}
				}
				if isHelper {
					continue
				}
			}
			n++
			cause := ""
			for b := ret.Block(); b != nil && cause == ""; b = b.Idom() {
				d := b.Idom()
				if d == nil {
					break
				}
				cond, ts, fs := condOf(d)
				if cond == nil || !(edgeDominates(d, ts, ret.Block()) || edgeDominates(d, fs, ret.Block())) {
					continue
				}
				onTrue := edgeDominates(d, ts, ret.Block())
				switch x := cond.(type) {
				case *ssa.BinOp:
					xt, yt := tb.Of(x.X), tb.Of(x.Y)
					src := xt
					if xt.Is("Const", "nil") {
						src = yt
					}
					if (x.Op == token.NEQ || x.Op == token.EQL) && (xt.Is("Const", "nil") || yt.Is("Const", "nil")) {
						name := src.Name
						if src.Op == "Extract" && len(src.Args) == 1 {
							name = src.Args[0].Name
						}
						if known[name] && ((x.Op == token.NEQ) == onTrue) {
							cause = name
						} else if hn, hb := helperCause(x, onTrue); hn > 0 && hb == 0 {
							// a helper of the package every failing return of which has a listed cause itself
							cause = name
							n += hn
						} else {
							cause = "?" + src.String()
						}
					} else if x.Op == token.EQL && onTrue && (yt.Is("Const", `"DenyOverwrite"`) || xt.Is("Const", `"DenyOverwrite"`)) {
						cause = "deny-overwrite"
					} else {
						cause = "?" + tb.Of(cond).String()
					}
				case *ssa.Extract:
					t := tb.Of(x)
					if x.Index == 1 && !onTrue && len(t.Args) == 1 && t.Args[0].Op == "Lookup" && t.Args[0].Args[0].Is("Field", "nodes") {
						cause = "node-not-registered"
					} else {
						cause = "?" + t.String()
					}
				default:
					cause = "?" + tb.Of(cond).String()
				}
			}
			if cause == "" {
				cause = "?unconditional"
			}
			if strings.HasPrefix(cause, "?") {
				bad++
				if report {
					r.Check(false, rule, "RegisterPipeline:failure-causes", p.InstrPos(ret), "", "RegisterPipeline returns an error behind the condition "+shortStr(cause[1:], 160)+", which is none of the reasons the property lists (invalid definition, rejected option, DenyOverwrite of the existing pipeline, unregistered node, linking, structural validation): a definition that meets all listed conditions is refused")
				}
			}
		}
		return n, bad
	}
	for _, f := range fns {
		fn, fb := examine(f, 0, true)
		n, bad = n+fn, bad+fb
	}
	if bad == 0 {
		r.Check(n >= 6, rule, "RegisterPipeline:failure-causes", p.Pos(fn.Pos()), fmt.Sprintf("%d failing returns, each behind one of the six listed causes", n), fmt.Sprintf("only %d failing returns found in RegisterPipeline (6 confirmed by hand)", n))
	}
}

// ruleStructArmRecurses (C09.handlers filterField:struct-arm-unconditional): once the field walk has
// found a field to be a struct, it walks INTO it — on every path from the positive kind test to
// the next field (or to a successful return) lies the recursive call. What the field's own tag
// says (public, say) classifies that field, not the fields of the struct it holds.
func (c *Ctx) ruleStructArmRecurses(rule string) {
	p, r := c.P, c.R
	fn := c.Fn(rule, PkgEncrypt, "Filter", "filterField")
	if fn == nil {
		return
	}
	n := 0
	for _, b := range fn.Blocks {
		cond, ts, _ := condOf(b)
		bo, ok := cond.(*ssa.BinOp)
		if !ok || bo.Op != token.EQL {
			continue
		}
		k, isC := constInt(bo.Y)
		if !isC || k != int64(reflect.Struct) {
			continue
		}
		kc, isCall := bo.X.(*ssa.Call)
		if !isCall || calleeName(&kc.Call) != "(reflect.Value).Kind" {
			if _, isPhi := bo.X.(*ssa.Phi); !isPhi {
				continue
			}
		}
		// only the arm whose region contains a recursive call, or none at all but is the field arm (loop body)
		if innermostHeader(b) == nil {
			continue
		}
		n++
		hdr := innermostHeader(b)
		// walk from the arm's entry without passing a block that contains the recursive call
		hasRec := func(blk *ssa.BasicBlock) bool {
			for _, in := range blk.Instrs {
				if ci, ok := in.(*ssa.Call); ok && ci.Call.StaticCallee() == fn {
					return true
				}
			}
			return false
		}
		seen := map[*ssa.BasicBlock]bool{}
		escape := ""
		var walk func(blk *ssa.BasicBlock)
		walk = func(blk *ssa.BasicBlock) {
			if seen[blk] || escape != "" {
				return
			}
			seen[blk] = true
			if hasRec(blk) {
				return
			}
			if blk == hdr {
				escape = "the next field"
				return
			}
			if ret, ok := lastInstr(blk).(*ssa.Return); ok {
				if rv := RetVals(ret); len(rv) > 0 && isNilConst(rv[len(rv)-1]) {
					escape = "a successful return at " + p.InstrPos(ret)
				}
				return
			}
			for _, s := range blk.Succs {
				walk(s)
			}
		}
		walk(ts)
		r.Check(escape == "", rule, "filterField:struct-arm-unconditional", p.InstrPos(lastInstr(b)), "a field found to be a struct is always walked into", "a field found to be a struct can be left for "+escape+" without being walked into (the recursive call is skipped on some path): whatever the skipped struct holds — secret and sensitive fields, untagged strings, maps — is forwarded in plaintext")
	}
	if n < 1 {
		r.Und(rule, "struct-arm:instance-floor", "", "no struct-kind arm found in the field loop of filterField")
	}
}

// ruleFormatBytesReadOnly (<rule> <fn>:format-bytes-readonly): the slice Event.Format hands a sink is the
// stored entry itself — the one every other sink of the Send writes out, and the one this sink's own
// retry writes again. A sink never writes into it: no clear, copy into it, element store or append onto
// a re-slice of it, neither directly nor in a helper it is passed to (an "excerpt" for an error message
// built with append(val[:64], "..."...) puts the dots INTO the event).
func (c *Ctx) ruleFormatBytesReadOnly(rule string) {
	p, r := c.P, c.R
	n, bad := 0, 0
	for _, f := range p.FuncsIn(PkgRoot, PkgWriter, PkgChannel) {
		if f.Parent() != nil {
			continue
		}
		for _, ci := range callsTo(f, func(nm string, cc *ssa.CallCommon) bool { return nm == "(*eventlogger.Event).Format" }) {
			call, ok := ci.(*ssa.Call)
			if !ok {
				continue
			}
			var val ssa.Value
			for _, ref := range nonDebugRefs(call) {
				if ex, ok := ref.(*ssa.Extract); ok && ex.Index == 0 {
					val = ex
				}
			}
			if val == nil {
				continue
			}
			n++
			c.writesInPlace(f, true, func(in ssa.Instruction, target ssa.Value, _ bool) {
				if keyRoot(target) != val {
					return
				}
				bad++
				r.Check(false, rule, p.ShortFn(f)+":format-bytes-readonly", p.InstrPos(in), "", "the bytes Event.Format handed out (the stored entry itself) are written in place: what this sink's retry writes, and what every other sink of the same event writes, is no longer what the formatter stored")
			})
		}
	}
	if bad == 0 {
		r.Check(n >= 2, rule, "format-bytes-readonly", "", fmt.Sprintf("%d sinks fetch the stored bytes with Event.Format, none writes into them", n), fmt.Sprintf("only %d calls of Event.Format found in the sink packages (2 confirmed by hand: FileSink, writer.Sink)", n))
	}
}

// ruleNoHashOfUserValues (C03.private <fn>:panic-site:hash): package eventlogger never hashes or compares a
// value whose dynamic type a user chooses — no map keyed by an interface type or by a struct that holds
// one (a warning keyed by {node id, error}), no == between two interface values: hashing an error that
// is a slice or a map type (an error list) panics, in the collector that is Send itself.
func (c *Ctx) ruleNoHashOfUserValues(rule string) {
	p, r := c.P, c.R
	var holdsIface func(t types.Type, d int) bool
	holdsIface = func(t types.Type, d int) bool {
		if d > 4 {
			return false
		}
		switch u := t.Underlying().(type) {
		case *types.Interface:
			return true
		case *types.Struct:
			for i := 0; i < u.NumFields(); i++ {
				if holdsIface(u.Field(i).Type(), d+1) {
					return true
				}
			}
		case *types.Array:
			return holdsIface(u.Elem(), d+1)
		}
		return false
	}
	n, bad := 0, 0
	for _, f := range p.FuncsIn(PkgRoot) {
		eachInstr(f, func(in ssa.Instruction) {
			var mt *types.Map
			switch x := in.(type) {
			case *ssa.MapUpdate:
				mt, _ = x.Map.Type().Underlying().(*types.Map)
			case *ssa.Lookup:
				mt, _ = x.X.Type().Underlying().(*types.Map)
			case *ssa.BinOp:
				if (x.Op == token.EQL || x.Op == token.NEQ) && types.IsInterface(x.X.Type()) && types.IsInterface(x.Y.Type()) && !isNilConst(x.X) && !isNilConst(x.Y) {
					// two interface values compared: only error == sentinel comparisons of the library's own sentinels are expected
					n++
					_, xg := x.X.(*ssa.UnOp)
					_, yg := x.Y.(*ssa.UnOp)
					if !xg && !yg {
						bad++
						r.Check(false, rule, p.ShortFn(f)+":panic-site:compare", p.InstrPos(in), "", "two interface values are compared with == : when both hold the same non-comparable dynamic type (a slice- or map-based error) the comparison panics")
					}
				}
				return
			default:
				return
			}
			if mt == nil {
				return
			}
			n++
			if holdsIface(mt.Key(), 0) {
				bad++
				r.Check(false, rule, p.ShortFn(f)+":panic-site:hash", p.InstrPos(in), "", "a map keyed by "+typeShort(mt.Key())+", which holds an interface value, is read or written: hashing the key hashes the dynamic value a user chose (an error returned by a node, a payload) and panics for a type that is not comparable — a slice- or map-based error list takes Send down")
			}
		})
	}
	if bad == 0 {
		r.Check(n >= 5, rule, "panic-site:hash", "", fmt.Sprintf("%d map accesses / interface comparisons in package eventlogger, none over a user-chosen dynamic type", n), fmt.Sprintf("only %d map accesses found in package eventlogger (>= 5 confirmed by hand)", n))
	}
}

// ruleNodeNotFormatted (C04.escape <fn>:node-formatted): the Broker never hands a registered Node (or a
// record that holds one) to a reflective reader — fmt's %v / %+v / %s verbs, Sprint, json.Marshal. Such a
// reader walks the node's fields without the node's own lock while a Send that has long released the
// Broker's lock runs the node's Process (FileSink.BytesWritten, LastCreated, f …), and calls a String /
// Error method of user code under Broker.lock.
func (c *Ctx) ruleNodeNotFormatted(rule string) {
	p, r := c.P, c.R
	isNodeish := func(t types.Type) bool {
		ts := typeShort(t)
		return ts == "eventlogger.Node" || ts == "eventlogger.linkedNode" || ts == "eventlogger.nodeUsage" || ts == "eventlogger.registeredPipeline" || ts == "eventlogger.unregisteredNode"
	}
	n, bad := 0, 0
	for _, f := range p.FuncsIn(PkgRoot) {
		eachInstr(f, func(in ssa.Instruction) {
			ci, ok := in.(ssa.CallInstruction)
			if !ok {
				return
			}
			name := calleeName(ci.Common())
			if !(strings.HasPrefix(name, "fmt.") || name == "encoding/json.Marshal" || strings.HasPrefix(name, "log.")) {
				return
			}
			n++
			// the values handed over: direct args and what is stored into the varargs array
			var vals []ssa.Value
			for _, a := range ci.Common().Args {
				vals = append(vals, a)
				if sl, ok := a.(*ssa.Slice); ok {
					if al, ok := sl.X.(*ssa.Alloc); ok {
						for _, ref := range nonDebugRefs(al) {
							if ia, ok := ref.(*ssa.IndexAddr); ok {
								for _, r2 := range nonDebugRefs(ia) {
									if st, ok := r2.(*ssa.Store); ok {
										vals = append(vals, st.Val)
									}
								}
							}
						}
					}
				}
			}
			for _, v := range vals {
				for i := 0; i < 3; i++ {
					switch x := v.(type) {
					case *ssa.MakeInterface:
						v = x.X
					case *ssa.ChangeInterface:
						v = x.X
					}
				}
				if isNodeish(v.Type()) {
					bad++
					r.Check(false, rule, p.ShortFn(f)+":node-formatted", p.InstrPos(in), "", "a value of type "+typeShort(v.Type())+" is handed to "+name+": the formatter reads the node's fields by reflection (or calls its String / Error method) without the node's own lock — a data race with the node's Process in a Send that no longer holds the Broker's lock — and runs user code under Broker.lock")
					return
				}
			}
		})
	}
	if bad == 0 {
		r.Check(n >= 10, rule, "node-formatted", "", fmt.Sprintf("%d formatting calls in package eventlogger, none is handed a Node", n), fmt.Sprintf("only %d formatting calls found in package eventlogger (>= 10 confirmed by hand)", n))
	}
}

// ruleNoLockInStringer (C12.stringer <method>): the methods fmt calls on its own — String, Error, GoString,
// Format, MarshalText / MarshalJSON — of a type that guards its state with a mutex never take that mutex:
// they are invoked wherever a value is formatted, also by an fmt.Errorf in a method of the same type
// that holds the lock (an error carrying the filter, printed with %s), and then the goroutine waits for
// itself — every later call on the node, and the Broker call that closes it, blocks for good.
func (c *Ctx) ruleNoLockInStringer(rule string) {
	p, r := c.P, c.R
	may := c.MayLocks()
	names := map[string]bool{"String": true, "Error": true, "GoString": true, "Format": true, "MarshalText": true, "MarshalJSON": true}
	n, bad := 0, 0
	for _, f := range p.RepoFuncs() {
		if p.InCtl(f) || f.Parent() != nil || f.Signature.Recv() == nil || !names[f.Name()] {
			continue
		}
		// the signatures fmt / encoding look for: no parameters (Format: fmt.State and a rune)
		if np := f.Signature.Params().Len(); (f.Name() == "Format" && np != 2) || (f.Name() != "Format" && np != 0) {
			continue
		}
		n++
		acquired := ""
		eachInstr(f, func(in ssa.Instruction) {
			if ci, ok := in.(ssa.CallInstruction); ok {
				if op := lockOpOf(ci.Common()); op != nil && op.Acquire && acquired == "" {
					acquired = op.Class + " at " + p.InstrPos(in)
				}
				// one level into the module: a helper that takes the lock
				if sc := ci.Common().StaticCallee(); sc != nil && sc.Blocks != nil && p.InRepo(sc) && acquired == "" {
					eachInstr(sc, func(x ssa.Instruction) {
						if cx, ok := x.(ssa.CallInstruction); ok {
							if op := lockOpOf(cx.Common()); op != nil && op.Acquire && acquired == "" {
								acquired = op.Class + " in " + p.ShortFn(sc)
							}
						}
					})
				}
			}
		})
		_ = may
		if acquired != "" {
			bad++
			r.Check(false, rule, p.ShortFn(f), p.Pos(f.Pos()), "", "the method fmt calls on its own ("+f.Name()+") acquires "+acquired+": a value of this type that is formatted while that lock is held (an error that carries it, built with fmt.Errorf in a locked method) makes the goroutine wait for itself — the node, and every Broker call that reaches it, blocks for good")
		}
	}
	if bad == 0 {
		r.Check(n >= 1, rule, "stringer", "", fmt.Sprintf("%d String / Error / Marshal methods in the module, none takes a lock", n), "no String / Error method found in the module")
	}
}

// pooledScratch recognises the scratch-buffer idiom a pooled buffer may be used in without
// any byte of one event reaching another: v is `pool.Get().(*bytes.Buffer)` for a
// package-level sync.Pool that only ever holds *bytes.Buffer (its New, every Put), the
// buffer is Reset before anything else is done with it, it is used only through its own
// methods and as the writer of a json encoder, it goes nowhere but back into the pool, and
// its contents leave the function only as fresh copies (bytes.Clone, append onto nil,
// String()). Anything else — no Reset, Bytes() handed on as it is, the buffer stored or
// passed along — is not this idiom, and the caller's rule reports it.
func (c *Ctx) pooledScratch(v ssa.Value) bool {
	ta, ok := v.(*ssa.TypeAssert)
	if !ok || ta.CommaOk || !isPtrBuffer(ta.AssertedType) {
		return false
	}
	get, ok := ta.X.(*ssa.Call)
	if !ok || calleeName(&get.Call) != "(*sync.Pool).Get" || len(get.Call.Args) != 1 {
		return false
	}
	g, ok := get.Call.Args[0].(*ssa.Global)
	if !ok || !c.bufferPool(g) {
		return false
	}
	var resets []ssa.Instruction
	var others []ssa.Instruction
	for _, ref := range nonDebugRefs(ta) {
		switch x := ref.(type) {
		case *ssa.Call:
			if x.Call.IsInvoke() || len(x.Call.Args) == 0 || x.Call.Args[0] != ssa.Value(ta) {
				return false
			}
			switch calleeName(&x.Call) {
			case "(*bytes.Buffer).Reset":
				resets = append(resets, x)
			case "(*bytes.Buffer).Bytes":
				for _, u := range nonDebugRefs(x) {
					uc, isCall := u.(*ssa.Call)
					fresh := isCall && (calleeName(&uc.Call) == "bytes.Clone" || calleeName(&uc.Call) == "builtin len" || freshCopyOf(uc, x))
					if cv, isConv := u.(*ssa.Convert); isConv {
						if b, isB := cv.Type().Underlying().(*types.Basic); isB && b.Kind() == types.String {
							fresh = true
						}
					}
					if !fresh {
						return false
					}
				}
				others = append(others, x)
			case "(*bytes.Buffer).String", "(*bytes.Buffer).Len", "(*bytes.Buffer).Write", "(*bytes.Buffer).WriteString", "(*bytes.Buffer).WriteByte", "(*bytes.Buffer).WriteRune", "(*bytes.Buffer).Truncate", "(*bytes.Buffer).Grow":
				others = append(others, x)
			default:
				return false
			}
		case *ssa.MakeInterface:
			// the writer of a json encoder, or the value that goes back into the pool
			for _, u := range nonDebugRefs(x) {
				switch y := u.(type) {
				case *ssa.Call:
					switch calleeName(&y.Call) {
					case "encoding/json.NewEncoder":
						others = append(others, y)
					case "(*sync.Pool).Put":
					default:
						return false
					}
				case *ssa.Defer:
					if calleeName(&y.Call) != "(*sync.Pool).Put" {
						return false
					}
				default:
					return false
				}
			}
		default:
			return false
		}
	}
	// a Reset comes before every other use
	for _, o := range others {
		dominated := false
		for _, rs := range resets {
			if rs.Block() == o.Block() {
				for _, in := range rs.Block().Instrs {
					if in == rs {
						dominated = true
						break
					}
					if in == o {
						break
					}
				}
			} else if rs.Block().Dominates(o.Block()) {
				dominated = true
			}
		}
		if !dominated {
			return false
		}
	}
	return len(resets) > 0
}

// bufferPool: g is a package-level sync.Pool whose New returns a *bytes.Buffer, into which only
// *bytes.Buffer values are Put, and which is used in no other way (not copied, not handed on).
func (c *Ctx) bufferPool(g *ssa.Global) bool {
	p := c.P
	if g.Type().String() != "*sync.Pool" {
		return false
	}
	okNew := false
	for _, f := range p.RepoFuncs() {
		bad := false
		eachInstr(f, func(in ssa.Instruction) {
			for _, op := range in.Operands(nil) {
				if op == nil || *op != ssa.Value(g) {
					continue
				}
				switch x := in.(type) {
				case *ssa.FieldAddr:
					// init: pool.New = func() interface{} { return new(bytes.Buffer) }
					if f.Name() != "init" {
						bad = true
						return
					}
					for _, u := range nonDebugRefs(x) {
						st, isSt := u.(*ssa.Store)
						if !isSt {
							bad = true
							return
						}
						var nf *ssa.Function
						switch fv := st.Val.(type) {
						case *ssa.Function:
							nf = fv
						case *ssa.MakeClosure:
							nf, _ = fv.Fn.(*ssa.Function)
						}
						if nf == nil {
							bad = true
							return
						}
						for _, ret := range Returns(nf) {
							rv := RetVals(ret)
							mi, isMI := rv[0].(*ssa.MakeInterface)
							if len(rv) != 1 || !isMI || !isPtrBuffer(mi.X.Type()) {
								bad = true
								return
							}
							okNew = true
						}
					}
				case ssa.CallInstruction:
					switch calleeName(x.Common()) {
					case "(*sync.Pool).Get":
					case "(*sync.Pool).Put":
						mi, isMI := x.Common().Args[1].(*ssa.MakeInterface)
						if !isMI || !isPtrBuffer(mi.X.Type()) {
							bad = true
						}
					default:
						bad = true
					}
				default:
					bad = true
				}
			}
		})
		if bad {
			return false
		}
	}
	return okNew
}

// poolUsesScratch: every Get on the pool g is used in the scratch idiom (pooledScratch).
func (c *Ctx) poolUsesScratch(g *ssa.Global) bool {
	n, ok := 0, true
	for _, f := range c.P.RepoFuncs() {
		for _, ci := range callsTo(f, func(nm string, cc *ssa.CallCommon) bool {
			return nm == "(*sync.Pool).Get" && len(cc.Args) == 1 && cc.Args[0] == ssa.Value(g)
		}) {
			n++
			call, isCall := ci.(*ssa.Call)
			if !isCall {
				ok = false
				continue
			}
			refs := nonDebugRefs(call)
			if len(refs) != 1 {
				ok = false
				continue
			}
			if ta, isTA := refs[0].(*ssa.TypeAssert); !isTA || !c.pooledScratch(ta) {
				ok = false
			}
		}
	}
	return ok && n > 0
}

// freshCopyOfScratch: v is bytes.Clone(buf.Bytes()) / append([]byte(nil), buf.Bytes()...) of a pooled
// scratch buffer (pooledScratch): a copy of its own, made before the buffer goes back.
func (c *Ctx) freshCopyOfScratch(v ssa.Value) bool {
	call, ok := v.(*ssa.Call)
	if !ok {
		return false
	}
	var src ssa.Value
	switch {
	case calleeName(&call.Call) == "bytes.Clone" && len(call.Call.Args) == 1:
		src = call.Call.Args[0]
	case calleeName(&call.Call) == "builtin append" && len(call.Call.Args) == 2 && isNilConst(call.Call.Args[0]):
		src = call.Call.Args[1]
	default:
		return false
	}
	bc, ok := src.(*ssa.Call)
	if !ok || calleeName(&bc.Call) != "(*bytes.Buffer).Bytes" || len(bc.Call.Args) != 1 {
		return false
	}
	return c.pooledScratch(bc.Call.Args[0])
}

func isPtrBuffer(t types.Type) bool { return t.String() == "*bytes.Buffer" }

// ruleAtomicValueStores (C03.private <fn>:panic-site:atomic-value): sync/atomic.Value panics when a
// value of another concrete type than the first one is stored. Every Store / Swap / CompareAndSwap
// on an atomic.Value in the two modules therefore stores a value whose concrete type is fixed in the
// source (a MakeInterface of a non-interface type), the same at every site of that Value. Storing an
// interface value (a wrapper, a node, an error someone configured) makes the type the caller's
// choice: the second implementation that comes along panics — in the goroutine of a Send.
func (c *Ctx) ruleAtomicValueStores(rule string) {
	p, r := c.P, c.R
	types_ := map[string]string{}
	for _, f := range p.RepoFuncs() {
		if p.InCtl(f) {
			continue
		}
		for _, ci := range callsTo(f, func(n string, cc *ssa.CallCommon) bool {
			return n == "(*sync/atomic.Value).Store" || n == "(*sync/atomic.Value).Swap" || n == "(*sync/atomic.Value).CompareAndSwap"
		}) {
			args := ci.Common().Args
			key := p.NewTerms(nil).Of(args[0]).String()
			if fa, ok := args[0].(*ssa.FieldAddr); ok {
				key = typeShort(fa.X.Type()) + "." + fieldName(fa)
			}
			for _, a := range args[1:] {
				mi, ok := a.(*ssa.MakeInterface)
				fixed := ok && !types.IsInterface(mi.X.Type())
				if fixed {
					t := mi.X.Type().String()
					if prev, seen := types_[key]; seen && prev != t {
						fixed = false
					} else {
						types_[key] = t
					}
				}
				r.Check(fixed, rule, p.ShortFn(f)+":panic-site:atomic-value", p.InstrPos(ci), "the value stored in the atomic.Value has one concrete type fixed in the source", "an interface value ("+shortStr(p.NewTerms(nil).Of(a).String(), 80)+") is stored in the atomic.Value "+key+": atomic.Value panics when the concrete type differs from the one stored first, and here the type is whatever the caller configured (a second wrapper implementation, say) — a panic inside a Broker call")
			}
		}
	}
}

// ruleHandoffPrivate (C06.close <fn>:handoff-private): what a locked section of the Broker hands to
// the code that runs after the lock is released — the list of nodes to close, a snapshot of graphs —
// is memory of that call alone. No method of Broker, graph or graphMap returns a slice or map that
// is (a re-slice of, an append onto) a field of the shared object: the next caller's locked section
// would overwrite the list while this one still works through it (nodes closed twice, others never).
func (c *Ctx) ruleHandoffPrivate(rule string) {
	p, r := c.P, c.R
	n := 0
	for _, f := range p.FuncsIn(PkgRoot) {
		recv := f.Signature.Recv()
		if recv == nil || f.Blocks == nil {
			continue
		}
		switch typeShort(recv.Type()) {
		case "eventlogger.Broker", "eventlogger.graph", "eventlogger.graphMap":
		default:
			continue
		}
		for _, ret := range Returns(f) {
			for _, v := range RetVals(ret) {
				switch v.Type().Underlying().(type) {
				case *types.Slice, *types.Map:
				default:
					continue
				}
				n++
				var bad ssa.Value
				seen := map[ssa.Value]bool{}
				var walk func(x ssa.Value)
				walk = func(x ssa.Value) {
					if x == nil || seen[x] || bad != nil {
						return
					}
					seen[x] = true
					switch y := x.(type) {
					case *ssa.Phi:
						for _, e := range y.Edges {
							walk(e)
						}
					case *ssa.Slice:
						walk(y.X)
					case *ssa.Call:
						if calleeName(&y.Call) == "builtin append" && len(y.Call.Args) > 0 {
							walk(y.Call.Args[0])
						}
					case *ssa.UnOp:
						if y.Op == token.MUL {
							if fa, ok := y.X.(*ssa.FieldAddr); ok && isParamValue(fa.X, f.Params[0]) {
								bad = y
								return
							}
							// a local cell (named result, spilled variable): follow what is stored into it
							if al, ok := y.X.(*ssa.Alloc); ok {
								for _, ref := range nonDebugRefs(al) {
									if st, isSt := ref.(*ssa.Store); isSt && st.Addr == ssa.Value(al) {
										walk(st.Val)
									}
								}
							}
						}
					}
				}
				walk(v)
				r.Check(bad == nil, rule, p.ShortFn(f)+":handoff-private", p.InstrPos(ret), "the slice / map handed back is memory of this call", "the method hands back "+shortStr(p.NewTerms(nil).Of(v).String(), 100)+", which is (built on) a field of the shared "+typeShort(recv.Type())+": the caller works through it after the lock is released while the next call's locked section rewrites the same backing array — entries of one removal are replaced by another's (nodes closed twice, others never closed)")
			}
		}
	}
	if n < 1 {
		r.Und(rule, "handoff-private:instance-floor", "", "no slice / map result of a Broker / graph / graphMap method found (the list of removed nodes at least)")
	}
}

// ruleElementLoops (C09.elements <fn>:whole-range): every element of a slice the walk filters is
// visited: each reflect Index(i) call of the encrypt package sits in a loop whose counter starts
// at 0, moves by 1 and runs up to the Len() of the very value that is indexed. A loop over a run
// [from, to) handed in from elsewhere (worker partitions, batches) is not decided here — whether the
// runs add up to the whole slice is arithmetic this check does not do — and is reported.
func (c *Ctx) ruleElementLoops(rule string) {
	p, r := c.P, c.R
	n := 0
	for _, f := range p.FuncsIn(PkgEncrypt) {
		for _, ci := range callsTo(f, func(nm string, cc *ssa.CallCommon) bool { return nm == "(reflect.Value).Index" }) {
			call, ok := ci.(*ssa.Call)
			if !ok {
				continue
			}
			n++
			args := call.Call.Args
			idx := args[1]
			ok, why := false, "the index is not a loop counter"
			if phi, isPhi := idx.(*ssa.Phi); isPhi && len(phi.Edges) == 2 {
				var start, step ssa.Value
				for _, e := range phi.Edges {
					if bo, isBo := e.(*ssa.BinOp); isBo && bo.Op == token.ADD && bo.X == ssa.Value(phi) {
						step = bo.Y
					} else {
						start = e
					}
				}
				s0, okS := constInt(start)
				s1, okT := constInt(step)
				switch {
				case start == nil || step == nil || !okS || s0 != 0:
					why = "the counter does not start at the constant 0"
				case !okT || s1 != 1:
					why = "the counter does not move by 1"
				default:
					// the loop's exit test: i < Len(value) (Len read in the header or hoisted before the loop)
					why = "no test of the counter against the Len() of the indexed value"
					for _, ref := range nonDebugRefs(phi) {
						bo, isBo := ref.(*ssa.BinOp)
						if !isBo || bo.Op != token.LSS || bo.X != ssa.Value(phi) {
							continue
						}
						lim := bo.Y
						if lc, isCall := lim.(*ssa.Call); isCall && calleeName(&lc.Call) == "(reflect.Value).Len" && sameReflectValue(lc.Call.Args[0], args[0]) {
							ok = true
						}
					}
				}
			}
			r.Check(ok, rule, p.ShortFn(f)+":whole-range", p.InstrPos(call), "the element is read in a loop from 0 to Len() of the indexed value, step 1", "an element is read with Index outside a whole-range loop ("+why+"): elements the loop does not reach are forwarded as they came in — in the clear")
		}
	}
	if n < 1 {
		r.Und(rule, "whole-range:instance-floor", "", "no reflect Index call found in package encrypt (the element loop of filterSlice at least)")
	}
}

// sameReflectValue: two operands denote the same reflect.Value (the same register, or loads of the same cell).
func sameReflectValue(a, b ssa.Value) bool {
	if a == b {
		return true
	}
	la, okA := a.(*ssa.UnOp)
	lb, okB := b.(*ssa.UnOp)
	return okA && okB && la.Op == token.MUL && lb.Op == token.MUL && la.X == lb.X
}

// isParamValue: v is the parameter, or a load of the cell it was spilled into (a parameter a closure captures).
func isParamValue(v ssa.Value, par *ssa.Parameter) bool {
	if v == ssa.Value(par) {
		return true
	}
	ld, ok := v.(*ssa.UnOp)
	if !ok || ld.Op != token.MUL {
		return false
	}
	al, ok := ld.X.(*ssa.Alloc)
	if !ok {
		return false
	}
	n := 0
	for _, ref := range nonDebugRefs(al) {
		if st, isSt := ref.(*ssa.Store); isSt && st.Addr == ssa.Value(al) {
			n++
			if st.Val != ssa.Value(par) {
				return false
			}
		}
	}
	return n == 1
}

// ruleEncodedBytesReadOnly (C14.store <fn>:encoded-bytes-readonly; C18.process for cloudevents): the
// bytes of the buffer the encoder wrote are what FormattedAs stores. Between the two nothing writes
// through them: no element store, copy into, or append onto a re-slice of buf.Bytes() — also not in a
// helper of the module the bytes are handed to (a preview / metrics helper that "cuts" the line with
// append(line[:k], "..."...) overwrites the stored document).
func (c *Ctx) ruleEncodedBytesReadOnly(rule string, pkgs ...string) {
	p, r := c.P, c.R
	n, bad := 0, 0
	for _, f := range p.FuncsIn(pkgs...) {
		if f.Parent() != nil {
			continue
		}
		// the protected values of f: what it reads from a buffer with Bytes(), and what it stores with FormattedAs
		protected := map[ssa.Value]bool{}
		for _, ci := range callsTo(f, func(nm string, cc *ssa.CallCommon) bool { return nm == "(*bytes.Buffer).Bytes" }) {
			if val, ok := ci.(*ssa.Call); ok {
				protected[val] = true
			}
		}
		for _, ci := range callsTo(f, func(nm string, cc *ssa.CallCommon) bool { return nm == "(*eventlogger.Event).FormattedAs" }) {
			if args := ci.Common().Args; len(args) == 3 {
				protected[keyRoot(args[2])] = true
			}
		}
		if len(protected) == 0 {
			continue
		}
		n += len(protected)
		c.writesInPlace(f, true, func(in ssa.Instruction, target ssa.Value, _ bool) {
			if !protected[keyRoot(target)] {
				return
			}
			bad++
			r.Check(false, rule, p.ShortFn(f)+":encoded-bytes-readonly", p.InstrPos(in), "", "the bytes of the buffer the encoder wrote are written in place (an element store, a copy into them, an append onto a re-slice — here or in a helper they are handed to) before or while they are stored with FormattedAs: the stored document is no longer what the encoder produced")
		})
	}
	if bad == 0 {
		r.Check(n >= 1, rule, "encoded-bytes-readonly", "", fmt.Sprintf("%d encoded / stored byte values in formatting functions, none written through", n), "no read of an encoder's buffer and no FormattedAs call found in the package")
	}
}

// ruleRegistryDeref (C04.selfsync <fn>:panic-site:registry-deref): an entry of Broker.nodes or
// Broker.graphs is dereferenced only when the look-up said it exists. Registrations and removals change
// the maps between any two sections of the lock, so "the node was there when the event started" is
// not a fact at the time of a later look-up: a plain b.nodes[id].field on a removed id is a nil
// dereference inside a Broker call.
func (c *Ctx) ruleRegistryDeref(rule string) {
	p, r := c.P, c.R
	n := 0
	for _, f := range p.FuncsIn(PkgRoot) {
		eachInstr(f, func(in ssa.Instruction) {
			lk, ok := in.(*ssa.Lookup)
			if !ok {
				return
			}
			t := p.NewTerms(nil).Of(lk.X)
			if !(t.Op == "Field" && (t.Name == "nodes" || t.Name == "graphs")) {
				return
			}
			if _, isPtr := lk.X.Type().Underlying().(*types.Map).Elem().Underlying().(*types.Pointer); !isPtr {
				return
			}
			n++
			if lk.CommaOk {
				return // the ok flag is tested by the rules that read the entry (C05.commit, C06.*)
			}
			deref := false
			for _, ref := range nonDebugRefs(lk) {
				switch ref.(type) {
				case *ssa.FieldAddr, *ssa.Field:
					// ... unless a nil test of the entry guards the dereference
					guarded := false
					for _, t := range nonDebugRefs(lk) {
						bo, isBo := t.(*ssa.BinOp)
						if !isBo || !(bo.Op == token.NEQ || bo.Op == token.EQL) || !(isNilConst(bo.X) || isNilConst(bo.Y)) {
							continue
						}
						for _, u := range nonDebugRefs(bo) {
							iff, isIf := u.(*ssa.If)
							if !isIf {
								continue
							}
							b := iff.Block()
							nonNil := b.Succs[0]
							if bo.Op == token.EQL {
								nonNil = b.Succs[1]
							}
							if edgeDominates(b, nonNil, ref.Block()) {
								guarded = true
							}
						}
					}
					if !guarded {
						deref = true
					}
				}
			}
			r.Check(!deref, rule, p.ShortFn(f)+":panic-site:registry-deref", p.InstrPos(lk), "the plain look-up is not dereferenced", "an entry of Broker."+t.Name+" is looked up without the ok flag and dereferenced: an id that a concurrent (or earlier) removal took out of the map gives nil — a nil dereference inside a Broker call")
		})
	}
	if n < 2 {
		r.Und(rule, "registry-deref:instance-floor", "", fmt.Sprintf("only %d look-ups in Broker.nodes / Broker.graphs found (one in each map at least)", n))
	}
}

// ruleMacPrivate (C16.mac hmacSha256:mac-private): the keyed hash made by hmac.New for a value is fed
// that value and nothing else: its only uses are one Write of the data parameter and Sum. Handing it
// to anything else first (a key-fingerprint helper that writes a label into it) makes the digest
// HMAC(key, label || data): equal inputs under equal keys no longer give equal digests.
func (c *Ctx) ruleMacPrivate(rule string) {
	p, r := c.P, c.R
	fn := c.Fn(rule, PkgEncrypt, "Filter", "hmacSha256")
	if fn == nil {
		return
	}
	n := 0
	for _, ci := range callsTo(fn, func(nm string, cc *ssa.CallCommon) bool { return nm == "crypto/hmac.New" }) {
		mac, ok := ci.(*ssa.Call)
		if !ok {
			continue
		}
		n++
		writes := 0
		var other ssa.Instruction
		for _, ref := range nonDebugRefs(mac) {
			call, isCall := ref.(ssa.CallInstruction)
			if isCall && call.Common().IsInvoke() && call.Common().Value == ssa.Value(mac) {
				switch call.Common().Method.Name() {
				case "Write":
					writes++
					if !p.NewTerms(nil).Of(call.Common().Args[0]).IsParam("2:data") {
						other = ref
					}
					continue
				case "Sum":
					continue
				}
			}
			other = ref
		}
		pos := p.InstrPos(mac)
		if other != nil {
			pos = p.InstrPos(other)
		}
		r.Check(other == nil && writes == 1, rule, "hmacSha256:mac-private", pos, "the keyed hash is written once, with the data, and summed", "the keyed hash made for this value is used for something besides one Write(data) and Sum (handed to a helper, written twice, written with other bytes): the digest is no longer HMAC-SHA256 of the original value under the key")
	}
	if n != 1 {
		r.Und(rule, "hmacSha256:mac-private", p.Pos(fn.Pos()), fmt.Sprintf("expected one hmac.New in hmacSha256, found %d", n))
	}
}

// ruleGraphOfType (C01.scope <fn>:graph-of-type): a pipeline is stored in, and deleted from, the graph of
// ITS event type: the receiver of every graphMap Store / Delete in package eventlogger (outside graphMap's
// own methods) is the roots of a graph that was looked up in Broker.graphs (or made by the get-or-create
// helper) in the same function. A graph remembered elsewhere (an index keyed by pipeline id alone) is
// some event type's graph — the one that registered the id last.
func (c *Ctx) ruleGraphOfType(rule string) {
	p, r := c.P, c.R
	n := 0
	for _, f := range p.FuncsIn(PkgRoot) {
		if rc := f.Signature.Recv(); rc != nil && typeShort(rc.Type()) == "eventlogger.graphMap" {
			continue
		}
		for _, ci := range callsTo(f, func(nm string, cc *ssa.CallCommon) bool {
			return nm == "(*eventlogger.graphMap).Store" || nm == "(*eventlogger.graphMap).Delete"
		}) {
			n++
			recv := ci.Common().Args[0]
			ok := false
			if fa, isFA := recv.(*ssa.FieldAddr); isFA {
				g := fa.X
				seen := map[ssa.Value]bool{}
				var fromGraphs func(v ssa.Value) bool
				fromGraphs = func(v ssa.Value) bool {
					if v == nil || seen[v] {
						return true
					}
					seen[v] = true
					switch x := v.(type) {
					case *ssa.Phi:
						for _, e := range x.Edges {
							if !fromGraphs(e) {
								return false
							}
						}
						return len(x.Edges) > 0
					case *ssa.Extract:
						return fromGraphs(x.Tuple)
					case *ssa.Lookup:
						t := p.NewTerms(nil).Of(x.X)
						return t.Op == "Field" && t.Name == "graphs"
					case *ssa.Parameter:
						// a helper that is handed the graph: every caller looked it up
						idx := -1
						for i, prm := range f.Params {
							if prm == x {
								idx = i
							}
						}
						sites := 0
						for _, g2 := range p.FuncsIn(PkgRoot) {
							for _, cs := range callsTo(g2, func(nm string, cc *ssa.CallCommon) bool { return cc.StaticCallee() == f }) {
								sites++
								if idx < 0 || idx >= len(cs.Common().Args) || !fromGraphs(cs.Common().Args[idx]) {
									return false
								}
							}
						}
						return sites > 0
					case *ssa.Alloc:
						// g = &graph{} stored into b.graphs right there (get-or-create)
						return typeShort(x.Type()) == "eventlogger.graph"
					case *ssa.Call:
						if sc := x.Call.StaticCallee(); sc != nil {
							return graphGetOrCreate(sc)
						}
					case *ssa.UnOp:
						if x.Op == token.MUL {
							if al, isAl := x.X.(*ssa.Alloc); isAl {
								all := true
								k := 0
								for _, ref := range nonDebugRefs(al) {
									if st, isSt := ref.(*ssa.Store); isSt && st.Addr == ssa.Value(al) {
										k++
										if !fromGraphs(st.Val) {
											all = false
										}
									}
								}
								return all && k > 0
							}
						}
					}
					return false
				}
				ok = fromGraphs(g)
			}
			r.Check(ok, rule, p.ShortFn(f)+":graph-of-type", p.InstrPos(ci), "the pipeline is stored in / deleted from a graph looked up in Broker.graphs in this function", "the graph whose pipeline set is changed ("+shortStr(p.NewTerms(nil).Of(recv).String(), 90)+") was not looked up in Broker.graphs here: a graph remembered under another key (a pipeline id, which is unique only within its event type) is some other event type's graph — its pipeline is removed (and no longer traversed) while the one named stays")
		}
	}
	if n < 2 {
		r.Und(rule, "graph-of-type:instance-floor", "", fmt.Sprintf("only %d Store / Delete calls on a graph's pipeline set found (a Store and a Delete at least)", n))
	}
}
