package check

import (
	"fmt"
	"go/token"
	"go/types"
	"sort"
	"strings"

	"golang.org/x/tools/go/ssa"
)

// Find returns the first sub-term (pre-order) satisfying pred, or nil.
func (t *Term) Find(pred func(*Term) bool) *Term {
	if t == nil {
		return nil
	}
	if pred(t) {
		return t
	}
	for _, a := range t.Args {
		if f := a.Find(pred); f != nil {
			return f
		}
	}
	return nil
}

// pureOver reports whether the term is built only from constants, conversions,
// slicing and the named parameters (a deterministic function of them).
func pureOver(t *Term, params ...string) bool {
	if t == nil {
		return false
	}
	switch t.Op {
	case "Const":
		return true
	case "Param":
		for _, p := range params {
			if t.Name == p {
				return true
			}
		}
		return false
	case "Conv", "Slice", "Bin", "Varargs", "SliceLit":
		for _, a := range t.Args {
			if !pureOver(a, params...) {
				return false
			}
		}
		return true
	}
	return false
}

// posAtom: the path carries the positive atom eq(L, nil) with L satisfying pred.
func errNilOnPath(pa *Path, pred func(l *Term) bool) bool {
	pol, found := hasAtom(pa, func(at Atom) bool { return at.Op == "eq" && at.R.Is("Const", "nil") && pred(at.L) })
	return found && pol
}

// ruleDerive (C16.derive): the per-event wrapper is a deterministic function of
// the base wrapper's key bytes and the event id, and nothing else.
//
// NewDerivedReader: every successful path returns &io.LimitedReader{R: hkdf.New(sha256.New,
// K, salt, info), N: lenLimit} where K is result 0 of KeyBytes(ctx) called on a wrapper
// obtained from the wrapper parameter (type assertion, or the pooled wrapper's base), the
// KeyBytes error was tested nil and K was tested non-nil on that path (an HKDF over an
// empty key is a key everybody can derive).
//
// NewEventWrapper: every successful path returns W = aead.NewWrapper() on which
// SetAesGcmKeyBytes(result 0 of ed25519.GenerateKey(R)) succeeded, where R is result 0
// of NewDerivedReader(ctx, wrapper, n>=32, salt, info) with salt/info built only from
// constants and the event id (at least one of them from the event id), and all three
// error results were tested nil.
func (c *Ctx) ruleDerive() {
	p, r := c.P, c.R
	const rule = "C16.derive"
	if fn := c.Fn(rule, PkgEncrypt, "", "NewDerivedReader"); fn != nil {
		nOK := 0
		for _, pa := range c.enum(rule, fn, PathOpts{Inline: inlineSmall()}) {
			rv := pa.RetVals()
			if rv == nil || len(rv) != 2 || !isNilConst(rv[1]) {
				continue
			}
			last := pa.LastStep()
			tb := pa.TermsAt(last)
			cell, ok := rv[0].(*ssa.Alloc)
			if !ok {
				r.Bad(rule, "NewDerivedReader:result", p.InstrPos(pa.End), "a successful path returns "+tb.Of(rv[0]).String()+", not a freshly built io.LimitedReader")
				continue
			}
			lf := litFields(pa, cell, len(pa.Steps))
			rd, n := lf["R"], lf["N"]
			if rd == nil || n == nil {
				r.Bad(rule, "NewDerivedReader:result", p.InstrPos(pa.End), "the returned LimitedReader lacks R or N")
				continue
			}
			rt, nt := tb.Of(rd), tb.Of(n)
			if !(rt.Is("Call", "golang.org/x/crypto/hkdf.New") && len(rt.Args) == 4 && rt.Args[0].Is("Func", "crypto/sha256.New")) {
				r.Bad(rule, "NewDerivedReader:hkdf", p.InstrPos(pa.End), "the reader is "+rt.String()+", not hkdf.New(sha256.New, key, salt, info)")
				continue
			}
			if !nt.IsParam("2:lenLimit") {
				r.Bad(rule, "NewDerivedReader:limit", p.InstrPos(pa.End), "the reader's limit is "+nt.String()+", not the lenLimit argument")
				continue
			}
			if !rt.Args[2].IsParam("3:salt") || !rt.Args[3].IsParam("4:info") {
				r.Bad(rule, "NewDerivedReader:salt-info", p.InstrPos(pa.End), fmt.Sprintf("hkdf.New receives salt=%s info=%s, expected the salt and info arguments in that order", rt.Args[2], rt.Args[3]))
				continue
			}
			key := rt.Args[1]
			okKey := key.Op == "Extract" && key.Name == "0" && key.Args[0].Is("Call", "(*github.com/hashicorp/go-kms-wrapping/v2/aead.Wrapper).KeyBytes")
			if okKey {
				recv := key.Args[0].Args[0]
				// the receiver derives from the wrapper parameter only
				okKey = recv.Find(func(t *Term) bool { return t.IsParam("1:wrapper") }) != nil &&
					recv.Find(func(t *Term) bool {
						return t.Op == "Global" || t.Op == "Field" || (t.Op == "Param" && !t.IsParam("1:wrapper")) ||
							(t.Op == "Call" && t.Name != "(*github.com/hashicorp/go-kms-wrapping/v2/extras/multi.PooledWrapper).WrapperForKeyId")
					}) == nil
			}
			if !okKey {
				r.Bad(rule, "NewDerivedReader:key", p.InstrPos(pa.End), "the HKDF secret is "+key.String()+", not the key bytes of the wrapper argument")
				continue
			}
			kb := key.Args[0]
			errTested := errNilOnPath(pa, func(l *Term) bool { return l.Op == "Extract" && l.Name == "1" && l.Args[0].V == kb.V })
			_, nilTested := hasAtom(pa, func(at Atom) bool { return at.Op == "eq" && at.R.Is("Const", "nil") && at.L.V == key.V })
			nonNil := false
			if pol, f := hasAtom(pa, func(at Atom) bool { return at.Op == "eq" && at.R.Is("Const", "nil") && at.L.V == key.V }); f && !pol {
				nonNil = true
			}
			if !errTested || !nilTested || !nonNil {
				r.Bad(rule, "NewDerivedReader:key-checked", p.InstrPos(pa.End), fmt.Sprintf("the key bytes are used although KeyBytes' error was tested nil=%v and the bytes were tested non-nil=%v on this path (an HKDF over absent key bytes yields a key anyone can derive)", errTested, nonNil))
				continue
			}
			nOK++
		}
		r.Check(nOK >= 2, rule, "NewDerivedReader", p.Pos(fn.Pos()), fmt.Sprintf("%d successful paths return LimitedReader{hkdf.New(sha256.New, wrapper key bytes (checked), salt, info), lenLimit}", nOK), fmt.Sprintf("only %d successful paths verified (2 expected: aead wrapper, pooled wrapper)", nOK))
	}
	if fn := c.Fn(rule, PkgEncrypt, "", "NewEventWrapper"); fn != nil {
		nOK := 0
		for _, pa := range c.enum(rule, fn, PathOpts{Inline: inlineSmall("filters/encrypt.NewDerivedReader")}) {
			rv := pa.RetVals()
			if rv == nil || len(rv) != 2 || !isNilConst(rv[1]) {
				continue
			}
			tb := pa.TermsAt(pa.LastStep())
			w := tb.Of(rv[0])
			if !w.Is("Call", "github.com/hashicorp/go-kms-wrapping/v2/aead.NewWrapper") {
				r.Bad(rule, "NewEventWrapper:result", p.InstrPos(pa.End), "a successful path returns "+w.String()+", not a new aead wrapper")
				continue
			}
			var setKey, gen, ndr *Term
			for _, s := range pa.CallsOn() {
				ci := s.In.(ssa.CallInstruction)
				v, isV := ci.(ssa.Value)
				if !isV {
					continue
				}
				switch stepCallName(s) {
				case "(*github.com/hashicorp/go-kms-wrapping/v2/aead.Wrapper).SetAesGcmKeyBytes":
					t := pa.TermsAt(s).Of(v)
					if t.Args[0].V == w.V {
						setKey = t
					}
				}
			}
			if setKey == nil {
				r.Bad(rule, "NewEventWrapper:key-set", p.InstrPos(pa.End), "the returned wrapper never receives key bytes on a successful path")
				continue
			}
			k := setKey.Args[1]
			if k.Op == "Extract" && k.Args[0].Is("Call", "crypto/ed25519.GenerateKey") {
				gen = k.Args[0]
			}
			if gen == nil || k.Name != "0" {
				r.Bad(rule, "NewEventWrapper:key-source", p.InstrPos(pa.End), "the derived wrapper's key is "+k.String()+", not the private key generated from the derived reader")
				continue
			}
			src := gen.Args[0]
			if src.Op == "Extract" && src.Name == "0" && src.Args[0].Is("Call", "filters/encrypt.NewDerivedReader") {
				ndr = src.Args[0]
			}
			if ndr == nil {
				r.Bad(rule, "NewEventWrapper:entropy", p.InstrPos(pa.End), "the key is generated from "+src.String()+", not from NewDerivedReader: the per-event wrapper would not be reproducible from (wrapper, event id)")
				continue
			}
			lim := int64(-1)
			if ndr.Args[2].Op == "Const" {
				fmt.Sscan(ndr.Args[2].Name, &lim)
			}
			salt, info := ndr.Args[3], ndr.Args[4]
			mentionsID := func(t *Term) bool { return t.Find(func(x *Term) bool { return x.IsParam("2:eventId") }) != nil }
			okArgs := ndr.Args[1].IsParam("1:wrapper") && lim >= 32 && pureOver(salt, "2:eventId") && pureOver(info, "2:eventId") && (mentionsID(salt) || mentionsID(info))
			if !okArgs {
				r.Bad(rule, "NewEventWrapper:derivation", p.InstrPos(pa.End), fmt.Sprintf("derivation arguments are wrapper=%s limit=%s salt=%s info=%s; expected the wrapper argument, >= 32 bytes, and salt/info built only from constants and the event id (using it)", ndr.Args[1], ndr.Args[2], salt, info))
				continue
			}
			e1 := errNilOnPath(pa, func(l *Term) bool { return l.Op == "Extract" && l.Name == "1" && l.Args[0].V == ndr.V })
			e2 := errNilOnPath(pa, func(l *Term) bool { return l.Op == "Extract" && l.Name == "2" && l.Args[0].V == gen.V })
			e3 := errNilOnPath(pa, func(l *Term) bool { return l.V == setKey.V })
			if !e1 || !e2 || !e3 {
				r.Bad(rule, "NewEventWrapper:errors", p.InstrPos(pa.End), fmt.Sprintf("a wrapper is returned although not all derivation steps were checked: NewDerivedReader=%v GenerateKey=%v SetAesGcmKeyBytes=%v", e1, e2, e3))
				continue
			}
			nOK++
		}
		r.Check(nOK >= 1, rule, "NewEventWrapper", p.Pos(fn.Pos()), fmt.Sprintf("%d successful path(s): aead wrapper keyed with ed25519.GenerateKey(NewDerivedReader(ctx, wrapper, >=32, f(eventId), g(eventId))), all steps checked", nOK), "no successful path of NewEventWrapper verified")
	}
	_ = strings.Contains
}

// ruleTagPair (C09.tagpair): at every value-operation call site whose
// classification is computed on the spot, the tag it is computed from belongs
// to the very value being filtered: in the struct walk the tag of field i
// classifies (a value obtained from) field i of the same struct value; in the
// Taggable walk the classification and operation come from the same
// PointerTag whose pointer located the value; for bare string / slice payloads
// the classification is the constant "secret".
func (c *Ctx) ruleTagPair() {
	p, r := c.P, c.R
	const rule = "C09.tagpair"
	n := 0
	for _, f := range c.encryptReach() {
		tb := p.NewTerms(nil)
		eachInstr(f, func(in ssa.Instruction) {
			ci, ok := in.(ssa.CallInstruction)
			if !ok {
				return
			}
			name := calleeName(ci.Common())
			var val, cls ssa.Value
			switch name {
			case "(*filters/encrypt.Filter).filterValue":
				val, cls = ci.Common().Args[2], ci.Common().Args[3]
			case "(*filters/encrypt.Filter).filterSlice":
				val, cls = ci.Common().Args[3], ci.Common().Args[2]
			default:
				return
			}
			ct := tb.Of(cls)
			if ct.Op != "Call" {
				return // handed down / literal: checked at the site that computed it (C09.classify)
			}
			n++
			vt := tb.Of(val)
			construct := p.ShortFn(f) + "->" + name[strings.LastIndex(name, ".")+1:]
			tag := ct.Args[0]
			pos := p.InstrPos(in)
			all := func(t *Term, pred func(*Term) bool) (out []*Term) {
				var walk func(*Term)
				walk = func(x *Term) {
					if x == nil {
						return
					}
					if pred(x) {
						out = append(out, x)
					}
					for _, a := range x.Args {
						walk(a)
					}
				}
				walk(t)
				return
			}
			switch {
			case tag.Op == "Const":
				r.Check(tag.Name == `"secret"`, rule, construct+":const", pos, "a bare payload value is classified secret (redacted unless overridden)", "a bare payload value is classified "+tag.Name+" instead of secret")
			case tag.Op == "Field" && tag.Name == "Tag":
				// struct walk: tag of v.Type().Field(i); value from v.Field(i), same v, same i
				tf := tag.Args[0]
				okT := tf.Is("Call", "invoke reflect.Type.Field") && len(tf.Args) == 2 && tf.Args[0].Is("Call", "(reflect.Value).Type") && tf.Args[0].Args[0].Op == "Param"
				vfs := all(vt, func(x *Term) bool { return x.Is("Call", "(reflect.Value).Field") })
				okV := len(vfs) > 0
				if okT {
					for _, vf := range vfs {
						if vf.Args[0].V != tf.Args[0].Args[0].V || vf.Args[1].V != tf.Args[1].V {
							okV = false
						}
					}
				}
				// nothing else selects a different part of the struct
				if len(all(vt, func(x *Term) bool {
					return x.Op == "Call" && (x.Name == "(reflect.Value).Index" || x.Name == "(reflect.Value).MapIndex" || x.Name == "(reflect.Value).FieldByIndex")
				})) > 0 {
					okV = false
				}
				r.Check(okT && okV, rule, construct+":field", pos, "the tag of field i classifies (a value reached from) field i of the same struct value", fmt.Sprintf("tag and value do not belong to the same field: tag=%s value=%s", tag, vt))
			case tag.Is("Call", "fmt.Sprintf"):
				okF := len(tag.Args) == 2 && tag.Args[0].Is("Const", `"%s,%s"`) && tag.Args[1].Op == "Varargs" && len(tag.Args[1].Args) == 2
				var elem *Term
				if okF {
					a, b := tag.Args[1].Args[0], tag.Args[1].Args[1]
					okF = a.Is("Field", "Classification") && b.Is("Field", "Filter") && a.Args[0].Op == "Index" && b.Args[0].Op == "Index" &&
						a.Args[0].Args[0].V == b.Args[0].Args[0].V && a.Args[0].Args[1].V == b.Args[0].Args[1].V
					elem = a.Args[0]
				}
				okV := false
				if okF {
					gets := all(vt, func(x *Term) bool { return x.Is("Call", "github.com/mitchellh/pointerstructure.Get") })
					okV = len(gets) == 1 && len(gets[0].Args) == 2 && gets[0].Args[0].Op == "Param" && gets[0].Args[1].Is("Field", "Pointer") &&
						gets[0].Args[1].Args[0].Op == "Index" && gets[0].Args[1].Args[0].Args[0].V == elem.Args[0].V && gets[0].Args[1].Args[0].Args[1].V == elem.Args[1].V &&
						elem.Args[0].Find(func(x *Term) bool { return x.Is("Call", "invoke encrypt.Taggable.Tags") && x.Args[0].V == gets[0].Args[0].V }) != nil
				}
				// the write-back pointer (withPointer) and the tracking entry (trackTaggable) name the same location
				if okF && okV {
					for _, cs := range callsTo(f, func(nm string, cc *ssa.CallCommon) bool {
						return nm == "filters/encrypt.withPointer" || nm == "(*filters/encrypt.trackedMaps).trackTaggable"
					}) {
						a := cs.Common().Args
						a = a[len(a)-2:]
						t0, t1 := tb.Of(a[0]), tb.Of(a[1])
						same := t0.Op == "Param" && t1.Is("Field", "Pointer") && t1.Args[0].Op == "Index" && t1.Args[0].Args[0].V == elem.Args[0].V && t1.Args[0].Args[1].V == elem.Args[1].V
						r.Check(same, rule, p.ShortFn(f)+"->"+calleeName(cs.Common())+":same-pointer", p.InstrPos(cs), "write-back / tracking use the pointer of the tag being filtered", fmt.Sprintf("%s is given (%s, %s), not the Taggable and the pointer of the tag being filtered: the protected value would be written to, or the map marked at, another location", calleeName(cs.Common()), t0, t1))
					}
				}
				r.Check(okF && okV, rule, construct+":pointer-tag", pos, "classification and operation come from the PointerTag whose pointer located the value, in \"classification,operation\" order", fmt.Sprintf("classification/operation and value do not come from the same PointerTag: tag=%s value=%s", tag, vt))
			default:
				r.Bad(rule, construct+":source", pos, "the tag is "+tag.String()+": neither a struct field tag, a PointerTag nor the secret constant")
			}
		})
	}
	if n < 6 {
		r.Und(rule, "instance-floor", "", fmt.Sprintf("only %d on-the-spot classifications found (6 expected)", n))
	}
}

// ruleValidate (C18.validate): the decision table of (*FormatterFilter).validate.
// nil is returned only on paths that established: Source non-nil and its
// String() non-empty, Format.validate() == nil, and Schema nil or its String()
// non-empty; an error is returned only on paths that established one of the
// opposite facts (or a nil receiver), so no valid configuration is rejected.
func (c *Ctx) ruleValidate() {
	p, r := c.P, c.R
	const rule = "C18.validate"
	fn := c.Fn(rule, PkgCloud, "FormatterFilter", "validate")
	if fn == nil {
		return
	}
	isStr := func(t *Term, field string) bool {
		return t.Is("Call", "(*net/url.URL).String") && len(t.Args) == 1 && t.Args[0].Is("Field", field)
	}
	nNil, nErr := 0, 0
	for _, pa := range c.enum(rule, fn, PathOpts{Inline: inlineSmall("(formatter_filters/cloudevents.Format).validate")}) {
		rv := pa.RetVals()
		if rv == nil {
			continue
		}
		// facts: +1 established good, -1 established bad, 0 unknown
		fact := map[string]int{}
		set := func(k string, good bool) {
			if good {
				fact[k] = 1
			} else {
				fact[k] = -1
			}
		}
		for _, at := range pa.Atoms {
			if at.Op != "eq" {
				continue
			}
			l, rr := at.L, at.R
			switch {
			case l.IsParam("0:f") && rr.Is("Const", "nil"):
				set("recv", at.Neg)
			case l.Is("Field", "Source") && rr.Is("Const", "nil"):
				set("source", at.Neg)
			case isStr(l, "Source") && rr.Is("Const", `""`):
				set("source-str", at.Neg)
			case l.Is("Call", "(formatter_filters/cloudevents.Format).validate") && l.Args[0].Is("Field", "Format") && rr.Is("Const", "nil"):
				set("format", !at.Neg)
			case l.Is("Field", "Schema") && rr.Is("Const", "nil"):
				if !at.Neg {
					fact["schema"] = 1 // nil schema is fine
				}
			case isStr(l, "Schema") && rr.Is("Const", `""`):
				set("schema", at.Neg)
			}
		}
		if isNilConst(rv[0]) {
			nNil++
			var missing []string
			for _, k := range []string{"source", "source-str", "format", "schema"} {
				if fact[k] != 1 {
					missing = append(missing, k)
				}
			}
			r.Check(len(missing) == 0, rule, "validate:accept", p.InstrPos(pa.End), "a configuration is accepted only after source, format and schema were all found valid", "validate accepts a configuration without having established: "+strings.Join(missing, ", ")+" (path: "+p.PathSummary(pa)+")")
		} else {
			nErr++
			bad := false
			for _, v := range fact {
				if v == -1 {
					bad = true
				}
			}
			r.Check(bad, rule, "validate:reject", p.InstrPos(pa.End), "a configuration is rejected only after an invalid member was found", "validate rejects a configuration on a path that established no invalid member (valid configurations must format): "+p.PathSummary(pa))
		}
	}
	r.Check(nNil >= 2 && nErr >= 5, rule, "validate:table", p.Pos(fn.Pos()), fmt.Sprintf("%d accepting and %d rejecting paths classified", nNil, nErr), fmt.Sprintf("validate has %d accepting / %d rejecting paths (>= 2 / >= 5 expected: nil receiver, nil source, empty source, bad format, empty schema)", nNil, nErr))
}

// ruleGraphMap: the typed wrapper around sync.Map forwards faithfully.
//   - Range (rule C01.range): the callback handed to sync.Map.Range returns,
//     on every path, exactly the result of one call of f with the key and value
//     it was given (asserted to their types): every stored pipeline is offered
//     to f and iteration stops only when f says so.
//   - Store / Delete (ruleMap, e.g. C05.map): g.m.Store(id, root) and
//     g.m.Delete(id) with the method's own arguments.
func (c *Ctx) ruleGraphMap(ruleRange, ruleMap string) {
	p, r := c.P, c.R
	if ruleRange != "" {
		if fn := c.Fn(ruleRange, PkgRoot, "graphMap", "Range"); fn != nil {
			calls := callsTo(fn, func(n string, cc *ssa.CallCommon) bool { return n == "(*sync.Map).Range" })
			ok := len(calls) == 1
			why := fmt.Sprintf("%d calls of sync.Map.Range", len(calls))
			if ok {
				tb := p.NewTerms(nil)
				recv := tb.Of(calls[0].Common().Args[0])
				cl, isCl := calls[0].Common().Args[1].(*ssa.MakeClosure)
				ok = isCl && recv.String() == "FieldAddr[m](Param(0:g))"
				why = "Range is not called on g.m with a closure: " + recv.String()
				if ok {
					cf := cl.Fn.(*ssa.Function)
					r.SawFn(p.ShortFn(cf))
					n := 0
					for _, pa := range c.enum(ruleRange, cf, PathOpts{}) {
						rv := pa.RetVals()
						if rv == nil {
							ok, why = false, "the callback can panic"
							continue
						}
						n++
						t := pa.TermsAt(pa.LastStep()).Of(rv[0])
						good := t.Op == "Call" && len(t.Args) == 3 && t.Args[0].IsParam("1:f") &&
							t.Args[1].Is("Assert", "eventlogger.PipelineID") && t.Args[1].Args[0].IsParam("0:key") &&
							t.Args[2].Is("Assert", "*eventlogger.registeredPipeline") && t.Args[2].Args[0].IsParam("1:value")
						nf := 0
						for _, s := range pa.CallsOn() {
							if ci := s.In.(ssa.CallInstruction); pa.TermsAt(s).Of(ci.Common().Value).IsParam("1:f") {
								nf++
							}
						}
						if !good || nf != 1 {
							ok, why = false, fmt.Sprintf("the callback returns %s after %d calls of f; expected exactly f(key.(PipelineID), value.(*registeredPipeline))", t, nf)
						}
					}
					if n == 0 {
						ok, why = false, "the callback has no returning path"
					}
				}
			}
			r.Check(ok, ruleRange, "graphMap.Range", p.Pos(fn.Pos()), "every stored pipeline is handed to f once and iteration continues exactly as f says", why)
		}
	}
	if ruleMap != "" {
		// every path of Store / Delete passes through the underlying map's store / delete
		// primitive with the method's own arguments (extra bookkeeping is allowed)
		for _, x := range []struct {
			m       string
			callees []string
			args    []string
		}{
			{"Store", []string{"(*sync.Map).Store", "(*sync.Map).Swap"}, []string{"FieldAddr[m](Param(0:g))", "Param(1:id)", "Param(2:root)"}},
			{"Delete", []string{"(*sync.Map).Delete", "(*sync.Map).LoadAndDelete"}, []string{"FieldAddr[m](Param(0:g))", "Param(1:id)"}},
		} {
			fn := c.Fn(ruleMap, PkgRoot, "graphMap", x.m)
			if fn == nil {
				continue
			}
			ok, n := true, 0
			for _, pa := range c.enum(ruleMap, fn, PathOpts{Inline: inlineSmall()}) {
				if _, isRet := pa.End.(*ssa.Return); !isRet {
					continue
				}
				n++
				hit := false
				for _, st := range pa.CallsOn() {
					if !contains(x.callees, stepCallName(st)) {
						continue
					}
					tb := pa.TermsAt(st)
					good := true
					for i, a := range st.In.(ssa.CallInstruction).Common().Args {
						if i < len(x.args) && tb.Of(a).String() != x.args[i] {
							good = false
						}
					}
					if good {
						hit = true
					}
				}
				if !hit {
					ok = false
				}
			}
			r.Check(ok && n > 0, ruleMap, "graphMap."+x.m, p.Pos(fn.Pos()), "every path forwards the method's own arguments to the underlying map", "graphMap."+x.m+" has a returning path that does not perform "+strings.Join(x.callees, " / ")+" with its own arguments")
		}
	}
}

// ruleAccessors (C02.accessors): what callers read from a Status is what the
// collector put there: Complete() returns the complete field, CompleteSinks()
// the completeSinks field.
func (c *Ctx) ruleAccessors() {
	p, r := c.P, c.R
	const rule = "C02.accessors"
	for m, field := range map[string]string{"Complete": "complete", "CompleteSinks": "completeSinks"} {
		fn := c.Fn(rule, PkgRoot, "Status", m)
		if fn == nil {
			continue
		}
		ok := true
		why := ""
		rets := Returns(fn)
		for _, ret := range rets {
			rv := RetVals(ret)
			t := p.NewTerms(nil).Of(rv[0])
			if b, isF := t.IsField(field); !(isF && b.IsParam("0:s")) {
				ok, why = false, "Status."+m+"() returns "+t.String()+", not the "+field+" field"
			}
		}
		if len(rets) == 0 {
			ok, why = false, "no return"
		}
		r.Check(ok, rule, "Status."+m, p.Pos(fn.Pos()), "returns the "+field+" field of the receiver", why)
	}
}

// ruleOptionDefaults (C07.defaults): "AllowOverwrite (the default)" and "the
// policy given then applies": getDefaultOptions yields AllowOverwrite for both
// policies; getOpts starts from it, hands the address of that one struct to
// every non-nil option of the full argument list, returns that struct when all
// succeeded and the option's own error otherwise.
func (c *Ctx) ruleOptionDefaults() {
	p, r := c.P, c.R
	const rule = "C07.defaults"
	allow := ""
	if pkg := p.SSAPkgs[PkgRoot]; pkg != nil {
		if k, ok := pkg.Members["AllowOverwrite"].(*ssa.NamedConst); ok {
			allow = k.Value.Value.ExactString()
		}
	}
	if allow == "" {
		r.Und(rule, "AllowOverwrite", "", "constant AllowOverwrite not found")
		return
	}
	if fn := c.Fn(rule, PkgRoot, "", "getDefaultOptions"); fn != nil {
		for _, pa := range c.enum(rule, fn, PathOpts{}) {
			rv := pa.RetVals()
			if rv == nil {
				continue
			}
			ok, why := false, ""
			if ld, isLd := rv[0].(*ssa.UnOp); isLd {
				if cell, isA := ld.X.(*ssa.Alloc); isA {
					lf := litFields(pa, cell, len(pa.Steps))
					tb := pa.TermsAt(pa.LastStep())
					a, b := lf["withPipelineRegistrationPolicy"], lf["withNodeRegistrationPolicy"]
					ok = a != nil && b != nil && tb.Of(a).Is("Const", allow) && tb.Of(b).Is("Const", allow)
					if !ok {
						why = fmt.Sprintf("defaults are pipeline=%v node=%v, expected AllowOverwrite for both", lfName(tb, a), lfName(tb, b))
					}
				}
			}
			if !ok && why == "" {
				why = "the defaults are not a literal options value"
			}
			r.Check(ok, rule, "getDefaultOptions", p.InstrPos(pa.End), "both registration policies default to AllowOverwrite", why)
		}
	}
	fn := c.Fn(rule, PkgRoot, "", "getOpts")
	if fn == nil {
		return
	}
	var dyn []ssa.CallInstruction
	eachInstr(fn, func(in ssa.Instruction) {
		if ci, ok := in.(ssa.CallInstruction); ok && ci.Common().StaticCallee() == nil && !ci.Common().IsInvoke() {
			if _, isB := ci.Common().Value.(*ssa.Builtin); !isB {
				dyn = append(dyn, ci)
			}
		}
	})
	if len(dyn) != 1 || len(dyn[0].Common().Args) != 1 {
		r.Bad(rule, "getOpts:apply", p.Pos(fn.Pos()), fmt.Sprintf("%d option applications found (expected exactly one, inside the loop over the options)", len(dyn)))
		return
	}
	app := dyn[0]
	cell, isA := app.Common().Args[0].(*ssa.Alloc)
	tb := p.NewTerms(nil)
	okCell := isA && privateSingleStoreIs(cell, "eventlogger.getDefaultOptions")
	callee := tb.Of(app.Common().Value)
	okCallee := callee.Op == "Index" && callee.Args[0].IsParam("0:opt")
	full, whyFull := c.fullLoop(app, true)
	r.Check(okCell && okCallee && full, rule, "getOpts:apply", p.InstrPos(app), "every option of the argument list is applied to the one options struct initialised from the defaults",
		fmt.Sprintf("option application: target-is-defaults-struct=%v callee-is-opt[i]=%v (%s) full-loop=%v %s", okCell, okCallee, callee, full, whyFull))
	nOK, nErr := 0, 0
	for _, pa := range c.enum(rule, fn, PathOpts{}) {
		rv := pa.RetVals()
		if rv == nil {
			continue
		}
		// a non-nil option seen on the path must have been applied
		for _, at := range pa.Atoms {
			if at.Op == "eq" && at.Neg && at.L.Op == "Index" && at.L.Args[0].IsParam("0:opt") && at.R.Is("Const", "nil") {
				applied := false
				for _, s := range pa.CallsOn() {
					if s.In == ssa.Instruction(app) {
						applied = true
					}
				}
				if !applied {
					r.Bad(rule, "getOpts:skip", p.InstrPos(pa.End), "a non-nil option is skipped: "+p.PathSummary(pa))
				}
			}
		}
		if isNilConst(rv[1]) {
			ld, isLd := rv[0].(*ssa.UnOp)
			ok := isLd && ld.X == ssa.Value(cell)
			// errors of applied options were tested nil
			for _, s := range pa.CallsOn() {
				if s.In == ssa.Instruction(app) {
					if !errNilOnPath(pa, func(l *Term) bool { return l.V == app.(ssa.Value) }) {
						ok = false
					}
				}
			}
			if ok {
				nOK++
			} else {
				r.Bad(rule, "getOpts:result", p.InstrPos(pa.End), "a successful return does not hand back the struct the options were applied to (or ignores an option's error): "+pa.TermsAt(pa.LastStep()).Of(rv[0]).String())
			}
		} else {
			nErr++
			t := pa.TermsAt(pa.LastStep()).Of(rv[1])
			r.Check(t.V == app.(ssa.Value), rule, "getOpts:error", p.InstrPos(pa.End), "the option's own error is returned", "a failing return carries "+t.String()+", not the option's error")
		}
	}
	r.Check(nOK >= 2 && nErr >= 1, rule, "getOpts:paths", p.Pos(fn.Pos()), fmt.Sprintf("%d successful and %d failing paths classified", nOK, nErr), fmt.Sprintf("getOpts: %d successful / %d failing paths (>=2 / >=1 expected)", nOK, nErr))
}

func lfName(tb *Terms, v ssa.Value) string {
	if v == nil {
		return "<unset>"
	}
	return tb.Of(v).String()
}

// privateSingleStoreIs: the cell's only store is the result of a call of callee.
func privateSingleStoreIs(cell *ssa.Alloc, callee string) bool {
	sv := singleStore(cell)
	if sv == nil {
		sv = privateSingleStore(cell)
	}
	call, ok := sv.(*ssa.Call)
	return ok && calleeName(&call.Call) == callee
}

// ruleSkip (C09.skip): closed vocabulary of the conditions that let the
// reflective walk move past a value without handing it to a handler.
//
// In each walker a conditional branch is skip-deciding when one successor can
// reach a handler call (filterValue, filterSlice, filterField, filterTaggable,
// trackMap, processUnfiltered, SetMapIndex) within the current iteration and
// the other cannot, yet leads to a nil-error return or to the next iteration.
// The condition of every such branch must have one of the shapes confirmed by
// reading (nil value, not interfaceable, ignored type, type/kind dispatch, loop
// bound, empty slice, public/none classification, ...); anything else — "seen
// before", "looks filtered already" — silently forwards plaintext.
func (c *Ctx) ruleSkip() {
	p, r := c.P, c.R
	const rule = "C09.skip"
	handlers := map[string]bool{
		"(*filters/encrypt.Filter).filterValue": true, "(*filters/encrypt.Filter).filterSlice": true, "(*filters/encrypt.Filter).filterField": true,
		"(*filters/encrypt.Filter).filterTaggable": true, "(*filters/encrypt.trackedMaps).trackMap": true, "(*filters/encrypt.trackedMaps).processUnfiltered": true,
		"(reflect.Value).SetMapIndex": true, "filters/encrypt.setValue": true, "(*filters/encrypt.Filter).encrypt": true, "(*filters/encrypt.Filter).hmacSha256": true,
		"(*filters/encrypt.trackedMaps).trackTaggable": true,
	}
	n := 0
	var inv []string
	for _, w := range []struct{ recv, name string }{{"Filter", "filterField"}, {"Filter", "filterSlice"}, {"Filter", "filterTaggable"}, {"Filter", "filterValue"}, {"trackedMaps", "processUnfiltered"}, {"Filter", "Process"}} {
		fn := c.Fn(rule, PkgEncrypt, w.recv, w.name)
		if fn == nil {
			continue
		}
		hasHandler := func(b *ssa.BasicBlock) bool {
			for _, in := range b.Instrs {
				if ci, ok := in.(ssa.CallInstruction); ok && handlers[calleeName(ci.Common())] {
					return true
				}
			}
			return false
		}
		tb := p.NewTerms(nil)
		for _, b := range fn.Blocks {
			cond, ts, fs := condOf(b)
			if cond == nil {
				continue
			}
			hdr := innermostHeader(b)
			// classify a successor: reaches a handler / ends the iteration silently / only fails
			classify := func(s *ssa.BasicBlock) (reach, silent bool) {
				seen := map[*ssa.BasicBlock]bool{}
				var walk func(x *ssa.BasicBlock)
				walk = func(x *ssa.BasicBlock) {
					if seen[x] {
						return
					}
					seen[x] = true
					if hasHandler(x) {
						reach = true
						return
					}
					if hdr != nil && x == hdr {
						silent = true // next iteration (or loop exit) without a handler
						return
					}
					if len(x.Instrs) > 0 {
						if ret, ok := x.Instrs[len(x.Instrs)-1].(*ssa.Return); ok {
							rv := RetVals(ret)
							if len(rv) > 0 {
								e := rv[len(rv)-1]
								et := tb.Of(e)
								fresh := et.Op == "Call" && (et.Name == "fmt.Errorf" || et.Name == "errors.New")
								if !fresh {
									silent = true
								}
							}
							return
						}
					}
					for _, sc := range x.Succs {
						walk(sc)
					}
				}
				walk(s)
				return
			}
			tr, tsil := classify(ts)
			fr, fsil := classify(fs)
			var neg bool
			switch {
			case tr && !fr && fsil:
				neg = true // the false edge skips
			case fr && !tr && tsil:
				neg = false
			default:
				continue
			}
			at := p.atomOf(cond, func(v ssa.Value) ssa.Value { return v }, nil, nil)
			shape := c.condShape(cond, 0)
			n++
			construct := p.ShortFn(fn) + ":skip:" + shape
			if shape == "flag" && w.name != "Process" {
				shape = "other:flag " + at.String() // only Process's nothing-to-filter flag is known (decided by C10.guards)
			}
			if strings.HasPrefix(shape, "other:") {
				r.Bad(rule, construct, p.InstrPos(lastInstr(b)), "a value can be passed over without a handler when "+map[bool]string{true: "NOT ", false: ""}[neg]+at.String()+": this condition is not one of the confirmed reasons to leave a value alone (nil, not interfaceable, ignored type, type/kind dispatch, loop bound, empty, public/none)")
			} else {
				r.Ok(rule, construct, p.InstrPos(lastInstr(b)), "skip condition of a confirmed shape")
				inv = append(inv, w.name+":"+shape+"@"+p.InstrPos(lastInstr(b)))
			}
		}
	}
	r.Notes = append(r.Notes, "skip-condition inventory: "+strings.Join(inv, ", "))
	if n < 20 {
		r.Und(rule, "instance-floor", "", fmt.Sprintf("only %d skip-deciding branches found in the walk (>= 20 confirmed by hand)", n))
	}
}

// condShape: shape of a branch condition; a short-circuit condition (phi of
// constants and sub-conditions) has the shape of its sub-conditions when they agree
// on being known, joined by "|".
func (c *Ctx) condShape(cond ssa.Value, d int) string {
	if phi, ok := cond.(*ssa.Phi); ok && d < 6 {
		var shapes []string
		for _, e := range phi.Edges {
			if _, isC := e.(*ssa.Const); isC || e == ssa.Value(phi) {
				continue
			}
			sh := c.condShape(e, d+1)
			if strings.HasPrefix(sh, "other:") {
				return sh
			}
			if !contains(shapes, sh) {
				shapes = append(shapes, sh)
			}
		}
		if len(shapes) > 0 {
			sort.Strings(shapes)
			return strings.Join(shapes, "|")
		}
		return "flag"
	}
	return skipShape(c.P.atomOf(cond, func(v ssa.Value) ssa.Value { return v }, nil, nil))
}

// skipShape names the shape of a skip-deciding condition; "other:..." is unknown.
func skipShape(at Atom) string {
	has := func(t *Term, name string) bool {
		return t.Find(func(x *Term) bool { return x.Op == "Call" && x.Name == name }) != nil
	}
	any := func(name string) bool { return (at.L != nil && has(at.L, name)) || (at.R != nil && has(at.R, name)) }
	isNilValue := func(t *Term) bool {
		return t != nil && t.Is("Call", "reflect.ValueOf") && len(t.Args) == 1 && t.Args[0].Is("Const", "nil")
	}
	switch {
	case at.Op == "eq" && (isNilValue(at.L) || isNilValue(at.R)):
		return "nil-value"
	case at.Op == "eq" && (at.R.Is("Const", "nil") || at.L.Is("Const", "nil")):
		return "nil"
	case typeFact(Atom{Op: at.Op, L: at.L, R: at.R}) != "":
		return "type-dispatch"
	case at.Op == "eq" && (any("(reflect.Value).Kind") || any("(reflect.Value).Type") || any("invoke reflect.Type.Kind") || any("invoke reflect.Type.Elem")):
		return "type-dispatch"
	case at.Op == "true" && at.L.Find(func(x *Term) bool { return x.Op == "Assert" }) != nil:
		return "type-dispatch"
	case at.Op == "true" && at.L.Is("Call", "(reflect.Value).CanInterface"):
		return "not-interfaceable"
	case at.Op == "true" && at.L.Is("Call", "(reflect.Value).CanSet"):
		return "settable-dispatch"
	case at.Op == "true" && at.L.Is("Call", "(reflect.Value).IsNil"), at.Op == "true" && at.L.Is("Call", "(reflect.Value).IsZero"), at.Op == "true" && at.L.Is("Call", "(reflect.Value).IsValid"):
		return "nil-value"
	case at.Op == "true" && at.L.Is("Call", "(*filters/encrypt.Filter).ignore"):
		return "ignored-type"
	case at.Op == "lt" || (at.Op == "eq" && (any("builtin len") || any("(reflect.Value).Len") || any("invoke reflect.Type.NumField") || any("(reflect.Value).NumField"))):
		return "bound"
	case at.Op == "true" && (at.L.Op == "Next" || (at.L.Op == "Extract" && at.L.Args[0].Op == "Next")):
		return "bound"
	case at.Op == "true" && at.L.Is("Call", "(*reflect.MapIter).Next"):
		return "bound"
	case at.Op == "eq" && (at.L.Is("Field", "Classification") || at.L.Is("Field", "Operation")) && at.R.Op == "Const":
		return "classification:" + at.R.Name
	case at.Op == "true" && at.L.Is("Field", "withIgnoreTaggable"):
		return "ignore-taggable-option"
	case at.Op == "true" && at.L.Is("Call", "errors.Is"):
		return "errors.Is"
	case at.Op == "true" && at.L.Op == "Extract" && at.L.Name == "1" && at.L.Args[0].Op == "Lookup" && at.L.Args[0].Args[0].Is("Field", "filteredFields"):
		return "tracked-filtered-field"
	}
	return "other:" + at.String()
}

// innermostHeader returns the header of the innermost natural loop containing b, or nil.
func innermostHeader(b *ssa.BasicBlock) *ssa.BasicBlock {
	var best *ssa.BasicBlock
	from := reachableFrom(b)
	for h := range loopHeaders(b.Parent()) {
		if (h == b || h.Dominates(b)) && from[h] {
			if best == nil || best.Dominates(h) {
				best = h
			}
		}
	}
	return best
}

// ruleRegistryInserts (C06.registry): a node enters Broker.nodes only as a
// fresh usage record around a node handed in by the caller of a registration
// function (a parameter), with a count that is zero or carried over from the
// entry being replaced. In particular a node that was taken out of the registry
// (an unregisteredNode on its way to, or back from, Close) is never put back:
// that would make "closed exactly once" and "unregistered after RemoveNode" false.
func (c *Ctx) ruleRegistryInserts() {
	p, r := c.P, c.R
	const rule = "C06.registry"
	n := 0
	for _, f := range p.FuncsIn(PkgRoot) {
		tb := p.NewTerms(nil)
		eachInstr(f, func(in ssa.Instruction) {
			mu, ok := in.(*ssa.MapUpdate)
			if !ok || !tb.Of(mu.Map).Is("Field", "nodes") || typeShort(mu.Map.Type()) == "" {
				return
			}
			if bt := tb.Of(mu.Map); len(bt.Args) != 1 || !strings.Contains(typeShort(bt.Args[0].V.Type()), "Broker") {
				return
			}
			n++
			r.SawFn(p.ShortFn(f))
			construct := p.ShortFn(f) + ":insert"
			cell, isA := mu.Value.(*ssa.Alloc)
			if !isA {
				r.Bad(rule, construct, p.InstrPos(in), "Broker.nodes receives "+tb.Of(mu.Value).String()+", not a fresh usage record")
				return
			}
			// fields of the literal (flow-insensitive: every store into the fresh cell)
			var nodeT *Term
			for _, ref := range nonDebugRefs(cell) {
				fa, ok := ref.(*ssa.FieldAddr)
				if !ok {
					continue
				}
				name := fa.X.Type().Underlying().(*types.Pointer).Elem().Underlying().(*types.Struct).Field(fa.Field).Name()
				for _, r2 := range nonDebugRefs(fa) {
					if st, ok := r2.(*ssa.Store); ok && st.Addr == ssa.Value(fa) && name == "node" {
						nodeT = tb.Of(st.Val)
					}
				}
			}
			okNode := nodeT != nil && nodeT.Op == "Param"
			why := "the node stored in the registry is " + nodeT.String() + ", not a node handed in by the caller (a node taken out of the registry for closing must not be put back)"
			r.Check(okNode, rule, construct, p.InstrPos(in), "the registry gains a fresh record around a caller-supplied node", why)
		})
	}
	if n < 1 {
		r.Und(rule, "instance-floor", "", "no insert into Broker.nodes found")
	}
}

// ruleGatedReset: whole-container assignments of gated.Filter's two containers.
// Accepted events may be discarded wholesale only when no Broker is configured:
// a store of nil (or of a new empty container) into Filter.gated /
// Filter.orderedGated must be either the lazy initialisation of a nil container
// (dominated by `container == nil`) or dominated, in its own function, by the
// true edge of `w.Broker == nil`. A reset in a deferred closure, or on an error
// path, throws away groups whose composition never failed.
func (c *Ctx) ruleGatedReset(rule string) {
	p, r := c.P, c.R
	n := 0
	for _, f := range p.FuncsIn(PkgGated) {
		tb := p.NewTerms(nil)
		eachInstr(f, func(in ssa.Instruction) {
			st, ok := in.(*ssa.Store)
			if !ok {
				return
			}
			fa, ok := st.Addr.(*ssa.FieldAddr)
			if !ok || typeShort(fa.X.Type()) != "gated.Filter" || isFresh(fa.X) {
				return
			}
			name := fa.X.Type().Underlying().(*types.Pointer).Elem().Underlying().(*types.Struct).Field(fa.Field).Name()
			if name != "gated" && name != "orderedGated" {
				return
			}
			n++
			construct := p.ShortFn(f) + ":assign:" + name
			dominatedBy := func(match func(l, rr *Term) bool) bool {
				for d := in.Block(); d != nil && d.Idom() != nil; d = d.Idom() {
					cc, ts, fs := condOf(d.Idom())
					bo, isB := cc.(*ssa.BinOp)
					if !isB || (bo.Op != token.EQL && bo.Op != token.NEQ) {
						continue
					}
					edge := ts
					if bo.Op == token.NEQ {
						edge = fs
					}
					if !(edge == d || edge.Dominates(in.Block())) {
						continue
					}
					if match(tb.Of(bo.X), tb.Of(bo.Y)) || match(tb.Of(bo.Y), tb.Of(bo.X)) {
						return true
					}
				}
				return false
			}
			lazy := dominatedBy(func(l, rr *Term) bool { return l.Is("Field", name) && rr.Is("Const", "nil") })
			noBroker := dominatedBy(func(l, rr *Term) bool { return l.Is("Field", "Broker") && rr.Is("Const", "nil") })
			vt := tb.Of(st.Val)
			switch {
			case lazy && !isNilConst(st.Val):
				r.Ok(rule, construct+":lazy-init", p.InstrPos(in), "a nil container is initialised with an empty one")
			case noBroker && f.Parent() == nil:
				r.Ok(rule, construct+":no-broker", p.InstrPos(in), "everything is dropped only where no Broker is configured")
			default:
				r.Bad(rule, construct, p.InstrPos(in), "the container "+name+" is replaced as a whole ("+vt.String()+") at a point not dominated by `w.Broker == nil` (nor a lazy initialisation): groups that were accepted and never failed are discarded")
			}
		})
	}
	if n < 4 {
		r.Und(rule, "instance-floor", "", fmt.Sprintf("only %d whole-container assignments found (4 confirmed by hand: 2 lazy initialisations, 2 no-Broker resets)", n))
	}
}

// ruleGlobals (C19.globals): stock nodes share nothing through package-level
// state. Every package-level variable of the repository's packages that is
// used outside init is either an immutable sentinel — an error value or a value
// of basic type (string/number/bool), never assigned outside init — or it is
// reported: mutable state at package level (a pool, a cache, a map, a buffer) is
// shared by every node of every pipeline of every Broker, which is exactly what
// "safe to share across pipelines and goroutines" excludes unless proven
// otherwise by reading.
func (c *Ctx) ruleGlobals(rule string) {
	p, r := c.P, c.R
	type use struct {
		fn    *ssa.Function
		in    ssa.Instruction
		write bool
	}
	uses := map[*ssa.Global][]use{}
	for _, f := range c.P.Funcs {
		if p.InCtl(f) {
			continue
		}
		eachInstr(f, func(in ssa.Instruction) {
			for _, op := range in.Operands(nil) {
				g, ok := (*op).(*ssa.Global)
				if !ok || g.Pkg == nil || !strings.HasPrefix(g.Pkg.Pkg.Path(), PkgRoot) || strings.HasPrefix(g.Pkg.Pkg.Path(), PkgCtl) || strings.Contains(g.Pkg.Pkg.Path(), "/testing/") {
					continue
				}
				st, isSt := in.(*ssa.Store)
				uses[g] = append(uses[g], use{f, in, isSt && st.Addr == ssa.Value(g)})
			}
		})
	}
	n := 0
	var names []string
	for g, us := range uses {
		if strings.HasPrefix(g.Name(), "init$") {
			continue
		}
		elem := g.Type().Underlying().(*types.Pointer).Elem()
		n++
		names = append(names, g.Pkg.Pkg.Name()+"."+g.Name())
		construct := "var " + g.Pkg.Pkg.Name() + "." + g.Name()
		var wr *use
		for i := range us {
			if us[i].write && us[i].fn.Name() != "init" {
				wr = &us[i]
			}
		}
		if wr != nil {
			r.Bad(rule, construct+":assigned", p.InstrPos(wr.in), "package-level variable "+g.Name()+" is assigned outside init by "+p.ShortFn(wr.fn)+": state shared by every node, pipeline and Broker without a lock")
			continue
		}
		immutable := false
		switch u := elem.Underlying().(type) {
		case *types.Basic:
			immutable = true
		case *types.Interface:
			immutable = types.TypeString(elem, shortQual) == "error"
		default:
			_ = u
		}
		if !immutable {
			var who string
			for _, u := range us {
				if u.fn.Name() != "init" {
					who = p.ShortFn(u.fn)
				}
			}
			if who == "" {
				continue // only touched by init (e.g. interface assertions)
			}
			r.Bad(rule, construct+":shared-mutable", p.Pos(g.Pos()), "package-level variable "+g.Name()+" of type "+types.TypeString(elem, shortQual)+" is used by "+who+": memory shared by every node of every pipeline (pooled or cached buffers alias the bytes stored in events that other pipelines still read)")
			continue
		}
		r.Ok(rule, construct, p.Pos(g.Pos()), "immutable sentinel (basic or error type, never assigned outside init)")
	}
	sort.Strings(names)
	r.Notes = append(r.Notes, "package-level variables in use: "+strings.Join(names, ", "))
	if n < 5 {
		r.Und(rule, "instance-floor", "", fmt.Sprintf("only %d package-level variables found in use (>= 5 confirmed by hand: error sentinels, cloudevents formats, gated defaults)", n))
	}
}

// unconditionalInLoop reports whether instruction in runs on every iteration of
// its innermost loop: walking the dominator chain from its block up to the loop
// header meets no conditional branch other than the header's own continuation test.
func unconditionalInLoop(in ssa.Instruction) (bool, *ssa.BasicBlock) {
	hdr := innermostHeader(in.Block())
	if hdr == nil {
		return false, nil
	}
	// the loop test may sit in the header itself or (range loops) in the header only
	for d := in.Block().Idom(); d != nil; d = d.Idom() {
		if d == hdr {
			return true, nil
		}
		if _, ok := lastInstr(d).(*ssa.If); ok {
			// a block between the header and the instruction that branches: the instruction is
			// conditional unless both successors lead to it (diamond rejoined before it)
			reach := 0
			for _, s := range d.Succs {
				if s != hdr && (s == in.Block() || s.Dominates(in.Block()) || postReaches(s, in.Block(), hdr)) {
					reach++
				}
			}
			if reach < len(d.Succs) {
				return false, d
			}
		}
		if !hdr.Dominates(d) {
			break
		}
	}
	return in.Block() == hdr, nil
}

// postReaches: every path from s reaches target before reaching stop (the loop header) or leaving.
func postReaches(s, target, stop *ssa.BasicBlock) bool {
	seen := map[*ssa.BasicBlock]bool{}
	var walk func(b *ssa.BasicBlock) bool
	walk = func(b *ssa.BasicBlock) bool {
		if b == target {
			return true
		}
		if b == stop || seen[b] {
			return false
		}
		seen[b] = true
		if len(b.Succs) == 0 {
			return false
		}
		for _, x := range b.Succs {
			if !walk(x) {
				return false
			}
		}
		return true
	}
	return walk(s)
}
