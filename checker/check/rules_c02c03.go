package check

import (
	"fmt"
	"go/token"
	"go/types"
	"sort"
	"strings"

	"golang.org/x/tools/go/ssa"
)

func runC02(c *Ctx) {
	r := c.R
	r.Explanation = "Decides, on every feasible path of the traversal function, that exactly one status hand-off happens per traversal end and none otherwise, and what it carries (a warning holding exactly the node's error iff it failed; a completion holding exactly the node's own id, and that id as complete sink iff the node's Type() is sink, iff the event was dropped or the node is a leaf); that the collector merges every field of Status (enumerated from the type) from the received value only; that the verdict is getError(status, ctx.Err(), this graph's two thresholds) in that order; the full decision table of getError over the orderings of the two counts against their thresholds; and the threshold setters/getters (negative rejected without store, store/read on the graph of the given type). Multiset equalities over real runs under cancellation are not decided, only that entries cannot be invented. C02.accessors: Complete()/CompleteSinks() return the fields the collector filled; C02.persist: graphs holding thresholds are never deleted or replaced. C02.types: the nine stock Type() implementations are unconditional constants of their role. C02.merge status-readonly: no method of Status writes through the Status's id lists. C02.registered: single-store and one-section; C02.persist: look-up and insert in one write-locked section. C02.registered also: graphMap.Range is sync.Map.Range. C01.scope graph-of-type: a pipeline set is changed (Store / Delete) only in a graph looked up in Broker.graphs in the same function."
	r.NotDecided = []string{"completes + warnings = pipelines as a count over real runs", "which entries are missing under cancellation"}
	a := c.protoAnchors("C02.anchor")
	if a == nil {
		return
	}
	c.ruleEmit(a, "C02.emit")
	c.ruleMerge(a)
	c.ruleStatusReadOnly("C02.merge")
	c.ruleVerdict(a)
	// "exactly one entry per registered pipeline when the context is not cancelled": the collector keeps
	// receiving until the channel is closed or the context is done, and the channel is closed only after
	// every traversal handed its entry in (the collector and wait-group obligations of C03)
	c.ruleCollectorAs("C02.collector", a)
	c.ruleWGAs("C02.collector", a)
	c.ruleGetErrorTable()
	c.ruleThresholds()
	// "exactly one entry per registered pipeline": what a Send ranges over never misses a pipeline that
	// is registered before, during and after the call — an overwrite is one atomic Store (no Delete
	// first), and look-up and store of a registration share one critical section
	c.ruleSingleStore("C02.registered")
	c.ruleOneSection("C02.registered")
	// ... and the Range a Send walks offers every stored pipeline exactly once, whatever is stored or
	// deleted meanwhile: graphMap.Range is sync.Map.Range over the map Store / Delete act on (an index
	// cursor over a slice that Delete shifts skips the pipeline that slid into the visited slot)
	c.ruleGraphMap("C02.registered", "")
}

// handOff describes a select used as status hand-off.
type handOff struct {
	sel     *ssa.Select
	sendVal ssa.Value
	ok      bool
	why     string
}

// classifySelect checks that sel is {recv ctx.Done(), send on chan Status}, blocking.
func classifyHandOff(tb *Terms, sel *ssa.Select, ctxParam string) handOff {
	h := handOff{sel: sel}
	if !sel.Blocking {
		h.why = "select has a default arm (the status could be dropped silently)"
		return h
	}
	nRecvDone, nSend := 0, 0
	for _, st := range sel.States {
		switch {
		case st.Dir == types.RecvOnly && tb.Of(st.Chan).String() == "Call[invoke context.Context.Done](Param("+ctxParam+"))":
			nRecvDone++
		case st.Dir == types.SendOnly && isChanOf(st.Chan.Type(), "eventlogger.Status"):
			nSend++
			h.sendVal = st.Send
		default:
			h.why = "select has an arm other than <-ctx.Done() and the status send"
			return h
		}
	}
	if nRecvDone != 1 || nSend != 1 {
		h.why = fmt.Sprintf("select has %d ctx.Done() arms and %d status sends (expected 1 and 1)", nRecvDone, nSend)
		return h
	}
	h.ok = true
	return h
}

func (c *Ctx) ruleEmit(a *protoAnchors, rule string) {
	p, r := c.P, c.R
	T := a.traverse
	paths := c.enum(rule, T, PathOpts{Inline: inlineSmall()})
	seenRow := map[string]bool{}
	for _, pa := range paths {
		if _, ok := pa.End.(*ssa.Return); !ok {
			continue
		}
		errNN, evNil, noNext := a.atoms(pa)
		var sels []Step
		var bare []Step
		for _, s := range pa.Steps {
			switch x := s.In.(type) {
			case *ssa.Select:
				sels = append(sels, s)
			case *ssa.Send:
				if isChanOf(x.Chan.Type(), "eventlogger.Status") {
					bare = append(bare, s)
				}
			}
		}
		if errNN == nil {
			r.Und(rule, "traverse:emit", p.InstrPos(pa.End), "path does not test the node's error: "+p.PathSummary(pa))
			continue
		}
		isWarn := *errNN
		isComplete := !isWarn && ((evNil != nil && *evNil) || (noNext != nil && *noNext))
		row := fmt.Sprintf("warn=%v complete=%v", isWarn, isComplete)
		r.TableRows++
		for _, b := range bare {
			r.Bad(rule, "traverse:bare-send", p.InstrPos(b.In), "a status is sent outside a select on a feasible path: "+p.PathSummary(pa))
		}
		want := 0
		if isWarn || isComplete {
			want = 1
		}
		if len(sels) != want {
			r.Bad(rule, "traverse:emit-count", p.InstrPos(pa.End), fmt.Sprintf("%d status hand-offs on a path where exactly %d is due (%s): %s", len(sels), want, row, p.PathSummary(pa)))
			continue
		}
		if want == 0 {
			// no hand-off is due only because the traversal goes on: at least one successor is started on
			// this path. A path that ends without a hand-off AND without starting anything leaves its
			// pipeline without an entry (completes + warnings < pipelines under a live context).
			nGo := 0
			for _, st := range pa.Steps {
				if _, isGo := st.In.(*ssa.Go); isGo {
					nGo++
				}
			}
			// (a path that established len(next) != 0 and then shows the successor loop with zero iterations
			// is an artefact of the enumeration: the loop runs at least once)
			if nGo == 0 && !(noNext != nil && !*noNext) {
				r.Bad(rule, "traverse:silent-end", p.InstrPos(pa.End), "the traversal ends on a path that neither hands a status in nor starts a successor: this pipeline is missing from Send's Status although the context is live ("+shortStr(p.PathSummary(pa), 240)+")")
				continue
			}
			seenRow["children"] = true
			continue
		}
		s := sels[0]
		stb := pa.TermsAt(s)
		h := classifyHandOff(stb, s.In.(*ssa.Select), "1:ctx")
		if !h.ok {
			r.Bad(rule, "traverse:hand-off", p.InstrPos(s.In), h.why)
			continue
		}
		// the status value sent: a load of a Status cell whose fields were stored on this path
		sv := pa.Resolve(s, h.sendVal)
		ld, isLoad := sv.(*ssa.UnOp)
		var cell ssa.Value
		if isLoad && ld.Op == token.MUL {
			cell = ld.X
		}
		if cell == nil {
			r.Und(rule, "traverse:status", p.InstrPos(s.In), "cannot identify the Status value sent: "+stb.Of(sv).String())
			continue
		}
		fields := litFields(pa, cell, stepIndex(pa, s.In))
		got := map[string]string{}
		for f, v := range fields {
			got[f] = stb.Of(v).String()
		}
		procT := stb.Of(a.procCall).String()
		idT := "SliceLit(Field[nodeID](Param(2:node)))"
		if isWarn {
			seenRow["warn"] = true
			okW := len(got) == 1 && got["Warnings"] == "SliceLit(Extract[1]("+procT+"))"
			r.Check(okW, rule, "traverse:warning", p.InstrPos(s.In),
				"failure hand-off carries exactly Warnings=[the node's error]",
				fmt.Sprintf("failure hand-off carries %v; expected only Warnings=[error returned by Process]", got))
			continue
		}
		seenRow["complete"] = true
		sinkPol, sinkFound := hasAtom(pa, func(at Atom) bool {
			return at.Op == "eq" && at.L.Op == "Call" && at.L.Name == "invoke eventlogger.Node.Type" && at.R.Op == "Const" && at.R.Name == "3"
		})
		okC := got["complete"] == idT && got["Warnings"] == ""
		if sinkFound && sinkPol {
			okC = okC && got["completeSinks"] == idT && len(got) == 2
		} else {
			okC = okC && got["completeSinks"] == "" && len(got) == 1
		}
		if !sinkFound {
			r.Bad(rule, "traverse:complete", p.InstrPos(s.In), "completion hand-off on a path that never tests the node's Type() against the sink type")
			continue
		}
		// Type() must be invoked on the same node
		r.Check(okC, rule, "traverse:complete", p.InstrPos(s.In),
			fmt.Sprintf("completion hand-off carries complete=[node.nodeID]%s", map[bool]string{true: " and completeSinks=[node.nodeID] (sink)", false: " only (not a sink)"}[sinkPol]),
			fmt.Sprintf("completion hand-off (sink=%v) carries %v; expected complete=[node.nodeID] and completeSinks=[node.nodeID] iff the node is a sink", sinkPol, got))
	}
	for _, k := range []string{"warn", "complete", "children"} {
		if !seenRow[k] {
			r.Und(rule, "traverse:rows", p.Pos(T.Pos()), "no feasible path of kind "+k)
		}
	}
	// NodeTypeSink really is 3 and Type() is invoked on node.node
	if nt := p.SSAPkgs[PkgRoot].Const("NodeTypeSink"); nt == nil || nt.Value.Int64() != 3 {
		r.Und(rule, "anchor:NodeTypeSink", "", "NodeTypeSink is not the constant 3 the rule compares with")
	}
}

func (c *Ctx) ruleMerge(a *protoAnchors) {
	p, r := c.P, c.R
	const rule = "C02.merge"
	C := a.collector
	tb := p.NewTerms(nil)
	// the accumulator: the Status cell whose load is returned
	var acc *ssa.Alloc
	for _, ret := range Returns(C) {
		rv := RetVals(ret)
		if len(rv) != 2 {
			continue
		}
		if ld, ok := rv[0].(*ssa.UnOp); ok && ld.Op == token.MUL {
			if al, ok := ld.X.(*ssa.Alloc); ok {
				if acc != nil && acc != al {
					r.Bad(rule, "collector:result", p.InstrPos(ret), "different Status variables are returned on different returns")
				}
				acc = al
			}
		} else {
			r.Bad(rule, "collector:result", p.InstrPos(ret), "the collector returns "+tb.Of(rv[0]).String()+" instead of its accumulated Status variable")
		}
	}
	if acc == nil {
		r.Und(rule, "collector:result", p.Pos(C.Pos()), "accumulator not found")
		return
	}
	st := p.Named(PkgRoot, "Status").Underlying().(*types.Struct)
	sel := a.colSelect
	recvIdx := -1
	for i, s := range sel.States {
		if s.Dir == types.RecvOnly && isChanOf(s.Chan.Type(), "eventlogger.Status") {
			recvIdx = i
		}
	}
	// okBlock: block entered when (index == recvIdx) and ok is true
	merged := map[string]int{}
	eachInstr(C, func(in ssa.Instruction) {
		sto, ok := in.(*ssa.Store)
		if !ok {
			return
		}
		if sto.Addr == ssa.Value(acc) {
			r.Bad(rule, "collector:overwrite", p.InstrPos(in), "the accumulated Status is overwritten as a whole")
			return
		}
		fa, ok := sto.Addr.(*ssa.FieldAddr)
		if !ok || fa.X != ssa.Value(acc) {
			return
		}
		f := st.Field(fa.Field).Name()
		v := tb.Of(sto.Val)
		// expected: append(Field[f](acc), Field[f](received)...)
		okShape := v.Op == "Call" && v.Name == "builtin append" && len(v.Args) == 2 &&
			v.Args[0].Is("Field", f) && v.Args[0].Args[0].V == ssa.Value(acc) &&
			v.Args[1].Is("Field", f) && uncell(v.Args[1].Args[0]).Op == "Extract" && uncell(v.Args[1].Args[0]).Args[0].V == ssa.Value(sel)
		if okShape {
			// the received value is the recv state's payload: Extract index = 2 + position among recv states
			pos := 2
			for i, s := range sel.States {
				if i == recvIdx {
					break
				}
				if s.Dir == types.RecvOnly {
					pos++
				}
			}
			if uncell(v.Args[1].Args[0]).Name != fmt.Sprint(pos) {
				okShape = false
			}
		}
		// dominated by ok == true
		domOK := false
		if okShape {
			for b := in.Block(); b != nil; b = b.Idom() {
				id := b.Idom()
				if id == nil {
					break
				}
				cond, tsucc, _ := condOf(id)
				if cond == nil {
					continue
				}
				ct := tb.Of(cond)
				if ct.Op == "Extract" && ct.Name == "1" && ct.Args[0].V == ssa.Value(sel) && (tsucc == b || tsucc.Dominates(b)) && edgeDominates(id, tsucc, in.Block()) {
					domOK = true
				}
			}
		}
		if okShape && domOK {
			merged[f]++
			r.Ok(rule, "collector:merge."+f, p.InstrPos(in), "status."+f+" = append(status."+f+", received."+f+"...) under ok == true")
		} else {
			r.Bad(rule, "collector:merge."+f, p.InstrPos(in), "status."+f+" is assigned "+v.String()+"; expected append(status."+f+", received."+f+"...) only when the receive succeeded")
		}
	})
	for i := 0; i < st.NumFields(); i++ {
		f := st.Field(i).Name()
		if merged[f] == 0 {
			r.Bad(rule, "collector:merge."+f, p.Pos(C.Pos()), "field "+f+" of Status is never merged from the received statuses (its entries would be lost)")
		}
	}
	r.Floor(rule, st.NumFields())
}

func (c *Ctx) ruleVerdict(a *protoAnchors) {
	p, r := c.P, c.R
	const rule = "C02.verdict"
	C := a.collector
	tb := p.NewTerms(nil)
	for _, ret := range Returns(C) {
		rv := RetVals(ret)
		if len(rv) != 2 {
			continue
		}
		t := tb.Of(rv[1])
		ok := t.Op == "Call" && t.Name == "(eventlogger.Status).getError" && len(t.Args) == 4 &&
			t.Args[0].String() == tb.Of(rv[0]).String() &&
			t.Args[1].String() == "Call[invoke context.Context.Err](Param(1:ctx))" &&
			t.Args[2].String() == "Field[successThreshold](Param(0:g))" &&
			t.Args[3].String() == "Field[successThresholdSinks](Param(0:g))"
		r.Check(ok, rule, "collector:verdict", p.InstrPos(ret),
			"error = getError(status, ctx.Err(), g.successThreshold, g.successThresholdSinks)",
			"the collector's error is "+t.String()+"; expected getError(the returned status, ctx.Err(), g.successThreshold, g.successThresholdSinks) in that order")
	}
	r.Floor(rule, 1)
	// "Send returns an error if and only if ... were reported": Send itself adds no error of its
	// own — whatever it returns is the collector's verdict, except for an event type that has
	// no graph at all. A fail-fast return (a done context, say) reports an error although the
	// thresholds may be met by zero completes.
	okSrc, nPaths := true, 0
	for _, pa := range c.enum(rule, a.send, PathOpts{}) {
		if _, isRet := pa.End.(*ssa.Return); !isRet {
			continue
		}
		rv := pa.RetVals()
		if len(rv) != 2 {
			continue
		}
		nPaths++
		var proc *ssa.Call
		for _, s := range pa.CallsOn() {
			if ci, ok := s.In.(*ssa.Call); ok && ci.Call.StaticCallee() == C && s.Depth == 0 {
				proc = ci
			}
		}
		ptb := pa.TermsAt(pa.LastStep())
		if proc != nil {
			if ptb.Of(rv[1]).String() != "Extract[1]("+ptb.Of(proc).String()+")" && okSrc {
				okSrc = false
				r.Bad(rule, "(*Broker).Send:error-source", p.InstrPos(pa.End), "Send returns "+shortStr(ptb.Of(rv[1]).String(), 120)+" as its error instead of the collector's verdict")
			}
			continue
		}
		pol, found := hasAtom(pa, func(at Atom) bool {
			return at.Op == "true" && at.L.Op == "Extract" && at.L.Name == "1" && at.L.Args[0].Op == "Lookup"
		})
		if !(found && !pol) && okSrc {
			okSrc = false
			r.Bad(rule, "(*Broker).Send:error-source", p.InstrPos(pa.End), "Send returns without a verdict of the collector on a path that is not the unknown event type: the error (or its absence) is not derived from the reported completes and the thresholds ("+shortStr(p.PathSummary(pa), 200)+")")
		}
	}
	if okSrc {
		r.Check(nPaths >= 2, rule, "(*Broker).Send:error-source", p.Pos(a.send.Pos()), fmt.Sprintf("%d returning paths: the collector's verdict, or the unknown event type", nPaths), "fewer than 2 returning paths of Send")
	}
}

// ruleGetErrorTable: P5 on Status.getError.
func (c *Ctx) ruleGetErrorTable() {
	p, r := c.P, c.R
	const rule = "C02.table"
	fn := c.Fn(rule, PkgRoot, "Status", "getError")
	if fn == nil {
		return
	}
	paths := c.enum(rule, fn, PathOpts{})
	// semantic variables
	isLenOf := func(t *Term, field string) bool {
		return t.Op == "Call" && t.Name == "builtin len" && len(t.Args) == 1 && t.Args[0].Is("Field", field) && t.Args[0].Args[0].IsParam("0:s")
	}
	type rel int // -1 <, 0 =, 1 >
	eval := func(at Atom, rc, rs rel) (bool, bool) {
		var res bool
		switch {
		case at.Op == "lt" && isLenOf(at.L, "complete") && at.R.IsParam("2:threshold"):
			res = rc < 0
		case at.Op == "lt" && at.L.IsParam("2:threshold") && isLenOf(at.R, "complete"):
			res = rc > 0
		case at.Op == "lt" && isLenOf(at.L, "completeSinks") && at.R.IsParam("3:thresholdSinks"):
			res = rs < 0
		case at.Op == "lt" && at.L.IsParam("3:thresholdSinks") && isLenOf(at.R, "completeSinks"):
			res = rs > 0
		case at.Op == "eq" && (isLenOf(at.L, "complete") && at.R.IsParam("2:threshold") || at.L.IsParam("2:threshold") && isLenOf(at.R, "complete")):
			res = rc == 0
		case at.Op == "eq" && (isLenOf(at.L, "completeSinks") && at.R.IsParam("3:thresholdSinks") || at.L.IsParam("3:thresholdSinks") && isLenOf(at.R, "completeSinks")):
			res = rs == 0
		default:
			return false, false
		}
		if at.Neg {
			res = !res
		}
		return res, true
	}
	names := map[rel]string{-1: "<", 0: "=", 1: ">"}
	for _, rc := range []rel{-1, 0, 1} {
		for _, rs := range []rel{-1, 0, 1} {
			row := fmt.Sprintf("len(complete)%sthreshold,len(completeSinks)%sthresholdSinks", names[rc], names[rs])
			r.TableRows++
			var match []*Path
			und := false
			for _, pa := range paths {
				all := true
				for _, at := range pa.Atoms {
					v, known := eval(at, rc, rs)
					if !known {
						und = true
						r.Und(rule, "getError:"+row, p.InstrPos(at.If), "branch condition not understood: "+at.String())
						all = false
						break
					}
					if !v {
						all = false
						break
					}
				}
				if all {
					match = append(match, pa)
				}
			}
			if und {
				continue
			}
			if len(match) != 1 {
				r.Und(rule, "getError:"+row, p.Pos(fn.Pos()), fmt.Sprintf("%d paths match this row (expected 1)", len(match)))
				continue
			}
			pa := match[0]
			rv := pa.RetVals()
			tb := pa.TermsAt(pa.LastStep())
			wantNil := rc >= 0 && rs >= 0
			gotNil := isNilConst(rv[0])
			t := tb.Of(rv[0])
			switch {
			case wantNil && gotNil:
				r.Ok(rule, "getError:"+row, p.InstrPos(pa.End), "returns nil")
			case wantNil && !gotNil:
				r.Bad(rule, "getError:"+row, p.InstrPos(pa.End), "an error is returned although both thresholds are met: "+t.String())
			case !wantNil && gotNil:
				r.Bad(rule, "getError:"+row, p.InstrPos(pa.End), "nil is returned although a threshold is not met")
			default:
				// the error must contain the context error
				if termMentions(t, nil, "Param(1:ctxErr)") && (t.Name == "errors.Join" || strings.Contains(t.Name, "Errorf")) {
					r.Ok(rule, "getError:"+row, p.InstrPos(pa.End), "returns a non-nil error joining the context error")
				} else {
					r.Bad(rule, "getError:"+row, p.InstrPos(pa.End), "the threshold error does not wrap the context's error: "+t.String())
				}
			}
		}
	}
	r.Floor(rule, 9)
}

// ruleThresholds: setters reject negatives without store and store into the
// graph of the given type; getters read that same field.
func (c *Ctx) ruleThresholds() {
	p, r := c.P, c.R
	const rule = "C02.thresholds"
	type sg struct{ setter, getter, field, param string }
	for _, x := range []sg{
		{"SetSuccessThreshold", "SuccessThreshold", "successThreshold", "2:successThreshold"},
		{"SetSuccessThresholdSinks", "SuccessThresholdSinks", "successThresholdSinks", "2:successThresholdSinks"},
	} {
		set := c.Fn(rule, PkgRoot, "Broker", x.setter)
		get := c.Fn(rule, PkgRoot, "Broker", x.getter)
		if set == nil || get == nil {
			continue
		}
		for _, pa := range c.enum(rule, set, PathOpts{Inline: inlineSmall()}) {
			if _, ok := pa.End.(*ssa.Return); !ok {
				continue
			}
			rv := pa.RetVals()
			// classify the value: negative?
			negPol, negFound := hasAtom(pa, func(at Atom) bool {
				return at.Op == "lt" && at.L.IsParam(x.param) && at.R.Is("Const", "0")
			})
			emptyPol, emptyFound := hasAtom(pa, func(at Atom) bool {
				return at.Op == "eq" && at.L.IsParam("1:t") && at.R.Is("Const", `""`)
			})
			var stores []Step
			for _, s := range pa.Steps {
				if st, ok := s.In.(*ssa.Store); ok {
					if fa, ok := st.Addr.(*ssa.FieldAddr); ok && typeShort(fa.X.Type()) == "eventlogger.graph" {
						nm := fa.X.Type().Underlying().(*types.Pointer).Elem().Underlying().(*types.Struct).Field(fa.Field).Name()
						if nm == "successThreshold" || nm == "successThresholdSinks" {
							stores = append(stores, s)
						}
					}
				}
			}
			construct := "(*Broker)." + x.setter
			r.TableRows++
			switch {
			case (negFound && negPol) || (emptyFound && emptyPol):
				okRej := len(stores) == 0 && len(rv) == 1 && !isNilConst(rv[0])
				r.Check(okRej, rule, construct+":reject", p.InstrPos(pa.End), "negative value / empty type: error and no store",
					fmt.Sprintf("negative value or empty type is not rejected cleanly (stores=%d, error nil=%v)", len(stores), len(rv) == 1 && isNilConst(rv[0])))
			case negFound && !negPol:
				if len(stores) != 1 || len(rv) != 1 || !isNilConst(rv[0]) {
					r.Bad(rule, construct+":store", p.InstrPos(pa.End), fmt.Sprintf("valid value: expected exactly one store and a nil error, got %d stores", len(stores)))
					continue
				}
				s := stores[0]
				st := s.In.(*ssa.Store)
				stb := pa.TermsAt(s)
				fa := st.Addr.(*ssa.FieldAddr)
				nm := fa.X.Type().Underlying().(*types.Pointer).Elem().Underlying().(*types.Struct).Field(fa.Field).Name()
				base := pa.Resolve(s, fa.X)
				bt := stb.Of(base)
				existing := bt.String() == "Extract[0](Lookup(Field[graphs](Param(0:b)),Param(1:t)))"
				fresh := false
				if al, ok := base.(*ssa.Alloc); ok {
					// a fresh graph: must have been inserted under Param t on this path
					for _, s2 := range pa.Steps {
						if mu, ok := s2.In.(*ssa.MapUpdate); ok && pa.Resolve(s2, mu.Value) == ssa.Value(al) {
							mt := pa.TermsAt(s2)
							if mt.Of(mu.Map).String() == "Field[graphs](Param(0:b))" && mt.Of(mu.Key).IsParam("1:t") {
								fresh = true
							}
						}
					}
				}
				okStore := nm == x.field && (existing || fresh) && stb.Of(pa.Resolve(s, st.Val)).IsParam(x.param)
				r.Check(okStore, rule, construct+":store", p.InstrPos(st), "stores the given value into "+x.field+" of the graph registered (or inserted) under the given type",
					fmt.Sprintf("stores %s into field %s of %s; expected the parameter into %s of graphs[t]", stb.Of(st.Val), nm, bt, x.field))
			default:
				r.Und(rule, construct, p.InstrPos(pa.End), "path does not decide the sign of the value: "+p.PathSummary(pa))
			}
		}
		for _, pa := range c.enum(rule, get, PathOpts{Inline: inlineSmall(), InlineClosures: true, InlineDepth: 3}) {
			rv := pa.RetVals()
			if len(rv) != 2 {
				continue
			}
			tb := pa.TermsAt(pa.LastStep())
			construct := "(*Broker)." + x.getter
			found, isConst := constBool(rv[1])
			if !isConst {
				// the flag is the look-up's own comma-ok (handed out by a locked look-up helper): its value on this path
				fv := pa.Resolve(pa.LastStep(), rv[1])
				pol, ok := hasAtom(pa, func(at Atom) bool { return at.Op == "true" && at.L.V == fv })
				if !ok || tb.Of(fv).String() != "Extract[1](Lookup(Field[graphs](Param(0:b)),Param(1:t)))" {
					r.Und(rule, construct, p.InstrPos(pa.End), "the found-flag "+tb.Of(fv).String()+" is neither a constant nor the decided comma-ok of graphs[t]")
					continue
				}
				found = pol
			}
			v := tb.Of(rv[0])
			// the value may travel through a variable a callback wrote (withGraph(t, func(g) { threshold = g.x }))
			if st, stStep, stored, isCell := pa.CellValue(pa.LastStep(), rv[0]); isCell {
				if stored {
					v = pa.TermsAt(stStep).Of(st.Val)
				} else {
					v = &Term{Op: "Const", Name: "0"}
				}
			}
			r.TableRows++
			if found {
				ok := v.Is("Field", x.field) && v.Args[0].String() == "Extract[0](Lookup(Field[graphs](Param(0:b)),Param(1:t)))"
				r.Check(ok, rule, construct+":found", p.InstrPos(pa.End), "returns "+x.field+" of graphs[t]", "returns "+v.String()+" instead of "+x.field+" of graphs[t]")
			} else {
				r.Check(v.Is("Const", "0"), rule, construct+":missing", p.InstrPos(pa.End), "unknown type: (0, false)", "unknown type returns "+v.String())
			}
		}
	}
	r.Floor(rule, 10)
	c.ruleGraphsPersist()
	c.ruleAccessors()
	c.ruleNodeTypes("C02.types")
}

// ruleGraphsPersist: C02.persist — the per-type thresholds live in the graph object stored
// under the event type; "read back as last set" needs that object to stay: Broker.graphs is
// only ever extended with a fresh graph under a key that was just looked up and found absent;
// entries are never deleted or replaced.
func (c *Ctx) ruleGraphsPersist() {
	p, r := c.P, c.R
	const rule = "C02.persist"
	must := c.MustLocks()
	n := 0
	for _, f := range p.FuncsIn(PkgRoot) {
		tb := p.NewTerms(nil)
		eachInstr(f, func(in ssa.Instruction) {
			switch x := in.(type) {
			case ssa.CallInstruction:
				if b, ok := x.Common().Value.(*ssa.Builtin); ok && b.Name() == "delete" && tb.Of(x.Common().Args[0]).Is("Field", "graphs") {
					n++
					r.Bad(rule, p.ShortFn(f)+":delete", p.InstrPos(in), "an event type's graph is deleted from Broker.graphs: its success thresholds are lost (a later read returns (0,false), a later registration starts from 0)")
				}
			case *ssa.MapUpdate:
				if !tb.Of(x.Map).Is("Field", "graphs") {
					return
				}
				n++
				r.SawFn(p.ShortFn(f))
				// value: a fresh graph; dominated by the !ok edge of a lookup of the same key in the same map
				_, fresh := x.Value.(*ssa.Alloc)
				var phiLookups []*ssa.Lookup
				if phi, isPhi := x.Value.(*ssa.Phi); isPhi {
					// g, ok := b.graphs[t]; if !ok { g = &graph{} } ... if !ok { b.graphs[t] = g }: on the
					// absent-key side the merged value is the fresh graph
					fresh = true
					for _, e := range phi.Edges {
						switch ev := e.(type) {
						case *ssa.Alloc:
						case *ssa.Extract:
							if lk, ok := ev.Tuple.(*ssa.Lookup); ok && ev.Index == 0 {
								phiLookups = append(phiLookups, lk)
							} else {
								fresh = false
							}
						default:
							fresh = false
						}
					}
				}
				okDom := false
				keyS := tb.Of(x.Key).String()
				for b := in.Block(); b != nil && b.Idom() != nil; b = b.Idom() {
					cond, _, fsucc := condOf(b.Idom())
					ex, isEx := cond.(*ssa.Extract)
					if !isEx || ex.Index != 1 {
						continue
					}
					lk, isLk := ex.Tuple.(*ssa.Lookup)
					if isLk && tb.Of(lk.X).Is("Field", "graphs") && tb.Of(lk.Index).String() == keyS && edgeDominates(b.Idom(), fsucc, in.Block()) {
						okDom = true
						// ... found absent in the SAME critical section: the look-up holds the write lock too
						// (a key found absent under the read lock may have been inserted by the time the
						// write lock is taken — the insert then replaces a graph that holds pipelines and thresholds)
						if must.At(lk)["eventlogger.Broker.lock"] != 'W' || must.At(in)["eventlogger.Broker.lock"] != 'W' {
							okDom = false
						}
						for _, pl := range phiLookups {
							if pl != lk {
								okDom = false
							}
						}
					}
				}
				r.Check(fresh && okDom, rule, p.ShortFn(f)+":insert", p.InstrPos(in), "Broker.graphs only gains a fresh graph under a key just found absent", "an entry of Broker.graphs may be replaced (not a fresh graph for an absent key): the thresholds stored in the old graph are lost")
			case *ssa.Store:
				if t := tb.Of(x.Addr); t.Op == "FieldAddr" && t.Name == "graphs" && !isFresh(x.Addr.(*ssa.FieldAddr).X) {
					n++
					r.Bad(rule, p.ShortFn(f)+":replace-map", p.InstrPos(in), "Broker.graphs is replaced as a whole after construction")
				}
			}
		})
	}
	// one insert site is enough (the get-or-create may live in a shared helper)
	if n < 1 {
		r.Und(rule, "instance-floor", "", fmt.Sprintf("%d updates of Broker.graphs found (at least 1 expected)", n))
	}
}

// ---------------------------------------------------------------------------

func runC03(c *Ctx) {
	p, r := c.P, c.R
	r.Explanation = "Decides the protocol obligations whose conjunction is the termination / no-leak argument for Send, each a necessary condition: every feasible send on a chan Status is an arm of a blocking select that also receives from the function's ctx.Done(); the collector's only blocking operation is one select over {ctx.Done(), status channel}, it leaves its loop on either ctx.Done() or channel closed, and nothing blocks between that and its return; the traversal's first effect is defer wg.Done(), every start of it is immediately preceded by wg.Add(1) on the same wait group, the channel is closed at exactly one site, after wg.Wait(), after the range; the inventory of blocking instructions reachable from Send inside package eventlogger equals these whitelisted protocol sites; channel and wait group are created per call and stay private to it. Latency bounds and scheduler fairness are not decided. C03.private make-size: no allocation of the package is sized by a value that can be negative. C03.nocopy: no repository function takes, returns or dereference-copies by value a type that contains a sync primitive. C03.private nil-handle: (*os.File).Name is called on FileSink.f only where the same function found the handle non-nil. C03.event: the event handed to nodes carries an allocated format table. C03.composer: composeFrom is the payload's own bound method. C03.private panic-site:hash: no map is keyed by, and no comparison made on, a type of the module that holds an error or other interface a node filled in (hashing or comparing a non-comparable dynamic value panics). C03.private panic-site:atomic-value: every store into an atomic.Value (both modules) has one concrete type fixed in the source."
	r.NotDecided = []string{"latency after cancellation as a number", "scheduler fairness", "panics inside user nodes"}
	a := c.protoAnchors("C03.anchor")
	if a == nil {
		return
	}
	c.ruleGuard(a)
	c.ruleCollector(a)
	c.ruleWG(a)
	c.ruleInventory(a)
	c.ruleSendHoldsNothing("C03.inventory")
	c.rulePrivate(a)
	c.ruleMakeSizes("C03.private")
	c.rulePanicSites("C03.private")
	c.ruleNilHandle("C03.private")
	// the gated filter's composer is the payload's own bound method (a method value made from a nil *T
	// panics in the wrapper of a value-receiver method, inside Send's goroutine)
	c.ruleComposer("C03.composer")
	c.ruleNoHashOfUserValues("C03.private")
	c.ruleAtomicValueStores("C03.private")
	// "never panics": Event.Formatted is an exported, documented field ("used by Formatters to store
	// formatted Event data"); a node that stores into it directly runs in a goroutine created by Send,
	// so the event Send builds carries an allocated map (the routing rule of C01 over the event literal)
	nObl := len(c.R.Obls)
	c.ruleRoute(a)
	for i := nObl; i < len(c.R.Obls); i++ {
		if c.R.Obls[i].Rule == "C01.route" {
			c.R.Obls[i].Rule = "C03.event"
		}
	}
	// Send's first step is Broker.lock.RLock(), which does not look at the context: a broker call that
	// invokes an extension point (Close, Reopen) with Broker.lock held lets a node that sends through the
	// Broker wait for a lock its own caller holds — that Send never returns, and every later Send queues
	// behind the stuck writer, cancelled or not. The lock-order rules of C12 over the root package.
	c.lockOrderRules("C03", func(fn *ssa.Function) bool { return PkgPathOf(fn) == PkgRoot }, []string{"eventlogger.Broker.lock"}, []string{PkgRoot}, false, func() (bool, string) {
		if c.ruleGatedPass("C03.e1-pass") && c.ruleGatedNoGate("C03.e1-nogate") {
			return true, "openGate only sends a payload proven not Gateable, and Process returns a non-Gateable event before locking"
		}
		return false, "C11.pass / C11.nogate do not both hold"
	})
	// Send's first blocking step is Broker.lock.RLock(): it is acquirable again after every other
	// Broker call only if each acquisition in the package is released on every path — a refused
	// RemoveNode that returns with the write lock held makes every later Send block for ever,
	// cancelled context or not
	c.pairingRule("C03.pairing", func(fn *ssa.Function) bool { return PkgPathOf(fn) == PkgRoot }, false)
	c.ruleNoLockCopy("C03.nocopy")
	_ = p
}

// ruleGuard: C03.guard
func (c *Ctx) ruleGuard(a *protoAnchors) {
	p, r := c.P, c.R
	const rule = "C03.guard"
	for _, f := range p.FuncsIn(PkgRoot) {
		var sends []*ssa.Send
		var sels []*ssa.Select
		eachInstr(f, func(in ssa.Instruction) {
			switch x := in.(type) {
			case *ssa.Send:
				if isChanOf(x.Chan.Type(), "eventlogger.Status") {
					sends = append(sends, x)
				}
			case *ssa.Select:
				for _, st := range x.States {
					if st.Dir == types.SendOnly && isChanOf(st.Chan.Type(), "eventlogger.Status") {
						sels = append(sels, x)
					}
				}
			}
		})
		if len(sends) == 0 && len(sels) == 0 {
			continue
		}
		r.SawFn(p.ShortFn(f))
		// name of the ctx parameter of f
		ctxParam := ""
		for i, prm := range f.Params {
			if typeShort(prm.Type()) == "context.Context" {
				ctxParam = fmt.Sprintf("%d:%s", i, prm.Name())
			}
		}
		tb := p.NewTerms(nil)
		for _, s := range sels {
			h := classifyHandOff(tb, s, ctxParam)
			r.Check(h.ok, rule, p.ShortFn(f)+":select-send", p.InstrPos(s), "status send is an arm of a blocking select with <-ctx.Done()", h.why+": a sender can block forever once the collector has left")
		}
		if len(sends) > 0 {
			paths := c.enum(rule, f, PathOpts{})
			for _, sd := range sends {
				on := 0
				var wit string
				for _, pa := range paths {
					if stepIndex(pa, sd) >= 0 {
						on++
						wit = p.PathSummary(pa)
					}
				}
				if on == 0 {
					r.Ok(rule, p.ShortFn(f)+":bare-send", p.InstrPos(sd), "bare status send lies only on infeasible paths (pruned: the same condition was already decided the other way)")
					r.Notes = append(r.Notes, "bare send at "+p.InstrPos(sd)+" is dead code (pruned, not ignored)")
				} else {
					r.Bad(rule, p.ShortFn(f)+":bare-send", p.InstrPos(sd), fmt.Sprintf("a status is sent outside any select on %d feasible path(s): after the collector left on cancellation this send blocks forever (goroutine leak)", on), wit)
				}
			}
		}
	}
	r.Floor(rule, 1)
}

func isBlocking(in ssa.Instruction) (string, bool) {
	switch x := in.(type) {
	case *ssa.Send:
		return "channel send", true
	case *ssa.Select:
		if x.Blocking {
			return "blocking select", true
		}
		return "non-blocking select", true
	case *ssa.UnOp:
		if x.Op == token.ARROW {
			return "channel receive", true
		}
	case ssa.CallInstruction:
		if sc := x.Common().StaticCallee(); sc != nil {
			switch sc.String() {
			case "(*sync.WaitGroup).Wait", "(*sync.Mutex).Lock", "(*sync.RWMutex).Lock", "(*sync.RWMutex).RLock", "time.Sleep", "(*sync.Cond).Wait", "time.After", "time.Tick":
				return "call " + sc.String(), true
			}
		}
	case *ssa.Range:
		if _, ok := x.X.Type().Underlying().(*types.Chan); ok {
			return "range over channel", true
		}
	}
	return "", false
}

// ruleCollector: C03.collector
func (c *Ctx) ruleCollector(a *protoAnchors) { c.ruleCollectorAs("C03.collector", a) }

// ruleCollectorAs: the same obligations under another property's name (C01.drain: a collector
// that leaves while the launcher still hands in statuses blocks the launcher inside its range —
// the pipelines behind the blocked one are never started although the context is live).
func (c *Ctx) ruleCollectorAs(rule string, a *protoAnchors) {
	p, r := c.P, c.R
	C := a.collector
	tb := p.NewTerms(nil)
	sel := a.colSelect
	// states exactly {recv ctx.Done(), recv status channel}
	okStates := sel.Blocking && len(sel.States) == 2
	nDone, nStat := 0, 0
	for _, st := range sel.States {
		if st.Dir == types.RecvOnly && tb.Of(st.Chan).String() == "Call[invoke context.Context.Done](Param(1:ctx))" {
			nDone++
		}
		if st.Dir == types.RecvOnly && isChanOf(st.Chan.Type(), "eventlogger.Status") {
			nStat++
		}
	}
	r.Check(okStates && nDone == 1 && nStat == 1, rule, "collector:select", p.InstrPos(sel),
		"one blocking select over {<-ctx.Done(), <-statusChan}", "the collector's select is not exactly {<-ctx.Done(), <-statusChan} (blocking)")
	// other blocking instructions in the collector (own body only)
	eachInstr(C, func(in ssa.Instruction) {
		if in == ssa.Instruction(sel) {
			return
		}
		if what, ok := isBlocking(in); ok {
			if ci, isCall := in.(ssa.CallInstruction); isCall {
				if op := lockOpOf(ci.Common()); op != nil && op.Mode == 'R' && strings.HasPrefix(op.Class, "eventlogger.graph.") {
					return // read lock on the graph's own threshold lock: never held across blocking operations (C04.guard, C12)
				}
			}
			r.Bad(rule, "collector:extra-blocking", p.InstrPos(in), "the collector contains another blocking operation ("+what+"): Send would not return promptly on cancellation")
		}
	})
	// paths: after the ctx.Done() arm, or the closed-channel arm, the function returns without passing the select again
	paths := c.enum(rule, C, PathOpts{HeaderVisits: 3})
	nDoneExit, nClosedExit := 0, 0
	for _, pa := range paths {
		if _, ok := pa.End.(*ssa.Return); !ok {
			continue
		}
		// last select step
		last := -1
		for i, s := range pa.Steps {
			if s.In == ssa.Instruction(sel) {
				last = i
			}
		}
		if last < 0 {
			r.Bad(rule, "collector:exit", p.InstrPos(pa.End), "the collector can return without ever waiting for a status or the context")
			continue
		}
		// which arm was taken at the last select? atoms after it
		doneArm, closedArm := false, false
		for _, at := range pa.Atoms {
			if at.If == nil || stepIndex(pa, at.If) < last {
				continue
			}
			if at.Op == "eq" && at.L.Op == "Extract" && at.L.Name == "0" && at.L.Args[0].V == ssa.Value(sel) && !at.Neg {
				idx := at.R.Name
				for i, st := range sel.States {
					if fmt.Sprint(i) == idx && st.Dir == types.RecvOnly && !isChanOf(st.Chan.Type(), "eventlogger.Status") {
						doneArm = true
					}
				}
			}
			if at.Op == "true" && at.L.Op == "Extract" && at.L.Name == "1" && at.L.Args[0].V == ssa.Value(sel) && at.Neg {
				closedArm = true
			}
		}
		switch {
		case doneArm:
			nDoneExit++
		case closedArm:
			nClosedExit++
		default:
			r.Bad(rule, "collector:exit", p.InstrPos(pa.End), "the collector leaves its loop after receiving a status (neither ctx.Done() nor channel closed): statuses of other pipelines are lost: "+p.PathSummary(pa))
		}
	}
	r.Check(nDoneExit > 0, rule, "collector:exit-on-cancel", p.InstrPos(sel), fmt.Sprintf("%d paths return directly after the ctx.Done() arm without blocking again", nDoneExit), "no path returns after the ctx.Done() arm: Send does not return promptly after cancellation")
	r.Check(nClosedExit > 0, rule, "collector:exit-on-close", p.InstrPos(sel), fmt.Sprintf("%d paths return after the channel was closed", nClosedExit), "no path returns when the status channel is closed")
	// the loop only continues after a successful receive: the ctx.Done() arm must not loop back to the select
	for _, pa := range paths {
		cnt := 0
		doneSeen := false
		for _, s := range pa.Steps {
			if s.In == ssa.Instruction(sel) {
				cnt++
				if doneSeen {
					r.Bad(rule, "collector:exit-on-cancel", p.InstrPos(sel), "after the ctx.Done() arm the collector waits on the select again")
				}
			}
			if iff, ok := s.In.(*ssa.If); ok {
				for _, at := range pa.Atoms {
					if at.If == iff && at.Op == "eq" && at.L.Op == "Extract" && at.L.Name == "0" && at.L.Args[0].V == ssa.Value(sel) && !at.Neg {
						for i, st := range sel.States {
							if fmt.Sprint(i) == at.R.Name && !isChanOf(st.Chan.Type(), "eventlogger.Status") {
								doneSeen = true
							}
						}
					}
				}
			}
		}
		_ = cnt
	}
}

// ruleWG: C03.wg
func (c *Ctx) ruleWG(a *protoAnchors) { c.ruleWGAs("C03.wg", a) }

// ruleWGAs: the wait-group protocol under another property's name (C12.wg: an Add that is
// not matched by a Done on some path leaves Wait blocked, the channel is never closed and
// Send never returns under a context that is never cancelled, although every node returned).
func (c *Ctx) ruleWGAs(rule string, a *protoAnchors) {
	p, r := c.P, c.R
	T := a.traverse
	tb := p.NewTerms(nil)
	// defer wg.Done() dominating every other call
	var dfr *ssa.Defer
	eachInstr(T, func(in ssa.Instruction) {
		if d, ok := in.(*ssa.Defer); ok && d.Call.StaticCallee() != nil && d.Call.StaticCallee().String() == "(*sync.WaitGroup).Done" {
			if tb.Of(d.Call.Args[0]).IsParam("5:wg") {
				dfr = d
			}
		}
	})
	if dfr == nil {
		r.Bad(rule, "traverse:defer-done", p.Pos(T.Pos()), "the traversal function does not defer Done() on its wait group: a panicking or early-returning node leaves Wait blocked forever")
	} else {
		ok := true
		eachInstr(T, func(in ssa.Instruction) {
			if ci, isCall := in.(ssa.CallInstruction); isCall && in != ssa.Instruction(dfr) {
				if _, isB := ci.Common().Value.(*ssa.Builtin); isB {
					return
				}
				if !dominatesInstr(dfr, in) {
					ok = false
				}
			}
		})
		r.Check(ok, rule, "traverse:defer-done", p.InstrPos(dfr), "defer wg.Done() precedes every call of the traversal (runs on panic and on every return)", "a call can execute before defer wg.Done() is registered")
	}
	// explicit (non-deferred) Done calls would double count
	eachInstr(T, func(in ssa.Instruction) {
		if ci, ok := in.(*ssa.Call); ok && ci.Call.StaticCallee() != nil && ci.Call.StaticCallee().String() == "(*sync.WaitGroup).Done" {
			r.Bad(rule, "traverse:extra-done", p.InstrPos(in), "an additional wg.Done() besides the deferred one")
		}
	})
	// every start of T is preceded in its block by wg.Add(1) on the same wg, nothing in between
	nStarts := 0
	for _, f := range p.FuncsIn(PkgRoot) {
		eachInstr(f, func(in ssa.Instruction) {
			ci, ok := in.(ssa.CallInstruction)
			if !ok || ci.Common().StaticCallee() != T {
				return
			}
			nStarts++
			wgArg := tb.Of(ci.Common().Args[5])
			b := in.Block()
			idx := instrIndex(in)
			found := false
			for j := idx - 1; j >= 0; j-- {
				prev := b.Instrs[j]
				if pc, ok := prev.(*ssa.Call); ok {
					if pc.Call.StaticCallee() != nil && pc.Call.StaticCallee().String() == "(*sync.WaitGroup).Add" {
						one, isOne := constInt(pc.Call.Args[1])
						w := tb.Of(pc.Call.Args[0])
						same := w.String() == wgArg.String() && (w.V == wgArg.V || w.Op == "Param")
						if isOne && one == 1 && same {
							found = true
						}
					}
					break // any other call in between ends the search
				}
				if _, isGo := prev.(*ssa.Go); isGo {
					break
				}
			}
			r.Check(found, rule, p.ShortFn(f)+":add-before-start", p.InstrPos(in), "wg.Add(1) on the same wait group immediately precedes the start",
				"a traversal is started without wg.Add(1) on its wait group immediately before (Add after go, or missing): Wait can return early and the channel be closed under a sender (panic), or never return")
		})
	}
	if nStarts < 2 {
		r.Und(rule, "instance-floor", "", "fewer than 2 traversal starts found")
	}
	// close(statusChan): exactly one site, in the fan-out, after wg.Wait(), after Range
	var closes []ssa.Instruction
	for _, f := range p.FuncsIn(PkgRoot) {
		eachInstr(f, func(in ssa.Instruction) {
			if ci, ok := in.(ssa.CallInstruction); ok {
				if b, ok := ci.Common().Value.(*ssa.Builtin); ok && b.Name() == "close" && isChanOf(ci.Common().Args[0].Type(), "eventlogger.Status") {
					closes = append(closes, in)
				}
			}
		})
	}
	if len(closes) != 1 {
		r.Bad(rule, "close-site", p.Pos(a.collector.Pos()), fmt.Sprintf("%d close() sites for the status channel (expected exactly one)", len(closes)))
	} else {
		cl := closes[0]
		var wait ssa.Instruction
		eachInstr(a.fanout, func(in ssa.Instruction) {
			if ci, ok := in.(*ssa.Call); ok && ci.Call.StaticCallee() != nil && ci.Call.StaticCallee().String() == "(*sync.WaitGroup).Wait" {
				wait = in
			}
		})
		ok := cl.Parent() == a.fanout && wait != nil && dominatesInstr(wait, cl) && dominatesInstr(a.rangeCall, wait)
		if _, isDefer := cl.(*ssa.Defer); isDefer {
			ok = false
		}
		r.Check(ok, rule, "close-site", p.InstrPos(cl), "close(statusChan) only in the fan-out goroutine, after wg.Wait(), after the range over the pipelines",
			"the status channel is not closed strictly after Range and wg.Wait() in the fan-out goroutine")
		// the fan-out runs as a goroutine of the collector
		isGo := false
		eachInstr(a.collector, func(in ssa.Instruction) {
			if g, ok := in.(*ssa.Go); ok {
				if mc, ok := g.Call.Value.(*ssa.MakeClosure); ok && mc.Fn == ssa.Value(a.fanout) {
					isGo = true
				}
			}
		})
		r.Check(isGo, rule, "fanout-goroutine", p.Pos(a.fanout.Pos()), "the fan-out runs in its own goroutine, so the collector drains the channel concurrently", "the fan-out is not started with go: the collector never runs while the traversals send (deadlock on the unbuffered channel)")
		// the close is reached on EVERY exit of the fan-out goroutine: a return that skips it
		// (an early exit for "nothing was started") leaves the collector waiting on a channel
		// nobody closes — Send hangs until the caller's context ends, forever without one
		okAll := true
		for _, pa := range c.enum(rule, a.fanout, PathOpts{}) {
			ret, isRet := pa.End.(*ssa.Return)
			if !isRet {
				continue
			}
			closed := false
			for _, s := range pa.Steps {
				if s.In == cl && s.Depth == 0 {
					closed = true
				}
			}
			if closed || ctxDoneOnPath(pa) {
				continue // with a done context the collector leaves through ctx.Done()
			}
			if okAll {
				r.Bad(rule, "close-on-every-exit", p.InstrPos(ret), "the fan-out goroutine can return, under a context not known to be done, without closing the status channel: the collector's only other exit is the context, so Send never returns for a caller whose context is never cancelled ("+p.PathSummary(pa)+")")
			}
			okAll = false
		}
		if okAll {
			r.Ok(rule, "close-on-every-exit", p.InstrPos(cl), "every return of the fan-out goroutine under a live context passed close(statusChan)")
		}
	}
}

// ruleInventory: C03.inventory
func (c *Ctx) ruleInventory(a *protoAnchors) { c.ruleInventoryAs("C03.inventory", a) }

// ruleInventoryAs: every blocking operation reachable from Send inside the root package is one of the status protocol's
// own (C03.inventory; also C12.inventory — anything else Send can wait on, a semaphore of in-flight events, say, is
// also waited on by the Send a node makes from inside Process while the outer Send holds its share: with enough
// of them in flight nobody proceeds, although every node returns as soon as its own Send returns).
func (c *Ctx) ruleInventoryAs(rule string, a *protoAnchors) {
	p, r := c.P, c.R
	// functions reachable from Send inside the root package (static edges + closures)
	reach := map[*ssa.Function]bool{}
	var walk func(f *ssa.Function)
	walk = func(f *ssa.Function) {
		if f == nil || reach[f] || f.Blocks == nil || PkgPathOf(f) != PkgRoot {
			return
		}
		reach[f] = true
		eachInstr(f, func(in ssa.Instruction) {
			switch x := in.(type) {
			case ssa.CallInstruction:
				if sc := x.Common().StaticCallee(); sc != nil {
					walk(sc)
				}
				for _, ar := range x.Common().Args {
					if mc, ok := ar.(*ssa.MakeClosure); ok {
						walk(mc.Fn.(*ssa.Function))
					}
				}
			case *ssa.MakeClosure:
				walk(x.Fn.(*ssa.Function))
			}
		})
	}
	walk(a.send)
	allowed := func(f *ssa.Function, in ssa.Instruction, what string) (bool, string) {
		// a well-formed status hand-off (blocking select {<-ctx.Done(), statusChan <- s}) is a
		// protocol site wherever it lives (C03.guard decides its shape)
		if s, ok := in.(*ssa.Select); ok {
			ctxParam := ""
			for i, prm := range f.Params {
				if typeShort(prm.Type()) == "context.Context" {
					ctxParam = fmt.Sprintf("%d:%s", i, prm.Name())
				}
			}
			if h := classifyHandOff(p.NewTerms(nil), s, ctxParam); h.ok {
				return true, "status hand-off select (C03.guard)"
			}
		}
		switch {
		case f == a.send:
			if ci, ok := in.(ssa.CallInstruction); ok {
				if op := lockOpOf(ci.Common()); op != nil && op.Class == "eventlogger.Broker.lock" && op.Mode == 'R' {
					return true, "read lock for the graph lookup (released before processing: C12.send)"
				}
			}
		case f == a.collector:
			if in == ssa.Instruction(a.colSelect) {
				return true, "the collector's select"
			}
			if ci, ok := in.(ssa.CallInstruction); ok {
				if op := lockOpOf(ci.Common()); op != nil && op.Mode == 'R' && strings.HasPrefix(op.Class, "eventlogger.graph.") {
					return true, "read lock on the graph's threshold lock"
				}
			}
		case f == a.traverse:
			if s, ok := in.(*ssa.Select); ok {
				for _, st := range s.States {
					if st.Dir == types.SendOnly {
						return true, "status hand-off select (C03.guard)"
					}
				}
			}
			if _, ok := in.(*ssa.Send); ok {
				return true, "bare send, decided infeasible or reported by C03.guard"
			}
		case f == a.callback:
			if s, ok := in.(*ssa.Select); ok && !s.Blocking {
				return true, "non-blocking ctx.Done() poll"
			}
		case f == a.fanout:
			if strings.Contains(what, "WaitGroup).Wait") {
				return true, "wg.Wait() before close (C03.wg)"
			}
		}
		return false, ""
	}
	var fns []string
	n := 0
	for f := range reach {
		fns = append(fns, p.ShortFn(f))
		r.SawFn(p.ShortFn(f))
		eachInstr(f, func(in ssa.Instruction) {
			what, ok := isBlocking(in)
			if !ok {
				return
			}
			n++
			if okA, why := allowed(f, in, what); okA {
				r.Ok(rule, p.ShortFn(f)+":"+what, p.InstrPos(in), "whitelisted protocol site: "+why)
			} else {
				r.Bad(rule, p.ShortFn(f)+":"+what, p.InstrPos(in), "blocking operation ("+what+") reachable from Send that is not part of the status protocol")
			}
		})
	}
	if rule == "C12.inventory" {
		// ... and nothing else in the package waits at all: outside Send's protocol the Broker's calls
		// only take locks (decided by the lock rules). A channel operation, WaitGroup.Wait or Sleep in
		// Reopen, a registration or a removal is a wait nothing here decides the end of (a feeder
		// left without workers, a result nobody delivers).
		for _, f := range p.FuncsIn(PkgRoot) {
			if reach[f] {
				continue
			}
			eachInstr(f, func(in ssa.Instruction) {
				what, ok := isBlocking(in)
				if !ok {
					return
				}
				if ci, isCall := in.(ssa.CallInstruction); isCall && lockOpOf(ci.Common()) != nil {
					return
				}
				if what == "non-blocking select" || strings.HasSuffix(what, "time.After") || strings.HasSuffix(what, "time.Tick") {
					return
				}
				r.Bad(rule, p.ShortFn(f)+":"+what+":outside-send", p.InstrPos(in), "blocking operation ("+what+") in package eventlogger outside Send's status protocol: no rule decides that whoever is waited for ever arrives — a Broker call that only depends on the nodes' returning may wait forever")
			})
		}
	}
	sort.Strings(fns)
	r.Notes = append(r.Notes, "functions reachable from Send in package eventlogger: "+strings.Join(fns, ", "))
	if n < 6 {
		r.Und(rule, "instance-floor", "", fmt.Sprintf("only %d blocking sites found, 6 confirmed by hand", n))
	}
}

// rulePrivate: C03.private
func (c *Ctx) rulePrivate(a *protoAnchors) {
	p, r := c.P, c.R
	const rule = "C03.private"
	C := a.collector
	var ch *ssa.MakeChan
	var wg *ssa.Alloc
	eachInstr(C, func(in ssa.Instruction) {
		switch x := in.(type) {
		case *ssa.MakeChan:
			if isChanOf(x.Type(), "eventlogger.Status") {
				ch = x
			}
		case *ssa.Alloc:
			if typeShort(x.Type()) == "sync.WaitGroup" {
				wg = x
			}
		}
	})
	if ch == nil || wg == nil {
		r.Bad(rule, "collector:per-call", p.Pos(C.Pos()), "the status channel and/or wait group are not created by the collector for each call")
		return
	}
	if sz, ok := constInt(ch.Size); !ok || sz != 0 {
		r.Notes = append(r.Notes, "status channel is buffered; the protocol rules do not depend on it")
	}
	// every store of these values goes to a local cell; every other use is a closure binding, a select state or a call argument to repo functions
	check := func(v ssa.Value, name string) {
		okAll := true
		seen := map[ssa.Value]bool{}
		work := []ssa.Value{v}
		for len(work) > 0 {
			x := work[len(work)-1]
			work = work[:len(work)-1]
			if seen[x] {
				continue
			}
			seen[x] = true
			for _, ref := range nonDebugRefs(x) {
				switch u := ref.(type) {
				case *ssa.Store:
					if cell, ok := u.Addr.(*ssa.Alloc); ok && u.Val == x {
						work = append(work, cell)
					} else if u.Val == x {
						okAll = false
						r.Bad(rule, "collector:"+name, p.InstrPos(u), name+" is stored outside the call's own locals")
					}
				case *ssa.UnOp:
					work = append(work, u)
				case *ssa.MakeClosure, *ssa.Select:
				case ssa.CallInstruction:
					sc := u.Common().StaticCallee()
					if sc != nil && (PkgPathOf(sc) == PkgRoot || (sc.Pkg != nil && sc.Pkg.Pkg.Path() == "sync")) {
						continue
					}
					if b, ok := u.Common().Value.(*ssa.Builtin); ok && b.Name() == "close" {
						continue
					}
					if _, ok := u.Common().Value.(*ssa.MakeClosure); ok {
						continue
					}
					okAll = false
					r.Bad(rule, "collector:"+name, p.InstrPos(u), name+" is passed to code outside package eventlogger")
				default:
					okAll = false
					r.Bad(rule, "collector:"+name, p.InstrPos(ref), fmt.Sprintf("%s escapes through %T", name, ref))
				}
			}
		}
		if okAll {
			r.Ok(rule, "collector:"+name, p.InstrPos(v.(ssa.Instruction)), name+" is created per call and reaches only this call's closures, selects and traversal starts")
		}
	}
	check(ch, "status channel")
	check(wg, "wait group")
}

// uncell strips the Cell wrapper (a local variable described by its only store).
func uncell(t *Term) *Term {
	for t != nil && t.Op == "Cell" && len(t.Args) == 1 {
		t = t.Args[0]
	}
	return t
}
