package check

import (
	"fmt"
	"sort"
	"strings"

	"golang.org/x/tools/go/ssa"
)

// Ctx is handed to every property runner.
type Ctx struct {
	P    *Prog
	R    *Report
	Tier string

	must, may, mayCut *Locks

	// errStrict: the error-flow rule demands that the returned error is derived
	// from the failing call's error (carry), not merely certainly non-nil (fail closed)
	errStrict bool
}

func (c *Ctx) Thorough() bool { return c.Tier == "thorough" }

// allFuncs: repository + control functions.
func (c *Ctx) allFuncs() []*ssa.Function { return c.P.Funcs }

// MustLocks: must-hold lock sets over repo + controls.
func (c *Ctx) MustLocks() *Locks {
	if c.must == nil {
		c.must = c.P.AnalyseLocks(c.allFuncs(), true, nil)
	}
	return c.must
}

// MayLocks: may-hold lock sets (union), full call graph.
func (c *Ctx) MayLocks() *Locks {
	if c.may == nil {
		c.may = c.P.AnalyseLocks(c.allFuncs(), false, nil)
	}
	return c.may
}

// Fn resolves an anchor; a missing anchor is an undecided instance (failure).
func (c *Ctx) Fn(rule, pkg, recv, name string) *ssa.Function {
	var f *ssa.Function
	if recv == "" {
		f = c.P.Func(pkg, name)
	} else {
		f = c.P.Method(pkg, recv, name)
	}
	if f == nil || f.Blocks == nil {
		c.R.Und(rule, "anchor:"+recv+"."+name, "", fmt.Sprintf("anchor %s %s.%s cannot be resolved in the current tree", pkg, recv, name))
		return nil
	}
	c.R.SawFn(c.P.ShortFn(f))
	return f
}

// Runner decides one property.
type Runner func(c *Ctx)

var Runners = map[string]Runner{}

func Register(id string, r Runner) { Runners[id] = r }

func PropertyIDs() []string {
	var ids []string
	for k := range Runners {
		ids = append(ids, k)
	}
	sort.Strings(ids)
	return ids
}

// ctlName returns the control-relative name of a function in a control package
// ("locks.BadGetter") or "" if fn is not a control.
func (p *Prog) ctlName(fn *ssa.Function) string {
	if !p.InCtl(fn) {
		return ""
	}
	s := fn.String()
	return strings.TrimPrefix(s, PkgCtl+"/")
}

// isBadCtl / isGoodCtl classify control constructs by naming convention: a
// construct whose name contains "Bad" must be flagged by its rule, one whose
// name contains "Good" must stay silent.
func isBadName(s string) bool  { return strings.Contains(s, "Bad") }
func isGoodName(s string) bool { return strings.Contains(s, "Good") }
